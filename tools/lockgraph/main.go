// lockgraph: static lock-order graph of go-data-transfer.
//
// For every function of the module (non-test code) a forward may-hold analysis over the SSA form
// tracks which library mutexes are held (Lock/RLock ... Unlock/RUnlock; a deferred unlock keeps the
// lock to the end of the function).  Acquiring lock B, or calling (per the VTA call graph) a
// function that may transitively acquire B, while A is held yields the edge A -> B together with
// the call path that produced it.  Locks are identified by (struct type, field) -- all instances
// of a type are merged -- or by the defining function for local mutexes.  `go` statements start
// with no locks held.  The output is a Coq file: the list of locks, the edges and their witnesses.
package main

import (
	"fmt"
	"go/token"
	"go/types"
	"os"
	"path/filepath"
	"sort"
	"strings"

	"golang.org/x/tools/go/callgraph"
	"golang.org/x/tools/go/callgraph/cha"
	"golang.org/x/tools/go/callgraph/vta"
	"golang.org/x/tools/go/packages"
	"golang.org/x/tools/go/ssa"
	"golang.org/x/tools/go/ssa/ssautil"
)

const modPath = "github.com/filecoin-project/go-data-transfer/v2"

func isMutex(t types.Type) bool {
	if p, ok := t.(*types.Pointer); ok {
		t = p.Elem()
	}
	n, ok := t.(*types.Named)
	if !ok || n.Obj().Pkg() == nil || n.Obj().Pkg().Path() != "sync" {
		return false
	}
	return n.Obj().Name() == "Mutex" || n.Obj().Name() == "RWMutex"
}

// lockID names the mutex a Lock/Unlock call operates on
func lockID(v ssa.Value) string {
	switch x := v.(type) {
	case *ssa.FieldAddr:
		st := x.X.Type().Underlying().(*types.Pointer).Elem()
		name := st.String()
		if n, ok := st.(*types.Named); ok {
			name = n.Obj().Pkg().Name() + "." + n.Obj().Name()
		}
		fld := st.Underlying().(*types.Struct).Field(x.Field).Name()
		return name + "." + fld
	case *ssa.Alloc:
		return "local:" + x.Parent().String() + ":" + x.Comment
	case *ssa.FreeVar:
		return "local:" + x.Parent().Parent().String() + ":" + x.Name()
	case *ssa.UnOp:
		return lockID(x.X)
	case *ssa.Phi:
		if len(x.Edges) > 0 {
			return lockID(x.Edges[0])
		}
	case *ssa.Global:
		return "global:" + x.String()
	}
	return "unknown:" + v.String()
}

type lockOp struct {
	lock    string
	acquire bool
}

func lockCall(c *ssa.CallCommon) (lockOp, bool) {
	f := c.StaticCallee()
	if f == nil || f.Pkg == nil || f.Pkg.Pkg.Path() != "sync" || len(c.Args) == 0 {
		return lockOp{}, false
	}
	recv := f.Signature.Recv()
	if recv == nil || !isMutex(recv.Type()) {
		return lockOp{}, false
	}
	switch f.Name() {
	case "Lock", "RLock":
		return lockOp{lockID(c.Args[0]), true}, true
	case "Unlock", "RUnlock":
		return lockOp{lockID(c.Args[0]), false}, true
	}
	return lockOp{}, false
}

func inModule(f *ssa.Function) bool {
	if f == nil {
		return false
	}
	p := f.Pkg
	if p == nil && f.Parent() != nil {
		return inModule(f.Parent())
	}
	if p == nil {
		// instantiated generic / wrapper: use the object's package
		if f.Object() != nil && f.Object().Pkg() != nil {
			return strings.HasPrefix(f.Object().Pkg().Path(), modPath)
		}
		return false
	}
	path := p.Pkg.Path()
	return strings.HasPrefix(path, modPath) && !strings.Contains(path, "/testutil") && !strings.Contains(path, "/testharness") &&
		!strings.Contains(path, "/benchmarks") && !strings.Contains(path, "/itest")
}

type edge struct{ from, to string }

func main() {
	if len(os.Args) != 3 {
		fmt.Fprintln(os.Stderr, "usage: lockgraph <repo> <outdir>")
		os.Exit(2)
	}
	repo, out := os.Args[1], os.Args[2]
	cfg := &packages.Config{Mode: packages.LoadAllSyntax, Dir: repo, Tests: false}
	pkgs, err := packages.Load(cfg, "./...")
	if err != nil {
		fmt.Fprintln(os.Stderr, "lockgraph: REFUSED load:", err)
		os.Exit(2)
	}
	if packages.PrintErrors(pkgs) > 0 {
		fmt.Fprintln(os.Stderr, "lockgraph: REFUSED: packages have errors")
		os.Exit(2)
	}
	prog, _ := ssautil.AllPackages(pkgs, ssa.InstantiateGenerics)
	prog.Build()
	funcs := ssautil.AllFunctions(prog)
	cg := vta.CallGraph(funcs, cha.CallGraph(prog))
	cg.DeleteSyntheticNodes()

	// direct acquisitions per function, then transitive closure over the call graph (module code only)
	acquires := map[*ssa.Function]map[string]bool{}
	witness := map[*ssa.Function]map[string]*ssa.Function{} // which callee (or self) brings the lock in
	direct := map[*ssa.Function]map[string]map[*ssa.Function]bool{} // f -> lock -> functions reachable from f that take it themselves
	addDirect := func(f *ssa.Function, l string, d *ssa.Function) bool {
		if direct[f] == nil {
			direct[f] = map[string]map[*ssa.Function]bool{}
		}
		if direct[f][l] == nil {
			direct[f][l] = map[*ssa.Function]bool{}
		}
		if direct[f][l][d] {
			return false
		}
		direct[f][l][d] = true
		return true
	}
	var modFuncs []*ssa.Function
	for f := range funcs {
		if !inModule(f) || f.Blocks == nil {
			continue
		}
		modFuncs = append(modFuncs, f)
		acquires[f] = map[string]bool{}
		witness[f] = map[string]*ssa.Function{}
		for _, b := range f.Blocks {
			for _, in := range b.Instrs {
				if c, ok := in.(ssa.CallInstruction); ok {
					if _, isGo := in.(*ssa.Go); isGo {
						continue
					}
					if op, ok := lockCall(c.Common()); ok && op.acquire {
						acquires[f][op.lock] = true
						witness[f][op.lock] = f
						addDirect(f, op.lock, f)
					}
				}
			}
		}
	}
	sort.Slice(modFuncs, func(i, j int) bool { return modFuncs[i].String() < modFuncs[j].String() })
	callees := func(f *ssa.Function, site ssa.CallInstruction) []*ssa.Function {
		n := cg.Nodes[f]
		if n == nil {
			return nil
		}
		var out []*ssa.Function
		for _, e := range n.Out {
			if e.Site == site && inModule(e.Callee.Func) && e.Callee.Func.Blocks != nil {
				out = append(out, e.Callee.Func)
			}
		}
		return out
	}
	for changed := true; changed; {
		changed = false
		for _, f := range modFuncs {
			for _, b := range f.Blocks {
				for _, in := range b.Instrs {
					c, ok := in.(ssa.CallInstruction)
					if !ok {
						continue
					}
					if _, isGo := in.(*ssa.Go); isGo {
						continue
					}
					for _, g := range callees(f, c) {
						for l := range acquires[g] {
							if !acquires[f][l] {
								acquires[f][l] = true
								witness[f][l] = g
								changed = true
							}
							for d := range direct[g][l] {
								if addDirect(f, l, d) {
									changed = true
								}
							}
						}
					}
				}
			}
		}
	}
	path := func(f *ssa.Function, l string) string {
		var parts []string
		seen := map[*ssa.Function]bool{}
		for f != nil && !seen[f] {
			seen[f] = true
			parts = append(parts, shortName(f))
			next := witness[f][l]
			if next == f {
				break
			}
			f = next
		}
		return strings.Join(parts, " > ")
	}

	// may-hold analysis per function
	edges := map[edge]string{}
	triples := map[edge]map[[3]string]bool{} // (holder, immediate callee, function that takes the lock)
	addTriple := func(from, to, holder, callee, taker string) {
		e := edge{from, to}
		if triples[e] == nil {
			triples[e] = map[[3]string]bool{}
		}
		triples[e][[3]string{holder, callee, taker}] = true
	}
	addEdge := func(from, to, why string) {
		e := edge{from, to}
		if old, ok := edges[e]; !ok || len(why) < len(old) {
			edges[e] = why
		}
	}
	for _, f := range modFuncs {
		in := map[*ssa.BasicBlock]map[string]bool{}
		for _, b := range f.Blocks {
			in[b] = map[string]bool{}
		}
		work := []*ssa.BasicBlock{f.Blocks[0]}
		visited := map[*ssa.BasicBlock]bool{}
		for len(work) > 0 {
			b := work[len(work)-1]
			work = work[:len(work)-1]
			held := map[string]bool{}
			for l := range in[b] {
				held[l] = true
			}
			for _, ins := range b.Instrs {
				switch x := ins.(type) {
				case *ssa.Go:
					continue
				case *ssa.Defer:
					// a deferred unlock keeps the lock until the function returns; a deferred call to a
					// locking function runs at return, with whatever is still held: approximated as "now"
					if op, ok := lockCall(x.Common()); ok {
						_ = op
						continue
					}
				}
				c, ok := ins.(ssa.CallInstruction)
				if !ok {
					continue
				}
				if op, ok := lockCall(c.Common()); ok {
					if op.acquire {
						for h := range held {
							addEdge(h, op.lock, shortName(f)+" takes "+op.lock+" while holding "+h+" ("+pos(prog.Fset, ins.Pos())+")")
							addTriple(h, op.lock, shortName(f), shortName(f), shortName(f))
						}
						held[op.lock] = true
					} else {
						delete(held, op.lock)
					}
					continue
				}
				if len(held) == 0 {
					continue
				}
				for _, g := range callees(f, c) {
					for l := range acquires[g] {
						for h := range held {
							addEdge(h, l, shortName(f)+" holds "+h+" and calls "+path(g, l)+" ("+pos(prog.Fset, ins.Pos())+")")
							for d := range direct[g][l] {
								addTriple(h, l, shortName(f), shortName(g), shortName(d))
							}
						}
					}
				}
			}
			for _, s := range b.Succs {
				grew := !visited[s]
				for l := range held {
					if !in[s][l] {
						in[s][l] = true
						grew = true
					}
				}
				if grew {
					visited[s] = true
					work = append(work, s)
				}
			}
		}
	}
	// ---- output ----
	lockSet := map[string]bool{}
	for f := range acquires {
		for l := range acquires[f] {
			lockSet[l] = true
		}
	}
	var locks []string
	for l := range lockSet {
		locks = append(locks, l)
	}
	sort.Strings(locks)
	idx := map[string]int{}
	for i, l := range locks {
		idx[l] = i
	}
	var es []edge
	for e := range edges {
		es = append(es, e)
	}
	sort.Slice(es, func(i, j int) bool {
		if es[i].from != es[j].from {
			return es[i].from < es[j].from
		}
		return es[i].to < es[j].to
	})
	var b strings.Builder
	b.WriteString("(* GENERATED by tools/lockgraph from the SSA form of /repo -- do not edit *)\nFrom Coq Require Import List String.\nImport ListNotations.\nLocal Open Scope string_scope.\n\n")
	b.WriteString("(* the library's mutexes: (struct type).(field), all instances of a type merged *)\nDefinition lock_names : list string := [\n")
	for i, l := range locks {
		sep := ";"
		if i == len(locks)-1 {
			sep = ""
		}
		fmt.Fprintf(&b, "  %q%s\n", l, sep)
	}
	b.WriteString("].\n\n(* (a, b, witness): lock number b may be acquired while lock number a is held *)\nDefinition lock_edges : list (nat * nat * string) := [\n")
	for i, e := range es {
		sep := ";"
		if i == len(es)-1 {
			sep = ""
		}
		fmt.Fprintf(&b, "  (%d, %d, %q)%s\n", idx[e.from], idx[e.to], strings.ReplaceAll(edges[e], "\"", "'"), sep)
	}
	b.WriteString("].\n\n(* every way an edge arises: (a, b, function holding a, function it calls, function that takes b) *)\nDefinition lock_edge_paths : list (nat * nat * string * string * string) := [\n")
	var rows []string
	for _, e := range es {
		var ts [][3]string
		for t := range triples[e] {
			ts = append(ts, t)
		}
		sort.Slice(ts, func(i, j int) bool { return fmt.Sprint(ts[i]) < fmt.Sprint(ts[j]) })
		for _, t := range ts {
			rows = append(rows, fmt.Sprintf("  (%d, %d, %q, %q, %q)", idx[e.from], idx[e.to], t[0], t[1], t[2]))
		}
	}
	b.WriteString(strings.Join(rows, ";\n"))
	b.WriteString("\n].\n")
	if err := os.WriteFile(filepath.Join(out, "GenLocks.v"), []byte(b.String()), 0o644); err != nil {
		panic(err)
	}
}

func shortName(f *ssa.Function) string {
	s := f.String()
	s = strings.ReplaceAll(s, modPath+"/", "")
	s = strings.ReplaceAll(s, modPath, "datatransfer")
	return s
}

func pos(fs *token.FileSet, p token.Pos) string {
	if !p.IsValid() {
		return "?"
	}
	q := fs.Position(p)
	return fmt.Sprintf("%s:%d", strings.TrimPrefix(q.Filename, "/repo/"), q.Line)
}

var _ = callgraph.Edge{}
