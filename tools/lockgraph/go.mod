module lockgraph

go 1.24.0

require (
	golang.org/x/mod v0.29.0 // indirect
	golang.org/x/sync v0.18.0 // indirect
	golang.org/x/tools v0.38.0
)
