// dt2coq regenerates the declarative layer of the Coq model from the Go source
// of go-data-transfer: status/event/message-type enumerations, status lists,
// the complete FSM transition table with per-event actions, the cleanup entry
// function, and the cleanup/finality lists.
//
// usage: dt2coq <repo> <outdir>
//
// Anything outside the recognised shapes is refused with file:line, exit 2.
package main

import (
	"fmt"
	"go/ast"
	"go/parser"
	"go/token"
	"os"
	"path/filepath"
	"sort"
	"strconv"
	"strings"
)

var fset = token.NewFileSet()

func refuse(n ast.Node, format string, a ...interface{}) {
	pos := ""
	if n != nil {
		pos = fset.Position(n.Pos()).String() + ": "
	}
	fmt.Fprintf(os.Stderr, "dt2coq: REFUSED %s%s\n", pos, fmt.Sprintf(format, a...))
	os.Exit(2)
}

func parseFile(path string) *ast.File {
	f, err := parser.ParseFile(fset, path, nil, parser.ParseComments)
	if err != nil {
		fmt.Fprintf(os.Stderr, "dt2coq: REFUSED %s: %v\n", path, err)
		os.Exit(2)
	}
	return f
}

// iotaEnum finds `const ( A T = iota; B; C ...)` for the named type
func iotaEnum(f *ast.File, typ string) []string {
	for _, d := range f.Decls {
		gd, ok := d.(*ast.GenDecl)
		if !ok || gd.Tok != token.CONST {
			continue
		}
		var names []string
		match := false
		for i, s := range gd.Specs {
			vs := s.(*ast.ValueSpec)
			if i == 0 {
				id, ok := vs.Type.(*ast.Ident)
				if !ok || id.Name != typ || len(vs.Values) != 1 {
					break
				}
				v, ok := vs.Values[0].(*ast.Ident)
				if !ok || v.Name != "iota" {
					break
				}
				match = true
			} else if vs.Type != nil || len(vs.Values) != 0 {
				refuse(vs, "enum %s: only bare iota continuation lines are recognised", typ)
			}
			if len(vs.Names) != 1 {
				refuse(vs, "enum %s: one name per line expected", typ)
			}
			names = append(names, vs.Names[0].Name)
		}
		if match {
			return names
		}
	}
	refuse(f, "no iota enumeration of type %s found", typ)
	return nil
}

func selName(e ast.Expr) (pkg, name string, ok bool) {
	switch x := e.(type) {
	case *ast.SelectorExpr:
		if id, ok := x.X.(*ast.Ident); ok {
			return id.Name, x.Sel.Name, true
		}
	case *ast.Ident:
		return "", x.Name, true
	}
	return "", "", false
}

// statusLists finds `var X = statusList{A, B}` declarations
func statusLists(f *ast.File, known map[string]bool) (map[string][]string, []string) {
	res := map[string][]string{}
	var order []string
	for _, d := range f.Decls {
		gd, ok := d.(*ast.GenDecl)
		if !ok || gd.Tok != token.VAR {
			continue
		}
		for _, s := range gd.Specs {
			vs := s.(*ast.ValueSpec)
			if len(vs.Values) != 1 {
				continue
			}
			cl, ok := vs.Values[0].(*ast.CompositeLit)
			if !ok {
				continue
			}
			id, ok := cl.Type.(*ast.Ident)
			if !ok || id.Name != "statusList" {
				continue
			}
			var l []string
			for _, e := range cl.Elts {
				_, n, ok := selName(e)
				if !ok || !known[n] {
					refuse(e, "status list %s: unknown element", vs.Names[0].Name)
				}
				l = append(l, n)
			}
			res[vs.Names[0].Name] = l
			order = append(order, vs.Names[0].Name)
		}
	}
	return res, order
}

type call struct {
	name string
	args []ast.Expr
	ell  bool
	node ast.Node
}

// flatten a.b(x).c(y).d() into [b(x) c(y) d()] with root selector a.b
func flatten(e ast.Expr) []call {
	ce, ok := e.(*ast.CallExpr)
	if !ok {
		refuse(e, "expected a call chain")
	}
	se, ok := ce.Fun.(*ast.SelectorExpr)
	if !ok {
		refuse(e, "expected selector call")
	}
	c := call{name: se.Sel.Name, args: ce.Args, ell: ce.Ellipsis != token.NoPos, node: ce}
	if id, ok := se.X.(*ast.Ident); ok {
		c.name = id.Name + "." + c.name
		return []call{c}
	}
	return append(flatten(se.X), c)
}

type trans struct {
	src  string // "" = any
	dest string // "To:X", "NoChange", "JustRecord"
}

type eventDef struct {
	name    string
	trans   []trans
	argKind string
	acts    []string
}

var u64Fields = map[string]bool{}
var i64Fields = map[string]bool{}
var boolFields = map[string]bool{}
var strFields = map[string]bool{}
var listFields = map[string]string{} // field -> element type

func loadStateFields(repo string) {
	f := parseFile(filepath.Join(repo, "channels/internal/internalchannel.go"))
	found := false
	ast.Inspect(f, func(n ast.Node) bool {
		ts, ok := n.(*ast.TypeSpec)
		if !ok || ts.Name.Name != "ChannelState" {
			return true
		}
		st, ok := ts.Type.(*ast.StructType)
		if !ok {
			return true
		}
		found = true
		for _, fl := range st.Fields.List {
			for _, nm := range fl.Names {
				switch t := fl.Type.(type) {
				case *ast.Ident:
					switch t.Name {
					case "uint64":
						u64Fields[nm.Name] = true
					case "int64":
						i64Fields[nm.Name] = true
					case "bool":
						boolFields[nm.Name] = true
					case "string":
						strFields[nm.Name] = true
					}
				case *ast.ArrayType:
					if id, ok := t.Elt.(*ast.Ident); ok {
						listFields[nm.Name] = id.Name
					}
				}
			}
		}
		return false
	})
	if !found {
		refuse(f, "struct ChannelState not found")
	}
}

func coqString(s string) string {
	return "\"" + strings.ReplaceAll(s, "\"", "\"\"") + "\""
}

func isChstField(e ast.Expr, recv string) (string, bool) {
	se, ok := e.(*ast.SelectorExpr)
	if !ok {
		return "", false
	}
	id, ok := se.X.(*ast.Ident)
	if !ok || id.Name != recv {
		return "", false
	}
	return se.Sel.Name, true
}

func isIdent(e ast.Expr, name string) bool {
	id, ok := e.(*ast.Ident)
	return ok && id.Name == name
}

func parseAction(fl *ast.FuncLit) (argKind string, acts []string) {
	params := fl.Type.Params.List
	if len(params) < 1 || len(params) > 2 {
		refuse(fl, "action: 1 or 2 parameters expected")
	}
	recv := params[0].Names[0].Name
	arg := ""
	argKind = "KNone"
	if len(params) == 2 {
		if len(params[1].Names) != 1 {
			refuse(fl, "action: single argument expected")
		}
		arg = params[1].Names[0].Name
		switch t := params[1].Type.(type) {
		case *ast.Ident:
			switch t.Name {
			case "int64":
				argKind = "KInt64"
			case "uint64":
				argKind = "KUint64"
			case "error":
				argKind = "KErr"
			case "bool":
				argKind = "KBool"
			default:
				refuse(t, "action: unknown argument type %s", t.Name)
			}
		case *ast.SelectorExpr:
			if t.Sel.Name == "TypedVoucher" {
				argKind = "KVoucher"
			} else {
				refuse(t, "action: unknown argument type")
			}
		default:
			refuse(t, "action: unknown argument type")
		}
	}
	for i, st := range fl.Body.List {
		switch s := st.(type) {
		case *ast.ReturnStmt:
			if i != len(fl.Body.List)-1 || len(s.Results) != 1 || !isIdent(s.Results[0], "nil") {
				refuse(s, "action: only a final `return nil` is recognised")
			}
		case *ast.ExprStmt:
			ce, ok := s.X.(*ast.CallExpr)
			if !ok {
				refuse(s, "action: unknown statement")
			}
			f, ok := isChstField(ce.Fun, recv)
			if !ok || f != "AddLog" || len(ce.Args) < 1 {
				refuse(s, "action: only %s.AddLog(...) calls are recognised", recv)
			}
			lit, ok := ce.Args[0].(*ast.BasicLit)
			if !ok || lit.Kind != token.STRING {
				refuse(s, "AddLog: literal format expected")
			}
			format, _ := strconv.Unquote(lit.Value)
			if len(ce.Args) == 1 {
				acts = append(acts, "ALog (LLit "+coqString(format)+")")
			} else if len(ce.Args) == 2 && strings.HasSuffix(format, "%s") && strings.Count(format, "%") == 1 {
				f2, ok := isChstField(ce.Args[1], recv)
				if !ok || f2 != "Message" {
					refuse(s, "AddLog: only %s.Message as format argument is recognised", recv)
				}
				acts = append(acts, "ALog (LFmtMsg "+coqString(strings.TrimSuffix(format, "%s"))+")")
			} else {
				refuse(s, "AddLog: unrecognised format shape")
			}
		case *ast.AssignStmt:
			if len(s.Lhs) != 1 || len(s.Rhs) != 1 {
				refuse(s, "action: single assignment expected")
			}
			f, ok := isChstField(s.Lhs[0], recv)
			if !ok {
				refuse(s, "action: assignment target must be a field of %s", recv)
			}
			rhs := s.Rhs[0]
			switch s.Tok {
			case token.ADD_ASSIGN:
				if !u64Fields[f] || arg == "" || !isIdent(rhs, arg) || argKind != "KUint64" {
					refuse(s, "action: `+=` only on uint64 fields with the uint64 argument")
				}
				acts = append(acts, "AAddU64 F"+f)
			case token.ASSIGN:
				switch {
				case strFields[f]:
					if lit, ok := rhs.(*ast.BasicLit); ok && lit.Kind == token.STRING {
						v, _ := strconv.Unquote(lit.Value)
						acts = append(acts, "ASetStr F"+f+" (SLit "+coqString(v)+")")
					} else if ce, ok := rhs.(*ast.CallExpr); ok && len(ce.Args) == 0 && argKind == "KErr" {
						se, ok := ce.Fun.(*ast.SelectorExpr)
						if !ok || !isIdent(se.X, arg) || se.Sel.Name != "Error" {
							refuse(s, "action: string source not recognised")
						}
						acts = append(acts, "ASetStr F"+f+" SArgErr")
					} else {
						refuse(s, "action: string source not recognised")
					}
				case boolFields[f]:
					if isIdent(rhs, "true") {
						acts = append(acts, "ASetBool F"+f+" (BLit true)")
					} else if isIdent(rhs, "false") {
						acts = append(acts, "ASetBool F"+f+" (BLit false)")
					} else if arg != "" && isIdent(rhs, arg) && argKind == "KBool" {
						acts = append(acts, "ASetBool F"+f+" BArg")
					} else {
						refuse(s, "action: bool source not recognised")
					}
				case u64Fields[f]:
					if arg == "" || !isIdent(rhs, arg) || argKind != "KUint64" {
						refuse(s, "action: uint64 source not recognised")
					}
					acts = append(acts, "ASetU64 F"+f)
				case listFields[f] != "":
					ce, ok := rhs.(*ast.CallExpr)
					if !ok || !isIdent(ce.Fun, "append") || len(ce.Args) != 2 || argKind != "KVoucher" {
						refuse(s, "action: list update must be append(field, elem)")
					}
					f0, ok := isChstField(ce.Args[0], recv)
					if !ok || f0 != f {
						refuse(s, "action: append to a different field")
					}
					checkVoucherLit(ce.Args[1], listFields[f], arg)
					acts = append(acts, "AAppend F"+f)
				default:
					refuse(s, "action: assignment to unsupported field %s", f)
				}
			default:
				refuse(s, "action: unsupported assignment operator")
			}
		case *ast.IfStmt:
			// if arg > chst.F { chst.F = arg }
			be, ok := s.Cond.(*ast.BinaryExpr)
			if !ok || s.Init != nil || s.Else != nil || be.Op != token.GTR || arg == "" || !isIdent(be.X, arg) || argKind != "KInt64" {
				refuse(s, "action: only `if arg > chst.F { chst.F = arg }` is recognised")
			}
			f, ok := isChstField(be.Y, recv)
			if !ok || !i64Fields[f] || len(s.Body.List) != 1 {
				refuse(s, "action: only `if arg > chst.F { chst.F = arg }` is recognised")
			}
			as, ok := s.Body.List[0].(*ast.AssignStmt)
			if !ok || as.Tok != token.ASSIGN || len(as.Lhs) != 1 || len(as.Rhs) != 1 || !isIdent(as.Rhs[0], arg) {
				refuse(s, "action: only `if arg > chst.F { chst.F = arg }` is recognised")
			}
			f2, ok := isChstField(as.Lhs[0], recv)
			if !ok || f2 != f {
				refuse(s, "action: max-update writes a different field than it compares")
			}
			acts = append(acts, "AMaxI64 F"+f)
		default:
			refuse(st, "action: unsupported statement")
		}
	}
	return
}

// checkVoucherLit checks internal.EncodedVoucher{Type: v.Type, Voucher: internal.CborGenCompatibleNode{Node: v.Voucher}}
func checkVoucherLit(e ast.Expr, elemType, arg string) {
	cl, ok := e.(*ast.CompositeLit)
	if !ok {
		refuse(e, "append: composite literal expected")
	}
	_, tn, ok := selName(cl.Type)
	if !ok || tn != elemType {
		refuse(e, "append: element type %s expected", elemType)
	}
	nodeField := map[string]string{"EncodedVoucher": "Voucher", "EncodedVoucherResult": "VoucherResult"}[elemType]
	if nodeField == "" || len(cl.Elts) != 2 {
		refuse(e, "append: unexpected element literal")
	}
	seen := 0
	for _, el := range cl.Elts {
		kv, ok := el.(*ast.KeyValueExpr)
		if !ok {
			refuse(el, "append: keyed literal expected")
		}
		k, _ := kv.Key.(*ast.Ident)
		switch {
		case k != nil && k.Name == "Type":
			se, ok := kv.Value.(*ast.SelectorExpr)
			if !ok || !isIdent(se.X, arg) || se.Sel.Name != "Type" {
				refuse(kv, "append: Type must be arg.Type")
			}
			seen++
		case k != nil && k.Name == nodeField:
			in, ok := kv.Value.(*ast.CompositeLit)
			if !ok || len(in.Elts) != 1 {
				refuse(kv, "append: node wrapper literal expected")
			}
			ikv, ok := in.Elts[0].(*ast.KeyValueExpr)
			if !ok {
				refuse(kv, "append: node wrapper literal expected")
			}
			se, ok := ikv.Value.(*ast.SelectorExpr)
			if !ok || !isIdent(se.X, arg) || se.Sel.Name != "Voucher" {
				refuse(kv, "append: node must be arg.Voucher")
			}
			seen++
		default:
			refuse(kv, "append: unexpected key")
		}
	}
	if seen != 2 {
		refuse(e, "append: incomplete element literal")
	}
}

func statusArg(e ast.Expr, statuses map[string]bool) string {
	_, n, ok := selName(e)
	if !ok || !statuses[n] {
		refuse(e, "status constant expected")
	}
	return n
}

func parseEvents(f *ast.File, statuses map[string]bool, events map[string]bool, lists map[string][]string) []eventDef {
	var defs []eventDef
	var cl *ast.CompositeLit
	for _, d := range f.Decls {
		gd, ok := d.(*ast.GenDecl)
		if !ok || gd.Tok != token.VAR {
			continue
		}
		for _, s := range gd.Specs {
			vs := s.(*ast.ValueSpec)
			if vs.Names[0].Name == "ChannelEvents" && len(vs.Values) == 1 {
				cl, _ = vs.Values[0].(*ast.CompositeLit)
			}
		}
	}
	if cl == nil {
		refuse(f, "var ChannelEvents = fsm.Events{...} not found")
	}
	seenEv := map[string]bool{}
	for _, el := range cl.Elts {
		chain := flatten(el)
		if chain[0].name != "fsm.Event" || len(chain[0].args) != 1 {
			refuse(el, "event definition must start with fsm.Event(code)")
		}
		_, en, ok := selName(chain[0].args[0])
		if !ok || !events[en] {
			refuse(el, "unknown event code")
		}
		if seenEv[en] {
			refuse(el, "event %s defined twice (the library would keep only the last definition)", en)
		}
		seenEv[en] = true
		def := eventDef{name: en, argKind: "KNone"}
		var next []string
		haveNext := false
		hasAction := false
		seenSrc := map[string]bool{}
		for _, c := range chain[1:] {
			switch c.name {
			case "From":
				if len(c.args) != 1 || haveNext {
					refuse(c.node, "From: one status expected after a destination")
				}
				next = []string{statusArg(c.args[0], statuses)}
				haveNext = true
			case "FromAny":
				if len(c.args) != 0 || haveNext {
					refuse(c.node, "FromAny: misplaced")
				}
				next = []string{""}
				haveNext = true
			case "FromMany":
				if haveNext {
					refuse(c.node, "FromMany: misplaced")
				}
				next = nil
				if c.ell {
					// datatransfer.X.AsFSMStates()...
					if len(c.args) != 1 {
						refuse(c.node, "FromMany(list...): single list expected")
					}
					ce, ok := c.args[0].(*ast.CallExpr)
					if !ok {
						refuse(c.node, "FromMany(list...): X.AsFSMStates() expected")
					}
					se, ok := ce.Fun.(*ast.SelectorExpr)
					if !ok || se.Sel.Name != "AsFSMStates" {
						refuse(c.node, "FromMany(list...): X.AsFSMStates() expected")
					}
					_, ln, ok := selName(se.X)
					if !ok || lists[ln] == nil {
						refuse(c.node, "FromMany: unknown status list")
					}
					next = append(next, lists[ln]...)
				} else {
					for _, a := range c.args {
						next = append(next, statusArg(a, statuses))
					}
				}
				haveNext = true
			case "To", "ToNoChange", "ToJustRecord":
				if !haveNext {
					refuse(c.node, "%s without a source", c.name)
				}
				dest := "DNoChange"
				if c.name == "ToJustRecord" {
					dest = "DJustRecord"
				}
				if c.name == "To" {
					if len(c.args) != 1 {
						refuse(c.node, "To: one status expected")
					}
					dest = "DTo " + statusArg(c.args[0], statuses)
				}
				for _, s := range next {
					if seenSrc[s] {
						refuse(c.node, "duplicate transition source `%s` for event %s (the library rejects this table)", s, en)
					}
					seenSrc[s] = true
					def.trans = append(def.trans, trans{s, dest})
				}
				haveNext = false
			case "Action":
				if hasAction || len(c.args) != 1 || haveNext {
					refuse(c.node, "Action: misplaced or duplicate")
				}
				fl, ok := c.args[0].(*ast.FuncLit)
				if !ok {
					refuse(c.node, "Action: function literal expected")
				}
				def.argKind, def.acts = parseAction(fl)
				hasAction = true
			default:
				refuse(c.node, "unknown builder method %s", c.name)
			}
		}
		if haveNext {
			refuse(el, "source without destination")
		}
		defs = append(defs, def)
	}
	return defs
}

func keyList(f *ast.File, name string, statuses map[string]bool) []string {
	for _, d := range f.Decls {
		gd, ok := d.(*ast.GenDecl)
		if !ok || gd.Tok != token.VAR {
			continue
		}
		for _, s := range gd.Specs {
			vs := s.(*ast.ValueSpec)
			if vs.Names[0].Name != name || len(vs.Values) != 1 {
				continue
			}
			cl, ok := vs.Values[0].(*ast.CompositeLit)
			if !ok {
				refuse(vs, "%s: composite literal expected", name)
			}
			var out []string
			for _, e := range cl.Elts {
				if kv, ok := e.(*ast.KeyValueExpr); ok {
					if !isIdent(kv.Value, "cleanupConnection") {
						refuse(kv, "%s: only cleanupConnection entry functions are recognised", name)
					}
					out = append(out, statusArg(kv.Key, statuses))
				} else {
					out = append(out, statusArg(e, statuses))
				}
			}
			return out
		}
	}
	refuse(f, "var %s not found", name)
	return nil
}

// entryProg recognises the body of cleanupConnection:
//
//	otherParty := channel.Initiator; if otherParty == env.ID() { otherParty = channel.Responder }
//	env.CleanupChannel(chid) ; env.Unprotect(otherParty, chid.String()) ; return ctx.Trigger(datatransfer.CleanupComplete)
func entryProg(f *ast.File, events map[string]bool) []string {
	for _, d := range f.Decls {
		fd, ok := d.(*ast.FuncDecl)
		if !ok || fd.Name.Name != "cleanupConnection" {
			continue
		}
		var steps []string
		otherOK := 0
		for _, st := range fd.Body.List {
			switch s := st.(type) {
			case *ast.AssignStmt:
				// otherParty := channel.Initiator
				if len(s.Lhs) == 1 && isIdent(s.Lhs[0], "otherParty") {
					if se, ok := s.Rhs[0].(*ast.SelectorExpr); ok && se.Sel.Name == "Initiator" {
						otherOK++
						continue
					}
				}
				refuse(s, "cleanupConnection: unrecognised assignment")
			case *ast.IfStmt:
				be, ok := s.Cond.(*ast.BinaryExpr)
				if !ok || be.Op != token.EQL || !isIdent(be.X, "otherParty") || len(s.Body.List) != 1 || s.Else != nil {
					refuse(s, "cleanupConnection: unrecognised conditional")
				}
				ce, ok := be.Y.(*ast.CallExpr)
				if !ok {
					refuse(s, "cleanupConnection: unrecognised conditional")
				}
				if se, ok := ce.Fun.(*ast.SelectorExpr); !ok || se.Sel.Name != "ID" {
					refuse(s, "cleanupConnection: unrecognised conditional")
				}
				as, ok := s.Body.List[0].(*ast.AssignStmt)
				if !ok || !isIdent(as.Lhs[0], "otherParty") {
					refuse(s, "cleanupConnection: unrecognised conditional")
				}
				if se, ok := as.Rhs[0].(*ast.SelectorExpr); !ok || se.Sel.Name != "Responder" {
					refuse(s, "cleanupConnection: unrecognised conditional")
				}
				otherOK++
			case *ast.ExprStmt:
				ce, ok := s.X.(*ast.CallExpr)
				if !ok {
					refuse(s, "cleanupConnection: unrecognised statement")
				}
				se, ok := ce.Fun.(*ast.SelectorExpr)
				if !ok || !isIdent(se.X, "env") {
					refuse(s, "cleanupConnection: unrecognised statement")
				}
				switch se.Sel.Name {
				case "CleanupChannel":
					steps = append(steps, "ECleanupChannel")
				case "Unprotect":
					if len(ce.Args) != 2 || !isIdent(ce.Args[0], "otherParty") || otherOK != 2 {
						refuse(s, "cleanupConnection: Unprotect must be called for the other party")
					}
					steps = append(steps, "EUnprotectOther")
				default:
					refuse(s, "cleanupConnection: unknown environment call %s", se.Sel.Name)
				}
			case *ast.ReturnStmt:
				if len(s.Results) != 1 {
					refuse(s, "cleanupConnection: unrecognised return")
				}
				ce, ok := s.Results[0].(*ast.CallExpr)
				if !ok || len(ce.Args) != 1 {
					refuse(s, "cleanupConnection: return ctx.Trigger(event) expected")
				}
				se, ok := ce.Fun.(*ast.SelectorExpr)
				if !ok || se.Sel.Name != "Trigger" {
					refuse(s, "cleanupConnection: return ctx.Trigger(event) expected")
				}
				_, en, ok := selName(ce.Args[0])
				if !ok || !events[en] {
					refuse(s, "cleanupConnection: unknown event triggered")
				}
				steps = append(steps, "ETrigger "+en)
			default:
				refuse(st, "cleanupConnection: unsupported statement")
			}
		}
		return steps
	}
	refuse(f, "func cleanupConnection not found")
	return nil
}

func writeIfChanged(path, content string) {
	old, err := os.ReadFile(path)
	if err == nil && string(old) == content {
		return
	}
	if err := os.WriteFile(path, []byte(content), 0o644); err != nil {
		fmt.Fprintln(os.Stderr, err)
		os.Exit(2)
	}
}

func enumCoq(typ string, names []string, prefix string) string {
	var b strings.Builder
	fmt.Fprintf(&b, "Inductive %s : Set :=\n", typ)
	for _, n := range names {
		fmt.Fprintf(&b, "| %s\n", n)
	}
	b.WriteString(".\n\n")
	fmt.Fprintf(&b, "Definition all_%s : list %s := [%s].\n\n", prefix, typ, strings.Join(names, "; "))
	fmt.Fprintf(&b, "Definition %s_code (x : %s) : N :=\n  match x with\n", prefix, typ)
	for i, n := range names {
		fmt.Fprintf(&b, "  | %s => %d\n", n, i)
	}
	b.WriteString("  end.\n\n")
	fmt.Fprintf(&b, "Definition %s_eqb (x y : %s) : bool := N.eqb (%s_code x) (%s_code y).\n\n", prefix, typ, prefix, prefix)
	fmt.Fprintf(&b, "Definition %s_of_code (n : N) : option %s :=\n  match n with\n", prefix, typ)
	for i, n := range names {
		fmt.Fprintf(&b, "  | %d => Some %s\n", i, n)
	}
	b.WriteString("  | _ => None\n  end.\n\n")
	return b.String()
}

func main() {
	if len(os.Args) != 3 {
		fmt.Fprintln(os.Stderr, "usage: dt2coq <repo> <outdir>")
		os.Exit(2)
	}
	repo, out := os.Args[1], os.Args[2]
	loadStateFields(repo)

	sf := parseFile(filepath.Join(repo, "statuses.go"))
	statusNames := iotaEnum(sf, "Status")
	statuses := map[string]bool{}
	for _, s := range statusNames {
		statuses[s] = true
	}
	lists, listOrder := statusLists(sf, statuses)

	ef := parseFile(filepath.Join(repo, "events.go"))
	eventNames := iotaEnum(ef, "EventCode")
	events := map[string]bool{}
	for _, e := range eventNames {
		events[e] = true
	}

	mf := parseFile(filepath.Join(repo, "message/types/message_types.go"))
	msgTypes := iotaEnum(mf, "MessageType")
	genPreds(repo, out, msgTypes)

	ff := parseFile(filepath.Join(repo, "channels/channels_fsm.go"))
	defs := parseEvents(ff, statuses, events, lists)
	cleanup := keyList(ff, "CleanupStates", statuses)
	finality := keyList(ff, "ChannelFinalityStates", statuses)
	entry := keyList(ff, "ChannelStateEntryFuncs", statuses)
	sort.Strings(entry) // map literal: order is irrelevant
	prog := entryProg(ff, events)

	genMigrate(repo, out, statuses)
	genSchema(repo, out)
	genTimeCounter(repo, out)
	genDecide(repo, out)
	genHandlers(repo, out, events)
	genCaches(repo, out)

	hdr := "(* GENERATED by dt2coq from /repo on every run. Do not edit. *)\nFrom Coq Require Import List NArith String.\nImport ListNotations.\nLocal Open Scope N_scope.\n\n"

	// GenStatus.v
	var b strings.Builder
	b.WriteString(hdr)
	b.WriteString(enumCoq("Status", statusNames, "status"))
	for _, ln := range listOrder {
		fmt.Fprintf(&b, "Definition %s : list Status := [%s].\n", ln, strings.Join(lists[ln], "; "))
	}
	writeIfChanged(filepath.Join(out, "GenStatus.v"), b.String())

	// GenEvent.v
	b.Reset()
	b.WriteString(hdr)
	b.WriteString(enumCoq("EventCode", eventNames, "event"))
	writeIfChanged(filepath.Join(out, "GenEvent.v"), b.String())

	// GenMsgType.v
	b.Reset()
	b.WriteString(hdr)
	b.WriteString(enumCoq("MessageType", msgTypes, "msgtype"))
	writeIfChanged(filepath.Join(out, "GenMsgType.v"), b.String())

	// GenFsm.v
	b.Reset()
	b.WriteString("(* GENERATED by dt2coq from /repo on every run. Do not edit. *)\nFrom Coq Require Import List NArith String.\nFrom DT Require Import GenStatus GenEvent FsmTypes.\nImport ListNotations.\nLocal Open Scope string_scope.\n\n")
	b.WriteString("Definition transitions : list (EventCode * list (option Status * Dest)) := [\n")
	for i, d := range defs {
		var ts []string
		for _, t := range d.trans {
			src := "None"
			if t.src != "" {
				src = "Some " + t.src
			}
			ts = append(ts, fmt.Sprintf("(%s, %s)", src, t.dest))
		}
		sep := ";"
		if i == len(defs)-1 {
			sep = ""
		}
		fmt.Fprintf(&b, "  (%s, [%s])%s\n", d.name, strings.Join(ts, "; "), sep)
	}
	b.WriteString("].\n\n")
	b.WriteString("Definition actions : list (EventCode * (ArgKind * list Act)) := [\n")
	for i, d := range defs {
		sep := ";"
		if i == len(defs)-1 {
			sep = ""
		}
		fmt.Fprintf(&b, "  (%s, (%s, [%s]))%s\n", d.name, d.argKind, strings.Join(d.acts, "; "), sep)
	}
	b.WriteString("].\n\n")
	fmt.Fprintf(&b, "Definition cleanup_states : list Status := [%s].\n", strings.Join(cleanup, "; "))
	fmt.Fprintf(&b, "Definition finality_states : list Status := [%s].\n", strings.Join(finality, "; "))
	fmt.Fprintf(&b, "Definition entry_states : list Status := [%s].\n", strings.Join(entry, "; "))
	fmt.Fprintf(&b, "Definition entry_prog : list EntryStep := [%s].\n", strings.Join(prog, "; "))
	writeIfChanged(filepath.Join(out, "GenFsm.v"), b.String())
}
