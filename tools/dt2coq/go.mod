module dt2coq

go 1.21
