package main

import (
	"fmt"
	"go/ast"
	"go/token"
	"path/filepath"
	"sort"
	"strings"
)

// Translation of the manager's handlers (impl/utils.go, impl/restart.go, impl/impl.go, impl/events.go ...)
// into programs over the instruction set of model/Node.v (free monad `prog`).
//
// The body of each listed function is interpreted symbolically, statement by statement:
//
//   - calls into the collaborators (channels, network, transport, validator registry, other handlers) become
//     instructions or calls of other generated programs, through the tables below;
//   - an `error` is a value of the model's type nret; `if err != nil` is decided statically where the value is
//     known (the not-found branch of GetByID, a constructor that cannot fail in the model) and otherwise
//     becomes a test of the instruction's answer;
//   - statements that only log, trace or keep the span index, and the transport-option / channel-monitor
//     wiring that the node model does not contain, are skipped (listed in hIgnoredCallees);
//   - a `go func() { ... }()` runs after the rest of the function's effects (this is the order the
//     correspondence harness forces, see Node.close_channel);
//   - anything else is refused with its source position.
//
// The result is gen/GenHandlers.v; proofs/HandlerEq.v proves each generated program observationally equal
// to the hand-written program of Node.v that the theorems are about.

type hv struct {
	coq    string
	kind   string // chan chid N bool msg voucher valres status ret str ctype opaque nil undef node
	konst  string // ret: statically known class
	okflag string // ret: nil iff this boolean term is true
	failc  string // ret: class when okflag is false
	static *bool  // bool: statically known
}

func retK(c string) hv { return hv{coq: c, kind: "ret", konst: c} }
func retOk(ok, failc string) hv {
	return hv{coq: fmt.Sprintf("(if %s then ROk else %s)", ok, failc), kind: "ret", okflag: ok, failc: failc}
}
func retVar(v string) hv { return hv{coq: v, kind: "ret"} }
func boolK(b bool) hv {
	s := "false"
	if b {
		s = "true"
	}
	return hv{coq: s, kind: "bool", static: &b}
}

type henv map[string]hv

func (e henv) copy() henv {
	n := henv{}
	for k, v := range e {
		n[k] = v
	}
	return n
}

type hFunc struct {
	file, recv, name string
	coqName          string
	binders          string            // Coq binders of the generated definition
	params           map[string]hv     // Go parameter name -> value
	results          []string          // kinds of the results: ret | msg | omsg | bool | ctype | valres
	pure             bool              // no instructions: a plain Gallina term
	resultType       string            // Coq type of the definition
	assumeOk         map[string]bool   // callees whose error is taken to be nil (not in the model)
	packPair         bool              // results (chan-or-nil, msg-or-nil, error), both nil or both present: option (chan * msg) * nret
}

type hctx struct {
	packedNames map[string][]string // packed (channel state, response) value -> the two variables it was assigned to
	fn      *hFunc
	fresh   int
	pending []string // translated bodies of `go func(){...}()` statements, run before the final Ret
	events  map[string]chEvent
	ctypes  map[string]bool
}

type chEvent struct {
	event   string
	arg     string // none | err | voucher | bool | u64
	swallow bool   // Cancel: ErrTerminated is swallowed
}

func (h *hctx) gensym(p string) string {
	h.fresh++
	return fmt.Sprintf("%s%d", p, h.fresh)
}

func (h *hctx) refuse(n ast.Node, format string, a ...interface{}) {
	refuse(n, "%s: %s", h.fn.name, fmt.Sprintf(format, a...))
}

// callees whose calls are skipped: logging, tracing, and wiring the node model does not contain
var hIgnoredPrefixes = []string{"log.", "span.", "otel.", "m.spansIndex.", "monitoredChan.", "m.channelMonitor.", "m.transportOptions.SetOptions",
	"transportConfigurer", "m.transportConfigurers.", "context.", "cancel", "trace.", "attribute.", "datatransfer.FromOptions", "tc.", "m.channelSubscriptions."}

func calleeString(c *ast.CallExpr) string { return strings.Replace(exprString(c.Fun), "r.manager.", "m.", 1) }

func isIgnoredCall(c *ast.CallExpr) bool {
	s := calleeString(c)
	for _, p := range hIgnoredPrefixes {
		if strings.HasPrefix(s, p) {
			return true
		}
	}
	return false
}

// ---------- pure expressions ----------

var chanMethods = map[string]hv{
	"Status": {coq: "c_status %s", kind: "status"}, "ChannelID": {coq: "chid_of %s", kind: "chid"},
	"OtherPeer": {coq: "other_peer %s", kind: "N"}, "IsPull": {coq: "is_pull %s", kind: "bool"},
	"Voucher": {coq: "first_voucher %s", kind: "voucher"}, "BaseCID": {coq: "c_basecid %s", kind: "N"},
	"Selector": {coq: "c_selector %s", kind: "N"}, "ResponderPaused": {coq: "responder_paused_view %s", kind: "bool"},
	"SelfPaused": {coq: "self_paused_view %s", kind: "bool"}, "RequiresFinalization": {coq: "c_reqfin %s", kind: "bool"},
	"TransferID": {coq: "c_tid %s", kind: "N"}, "DataLimit": {coq: "c_limit %s", kind: "N"},
	"LastVoucher": {coq: "last_voucher %s", kind: "voucher"}, "LastVoucherResult": {coq: "last_result %s", kind: "voucher"},
}
var statusMethods = map[string]string{"InFinalization": "in_finalization (%s)", "IsAccepted": "is_accepted (%s)"}
var msgMethods = map[string]hv{
	"BaseCid": {coq: "g_basecid %s", kind: "N"}, "VoucherType": {coq: "g_vtype %s", kind: "str"},
	"IsRestart": {coq: "is_restart %s", kind: "bool"}, "IsNew": {coq: "is_new %s", kind: "bool"}, "IsCancel": {coq: "is_cancel %s", kind: "bool"},
	"IsVoucher": {coq: "is_voucher %s", kind: "bool"}, "IsUpdate": {coq: "is_update %s", kind: "bool"}, "IsPaused": {coq: "g_pause %s", kind: "bool"},
	"IsPull": {coq: "g_pull %s", kind: "bool"}, "IsComplete": {coq: "is_complete %s", kind: "bool"}, "Accepted": {coq: "g_accepted %s", kind: "bool"},
	"IsValidationResult": {coq: "is_validation_result %s", kind: "bool"}, "EmptyVoucherResult": {coq: "empty_voucher %s", kind: "bool"},
	"TransferID": {coq: "g_tid %s", kind: "N"}, "IsRestartExistingChannelRequest": {coq: "is_restart_existing %s", kind: "bool"},
	"VoucherResultType": {coq: "g_vtype %s", kind: "str"},
}

// message constructors that cannot fail in the model
var msgCtors = map[string]struct {
	coq  string
	args []string
}{
	"message.UpdateRequest": {"update_request", []string{"N", "bool"}}, "message.UpdateResponse": {"update_response", []string{"N", "bool"}},
	"message.CancelRequest": {"cancel_request", []string{"N"}}, "message.CancelResponse": {"cancel_response", []string{"N"}},
	"message.VoucherRequest":                {"voucher_request", []string{"N", "voucher"}},
	"message.CompleteResponse":              {"complete_response", []string{"N", "bool", "bool", "voucher"}},
	"message.VoucherResultResponse":         {"voucher_result_response", []string{"N", "bool", "bool", "voucher"}},
	"message.RestartExistingChannelRequest": {"restart_existing_request", []string{"chid"}},
}

func (h *hctx) expr(e ast.Expr, env henv) hv {
	switch x := e.(type) {
	case *ast.ParenExpr:
		return h.expr(x.X, env)
	case *ast.Ident:
		if v, ok := env[x.Name]; ok {
			if v.kind == "poisoned" {
				h.refuse(e, "`%s` is assigned on only one path of an earlier if and used afterwards", x.Name)
			}
			return v
		}
		switch x.Name {
		case "nil":
			return hv{kind: "nil"}
		case "true":
			return boolK(true)
		case "false":
			return boolK(false)
		}
		if h.ctypes[x.Name] {
			return hv{coq: x.Name, kind: "ctype"}
		}
	case *ast.BasicLit:
		if x.Kind == token.INT {
			return hv{coq: x.Value + "%N", kind: "N"}
		}
		if x.Kind == token.STRING {
			return hv{coq: "E", kind: "str"}
		}
	case *ast.UnaryExpr:
		if x.Op == token.AND {
			return h.expr(x.X, env)
		}
		if x.Op == token.NOT {
			a := h.expr(x.X, env)
			if a.kind != "bool" {
				h.refuse(e, "! applied to a %s", a.kind)
			}
			if a.static != nil {
				return boolK(!*a.static)
			}
			return hv{coq: "negb (" + a.coq + ")", kind: "bool"}
		}
	case *ast.SelectorExpr:
		s := strings.Replace(exprString(e), "r.manager.", "m.", 1)
		switch s {
		case "m.peerID":
			return env["#self"]
		case "datatransfer.ErrRejected":
			return retK("RRejected")
		case "datatransfer.ErrPause":
			return retK("RPause")
		case "datatransfer.ErrChannelNotFound":
			return retK("RNotFound")
		case "datatransfer.ErrUnsupported":
			return retK("ROther")
		case "datatransfer.ErrResume":
			return retK("RResume") // no class of the model: no translated program returns it
		}
		if id, ok := x.X.(*ast.Ident); ok && id.Name == "datatransfer" {
			return hv{coq: x.Sel.Name, kind: "status"} // a status constant; ill-kinded uses fail in Coq
		}
		if id, ok := x.X.(*ast.Ident); ok && id.Name == "types" {
			return hv{coq: x.Sel.Name, kind: "msgtype"}
		}
		b := h.expr(x.X, env)
		switch b.kind {
		case "opaque":
			switch x.Sel.Name {
			case "ValidatePull":
				return hv{coq: "VPull", kind: "vkind"}
			case "ValidatePush":
				return hv{coq: "VPush", kind: "vkind"}
			}
		case "vresptr":
			if x.Sel.Name == "Voucher" {
				return hv{coq: "v_node (vr_res " + b.coq + ")", kind: "node"}
			}
		case "chid":
			switch x.Sel.Name {
			case "Initiator":
				return hv{coq: "k_init " + paren(b.coq), kind: "N"}
			case "Responder":
				return hv{coq: "k_resp " + paren(b.coq), kind: "N"}
			case "ID":
				return hv{coq: "k_tid " + paren(b.coq), kind: "N"}
			}
		case "voucher":
			switch x.Sel.Name {
			case "Type":
				return hv{coq: "v_type " + paren(b.coq), kind: "str"}
			case "Voucher":
				return hv{coq: "v_node " + paren(b.coq), kind: "node"}
			}
		case "valres":
			f := map[string]hv{"Accepted": {coq: "vr_accepted", kind: "bool"}, "ForcePause": {coq: "vr_force", kind: "bool"},
				"RequiresFinalization": {coq: "vr_fin", kind: "bool"}, "DataLimit": {coq: "vr_limit", kind: "N"}}
			if a, ok := f[x.Sel.Name]; ok {
				return hv{coq: a.coq + " " + paren(b.coq), kind: a.kind}
			}
			if x.Sel.Name == "VoucherResult" {
				return hv{coq: paren(b.coq), kind: "vresptr"}
			}
		}
	case *ast.BinaryExpr:
		switch x.Op {
		case token.LAND, token.LOR:
			a := h.expr(x.X, env)
			if a.kind == "bool" && a.static != nil {
				if *a.static == (x.Op == token.LOR) {
					return boolK(*a.static) // short circuit: the right operand is not evaluated
				}
				return h.expr(x.Y, env)
			}
			b := h.expr(x.Y, env)
			if b.kind == "bool" && b.static != nil && a.kind == "bool" {
				if *b.static == (x.Op == token.LOR) {
					return boolK(*b.static)
				}
				return a
			}
			if a.kind != "bool" || b.kind != "bool" {
				h.refuse(e, "&& / || applied to a non-boolean")
			}
			op := "&&"
			if x.Op == token.LOR {
				op = "||"
			}
			return hv{coq: "((" + a.coq + ") " + op + " (" + b.coq + "))", kind: "bool"}
		case token.EQL, token.NEQ:
			a, b := h.expr(x.X, env), h.expr(x.Y, env)
			neg := x.Op == token.NEQ
			wrap := func(t string) hv {
				if neg {
					return hv{coq: "negb (" + t + ")", kind: "bool"}
				}
				return hv{coq: t, kind: "bool"}
			}
			if b.kind == "nil" { // x == nil / x != nil
				switch a.kind {
				case "ret":
					if a.konst != "" {
						return boolK((a.konst == "ROk") != neg)
					}
					if a.okflag != "" {
						if neg {
							return hv{coq: "negb " + paren(a.okflag), kind: "bool"}
						}
						return hv{coq: a.okflag, kind: "bool"}
					}
					if neg {
						return hv{coq: "negb (ret_ok " + paren(a.coq) + ")", kind: "bool"}
					}
					return hv{coq: "ret_ok " + paren(a.coq), kind: "bool"}
				case "node":
					return wrap("N.eqb (" + a.coq + ") 0")
				case "vresptr":
					if neg {
						return hv{coq: "vr_hasres " + a.coq, kind: "bool"}
					}
					return hv{coq: "negb (vr_hasres " + a.coq + ")", kind: "bool"}
				case "omsg":
					if neg {
						return hv{coq: "is_some_msg " + paren(a.coq), kind: "bool"}
					}
					return hv{coq: "negb (is_some_msg " + paren(a.coq) + ")", kind: "bool"}
				case "chan", "msg":
					return boolK(neg)
				case "opaque":
					return hv{coq: "?", kind: "opaquebool"}
				}
				h.refuse(e, "comparison of a %s with nil", a.kind)
			}
			if a.kind == "ret" && b.kind == "ret" && b.konst == "RResume" {
				return boolK(neg)
			}
			if a.kind == "ret" && b.kind == "ret" && b.konst != "" { // err == datatransfer.ErrPause
				return wrap(fmt.Sprintf("nret_is %s %s", b.konst, paren(a.coq)))
			}
			if a.kind != b.kind {
				h.refuse(e, "comparison between %s and %s", a.kind, b.kind)
			}
			switch a.kind {
			case "N", "node":
				return wrap(fmt.Sprintf("N.eqb (%s) (%s)", a.coq, b.coq))
			case "str":
				return wrap(fmt.Sprintf("String.eqb (%s) (%s)", a.coq, b.coq))
			case "status":
				return wrap(fmt.Sprintf("status_eqb (%s) (%s)", a.coq, b.coq))
			case "bool":
				return wrap(fmt.Sprintf("Bool.eqb (%s) (%s)", a.coq, b.coq))
			case "ctype":
				return wrap(fmt.Sprintf("ctype_eqb (%s) (%s)", a.coq, b.coq))
			}
			h.refuse(e, "comparison of two %s values", a.kind)
		}
	case *ast.StarExpr:
		b := h.expr(x.X, env)
		if b.kind == "vresptr" {
			return hv{coq: "vr_res " + b.coq, kind: "voucher"}
		}
	case *ast.CallExpr:
		return h.pureCall(x, env)
	case *ast.TypeAssertExpr:
		return h.expr(x.X, env)
	case *ast.CompositeLit:
		switch exprString(x.Type) {
		case "datatransfer.TypedVoucher":
			var ty, nd string
			for _, el := range x.Elts {
				kv, ok := el.(*ast.KeyValueExpr)
				if !ok {
					h.refuse(e, "TypedVoucher literal without field names")
				}
				v := h.expr(kv.Value, env)
				switch exprString(kv.Key) {
				case "Type":
					if v.kind != "str" {
						h.refuse(kv.Value, "the Type of a TypedVoucher literal is a %s", v.kind)
					}
					ty = v.coq
				case "Voucher":
					if v.kind != "node" {
						h.refuse(kv.Value, "the Voucher of a TypedVoucher literal is a %s", v.kind)
					}
					nd = v.coq
				}
			}
			if ty == "" || nd == "" {
				h.refuse(e, "TypedVoucher literal must set Type and Voucher")
			}
			return hv{coq: fmt.Sprintf("{| v_type := %s; v_node := %s |}", ty, nd), kind: "voucher"}
		case "datatransfer.ChannelID":
			if len(x.Elts) == 0 {
				return hv{coq: "no_chid", kind: "chid"}
			}
			f := map[string]string{}
			for _, el := range x.Elts {
				kv, ok := el.(*ast.KeyValueExpr)
				if !ok {
					h.refuse(e, "ChannelID literal without field names")
				}
				v := h.expr(kv.Value, env)
				if v.kind != "N" {
					h.refuse(kv.Value, "field of a ChannelID literal is a %s", v.kind)
				}
				f[exprString(kv.Key)] = v.coq
			}
			if f["Initiator"] == "" || f["Responder"] == "" || f["ID"] == "" {
				h.refuse(e, "ChannelID literal must set Initiator, Responder and ID")
			}
			return hv{coq: fmt.Sprintf("(%s, %s, %s)", f["Initiator"], f["Responder"], f["ID"]), kind: "chid"}
		case "datatransfer.ValidationResult":
			if len(x.Elts) == 0 {
				return hv{coq: "zero_valres", kind: "valres"}
			}
		}
		return hv{kind: "opaque"}
	}
	h.refuse(e, "expression `%s` is outside the translated subset", exprString(e))
	return hv{}
}

// exprMaybe evaluates e when it is a plain identifier bound in env (kind "" otherwise)
func (h *hctx) exprMaybe(e ast.Expr, env henv) hv {
	if id, ok := e.(*ast.Ident); ok {
		if v, ok := env[id.Name]; ok {
			return v
		}
	}
	return hv{}
}

func paren(s string) string {
	if strings.ContainsAny(s, " ") && !strings.HasPrefix(s, "(") {
		return "(" + s + ")"
	}
	return s
}

func (h *hctx) pureCall(c *ast.CallExpr, env henv) hv {
	callee := calleeString(c)
	switch callee {
	case "errors.New", "fmt.Errorf", "xerrors.Errorf":
		return retK("ROther")
	case "channels.IsChannelTerminated":
		return hv{coq: "is_final (" + h.expr(c.Args[0], env).coq + ")", kind: "bool"}
	case "channels.IsChannelCleaningUp":
		return hv{coq: "is_cleanup (" + h.expr(c.Args[0], env).coq + ")", kind: "bool"}
	case "ipld.DeepEqual":
		a, b := h.expr(c.Args[0], env), h.expr(c.Args[1], env)
		return hv{coq: fmt.Sprintf("N.eqb (%s) (%s)", a.coq, b.coq), kind: "bool"}
	case "datatransfer.TransferID", "uint64", "int64":
		return h.expr(c.Args[0], env)
	}
	if sel, ok := c.Fun.(*ast.SelectorExpr); ok && sel.Sel.Name == "LeaveRequestPaused" && len(c.Args) == 1 {
		vr, ch := h.expr(sel.X, env), h.expr(c.Args[0], env)
		if vr.kind == "valres" && ch.kind == "chan" {
			return hv{coq: fmt.Sprintf("leave_paused %s %s", paren(vr.coq), paren(ch.coq)), kind: "bool"}
		}
	}
	if callee == "m.requestError" && len(c.Args) == 3 {
		vr, er, st := h.expr(c.Args[0], env), h.expr(c.Args[1], env), h.expr(c.Args[2], env)
		if vr.kind != "valres" || er.kind != "ret" || st.kind != "bool" {
			h.refuse(c, "requestError called with a %s, a %s and a %s", vr.kind, er.kind, st.kind)
		}
		return hv{coq: fmt.Sprintf("request_error_ret %s %s %s", paren(vr.coq), paren(er.coq), paren(st.coq)), kind: "ret"}
	}
	if mc, ok := msgCtors[callee]; ok {
		if len(c.Args) != len(mc.args) {
			h.refuse(c, "%s called with %d arguments", callee, len(c.Args))
		}
		var parts []string
		for i, a := range c.Args {
			v := h.expr(a, env)
			if v.kind == "nil" && mc.args[i] == "voucher" {
				v = hv{coq: "no_voucher", kind: "voucher"}
			}
			if v.kind != mc.args[i] {
				h.refuse(a, "argument %d of %s is a %s, expected %s", i+1, callee, v.kind, mc.args[i])
			}
			parts = append(parts, paren(v.coq))
		}
		return hv{coq: mc.coq + " " + strings.Join(parts, " "), kind: "msg"}
	}
	// generated pure siblings
	if g, ok := hPureSiblings[callee]; ok {
		var parts []string
		for i, k := range g.args {
			if k == "#self" {
				parts = append(parts, env["#self"].coq)
				continue
			}
			v := h.expr(c.Args[g.argIdx[i]], env)
			if v.kind != k {
				h.refuse(c, "argument of %s is a %s, expected %s", callee, v.kind, k)
			}
			parts = append(parts, paren(v.coq))
		}
		return hv{coq: g.coq + " " + strings.Join(parts, " "), kind: g.result}
	}
	if sel, ok := c.Fun.(*ast.SelectorExpr); ok {
		// chid.OtherParty(m.peerID), chid.String()
		if sel.Sel.Name == "String" {
			return hv{kind: "opaque"}
		}
		b := h.expr(sel.X, env)
		switch b.kind {
		case "chan":
			if m, ok := chanMethods[sel.Sel.Name]; ok && len(c.Args) == 0 {
				return hv{coq: fmt.Sprintf(m.coq, paren(b.coq)), kind: m.kind}
			}
		case "status":
			if m, ok := statusMethods[sel.Sel.Name]; ok && len(c.Args) == 0 {
				return hv{coq: fmt.Sprintf(m, b.coq), kind: "bool"}
			}
		case "msg":
			if m, ok := msgMethods[sel.Sel.Name]; ok && len(c.Args) == 0 {
				return hv{coq: fmt.Sprintf(m.coq, paren(b.coq)), kind: m.kind}
			}
		case "chid":
			if sel.Sel.Name == "OtherParty" && len(c.Args) == 1 {
				p := h.expr(c.Args[0], env)
				return hv{coq: fmt.Sprintf("other_party %s %s", paren(p.coq), paren(b.coq)), kind: "N"}
			}
		}
	}
	h.refuse(c, "call `%s` is outside the translated subset", exprString(c))
	return hv{}
}

type pureSibling struct {
	coq    string
	args   []string // kinds; "#self" = the node's own peer
	argIdx []int    // index of the Go argument for each entry of args (ignored for #self)
	result string
}

var hPureSiblings = map[string]pureSibling{
	"m.cancelMessage":           {"gen_cancelMessage", []string{"#self", "chid"}, []int{0, 0}, "msg"},
	"m.pauseMessage":            {"gen_pauseMessage", []string{"#self", "chid"}, []int{0, 0}, "msg"},
	"m.resumeMessage":           {"gen_resumeMessage", []string{"#self", "chid"}, []int{0, 0}, "msg"},
	"m.channelDataTransferType": {"gen_channelDataTransferType", []string{"#self", "chan"}, []int{0, 0}, "ctype"},
}

// ---------- effectful calls ----------

// an effect: the program to run, the name bound to its answer, and the Go-level results
type heffect struct {
	prog    string
	binder  string
	results []hv
	getByID bool // results[0] is the channel of the Some branch
}

type progSibling struct {
	coq     string
	args    []string
	argIdx  []int
	results string // kinds of the results, comma separated: "ret", "valres,ret", "bool,valres,ret", "omsg,ret"
}

var hProgSiblings = map[string]progSibling{
	"m.pause":                         {"gen_pause", []string{"#self", "chid"}, []int{0, 0}, "ret"},
	"m.resume":                        {"gen_resume", []string{"#self", "chid"}, []int{0, 0}, "ret"},
	"m.pauseOther":                    {"gen_pauseOther", []string{"#self", "chid"}, []int{0, 0}, "ret"},
	"m.resumeOther":                   {"gen_resumeOther", []string{"#self", "chid"}, []int{0, 0}, "ret"},
	"m.restartManagerPeerReceivePush": {"gen_restartManagerPeerReceivePush", []string{"chan"}, []int{1}, "ret"},
	"m.restartManagerPeerReceivePull": {"gen_restartManagerPeerReceivePull", []string{"chan"}, []int{1}, "ret"},
	"m.openPushRestartChannel":        {"gen_openPushRestartChannel", []string{"chan"}, []int{1}, "ret"},
	"m.openPullRestartChannel":        {"gen_openPullRestartChannel", []string{"chan"}, []int{1}, "ret"},
	"m.validateRestartRequest":        {"gen_validateRestartRequest", []string{"N", "chid", "msg"}, []int{1, 2, 3}, "ret"},
	"m.recordRejectedValidationEvents": {"gen_recordRejectedValidationEvents", []string{"chid", "valres"}, []int{0, 1}, "ret"},
	"m.recordAcceptedValidationEvents": {"gen_recordAcceptedValidationEvents", []string{"chan", "valres"}, []int{0, 1}, "ret"},
	"m.acceptRequest":                 {"gen_acceptRequest", []string{"#self", "chid", "msg"}, []int{0, 0, 1}, "valres,ret"},
	"m.restartRequest":                {"gen_restartRequest", []string{"#self", "chid", "msg"}, []int{0, 0, 1}, "bool,valres,ret"},
	"m.receiveRestartRequest":         {"gen_receiveRestartRequest", []string{"#self", "chid", "msg"}, []int{0, 0, 1}, "omsg,ret"},
	"m.receiveNewRequest":             {"gen_receiveNewRequest", []string{"#self", "chid", "msg"}, []int{0, 0, 1}, "omsg,ret"},
	"m.OnRequestReceived":             {"gen_OnRequestReceived", []string{"#self", "chid", "msg"}, []int{0, 0, 1}, "omsg,ret"},
	"m.OnResponseReceived":            {"gen_OnResponseReceived", []string{"#self", "chid", "msg"}, []int{0, 0, 1}, "ret"},
	"m.processUpdateVoucher":          {"gen_processUpdateVoucher", []string{"chid", "msg"}, []int{0, 1}, "omsg,ret"},
	"m.receiveUpdateRequest":          {"gen_receiveUpdateRequest", []string{"#self", "chid", "msg"}, []int{0, 0, 1}, "omsg,ret"},
}

func (h *hctx) chidArg(e ast.Expr, env henv) string {
	v := h.expr(e, env)
	if v.kind != "chid" {
		h.refuse(e, "a channel id is expected here, found a %s", v.kind)
	}
	return paren(v.coq)
}

func (h *hctx) effect(c *ast.CallExpr, env henv) (heffect, bool) {
	callee := calleeString(c)
	arg := func(i int, kind string) string {
		if i >= len(c.Args) {
			h.refuse(c, "%s: missing argument %d", callee, i+1)
		}
		v := h.expr(c.Args[i], env)
		if v.kind != kind {
			h.refuse(c.Args[i], "argument %d of %s is a %s, expected %s", i+1, callee, v.kind, kind)
		}
		return paren(v.coq)
	}
	if strings.HasPrefix(callee, "m.channels.") {
		name := strings.TrimPrefix(callee, "m.channels.")
		switch name {
		case "GetByID":
			k := h.chidArg(c.Args[1], env)
			oc, cv := h.gensym("oc"), h.gensym("c")
			return heffect{prog: "exec (IGet " + k + ")", binder: oc, results: []hv{{coq: cv, kind: "chan"}, retK("ROk")}, getByID: true}, true
		case "HasChannel":
			k := h.chidArg(c.Args[0], env)
			b := h.gensym("has")
			return heffect{prog: "exec (IHas " + k + ")", binder: b, results: []hv{{coq: b, kind: "bool"}, retK("ROk")}}, true
		case "CreateNew":
			if len(c.Args) != 8 {
				h.refuse(c, "CreateNew called with %d arguments", len(c.Args))
			}
			ok := h.gensym("ok")
			p := fmt.Sprintf("exec (ICreate (create_new %s %s %s %s %s %s %s %s))", arg(0, "N"), arg(1, "N"), arg(2, "N"), arg(3, "node"), arg(4, "voucher"), arg(5, "N"), arg(6, "N"), arg(7, "N"))
			cn := fmt.Sprintf("(chan_id (create_new %s %s %s %s %s %s %s %s))", arg(0, "N"), arg(1, "N"), arg(2, "N"), arg(3, "node"), arg(4, "voucher"), arg(5, "N"), arg(6, "N"), arg(7, "N"))
			return heffect{prog: p, binder: ok, results: []hv{{coq: cn, kind: "chid"}, retOk(ok, "ROther")}}, true
		case "SetDataLimit":
			r := h.gensym("r")
			p := fmt.Sprintf("(r0 <- exec (ISetLimit %s %s) ;; Ret (ret_of_send r0))", h.chidArg(c.Args[0], env), arg(1, "N"))
			return heffect{prog: p, binder: r, results: []hv{retVar(r)}}, true
		case "DataQueued", "DataSent", "DataReceived":
			kd := map[string]string{"DataQueued": "KQueued", "DataSent": "KSent", "DataReceived": "KReceived"}[name]
			k := h.chidArg(c.Args[0], env)
			x := h.gensym("x")
			p := fmt.Sprintf("exec (IReport %s (mkReport %s %s %s %s))", k, kd, arg(2, "N"), arg(3, "Z"), arg(4, "bool"))
			return heffect{prog: p, binder: x, results: []hv{{coq: fmt.Sprintf("report_ret %s", x), kind: "ret"}}}, true
		}
		ev, ok := h.events[name]
		if !ok {
			h.refuse(c, "channels.%s is not one of the event methods of channels.go", name)
		}
		k := h.chidArg(c.Args[0], env)
		var p string
		switch ev.arg {
		case "none":
			p = fmt.Sprintf("send0 %s %s", k, ev.event)
		case "err":
			if len(c.Args) != 2 {
				h.refuse(c, "channels.%s expects an error argument", name)
			}
			p = fmt.Sprintf("send %s %s (err_arg E)", k, ev.event)
		case "voucher":
			p = fmt.Sprintf("send %s %s (voucher_arg %s)", k, ev.event, arg(1, "voucher"))
		case "bool":
			p = fmt.Sprintf("send %s %s (bool_arg %s)", k, ev.event, arg(1, "bool"))
		default:
			h.refuse(c, "channels.%s: argument kind %s not handled", name, ev.arg)
		}
		r := h.gensym("r")
		if ev.swallow {
			p = fmt.Sprintf("(r0 <- %s ;; Ret (swallow_terminated r0))", p)
		}
		return heffect{prog: p, binder: r, results: []hv{retVar(r)}}, true
	}
	switch callee {
	case "m.dataTransferNetwork.SendMessage":
		ok := h.gensym("ok")
		return heffect{prog: fmt.Sprintf("exec (INetSend %s %s)", arg(1, "N"), arg(2, "msg")), binder: ok, results: []hv{retOk(ok, "ROther")}}, true
	case "m.dataTransferNetwork.Protect":
		return heffect{prog: fmt.Sprintf("exec (IProtect %s %s)", arg(0, "N"), h.chidOfString(c.Args[1], env)), binder: "_"}, true
	case "m.transport.CloseChannel":
		ok := h.gensym("ok")
		return heffect{prog: fmt.Sprintf("exec (ITransport (TClose %s))", h.chidArg(c.Args[1], env)), binder: ok, results: []hv{retOk(ok, "ROther")}}, true
	case "m.transport.CleanupChannel":
		return heffect{prog: fmt.Sprintf("exec (ITransport (TCleanup %s))", h.chidArg(c.Args[0], env)), binder: "_"}, true
	case "m.transport.(datatransfer.PauseableTransport).PauseChannel":
		ok := h.gensym("ok")
		return heffect{prog: fmt.Sprintf("exec (ITransport (TPause %s))", h.chidArg(c.Args[1], env)), binder: ok, results: []hv{retOk(ok, "ROther")}}, true
	case "m.transport.(datatransfer.PauseableTransport).ResumeChannel":
		ok := h.gensym("ok")
		return heffect{prog: fmt.Sprintf("exec (ITransport (TResume %s %s))", h.chidArg(c.Args[2], env), arg(1, "msg")), binder: ok, results: []hv{retOk(ok, "ROther")}}, true
	case "pausable.PauseChannel":
		ok := h.gensym("ok")
		return heffect{prog: fmt.Sprintf("exec (ITransport (TPause %s))", h.chidArg(c.Args[1], env)), binder: ok, results: []hv{retOk(ok, "ROther")}}, true
	case "pausable.ResumeChannel":
		ok := h.gensym("ok")
		return heffect{prog: fmt.Sprintf("exec (ITransport (TResume %s %s))", h.chidArg(c.Args[2], env), arg(1, "msg")), binder: ok, results: []hv{retOk(ok, "ROther")}}, true
	case "m.transport.OpenChannel":
		ok := h.gensym("ok")
		st := h.expr(c.Args[5], env)
		has := "true"
		if st.kind == "nil" {
			has = "false"
		} else if st.kind != "chan" {
			h.refuse(c.Args[5], "the channel argument of OpenChannel is a %s", st.kind)
		}
		return heffect{prog: fmt.Sprintf("exec (ITransport (TOpen %s %s %s %s))", arg(1, "N"), h.chidArg(c.Args[2], env), has, arg(6, "msg")), binder: ok, results: []hv{retOk(ok, "ROther")}}, true
	case "m.OnRequestDisconnected":
		r := h.gensym("r")
		return heffect{prog: fmt.Sprintf("send %s Disconnected (err_arg E)", h.chidArg(c.Args[0], env)), binder: r, results: []hv{retVar(r)}}, true
	case "m.validateRestart":
		vv := h.gensym("vv")
		return heffect{prog: fmt.Sprintf("gen_validateRestart %s", arg(0, "chan")), binder: vv,
			results: []hv{{coq: "(fst " + vv + ")", kind: "valres"}, retVar("(snd " + vv + ")")}}, true
	case "m.validatedTypes.Processor":
		reg := h.gensym("reg")
		return heffect{prog: fmt.Sprintf("exec (IRegistered %s)", arg(0, "str")), binder: reg, results: []hv{{kind: "opaque"}, {coq: reg, kind: "bool"}}}, true
	case "validator.ValidateRestart":
		vr := h.gensym("vr")
		return heffect{prog: fmt.Sprintf("exec (IValidate VRestart %s)", h.chidArg(c.Args[0], env)), binder: vr,
			results: []hv{{coq: vr, kind: "valres"}, retOk("negb (vr_err "+vr+")", "ROther")}}, true
	case "m.channels.CreateNew":
		// handled above (prefix m.channels.)
	case "m.processValidationUpdate":
		r := h.gensym("r")
		p := fmt.Sprintf("gen_processValidationUpdate %s %s", h.chidArg(c.Args[1], env), arg(2, "valres"))
		return heffect{prog: p, binder: r, results: []hv{{coq: "(fst " + r + ")", kind: "ochanmsg"}, {coq: "(fst " + r + ")", kind: "ochanmsg"}, retVar("(snd " + r + ")")}}, true
	case "m.handleTransportUpdate":
		r := h.gensym("r")
		p := fmt.Sprintf("gen_handleTransportUpdate %s %s %s %s", arg(1, "chan"), arg(2, "msg"), arg(3, "valres"), arg(4, "ret"))
		return heffect{prog: p, binder: r, results: []hv{retVar(r)}}, true
	case "m.updateValidationStatus":
		r := h.gensym("r")
		p := fmt.Sprintf("gen_updateValidationStatus %s %s %s", env["#self"].coq, h.chidArg(c.Args[1], env), arg(2, "valres"))
		return heffect{prog: p, binder: r, results: []hv{retVar(r)}}, true
	case "m.transportOptions.ApplyOptions":
		return heffect{prog: "", results: []hv{retK("ROk")}}, true
	}
	if id, ok := c.Fun.(*ast.Ident); ok {
		if v, ok := env[id.Name]; ok && v.kind == "vkind" {
			vr := h.gensym("vr")
			return heffect{prog: fmt.Sprintf("exec (IValidate %s %s)", paren(v.coq), h.chidArg(c.Args[0], env)), binder: vr,
				results: []hv{{coq: vr, kind: "valres"}, retOk("negb (vr_err "+vr+")", "ROther")}}, true
		}
	}
	if g, ok := hProgSiblings[callee]; ok {
		var parts []string
		for i, k := range g.args {
			if k == "#self" {
				parts = append(parts, env["#self"].coq)
				continue
			}
			v := h.expr(c.Args[g.argIdx[i]], env)
			if v.kind != k {
				h.refuse(c, "argument of %s is a %s, expected %s", callee, v.kind, k)
			}
			parts = append(parts, paren(v.coq))
		}
		kinds := strings.Split(g.results, ",")
		r := h.gensym("r")
		prog := g.coq + " " + strings.Join(parts, " ")
		if len(kinds) == 1 {
			return heffect{prog: prog, binder: r, results: []hv{retVar(r)}}, true
		}
		var proj []string
		switch len(kinds) {
		case 2:
			proj = []string{"fst " + r, "snd " + r}
		case 3:
			proj = []string{"fst (fst " + r + ")", "snd (fst " + r + ")", "snd " + r}
		}
		var res []hv
		for i, k := range kinds {
			if k == "ret" {
				res = append(res, retVar("("+proj[i]+")"))
			} else {
				res = append(res, hv{coq: "(" + proj[i] + ")", kind: k})
			}
		}
		return heffect{prog: prog, binder: r, results: res}, true
	}
	return heffect{}, false
}

// chid.String() as the protection tag: the channel id itself
func (h *hctx) chidOfString(e ast.Expr, env henv) string {
	if c, ok := e.(*ast.CallExpr); ok {
		if sel, ok := c.Fun.(*ast.SelectorExpr); ok && sel.Sel.Name == "String" {
			return h.chidArg(sel.X, env)
		}
	}
	h.refuse(e, "the protection tag must be <channel id>.String()")
	return ""
}

// ---------- statements ----------

type tailFn func(env henv) string

func lhsName(e ast.Expr) string {
	if id, ok := e.(*ast.Ident); ok {
		return id.Name
	}
	return ""
}

func terminates(list []ast.Stmt) bool {
	if len(list) == 0 {
		return false
	}
	switch s := list[len(list)-1].(type) {
	case *ast.ReturnStmt:
		return true
	case *ast.IfStmt:
		if s.Else == nil {
			return false
		}
		eb, ok := s.Else.(*ast.BlockStmt)
		if !ok {
			if ei, ok := s.Else.(*ast.IfStmt); ok {
				return terminates(s.Body.List) && terminates([]ast.Stmt{ei})
			}
			return false
		}
		return terminates(s.Body.List) && terminates(eb.List)
	}
	return false
}

func assignedIn(list []ast.Stmt, into map[string]bool) {
	for _, s := range list {
		ast.Inspect(s, func(n ast.Node) bool {
			if as, ok := n.(*ast.AssignStmt); ok && as.Tok == token.ASSIGN {
				for _, l := range as.Lhs {
					if nm := lhsName(l); nm != "" && nm != "_" {
						into[nm] = true
					}
				}
			}
			return true
		})
	}
}

func onlyIgnorable(list []ast.Stmt) bool {
	for _, s := range list {
		switch x := s.(type) {
		case *ast.ExprStmt:
			c, ok := x.X.(*ast.CallExpr)
			if !ok || !isIgnoredCall(c) {
				return false
			}
		case *ast.AssignStmt:
			if len(x.Rhs) != 1 {
				return false
			}
			switch r := x.Rhs[0].(type) {
			case *ast.CallExpr:
				cs := calleeString(r)
				if !(isIgnoredCall(r) || cs == "fmt.Errorf" || cs == "errors.New") {
					return false
				}
			case *ast.TypeAssertExpr:
			default:
				return false
			}
		case *ast.IfStmt:
			if x.Else != nil || !onlyIgnorable(x.Body.List) {
				return false
			}
			if x.Init != nil && !onlyIgnorable([]ast.Stmt{x.Init}) {
				return false
			}
		case *ast.DeferStmt:
			if !isIgnoredCall(x.Call) {
				return false
			}
		default:
			return false
		}
	}
	return true
}

// bind sequences prog p (answer bound to b) before rest
func bindP(p, b, rest string) string {
	if p == "" {
		return rest
	}
	if b == "_" || b == "" {
		return fmt.Sprintf("%s ;;;\n  %s", p, rest)
	}
	return fmt.Sprintf("%s <- %s ;;\n  %s", b, p, rest)
}

func (h *hctx) ifThenElse(c hv, a, b func() string) string {
	if c.static != nil {
		if *c.static {
			return a()
		}
		return b()
	}
	return fmt.Sprintf("(if %s then %s else %s)", c.coq, a(), b())
}

// assignEffect runs an effectful call whose results are assigned to lhs (may be nil), then continues
func (h *hctx) assignEffect(lhs []ast.Expr, define bool, ef heffect, env henv, at ast.Node, cont func(env henv) string) string {
	if len(lhs) != 0 && len(lhs) != len(ef.results) {
		h.refuse(at, "%d results assigned to %d variables", len(ef.results), len(lhs))
	}
	if len(lhs) == 3 && len(ef.results) == 3 && ef.results[0].kind == "ochanmsg" {
		if h.packedNames == nil {
			h.packedNames = map[string][]string{}
		}
		h.packedNames[ef.results[0].coq] = []string{lhsName(lhs[0]), lhsName(lhs[1])}
	}
	set := func(e henv, vals []hv) {
		for i, l := range lhs {
			if nm := lhsName(l); nm != "_" && nm != "" {
				e[nm] = vals[i]
			} else if nm == "" {
				h.refuse(l, "assignment target outside the subset")
			}
		}
	}
	if ef.getByID {
		eSome, eNone := env.copy(), env.copy()
		set(eSome, ef.results)
		set(eNone, []hv{{kind: "undef"}, retK("RNotFound")})
		return fmt.Sprintf("%s <- %s ;;\n  match %s with\n  | None => %s\n  | Some %s => %s\n  end", ef.binder, ef.prog, ef.binder, cont(eNone), ef.results[0].coq, cont(eSome))
	}
	e2 := env.copy()
	set(e2, ef.results)
	return bindP(ef.prog, ef.binder, cont(e2))
}

func (h *hctx) seq(list []ast.Stmt, env henv, tail tailFn) string {
	if len(list) == 0 {
		return tail(env)
	}
	rest := func(e henv) string { return h.seq(list[1:], e, tail) }
	switch s := list[0].(type) {
	case *ast.DeferStmt:
		if isIgnoredCall(s.Call) {
			return rest(env)
		}
	case *ast.ExprStmt:
		if c, ok := s.X.(*ast.CallExpr); ok {
			if isIgnoredCall(c) {
				return rest(env)
			}
			if ef, ok := h.effect(c, env); ok {
				return h.assignEffect(nil, false, ef, env, s, rest)
			}
		}
	case *ast.GoStmt:
		fl, ok := s.Call.Fun.(*ast.FuncLit)
		if !ok || len(s.Call.Args) != 0 {
			h.refuse(s, "go statement outside the subset")
		}
		body := h.seq(fl.Body.List, env.copy(), func(henv) string { return "Ret tt" })
		h.pending = append(h.pending, body)
		return rest(env)
	case *ast.DeclStmt:
		gd, ok := s.Decl.(*ast.GenDecl)
		if ok && gd.Tok == token.VAR && len(gd.Specs) == 1 {
			vs := gd.Specs[0].(*ast.ValueSpec)
			if len(vs.Values) == 0 {
				e2 := env.copy()
				for _, n := range vs.Names {
					e2[n.Name] = hv{kind: "nil"}
				}
				return rest(e2)
			}
		}
	case *ast.AssignStmt:
		if len(s.Rhs) == 1 {
			switch r := s.Rhs[0].(type) {
			case *ast.CallExpr:
				if isIgnoredCall(r) {
					e2 := env.copy()
					for _, l := range s.Lhs {
						if nm := lhsName(l); nm != "" && nm != "_" && nm != "ctx" {
							e2[nm] = hv{kind: "opaque"}
						}
					}
					return rest(e2)
				}
				if ef, ok := h.effect(r, env); ok {
					return h.assignEffect(s.Lhs, s.Tok == token.DEFINE, ef, env, s, rest)
				}
				callee := calleeString(r)
				if callee == "m.newRequest" && len(s.Lhs) == 2 && len(r.Args) == 6 {
					a := func(i int, kind string) string {
						v := h.expr(r.Args[i], env)
						if v.kind != kind {
							h.refuse(r.Args[i], "argument %d of newRequest is a %s, expected %s", i+1, v.kind, kind)
						}
						return paren(v.coq)
					}
					tid, req := h.gensym("tid"), h.gensym("req")
					eS, eN := env.copy(), env.copy()
					eS[lhsName(s.Lhs[0])], eS[lhsName(s.Lhs[1])] = hv{coq: req, kind: "msg"}, retK("ROk")
					eN[lhsName(s.Lhs[0])], eN[lhsName(s.Lhs[1])] = hv{kind: "undef"}, retK("ROther")
					return fmt.Sprintf("%s <- exec INextId ;;\n  match new_request %s false %s %s %s %s with\n  | None => %s\n  | Some %s => %s\n  end",
						tid, tid, a(2, "bool"), a(3, "voucher"), a(4, "N"), a(1, "node"), rest(eN), req, rest(eS))
				}
				if callee == "message.NewRequest" && len(s.Lhs) == 2 {
					a := func(i int, kind string) string {
						v := h.expr(r.Args[i], env)
						if v.kind != kind {
							h.refuse(r.Args[i], "argument %d of message.NewRequest is a %s, expected %s", i+1, v.kind, kind)
						}
						return paren(v.coq)
					}
					req := h.gensym("req")
					eS, eN := env.copy(), env.copy()
					eS[lhsName(s.Lhs[0])], eS[lhsName(s.Lhs[1])] = hv{coq: req, kind: "msg"}, retK("ROk")
					eN[lhsName(s.Lhs[0])], eN[lhsName(s.Lhs[1])] = hv{kind: "undef"}, retK("ROther")
					return fmt.Sprintf("match new_request %s %s %s %s %s %s with\n  | None => %s\n  | Some %s => %s\n  end",
						a(0, "N"), a(1, "bool"), a(2, "bool"), a(3, "voucher"), a(4, "N"), a(5, "N"), rest(eN), req, rest(eS))
				}
				if _, ok := msgCtors[callee]; ok && len(s.Lhs) == 2 { // x, err := message.F(...)
					e2 := env.copy()
					e2[lhsName(s.Lhs[0])], e2[lhsName(s.Lhs[1])] = h.expr(r, env), retK("ROk")
					return rest(e2)
				}
				if callee == "message.ValidationResultResponse" && len(s.Lhs) == 2 && len(r.Args) == 5 {
					mt, tid, vr, er, pz := h.expr(r.Args[0], env), h.expr(r.Args[1], env), h.expr(r.Args[2], env), h.expr(r.Args[3], env), h.expr(r.Args[4], env)
					if mt.kind != "msgtype" || tid.kind != "N" || vr.kind != "valres" || pz.kind != "bool" || (er.kind != "ret" && er.kind != "nil") {
						h.refuse(r, "ValidationResultResponse called with %s, %s, %s, %s, %s", mt.kind, tid.kind, vr.kind, er.kind, pz.kind)
					}
					eb := "false"
					if er.kind == "ret" {
						switch {
						case er.konst != "":
							if er.konst != "ROk" {
								eb = "true"
							}
						case er.okflag != "":
							eb = "negb " + paren(er.okflag)
						default:
							eb = "negb (ret_ok " + paren(er.coq) + ")"
						}
					}
					e2 := env.copy()
					e2[lhsName(s.Lhs[0])] = hv{coq: fmt.Sprintf("validation_result_response %s %s %s (%s) %s", mt.coq, paren(tid.coq), paren(vr.coq), eb, paren(pz.coq)), kind: "msg"}
					e2[lhsName(s.Lhs[1])] = retK("ROk")
					return rest(e2)
				}
				if (callee == "fmt.Errorf" || callee == "errors.New") && len(s.Lhs) == 1 {
					e2 := env.copy()
					e2[lhsName(s.Lhs[0])] = retK("ROther")
					return rest(e2)
				}
				if sel, ok := r.Fun.(*ast.SelectorExpr); ok && len(s.Lhs) == 2 && len(r.Args) == 0 {
					// node, err := msg.Voucher() / VoucherResult() / Selector() / TypedVoucher(): an error iff the
					// message does not carry that node
					if b := h.exprMaybe(sel.X, env); b.kind == "msg" {
						m := paren(b.coq)
						var val hv
						field := "g_vnode"
						switch sel.Sel.Name {
						case "Voucher", "VoucherResult":
							val = hv{coq: "g_vnode " + m, kind: "node"}
						case "Selector":
							field = "g_selector"
							val = hv{coq: "g_selector " + m, kind: "node"}
						case "RestartChannelId":
							e2 := env.copy()
							e2[lhsName(s.Lhs[0])] = hv{coq: "g_restart " + m, kind: "chid"}
							e2[lhsName(s.Lhs[1])] = retOk("is_restart_existing "+m, "ROther")
							return rest(e2)
						case "TypedVoucher":
							val = hv{coq: fmt.Sprintf("{| v_type := g_vtype %s; v_node := g_vnode %s |}", m, m), kind: "voucher"}
						}
						if val.kind != "" {
							e2 := env.copy()
							e2[lhsName(s.Lhs[0])] = val
							e2[lhsName(s.Lhs[1])] = retOk(fmt.Sprintf("negb (N.eqb (%s %s) 0)", field, m), "ROther")
							return rest(e2)
						}
					}
				}
			case *ast.TypeAssertExpr:
				if exprString(r.X) == "m.transport" && len(s.Lhs) == 2 {
					e2 := env.copy()
					e2[lhsName(s.Lhs[0])], e2[lhsName(s.Lhs[1])] = hv{kind: "opaque"}, boolK(true)
					return rest(e2)
				}
				if len(s.Lhs) == 1 {
					e2 := env.copy()
					e2[lhsName(s.Lhs[0])] = hv{kind: "opaque"}
					return rest(e2)
				}
			}
			if len(s.Lhs) == 1 { // x := pure expression
				e2 := env.copy()
				e2[lhsName(s.Lhs[0])] = h.expr(s.Rhs[0], env)
				return rest(e2)
			}
		}
	case *ast.ReturnStmt:
		return h.ret(s, env)
	case *ast.IfStmt:
		return h.ifStmt(s, list[1:], env, tail)
	case *ast.SwitchStmt:
		return h.switchStmt(s, list[1:], env, tail)
	}
	h.refuse(list[0], "statement outside the translated subset")
	return ""
}

func (h *hctx) ifStmt(s *ast.IfStmt, after []ast.Stmt, env henv, tail tailFn) string {
	rest := func(e henv) string { return h.seq(after, e, tail) }
	if onlyIgnorable([]ast.Stmt{s}) {
		return rest(env)
	}
	if s.Init != nil {
		// `if err := CALL; cond {..}`: names defined by the init are local to the statement
		inner := &ast.IfStmt{If: s.If, Cond: s.Cond, Body: s.Body, Else: s.Else}
		saved := env
		return h.seq([]ast.Stmt{s.Init, inner}, env.copy(), func(e henv) string {
			e2 := e.copy()
			if as, ok := s.Init.(*ast.AssignStmt); ok && as.Tok == token.DEFINE {
				for _, l := range as.Lhs {
					if nm := lhsName(l); nm != "" {
						if old, ok := saved[nm]; ok {
							e2[nm] = old
						} else {
							delete(e2, nm)
						}
					}
				}
			}
			return rest(e2)
		})
	}
	if be, ok := s.Cond.(*ast.BinaryExpr); ok && (be.Op == token.NEQ || be.Op == token.EQL) && exprString(be.Y) == "nil" {
		if nm := lhsName(be.X); nm != "" {
			if v, ok := env[nm]; ok && v.kind == "ochanmsg" {
				if s.Else != nil || !terminates(s.Body.List) || be.Op != token.EQL {
					h.refuse(s, "only `if x == nil { ...return }` is supported for this value")
				}
				cm := h.gensym("cm")
				eS := env.copy()
				first := true
				for k2, v2 := range env {
					if v2.kind == "ochanmsg" && v2.coq == v.coq {
						_ = k2
					}
				}
				// the two variables bound to the packed value: the channel state first, the response second
				names := h.packedNames[v.coq]
				if len(names) != 2 {
					h.refuse(s, "cannot tell which variables hold the channel state and the response")
				}
				_ = first
				eS[names[0]] = hv{coq: "(fst " + cm + ")", kind: "chan"}
				eS[names[1]] = hv{coq: "(snd " + cm + ")", kind: "msg"}
				return fmt.Sprintf("match %s with\n  | None => %s\n  | Some %s => %s\n  end", v.coq, h.seq(s.Body.List, env.copy(), tail), cm, h.seq(after, eS, tail))
			}
			if v, ok := env[nm]; ok && v.kind == "omsg" {
				var elseList []ast.Stmt
				if s.Else != nil {
					if eb, ok := s.Else.(*ast.BlockStmt); ok {
						elseList = eb.List
					} else {
						h.refuse(s, "else-if after a nil test of a message")
					}
				}
				someList, noneList := s.Body.List, elseList
				if be.Op == token.EQL {
					someList, noneList = elseList, s.Body.List
				}
				mv := h.gensym("m")
				eS, eN := env.copy(), env.copy()
				eS[nm] = hv{coq: mv, kind: "msg"}
				eN[nm] = hv{kind: "nil"}
				cont := func(l []ast.Stmt, e henv) string {
					if terminates(l) {
						return h.seq(l, e, tail)
					}
					return h.seq(append(append([]ast.Stmt{}, l...), after...), e, tail)
				}
				return fmt.Sprintf("match %s with\n  | Some %s => %s\n  | None => %s\n  end", v.coq, mv, cont(someList, eS), cont(noneList, eN))
			}
		}
	}
	cond := h.expr(s.Cond, env)
	if cond.kind == "opaquebool" || cond.kind == "opaque" {
		if s.Else == nil && onlyIgnorable(s.Body.List) {
			return rest(env)
		}
		h.refuse(s, "a condition on a value the model does not contain guards statements that matter")
	}
	if cond.kind != "bool" {
		h.refuse(s.Cond, "non-boolean condition (%s)", cond.kind)
	}
	// what the test tells about an error variable
	envT, envF := env.copy(), env.copy()
	if be, ok := s.Cond.(*ast.BinaryExpr); ok && (be.Op == token.NEQ || be.Op == token.EQL) {
		if nm := lhsName(be.X); nm != "" && exprString(be.Y) == "nil" {
			if v, ok := env[nm]; ok && v.kind == "ret" && v.konst == "" {
				nonNil, isNil := envT, envF
				if be.Op == token.EQL {
					nonNil, isNil = envF, envT
				}
				isNil[nm] = retK("ROk")
				if v.okflag != "" {
					nonNil[nm] = retK(v.failc)
				}
			}
		}
		if nm := lhsName(be.X); nm != "" && be.Op == token.EQL {
			if v, ok := env[nm]; ok && v.kind == "ret" {
				if y := h.expr(be.Y, env); y.kind == "ret" && y.konst != "" {
					envT[nm] = retK(y.konst)
				}
			}
		}
	}
	var elseList []ast.Stmt
	hasElse := false
	if s.Else != nil {
		hasElse = true
		switch e := s.Else.(type) {
		case *ast.BlockStmt:
			elseList = e.List
		case *ast.IfStmt:
			elseList = []ast.Stmt{e}
		}
	}
	thenTerm, elseTerm := terminates(s.Body.List), hasElse && terminates(elseList)
	switch {
	case thenTerm && !hasElse:
		return h.ifThenElse(cond, func() string { return h.seq(s.Body.List, envT, tail) }, func() string { return rest(envF) })
	case thenTerm && elseTerm:
		return h.ifThenElse(cond, func() string { return h.seq(s.Body.List, envT, tail) }, func() string { return h.seq(elseList, envF, tail) })
	case thenTerm && hasElse:
		return h.ifThenElse(cond, func() string { return h.seq(s.Body.List, envT, tail) }, func() string { return h.seq(append(append([]ast.Stmt{}, elseList...), after...), envF, tail) })
	case !thenTerm && elseTerm:
		return h.ifThenElse(cond, func() string { return h.seq(append(append([]ast.Stmt{}, s.Body.List...), after...), envT, tail) }, func() string { return h.seq(elseList, envF, tail) })
	}
	// neither side returns: both continue with the statements after the if.  When both sides only assign
	// pure values the assignments are merged; otherwise the rest is duplicated into both branches.
	if cond.static != nil {
		if *cond.static {
			return h.seq(append(append([]ast.Stmt{}, s.Body.List...), after...), envT, tail)
		}
		return h.seq(append(append([]ast.Stmt{}, elseList...), after...), envF, tail)
	}
	if mT, okT := h.pureAssigns(s.Body.List, envT); okT {
		if mF, okF := h.pureAssigns(elseList, envF); okF {
			e2 := env.copy()
			names := map[string]bool{}
			for k := range mT {
				names[k] = true
			}
			for k := range mF {
				names[k] = true
			}
			for k := range names {
				a, okA := mT[k]
				b, okB := mF[k]
				if !okA {
					a = env[k]
				}
				if !okB {
					b = env[k]
				}
				e2[k] = h.merge(cond, a, b, s)
			}
			return rest(e2)
		}
	}
	return h.ifThenElse(cond, func() string { return h.seq(append(append([]ast.Stmt{}, s.Body.List...), after...), envT, tail) },
		func() string { return h.seq(append(append([]ast.Stmt{}, elseList...), after...), envF, tail) })
}

func (h *hctx) merge(cond, a, b hv, at ast.Node) hv {
	if a.kind == "ret" && b.kind == "ret" && a.konst != "" && a.konst == b.konst {
		return a
	}
	if a.kind == "nil" && b.kind == "msg" {
		return hv{coq: fmt.Sprintf("(if %s then None else Some %s)", cond.coq, paren(b.coq)), kind: "omsg"}
	}
	if a.kind == "msg" && b.kind == "nil" {
		return hv{coq: fmt.Sprintf("(if %s then Some %s else None)", cond.coq, paren(a.coq)), kind: "omsg"}
	}
	if a.kind != b.kind {
		h.refuse(at, "the two branches give a %s and a %s to the same variable", a.kind, b.kind)
	}
	return hv{coq: fmt.Sprintf("(if %s then %s else %s)", cond.coq, a.coq, b.coq), kind: a.kind}
}

// pureAssigns: the block consists of assignments of pure values only (and ignorable statements)
func (h *hctx) pureAssigns(list []ast.Stmt, env henv) (map[string]hv, bool) {
	out := map[string]hv{}
	e := env.copy()
	for _, s := range list {
		if onlyIgnorable([]ast.Stmt{s}) {
			continue
		}
		as, ok := s.(*ast.AssignStmt)
		if !ok || len(as.Rhs) != 1 {
			return nil, false
		}
		if c, ok := as.Rhs[0].(*ast.CallExpr); ok {
			if _, isEff := h.effectProbe(c); isEff {
				return nil, false
			}
			if _, ok := msgCtors[calleeString(c)]; ok && len(as.Lhs) == 2 {
				v := h.expr(c, e)
				out[lhsName(as.Lhs[0])], e[lhsName(as.Lhs[0])] = v, v
				out[lhsName(as.Lhs[1])], e[lhsName(as.Lhs[1])] = retK("ROk"), retK("ROk")
				continue
			}
		}
		if len(as.Lhs) != 1 {
			return nil, false
		}
		v := h.expr(as.Rhs[0], e)
		out[lhsName(as.Lhs[0])], e[lhsName(as.Lhs[0])] = v, v
	}
	return out, true
}

func (h *hctx) effectProbe(c *ast.CallExpr) (string, bool) {
	callee := calleeString(c)
	if strings.HasPrefix(callee, "m.channels.") || strings.HasPrefix(callee, "m.dataTransferNetwork.") || strings.HasPrefix(callee, "m.transport.") ||
		strings.HasPrefix(callee, "pausable.") || callee == "m.OnRequestDisconnected" || callee == "m.validateRestart" || strings.HasPrefix(callee, "m.validatedTypes.") || strings.HasPrefix(callee, "validator.") {
		return callee, true
	}
	_, ok := hProgSiblings[callee]
	return callee, ok
}

func (h *hctx) switchStmt(s *ast.SwitchStmt, after []ast.Stmt, env henv, tail tailFn) string {
	if s.Init != nil || s.Tag == nil {
		h.refuse(s, "switch outside the subset")
	}
	tag := h.expr(s.Tag, env)
	if tag.kind != "ctype" {
		h.refuse(s, "switch on a %s", tag.kind)
	}
	cont := func(l []ast.Stmt) string {
		if terminates(l) {
			return h.seq(l, env.copy(), tail)
		}
		return h.seq(append(append([]ast.Stmt{}, l...), after...), env.copy(), tail)
	}
	seen := map[string]bool{}
	var arms []string
	deflt := ""
	for _, cc := range s.Body.List {
		cl := cc.(*ast.CaseClause)
		if len(cl.List) == 0 {
			deflt = cont(cl.Body)
			continue
		}
		if len(cl.List) != 1 {
			h.refuse(cl, "every case must name one constant")
		}
		v := h.expr(cl.List[0], env)
		if v.kind != "ctype" || seen[v.coq] {
			h.refuse(cl, "case label outside the subset")
		}
		seen[v.coq] = true
		arms = append(arms, fmt.Sprintf("  | %s => %s", v.coq, cont(cl.Body)))
	}
	if len(seen) != len(h.ctypes) {
		if deflt == "" {
			deflt = h.seq(after, env, tail)
		}
		arms = append(arms, "  | _ => "+deflt)
	}
	return fmt.Sprintf("match %s with\n%s\n  end", tag.coq, strings.Join(arms, "\n"))
}

func (h *hctx) withPending(value string, isProg bool) string {
	if h.fn.pure {
		return value
	}
	if len(h.pending) == 0 {
		if isProg {
			return value
		}
		return "Ret " + paren(value)
	}
	p := strings.Join(h.pending, " ;;;\n  ")
	if isProg {
		return fmt.Sprintf("rfinal <- %s ;;\n  %s ;;;\n  Ret rfinal", value, p)
	}
	return fmt.Sprintf("%s ;;;\n  Ret %s", p, paren(value))
}

func (h *hctx) ret(s *ast.ReturnStmt, env henv) string {
	if len(h.fn.results) == 0 {
		if len(s.Results) != 0 {
			h.refuse(s, "a result is returned by a function without results")
		}
		return h.withPending("tt", false)
	}
	if len(s.Results) != len(h.fn.results) && len(s.Results) != 1 {
		h.refuse(s, "%d results returned, %d expected", len(s.Results), len(h.fn.results))
	}
	// a single effectful call in tail position
	if len(s.Results) == 1 && len(h.fn.results) == 1 {
		if c, ok := s.Results[0].(*ast.CallExpr); ok {
			if ef, ok := h.effect(c, env); ok {
				if ef.getByID || len(ef.results) != 1 {
					h.refuse(s, "this call cannot be returned directly")
				}
				if ef.results[0].coq == ef.binder { // the program's own answer
					return h.withPending(ef.prog, true)
				}
				return bindP(ef.prog, ef.binder, h.withPending(ef.results[0].coq, false))
			}
		}
	}
	if h.fn.packPair {
		if len(s.Results) != 3 {
			h.refuse(s, "three results expected")
		}
		a, b, e := h.expr(s.Results[0], env), h.expr(s.Results[1], env), h.expr(s.Results[2], env)
		if e.kind == "nil" {
			e = retK("ROk")
		}
		if e.kind != "ret" {
			h.refuse(s, "the third result is a %s", e.kind)
		}
		switch {
		case a.kind == "nil" && b.kind == "nil":
			return h.withPending("(None, "+e.coq+")", false)
		case a.kind == "chan" && b.kind == "msg":
			return h.withPending(fmt.Sprintf("(Some (%s, %s), %s)", a.coq, b.coq, e.coq), false)
		}
		h.refuse(s, "channel state and response must be both nil or both present (found %s, %s)", a.kind, b.kind)
	}
	if len(s.Results) == 1 && len(h.fn.results) > 1 {
		if c, ok := s.Results[0].(*ast.CallExpr); ok {
			if ef, ok := h.effect(c, env); ok && !ef.getByID && len(ef.results) == len(h.fn.results) {
				var ps []string
				for i, v := range ef.results {
					if v.kind != h.fn.results[i] {
						h.refuse(s, "result %d of the call is a %s, expected %s", i+1, v.kind, h.fn.results[i])
					}
					ps = append(ps, v.coq)
				}
				return bindP(ef.prog, ef.binder, h.withPending("("+strings.Join(ps, ", ")+")", false))
			}
		}
	}
	var parts []string
	type pre struct{ prog, binder string }
	var pres []pre
	for i, r := range s.Results {
		var v hv
		if c, ok := r.(*ast.CallExpr); ok && !isIgnoredCall(c) {
			if ef, ok := h.effect(c, env); ok {
				if ef.getByID || len(ef.results) != 1 {
					h.refuse(r, "this call cannot be used as a result")
				}
				pres = append(pres, pre{ef.prog, ef.binder})
				v = ef.results[0]
			}
		}
		if v.kind == "" {
			v = h.expr(r, env)
		}
		want := h.fn.results[i]
		switch {
		case want == "ret" && v.kind == "nil":
			parts = append(parts, "ROk")
		case want == "omsg" && v.kind == "nil":
			parts = append(parts, "None")
		case want == "omsg" && v.kind == "msg":
			parts = append(parts, "Some "+paren(v.coq))
		case want == v.kind:
			parts = append(parts, v.coq)
		default:
			h.refuse(r, "returns a %s where a %s is expected", v.kind, want)
		}
	}
	val := parts[0]
	if len(parts) > 1 {
		val = "(" + strings.Join(parts, ", ") + ")"
	}
	body := h.withPending(val, false)
	for i := len(pres) - 1; i >= 0; i-- {
		body = bindP(pres[i].prog, pres[i].binder, body)
	}
	return body
}

// ---------- the event methods of channels.go ----------

func channelEventMethods(f *ast.File, events map[string]bool) map[string]chEvent {
	out := map[string]chEvent{}
	for _, d := range f.Decls {
		fd, ok := d.(*ast.FuncDecl)
		if !ok || fd.Recv == nil || fd.Body == nil {
			continue
		}
		sendOf := func(e ast.Expr) (string, int, bool) {
			c, ok := e.(*ast.CallExpr)
			if !ok || exprString(c.Fun) != "c.send" || len(c.Args) < 2 || exprString(c.Args[0]) != "chid" {
				return "", 0, false
			}
			_, ev, ok := selName(c.Args[1])
			if !ok || !events[ev] {
				return "", 0, false
			}
			return ev, len(c.Args) - 2, true
		}
		argKind := func(n int) string {
			if n == 0 {
				return "none"
			}
			ps := fd.Type.Params.List
			last := ps[len(ps)-1]
			switch exprString(last.Type) {
			case "error":
				return "err"
			case "datatransfer.TypedVoucher":
				return "voucher"
			case "bool":
				return "bool"
			case "uint64":
				return "u64"
			}
			return "?"
		}
		l := fd.Body.List
		if len(l) == 1 {
			if rs, ok := l[0].(*ast.ReturnStmt); ok && len(rs.Results) == 1 {
				if ev, n, ok := sendOf(rs.Results[0]); ok {
					out[fd.Name.Name] = chEvent{event: ev, arg: argKind(n)}
				}
			}
		}
		// Cancel: err := c.send(chid, Cancel); if errors.Is(err, statemachine.ErrTerminated) { return nil }; return err
		if len(l) == 3 {
			as, ok1 := l[0].(*ast.AssignStmt)
			is, ok2 := l[1].(*ast.IfStmt)
			rs, ok3 := l[2].(*ast.ReturnStmt)
			if ok1 && ok2 && ok3 && len(as.Rhs) == 1 && len(rs.Results) == 1 && exprString(rs.Results[0]) == "err" &&
				exprString(is.Cond) == "errors.Is(err, statemachine.ErrTerminated)" && is.Else == nil {
				if r, ok := singleReturn(is.Body); ok && exprString(r) == "nil" {
					if ev, n, ok := sendOf(as.Rhs[0]); ok && n == 0 {
						out[fd.Name.Name] = chEvent{event: ev, arg: "none", swallow: true}
					}
				}
			}
		}
	}
	return out
}

// ---------- driver ----------

func genHandlers(repo, out string, events map[string]bool) {
	chf := parseFile(filepath.Join(repo, "channels/channels.go"))
	evm := channelEventMethods(chf, events)
	rf := parseFile(filepath.Join(repo, "impl/restart.go"))
	ctypeNames := iotaEnum(rf, "ChannelDataTransferType")
	ctypes := map[string]bool{}
	for _, n := range ctypeNames {
		ctypes[n] = true
	}
	self := hv{coq: "self", kind: "N"}
	kP := func(name string) map[string]hv { return map[string]hv{"#self": self, name: {coq: "k", kind: "chid"}} }
	cP := func(name string) map[string]hv { return map[string]hv{"#self": self, name: {coq: "c", kind: "chan"}} }
	funcs := []*hFunc{
		{file: "impl/utils.go", recv: "manager", name: "resumeMessage", coqName: "gen_resumeMessage", binders: "(self : N) (k : chid)", params: kP("chid"), results: []string{"msg"}, pure: true, resultType: "msg"},
		{file: "impl/utils.go", recv: "manager", name: "pauseMessage", coqName: "gen_pauseMessage", binders: "(self : N) (k : chid)", params: kP("chid"), results: []string{"msg"}, pure: true, resultType: "msg"},
		{file: "impl/utils.go", recv: "manager", name: "cancelMessage", coqName: "gen_cancelMessage", binders: "(self : N) (k : chid)", params: kP("chid"), results: []string{"msg"}, pure: true, resultType: "msg"},
		{file: "impl/utils.go", recv: "manager", name: "resume", coqName: "gen_resume", binders: "(self : N) (k : chid)", params: kP("chid"), results: []string{"ret"}, resultType: "prog nret"},
		{file: "impl/utils.go", recv: "manager", name: "pause", coqName: "gen_pause", binders: "(self : N) (k : chid)", params: kP("chid"), results: []string{"ret"}, resultType: "prog nret"},
		{file: "impl/utils.go", recv: "manager", name: "resumeOther", coqName: "gen_resumeOther", binders: "(self : N) (k : chid)", params: kP("chid"), results: []string{"ret"}, resultType: "prog nret"},
		{file: "impl/utils.go", recv: "manager", name: "pauseOther", coqName: "gen_pauseOther", binders: "(self : N) (k : chid)", params: kP("chid"), results: []string{"ret"}, resultType: "prog nret"},
		{file: "impl/impl.go", recv: "manager", name: "channelDataTransferType", coqName: "gen_channelDataTransferType", binders: "(self : N) (c : chan)", params: cP("channel"), results: []string{"ctype"}, pure: true, resultType: "ChannelDataTransferType"},
		{file: "impl/receiving_requests.go", recv: "manager", name: "validateRestart", coqName: "gen_validateRestart", binders: "(c : chan)", params: cP("chst"), results: []string{"valres", "ret"}, resultType: "prog (valres * nret)"},
		{file: "impl/receiving_requests.go", recv: "manager", name: "recordRejectedValidationEvents", coqName: "gen_recordRejectedValidationEvents", binders: "(k : chid) (vr : valres)",
			params: map[string]hv{"#self": self, "chid": {coq: "k", kind: "chid"}, "result": {coq: "vr", kind: "valres"}}, results: []string{"ret"}, resultType: "prog nret"},
		{file: "impl/receiving_requests.go", recv: "manager", name: "recordAcceptedValidationEvents", coqName: "gen_recordAcceptedValidationEvents", binders: "(c : chan) (vr : valres)",
			params: map[string]hv{"#self": self, "chst": {coq: "c", kind: "chan"}, "result": {coq: "vr", kind: "valres"}}, results: []string{"ret"}, resultType: "prog nret"},
		{file: "impl/restart.go", recv: "manager", name: "restartManagerPeerReceivePush", coqName: "gen_restartManagerPeerReceivePush", binders: "(c : chan)", params: cP("channel"), results: []string{"ret"}, resultType: "prog nret"},
		{file: "impl/restart.go", recv: "manager", name: "restartManagerPeerReceivePull", coqName: "gen_restartManagerPeerReceivePull", binders: "(c : chan)", params: cP("channel"), results: []string{"ret"}, resultType: "prog nret"},
		{file: "impl/restart.go", recv: "manager", name: "openPushRestartChannel", coqName: "gen_openPushRestartChannel", binders: "(c : chan)", params: cP("channel"), results: []string{"ret"}, resultType: "prog nret"},
		{file: "impl/restart.go", recv: "manager", name: "openPullRestartChannel", coqName: "gen_openPullRestartChannel", binders: "(c : chan)", params: cP("channel"), results: []string{"ret"}, resultType: "prog nret"},
		{file: "impl/restart.go", recv: "manager", name: "validateRestartRequest", coqName: "gen_validateRestartRequest", binders: "(from : N) (k : chid) (m : msg)",
			params: map[string]hv{"#self": self, "otherPeer": {coq: "from", kind: "N"}, "chid": {coq: "k", kind: "chid"}, "req": {coq: "m", kind: "msg"}}, results: []string{"ret"}, resultType: "prog nret"},
		{file: "impl/impl.go", recv: "manager", name: "SendVoucher", coqName: "gen_SendVoucher", binders: "(self : N) (k : chid) (v : voucher)",
			params: map[string]hv{"#self": self, "channelID": {coq: "k", kind: "chid"}, "voucher": {coq: "v", kind: "voucher"}}, results: []string{"ret"}, resultType: "prog nret"},
		{file: "impl/impl.go", recv: "manager", name: "SendVoucherResult", coqName: "gen_SendVoucherResult", binders: "(self : N) (k : chid) (v : voucher)",
			params: map[string]hv{"#self": self, "channelID": {coq: "k", kind: "chid"}, "voucherResult": {coq: "v", kind: "voucher"}}, results: []string{"ret"}, resultType: "prog nret"},
		{file: "impl/impl.go", recv: "manager", name: "CloseDataTransferChannel", coqName: "gen_CloseDataTransferChannel", binders: "(self : N) (k : chid)", params: kP("chid"), results: []string{"ret"}, resultType: "prog nret"},
		{file: "impl/impl.go", recv: "manager", name: "CloseDataTransferChannelWithError", coqName: "gen_CloseDataTransferChannelWithError", binders: "(self : N) (k : chid)",
			params: map[string]hv{"#self": self, "chid": {coq: "k", kind: "chid"}, "cherr": retK("ROther")}, results: []string{"ret"}, resultType: "prog nret"},
		{file: "impl/impl.go", recv: "manager", name: "PauseDataTransferChannel", coqName: "gen_PauseDataTransferChannel", binders: "(self : N) (k : chid)", params: kP("chid"), results: []string{"ret"}, resultType: "prog nret"},
		{file: "impl/impl.go", recv: "manager", name: "ResumeDataTransferChannel", coqName: "gen_ResumeDataTransferChannel", binders: "(self : N) (k : chid)", params: kP("chid"), results: []string{"ret"}, resultType: "prog nret"},
		{file: "impl/impl.go", recv: "manager", name: "RestartDataTransferChannel", coqName: "gen_RestartDataTransferChannel", binders: "(self : N) (k : chid)", params: kP("chid"), results: []string{"ret"}, resultType: "prog nret"},
		{file: "impl/events.go", recv: "manager", name: "OnChannelOpened", coqName: "gen_OnChannelOpened", binders: "(k : chid)", params: kP("chid"), results: []string{"ret"}, resultType: "prog nret"},
		{file: "impl/events.go", recv: "manager", name: "OnChannelCompleted", coqName: "gen_OnChannelCompleted", binders: "(self : N) (k : chid) (failed : bool)",
			params: map[string]hv{"#self": self, "chid": {coq: "k", kind: "chid"}, "completeErr": retOk("negb failed", "ROther")}, results: []string{"ret"}, resultType: "prog nret"},
		{file: "impl/events.go", recv: "manager", name: "OnResponseReceived", coqName: "gen_OnResponseReceived", binders: "(self : N) (k : chid) (m : msg)",
			params: map[string]hv{"#self": self, "chid": {coq: "k", kind: "chid"}, "response": {coq: "m", kind: "msg"}}, results: []string{"ret"}, resultType: "prog nret"},
		{file: "impl/events.go", recv: "manager", name: "OnDataReceived", coqName: "gen_OnDataReceived", binders: "(k : chid) (size : N) (index : Z) (unique : bool)",
			params: map[string]hv{"#self": self, "chid": {coq: "k", kind: "chid"}, "link": {kind: "opaque"}, "size": {coq: "size", kind: "N"}, "index": {coq: "index", kind: "Z"}, "unique": {coq: "unique", kind: "bool"}}, results: []string{"ret"}, resultType: "prog nret"},
		{file: "impl/events.go", recv: "manager", name: "OnDataQueued", coqName: "gen_OnDataQueued", binders: "(k : chid) (size : N) (index : Z) (unique : bool)",
			params: map[string]hv{"#self": self, "chid": {coq: "k", kind: "chid"}, "link": {kind: "opaque"}, "size": {coq: "size", kind: "N"}, "index": {coq: "index", kind: "Z"}, "unique": {coq: "unique", kind: "bool"}}, results: []string{"omsg", "ret"}, resultType: "prog (option msg * nret)"},
		{file: "impl/events.go", recv: "manager", name: "OnDataSent", coqName: "gen_OnDataSent", binders: "(k : chid) (size : N) (index : Z) (unique : bool)",
			params: map[string]hv{"#self": self, "chid": {coq: "k", kind: "chid"}, "link": {kind: "opaque"}, "size": {coq: "size", kind: "N"}, "index": {coq: "index", kind: "Z"}, "unique": {coq: "unique", kind: "bool"}}, results: []string{"ret"}, resultType: "prog nret"},
		{file: "impl/events.go", recv: "manager", name: "OnRequestCancelled", coqName: "gen_OnRequestCancelled", binders: "(k : chid)", params: map[string]hv{"#self": self, "chid": {coq: "k", kind: "chid"}, "err": retK("ROther")}, results: []string{"ret"}, resultType: "prog nret"},
		{file: "impl/events.go", recv: "manager", name: "OnRequestDisconnected", coqName: "gen_OnRequestDisconnected", binders: "(k : chid)", params: map[string]hv{"#self": self, "chid": {coq: "k", kind: "chid"}, "err": retK("ROther")}, results: []string{"ret"}, resultType: "prog nret"},
		{file: "impl/events.go", recv: "manager", name: "OnSendDataError", coqName: "gen_OnSendDataError", binders: "(k : chid)", params: map[string]hv{"#self": self, "chid": {coq: "k", kind: "chid"}, "err": retK("ROther")}, results: []string{"ret"}, resultType: "prog nret"},
		{file: "impl/events.go", recv: "manager", name: "OnReceiveDataError", coqName: "gen_OnReceiveDataError", binders: "(k : chid)", params: map[string]hv{"#self": self, "chid": {coq: "k", kind: "chid"}, "err": retK("ROther")}, results: []string{"ret"}, resultType: "prog nret"},
		{file: "impl/receiving_requests.go", recv: "manager", name: "receiveUpdateRequest", coqName: "gen_receiveUpdateRequest", binders: "(self : N) (k : chid) (m : msg)",
			params: map[string]hv{"#self": self, "chid": {coq: "k", kind: "chid"}, "request": {coq: "m", kind: "msg"}}, results: []string{"omsg", "ret"}, resultType: "prog (option msg * nret)"},
		{file: "impl/receiving_requests.go", recv: "manager", name: "processUpdateVoucher", coqName: "gen_processUpdateVoucher", binders: "(k : chid) (m : msg)",
			params: map[string]hv{"#self": self, "chid": {coq: "k", kind: "chid"}, "request": {coq: "m", kind: "msg"}}, results: []string{"omsg", "ret"}, resultType: "prog (option msg * nret)"},
		{file: "impl/receiving_requests.go", recv: "manager", name: "acceptRequest", coqName: "gen_acceptRequest", binders: "(self : N) (k : chid) (m : msg)",
			params: map[string]hv{"#self": self, "chid": {coq: "k", kind: "chid"}, "incoming": {coq: "m", kind: "msg"}}, results: []string{"valres", "ret"}, resultType: "prog (valres * nret)"},
		{file: "impl/receiving_requests.go", recv: "manager", name: "restartRequest", coqName: "gen_restartRequest", binders: "(self : N) (k : chid) (m : msg)",
			params: map[string]hv{"#self": self, "chid": {coq: "k", kind: "chid"}, "incoming": {coq: "m", kind: "msg"}}, results: []string{"bool", "valres", "ret"}, resultType: "prog (bool * valres * nret)"},
		{file: "impl/receiving_requests.go", recv: "manager", name: "receiveNewRequest", coqName: "gen_receiveNewRequest", binders: "(self : N) (k : chid) (m : msg)",
			params: map[string]hv{"#self": self, "chid": {coq: "k", kind: "chid"}, "incoming": {coq: "m", kind: "msg"}}, results: []string{"omsg", "ret"}, resultType: "prog (option msg * nret)"},
		{file: "impl/receiving_requests.go", recv: "manager", name: "receiveRestartRequest", coqName: "gen_receiveRestartRequest", binders: "(self : N) (k : chid) (m : msg)",
			params: map[string]hv{"#self": self, "chid": {coq: "k", kind: "chid"}, "incoming": {coq: "m", kind: "msg"}}, results: []string{"omsg", "ret"}, resultType: "prog (option msg * nret)"},
		{file: "impl/events.go", recv: "manager", name: "OnRequestReceived", coqName: "gen_OnRequestReceived", binders: "(self : N) (k : chid) (m : msg)",
			params: map[string]hv{"#self": self, "chid": {coq: "k", kind: "chid"}, "request": {coq: "m", kind: "msg"}}, results: []string{"omsg", "ret"}, resultType: "prog (option msg * nret)"},
		{file: "impl/receiver.go", recv: "receiver", name: "receiveRequest", coqName: "gen_receiveRequest", binders: "(self : N) (from : N) (m : msg)",
			params: map[string]hv{"#self": self, "initiator": {coq: "from", kind: "N"}, "incoming": {coq: "m", kind: "msg"}}, results: []string{"ret"}, resultType: "prog nret"},
		{file: "impl/receiver.go", recv: "receiver", name: "receiveResponse", coqName: "gen_receiveResponse", binders: "(self : N) (from : N) (m : msg)",
			params: map[string]hv{"#self": self, "sender": {coq: "from", kind: "N"}, "incoming": {coq: "m", kind: "msg"}}, results: []string{"ret"}, resultType: "prog nret"},
		{file: "impl/receiver.go", recv: "receiver", name: "ReceiveRestartExistingChannelRequest", coqName: "gen_ReceiveRestartExistingChannelRequest", binders: "(self : N) (from : N) (m : msg)",
			params: map[string]hv{"#self": self, "sender": {coq: "from", kind: "N"}, "incoming": {coq: "m", kind: "msg"}}, results: []string{}, resultType: "prog unit"},
		{file: "impl/impl.go", recv: "manager", name: "processValidationUpdate", coqName: "gen_processValidationUpdate", binders: "(k : chid) (vr : valres)",
			params: map[string]hv{"#self": self, "chid": {coq: "k", kind: "chid"}, "result": {coq: "vr", kind: "valres"}}, results: []string{"ochan", "omsg", "ret"}, packPair: true, resultType: "prog (option (chan * msg) * nret)"},
		{file: "impl/impl.go", recv: "manager", name: "handleTransportUpdate", coqName: "gen_handleTransportUpdate", binders: "(c : chan) (resp : msg) (vr : valres) (rerr : nret)",
			params: map[string]hv{"#self": self, "chst": {coq: "c", kind: "chan"}, "response": {coq: "resp", kind: "msg"}, "result": {coq: "vr", kind: "valres"}, "resultErr": retVar("rerr")}, results: []string{"ret"}, resultType: "prog nret"},
		{file: "impl/impl.go", recv: "manager", name: "updateValidationStatus", coqName: "gen_updateValidationStatus", binders: "(self : N) (k : chid) (vr : valres)",
			params: map[string]hv{"#self": self, "chid": {coq: "k", kind: "chid"}, "result": {coq: "vr", kind: "valres"}}, results: []string{"ret"}, resultType: "prog nret"},
		{file: "impl/impl.go", recv: "manager", name: "UpdateValidationStatus", coqName: "gen_UpdateValidationStatus", binders: "(self : N) (k : chid) (vr : valres)",
			params: map[string]hv{"#self": self, "chid": {coq: "k", kind: "chid"}, "result": {coq: "vr", kind: "valres"}}, results: []string{"ret"}, resultType: "prog nret"},
		{file: "impl/impl.go", recv: "manager", name: "OpenPushDataChannel", coqName: "gen_OpenPushDataChannel", binders: "(self : N) (to : N) (v : voucher) (basecid selector : N)",
			params: map[string]hv{"#self": self, "requestTo": {coq: "to", kind: "N"}, "voucher": {coq: "v", kind: "voucher"}, "baseCid": {coq: "basecid", kind: "N"}, "selector": {coq: "selector", kind: "node"}, "options": {kind: "opaque"}},
			results: []string{"chid", "ret"}, resultType: "prog (chid * nret)"},
		{file: "impl/impl.go", recv: "manager", name: "OpenPullDataChannel", coqName: "gen_OpenPullDataChannel", binders: "(self : N) (to : N) (v : voucher) (basecid selector : N)",
			params: map[string]hv{"#self": self, "requestTo": {coq: "to", kind: "N"}, "voucher": {coq: "v", kind: "voucher"}, "baseCid": {coq: "basecid", kind: "N"}, "selector": {coq: "selector", kind: "node"}, "options": {kind: "opaque"}},
			results: []string{"chid", "ret"}, resultType: "prog (chid * nret)"},
	}
	var b strings.Builder
	b.WriteString("(* GENERATED by tools/dt2coq (handlers.go) from impl/utils.go, impl/restart.go, impl/impl.go, impl/events.go and the event\n   methods of channels/channels.go -- do not edit *)\n")
	b.WriteString("From Coq Require Import List NArith ZArith Bool String.\nFrom DT Require Import GenStatus GenEvent GenMsgType FsmTypes GenFsm Fsm Machine View Caches Msg Node.\nImport ListNotations.\nLocal Open Scope N_scope.\n\n")
	b.WriteString("(* impl/restart.go: ChannelDataTransferType *)\n")
	fmt.Fprintf(&b, "Inductive ChannelDataTransferType : Set := %s.\n", strings.Join(ctypeNames, " | "))
	b.WriteString("Definition ctype_code (t : ChannelDataTransferType) : N := match t with")
	for i, n := range ctypeNames {
		fmt.Fprintf(&b, " | %s => %d", n, i)
	}
	b.WriteString(" end.\nDefinition ctype_eqb (a b : ChannelDataTransferType) : bool := N.eqb (ctype_code a) (ctype_code b).\n\n")
	b.WriteString("(* the event methods of channels/channels.go: method -> event it sends *)\n")
	var names []string
	for n := range evm {
		names = append(names, n)
	}
	sort.Strings(names)
	b.WriteString("Definition gen_event_methods : list (string * EventCode * bool) := [\n")
	for i, n := range names {
		sep := ";"
		if i == len(names)-1 {
			sep = ""
		}
		sw := "false"
		if evm[n].swallow {
			sw = "true"
		}
		fmt.Fprintf(&b, "  (%s, %s, %s)%s\n", coqString(n), evm[n].event, sw, sep)
	}
	b.WriteString("]%string.\n\n")
	b.WriteString("Definition is_some_msg (o : option msg) : bool := match o with Some _ => true | None => false end.\n")
	b.WriteString("Definition nret_is (a b : nret) : bool := match a, b with ROk, ROk | RPause, RPause | RRejected, RRejected | RNotFound, RNotFound | RTerminated, RTerminated | ROther, ROther => true | _, _ => false end.\n")
	b.WriteString("Definition report_ret (x : sendres * bool) : nret := if snd x then RPause else ret_of_send (fst x).\n")
	b.WriteString("(* manager.requestError with the error as a value: the error itself when there is one *)\n")
	b.WriteString("Definition request_error_ret (vr : valres) (err : nret) (stay : bool) : nret := if negb (ret_ok err) then err else if negb (vr_accepted vr) then RRejected else if stay then RPause else ROk.\n\n")
	files := map[string]*ast.File{}
	for _, fn := range funcs {
		f, ok := files[fn.file]
		if !ok {
			f = parseFile(filepath.Join(repo, fn.file))
			files[fn.file] = f
		}
		fd := findMethod(f, fn.recv, fn.name)
		if fd == nil || fd.Body == nil {
			refuse(nil, "%s: method %s.%s not found", fn.file, fn.recv, fn.name)
		}
		h := &hctx{fn: fn, events: evm, ctypes: ctypes}
		env := henv{}
		for k, v := range fn.params {
			env[k] = v
		}
		// every Go parameter must be accounted for (bound, or a context / span-only value)
		for _, p := range fd.Type.Params.List {
			for _, n := range p.Names {
				if _, ok := env[n.Name]; !ok {
					t := exprString(p.Type)
					if t == "context.Context" {
						env[n.Name] = hv{kind: "opaque"}
						continue
					}
					refuse(p, "%s: parameter %s (%s) has no counterpart in the model", fn.name, n.Name, t)
				}
			}
		}
		body := h.seq(fd.Body.List, env, func(henv) string {
			if len(fn.results) == 0 {
				return h.withPending("tt", false)
			}
			refuse(fd, "%s: a path without a return", fn.name)
			return ""
		})
		fmt.Fprintf(&b, "(* %s: %s.%s *)\nDefinition %s %s : %s :=\n  %s.\n\n", fn.file, fn.recv, fn.name, fn.coqName, fn.binders, fn.resultType, body)
	}
	writeIfChanged(filepath.Join(out, "GenHandlers.v"), b.String())
}
