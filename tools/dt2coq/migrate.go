package main

import (
	"go/ast"
	"go/token"
	"path/filepath"
	"strings"
)

// Translation of channels/internal/migrations/migrations.go: the ChannelStateV2 struct becomes the
// record chan2, MigrateChannelState2To3 becomes the function migrate_2_3 : chan2 -> chan.
// Recognised shape of the function body:
//     name := <bool expr over old.Status == datatransfer.X, ||, &&>
//     name := old.Status
//     if <bool expr over name == datatransfer.X ...> { name = datatransfer.Y }
//     return &internal.ChannelState{ Field: old.Field | name, ... }, nil
// anything else is refused.

// Go field name -> (Coq field suffix, Coq type)
var fieldTable = map[string][2]string{
	"SelfPeer": {"self", "N"}, "TransferID": {"tid", "N"}, "Initiator": {"init", "N"}, "Responder": {"resp", "N"},
	"BaseCid": {"basecid", "N"}, "Selector": {"selector", "N"}, "Sender": {"sender", "N"}, "Recipient": {"recipient", "N"},
	"TotalSize": {"totalsize", "N"}, "Status": {"status", "Status"}, "Queued": {"queued", "N"}, "Sent": {"sent", "N"},
	"Received": {"received", "N"}, "Message": {"msg", "string"}, "Vouchers": {"vouchers", "list voucher"},
	"VoucherResults": {"results", "list voucher"}, "ReceivedBlocksTotal": {"rblocks", "Z"}, "QueuedBlocksTotal": {"qblocks", "Z"},
	"SentBlocksTotal": {"sblocks", "Z"}, "DataLimit": {"limit", "N"}, "RequiresFinalization": {"reqfin", "bool"},
	"ResponderPaused": {"rpaused", "bool"}, "InitiatorPaused": {"ipaused", "bool"}, "Stages": {"stages", "option (list stage)"},
}

// order of the fields of Fsm.chan (mkChan)
var chanOrder = []string{"SelfPeer", "TransferID", "Initiator", "Responder", "BaseCid", "Selector", "Sender", "Recipient", "TotalSize",
	"Status", "Queued", "Sent", "Received", "Message", "Vouchers", "VoucherResults", "ReceivedBlocksTotal", "QueuedBlocksTotal",
	"SentBlocksTotal", "DataLimit", "RequiresFinalization", "ResponderPaused", "InitiatorPaused", "Stages"}

func genMigrate(repo, out string, statuses map[string]bool) {
	f := parseFile(filepath.Join(repo, "channels/internal/migrations/migrations.go"))
	// ---- the v2 struct ----
	var v2 []string
	for _, d := range f.Decls {
		gd, ok := d.(*ast.GenDecl)
		if !ok || gd.Tok != token.TYPE {
			continue
		}
		for _, s := range gd.Specs {
			ts := s.(*ast.TypeSpec)
			if ts.Name.Name != "ChannelStateV2" {
				continue
			}
			st, ok := ts.Type.(*ast.StructType)
			if !ok {
				refuse(ts, "ChannelStateV2 is not a struct")
			}
			for _, fl := range st.Fields.List {
				for _, n := range fl.Names {
					if _, ok := fieldTable[n.Name]; !ok {
						refuse(fl, "ChannelStateV2: unknown field %s", n.Name)
					}
					v2 = append(v2, n.Name)
				}
			}
		}
	}
	if len(v2) == 0 {
		refuse(f, "type ChannelStateV2 not found")
	}
	isV2 := map[string]bool{}
	for _, n := range v2 {
		isV2[n] = true
	}
	// ---- the migration function ----
	var fn *ast.FuncDecl
	for _, d := range f.Decls {
		if fd, ok := d.(*ast.FuncDecl); ok && fd.Name.Name == "MigrateChannelState2To3" {
			fn = fd
		}
	}
	if fn == nil || fn.Type.Params == nil || len(fn.Type.Params.List) != 1 || len(fn.Type.Params.List[0].Names) != 1 {
		refuse(f, "MigrateChannelState2To3(old *ChannelStateV2) not found")
	}
	old := fn.Type.Params.List[0].Names[0].Name
	used := map[string]bool{}     // v2 fields the migration reads
	locals := map[string]string{} // local name -> Coq expression (over o)
	localType := map[string]string{}
	var expr func(e ast.Expr) (string, string)
	expr = func(e ast.Expr) (string, string) {
		switch x := e.(type) {
		case *ast.ParenExpr:
			return expr(x.X)
		case *ast.Ident:
			if v, ok := locals[x.Name]; ok {
				return "(" + v + ")", localType[x.Name]
			}
			if x.Name == "true" || x.Name == "false" {
				return x.Name, "bool"
			}
		case *ast.SelectorExpr:
			if id, ok := x.X.(*ast.Ident); ok {
				if id.Name == old {
					if !isV2[x.Sel.Name] {
						refuse(e, "migration reads unknown v2 field %s", x.Sel.Name)
					}
					ft := fieldTable[x.Sel.Name]
					used[x.Sel.Name] = true
					return "(c2_" + ft[0] + " o)", ft[1]
				}
				if id.Name == "datatransfer" && statuses[x.Sel.Name] {
					return x.Sel.Name, "Status"
				}
			}
		case *ast.BinaryExpr:
			a, ta := expr(x.X)
			b, tb := expr(x.Y)
			switch x.Op {
			case token.LOR, token.LAND:
				if ta != "bool" || tb != "bool" {
					refuse(e, "boolean operator on non-booleans")
				}
				op := "||"
				if x.Op == token.LAND {
					op = "&&"
				}
				return "(" + a + " " + op + " " + b + ")", "bool"
			case token.EQL, token.NEQ:
				if ta != "Status" || tb != "Status" {
					refuse(e, "only statuses may be compared in the migration")
				}
				r := "(status_eqb " + a + " " + b + ")"
				if x.Op == token.NEQ {
					r = "(negb " + r + ")"
				}
				return r, "bool"
			}
		}
		refuse(e, "migration: unrecognised expression")
		return "", ""
	}
	var lit *ast.CompositeLit
	for _, st := range fn.Body.List {
		switch s := st.(type) {
		case *ast.AssignStmt:
			if len(s.Lhs) != 1 || len(s.Rhs) != 1 || s.Tok != token.DEFINE {
				refuse(s, "migration: only `name := expr` definitions are recognised")
			}
			id, ok := s.Lhs[0].(*ast.Ident)
			if !ok {
				refuse(s, "migration: definition of a non-identifier")
			}
			v, t := expr(s.Rhs[0])
			locals[id.Name], localType[id.Name] = v, t
		case *ast.IfStmt:
			if s.Init != nil || s.Else != nil || len(s.Body.List) != 1 {
				refuse(s, "migration: only `if cond { name = value }` is recognised")
			}
			as, ok := s.Body.List[0].(*ast.AssignStmt)
			if !ok || as.Tok != token.ASSIGN || len(as.Lhs) != 1 || len(as.Rhs) != 1 {
				refuse(s, "migration: only `if cond { name = value }` is recognised")
			}
			id, ok := as.Lhs[0].(*ast.Ident)
			if !ok {
				refuse(s, "migration: assignment to a non-identifier")
			}
			if _, ok := locals[id.Name]; !ok {
				refuse(s, "migration: assignment to an undefined local")
			}
			c, tc := expr(s.Cond)
			v, tv := expr(as.Rhs[0])
			if tc != "bool" || tv != localType[id.Name] {
				refuse(s, "migration: ill-typed conditional assignment")
			}
			locals[id.Name] = "if " + c + " then " + v + " else " + locals[id.Name]
		case *ast.ReturnStmt:
			if len(s.Results) != 2 || !isIdent(s.Results[1], "nil") {
				refuse(s, "migration: expected `return &internal.ChannelState{...}, nil`")
			}
			ue, ok := s.Results[0].(*ast.UnaryExpr)
			if !ok || ue.Op != token.AND {
				refuse(s, "migration: expected a pointer to a composite literal")
			}
			lit, ok = ue.X.(*ast.CompositeLit)
			if !ok {
				refuse(s, "migration: expected a composite literal")
			}
			if _, n, ok := selName(lit.Type); !ok || n != "ChannelState" {
				refuse(s, "migration: expected internal.ChannelState")
			}
		default:
			refuse(st, "migration: unrecognised statement")
		}
	}
	if lit == nil {
		refuse(fn, "migration: no return statement")
	}
	assigned := map[string]string{}
	for _, el := range lit.Elts {
		kv, ok := el.(*ast.KeyValueExpr)
		if !ok {
			refuse(el, "migration: keyed fields expected")
		}
		k, ok := kv.Key.(*ast.Ident)
		if !ok {
			refuse(el, "migration: field name expected")
		}
		ft, ok := fieldTable[k.Name]
		if !ok {
			refuse(el, "migration: unknown ChannelState field %s", k.Name)
		}
		v, t := expr(kv.Value)
		if t != ft[1] {
			refuse(el, "migration: field %s has type %s, value has type %s", k.Name, ft[1], t)
		}
		if _, dup := assigned[k.Name]; dup {
			refuse(el, "migration: field %s assigned twice", k.Name)
		}
		assigned[k.Name] = v
	}
	// a field the literal omits keeps Go's zero value
	zero := map[string]string{"N": "0%N", "Z": "0%Z", "bool": "false", "string": "EmptyString", "list voucher": "[]", "option (list stage)": "None", "Status": "Requested"}
	var b strings.Builder
	b.WriteString("(* GENERATED by tools/dt2coq from channels/internal/migrations/migrations.go -- do not edit *)\n")
	b.WriteString("From Coq Require Import List NArith ZArith String Bool.\nFrom DT Require Import GenStatus FsmTypes Fsm.\nImport ListNotations.\n\n")
	b.WriteString("(* ChannelStateV2 *)\nRecord chan2 := mkChan2 {\n")
	for i, n := range v2 {
		ft := fieldTable[n]
		sep := ";"
		if i == len(v2)-1 {
			sep = ""
		}
		b.WriteString("  c2_" + ft[0] + " : " + ft[1] + sep + "\n")
	}
	b.WriteString("}.\n\n(* the fields of ChannelStateV2, in declaration order *)\nDefinition v2_fields : list string := [")
	for i, n := range v2 {
		if i > 0 {
			b.WriteString("; ")
		}
		b.WriteString(coqString(n))
	}
	b.WriteString("]%string.\n\n(* MigrateChannelState2To3 *)\nDefinition migrate_2_3 (o : chan2) : chan :=\n  mkChan\n")
	for _, n := range chanOrder {
		v, ok := assigned[n]
		if !ok {
			v = zero[fieldTable[n][1]]
		}
		b.WriteString("    " + v + "   (* " + n + " *)\n")
	}
	b.WriteString("  .\n\n(* fields of ChannelState the migration leaves at Go's zero value *)\nDefinition migrate_unassigned : list string := [")
	first := true
	for _, n := range chanOrder {
		if _, ok := assigned[n]; !ok {
			if !first {
				b.WriteString("; ")
			}
			first = false
			b.WriteString(coqString(n))
		}
	}
	b.WriteString("]%string.\n\n(* fields of ChannelStateV2 the migration never reads *)\nDefinition migrate_unread : list string := [")
	first = true
	for _, n := range v2 {
		if !used[n] {
			if !first {
				b.WriteString("; ")
			}
			first = false
			b.WriteString(coqString(n))
		}
	}
	b.WriteString("]%string.\n")
	writeIfChanged(filepath.Join(out, "GenMigrate.v"), b.String())
}
