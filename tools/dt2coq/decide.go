package main

import (
	"bytes"
	"fmt"
	"go/ast"
	"go/printer"
	"go/token"
	"path/filepath"
	"strings"
)

// Translation of the small pure decision functions the manager's behaviour hinges on:
//
//	manager.go                      ValidationResult.LeaveRequestPaused
//	impl/receiving_requests.go      manager.requestError
//	channels/channel_state.go       IsPull, InitiatorPaused, ResponderPaused, BothPaused, SelfPaused, OtherPeer
//
// Each becomes a Coq definition in GenDecide.v, built from the function's own statements; the
// hand-written model uses its own definitions (Node.leave_paused, Node.request_error, the views of
// Fsm.v) and proofs/DecideEq.v proves the two equal for all arguments.  Recognised statements:
// `if c { return e }`, `if c { return a } else { return b }`, `return e`, `var x T` followed by an
// if/else assigning x in both branches, `x := e`.  Recognised expressions: the atoms listed per
// function (selectors, method calls, whole comparisons with nil), literals true / false / 0 / nil,
// ! && || and the six comparisons between two atoms of the same kind.  Anything else is refused.

type dAtom struct {
	coq  string
	kind string // bool | N | status | ret
}

type dFunc struct {
	file, recvType, name string
	coqName, coqSig      string
	result               string // kind of the result
	atoms                map[string]dAtom
}

func exprString(e ast.Expr) string {
	var b bytes.Buffer
	_ = printer.Fprint(&b, token.NewFileSet(), e)
	return b.String()
}

type dCtx struct {
	fn   *dFunc
	vars map[string]dAtom // local variables: name -> coq expression
}

func (c *dCtx) atom(e ast.Expr) (dAtom, bool) {
	s := exprString(e)
	if a, ok := c.vars[s]; ok {
		return a, true
	}
	a, ok := c.fn.atoms[s]
	return a, ok
}

// expr translates an expression; want is the kind expected ("" = any)
func (c *dCtx) expr(e ast.Expr) dAtom {
	if a, ok := c.atom(e); ok {
		return a
	}
	switch x := e.(type) {
	case *ast.ParenExpr:
		return c.expr(x.X)
	case *ast.Ident:
		switch x.Name {
		case "true":
			return dAtom{"true", "bool"}
		case "false":
			return dAtom{"false", "bool"}
		}
	case *ast.BasicLit:
		if x.Kind == token.INT {
			return dAtom{x.Value + "%N", "N"}
		}
	case *ast.UnaryExpr:
		if x.Op == token.NOT {
			a := c.expr(x.X)
			if a.kind != "bool" {
				refuse(e, "%s: ! applied to a non-boolean", c.fn.name)
			}
			return dAtom{"negb (" + a.coq + ")", "bool"}
		}
	case *ast.BinaryExpr:
		switch x.Op {
		case token.LAND, token.LOR:
			a, b := c.expr(x.X), c.expr(x.Y)
			if a.kind != "bool" || b.kind != "bool" {
				refuse(e, "%s: && / || applied to a non-boolean", c.fn.name)
			}
			op := "&&"
			if x.Op == token.LOR {
				op = "||"
			}
			return dAtom{"((" + a.coq + ") " + op + " (" + b.coq + "))", "bool"}
		case token.EQL, token.NEQ, token.GEQ, token.GTR, token.LEQ, token.LSS:
			a, b := c.expr(x.X), c.expr(x.Y)
			if a.kind != b.kind {
				refuse(e, "%s: comparison between %s and %s", c.fn.name, a.kind, b.kind)
			}
			var t string
			switch a.kind {
			case "N":
				switch x.Op {
				case token.EQL:
					t = fmt.Sprintf("N.eqb (%s) (%s)", a.coq, b.coq)
				case token.NEQ:
					t = fmt.Sprintf("negb (N.eqb (%s) (%s))", a.coq, b.coq)
				case token.GEQ:
					t = fmt.Sprintf("N.leb (%s) (%s)", b.coq, a.coq)
				case token.GTR:
					t = fmt.Sprintf("N.ltb (%s) (%s)", b.coq, a.coq)
				case token.LEQ:
					t = fmt.Sprintf("N.leb (%s) (%s)", a.coq, b.coq)
				case token.LSS:
					t = fmt.Sprintf("N.ltb (%s) (%s)", a.coq, b.coq)
				}
			case "status":
				switch x.Op {
				case token.EQL:
					t = fmt.Sprintf("status_eqb (%s) (%s)", a.coq, b.coq)
				case token.NEQ:
					t = fmt.Sprintf("negb (status_eqb (%s) (%s))", a.coq, b.coq)
				}
			case "bool":
				switch x.Op {
				case token.EQL:
					t = fmt.Sprintf("Bool.eqb (%s) (%s)", a.coq, b.coq)
				case token.NEQ:
					t = fmt.Sprintf("negb (Bool.eqb (%s) (%s))", a.coq, b.coq)
				}
			}
			if t == "" {
				refuse(e, "%s: comparison %s not available for %s", c.fn.name, x.Op, a.kind)
			}
			return dAtom{t, "bool"}
		}
	}
	refuse(e, "%s: expression `%s` is outside the translated subset", c.fn.name, exprString(e))
	return dAtom{}
}

func singleReturn(b *ast.BlockStmt) (ast.Expr, bool) {
	if b == nil || len(b.List) != 1 {
		return nil, false
	}
	rs, ok := b.List[0].(*ast.ReturnStmt)
	if !ok || len(rs.Results) != 1 {
		return nil, false
	}
	return rs.Results[0], true
}

func singleAssign(b *ast.BlockStmt, name string) (ast.Expr, bool) {
	if b == nil || len(b.List) != 1 {
		return nil, false
	}
	as, ok := b.List[0].(*ast.AssignStmt)
	if !ok || as.Tok != token.ASSIGN || len(as.Lhs) != 1 || len(as.Rhs) != 1 || !isIdent(as.Lhs[0], name) {
		return nil, false
	}
	return as.Rhs[0], true
}

// stmts translates a statement list that ends in a return on every path
func (c *dCtx) stmts(list []ast.Stmt) string {
	if len(list) == 0 {
		refuse(nil, "%s: a path without a return", c.fn.name)
	}
	ret := func(e ast.Expr) string {
		a := c.expr(e)
		if a.kind != c.fn.result {
			refuse(e, "%s: returns a %s where a %s is expected", c.fn.name, a.kind, c.fn.result)
		}
		return a.coq
	}
	switch s := list[0].(type) {
	case *ast.ReturnStmt:
		if len(s.Results) != 1 {
			refuse(s, "%s: a single result expected", c.fn.name)
		}
		return ret(s.Results[0])
	case *ast.IfStmt:
		if s.Init != nil {
			refuse(s, "%s: if with an init statement", c.fn.name)
		}
		cond := c.expr(s.Cond)
		if cond.kind != "bool" {
			refuse(s.Cond, "%s: non-boolean condition", c.fn.name)
		}
		if thenE, ok := singleReturn(s.Body); ok {
			var elseS string
			if s.Else != nil {
				eb, ok := s.Else.(*ast.BlockStmt)
				if !ok {
					refuse(s, "%s: else-if chains are not in the subset", c.fn.name)
				}
				if len(list) != 1 {
					refuse(s, "%s: statements after an if/else that returns on both sides", c.fn.name)
				}
				elseS = c.stmts(eb.List)
			} else {
				elseS = c.stmts(list[1:])
			}
			return fmt.Sprintf("(if %s then %s else %s)", cond.coq, ret(thenE), elseS)
		}
		refuse(s, "%s: the body of this if is not a single return", c.fn.name)
	case *ast.DeclStmt:
		// var x T ; if c { x = a } else { x = b }
		gd, ok := s.Decl.(*ast.GenDecl)
		if !ok || gd.Tok != token.VAR || len(gd.Specs) != 1 {
			refuse(s, "%s: declaration outside the subset", c.fn.name)
		}
		vs := gd.Specs[0].(*ast.ValueSpec)
		if len(vs.Names) != 1 || len(vs.Values) != 0 || len(list) < 2 {
			refuse(s, "%s: declaration outside the subset", c.fn.name)
		}
		name := vs.Names[0].Name
		ifs, ok := list[1].(*ast.IfStmt)
		if !ok || ifs.Init != nil || ifs.Else == nil {
			refuse(s, "%s: `var %s` must be followed by an if/else assigning it", c.fn.name, name)
		}
		eb, ok := ifs.Else.(*ast.BlockStmt)
		a, okA := singleAssign(ifs.Body, name)
		var b ast.Expr
		okB := false
		if ok {
			b, okB = singleAssign(eb, name)
		}
		if !okA || !okB {
			refuse(ifs, "%s: both branches must assign %s and nothing else", c.fn.name, name)
		}
		cond := c.expr(ifs.Cond)
		av, bv := c.expr(a), c.expr(b)
		if cond.kind != "bool" || av.kind != bv.kind {
			refuse(ifs, "%s: ill-kinded assignment to %s", c.fn.name, name)
		}
		c.vars[name] = dAtom{fmt.Sprintf("(if %s then %s else %s)", cond.coq, av.coq, bv.coq), av.kind}
		return c.stmts(list[2:])
	case *ast.AssignStmt:
		if s.Tok == token.DEFINE && len(s.Lhs) == 1 && len(s.Rhs) == 1 {
			if id, ok := s.Lhs[0].(*ast.Ident); ok {
				c.vars[id.Name] = c.expr(s.Rhs[0])
				return c.stmts(list[1:])
			}
		}
		refuse(s, "%s: assignment outside the subset", c.fn.name)
	}
	refuse(list[0], "%s: statement outside the translated subset", c.fn.name)
	return ""
}

func findMethod(f *ast.File, recvType, name string) *ast.FuncDecl {
	for _, d := range f.Decls {
		fd, ok := d.(*ast.FuncDecl)
		if !ok || fd.Name.Name != name || fd.Recv == nil || len(fd.Recv.List) != 1 {
			continue
		}
		t := fd.Recv.List[0].Type
		if st, ok := t.(*ast.StarExpr); ok {
			t = st.X
		}
		if id, ok := t.(*ast.Ident); ok && id.Name == recvType {
			return fd
		}
	}
	return nil
}

func genDecide(repo, out string) {
	ic := func(field, coq, kind string) (string, dAtom) { return "c.ic." + field, dAtom{coq, kind} }
	stateAtoms := map[string]dAtom{}
	for _, p := range [][3]string{
		{"Initiator", "c_init c", "N"}, {"Responder", "c_resp c", "N"}, {"Sender", "c_sender c", "N"}, {"Recipient", "c_recipient c", "N"},
		{"SelfPeer", "c_self c", "N"}, {"InitiatorPaused", "c_ipaused c", "bool"}, {"ResponderPaused", "c_rpaused c", "bool"},
		{"Status", "c_status c", "status"},
	} {
		k, v := ic(p[0], p[1], p[2])
		stateAtoms[k] = v
	}
	for _, p := range [][3]string{
		{"Queued", "c_queued c", "N"}, {"Sent", "c_sent c", "N"}, {"Received", "c_received c", "N"}, {"DataLimit", "c_limit c", "N"},
		{"TotalSize", "c_totalsize c", "N"}, {"QueuedBlocksTotal", "c_qblocks c", "Z"}, {"SentBlocksTotal", "c_sblocks c", "Z"},
		{"ReceivedBlocksTotal", "c_rblocks c", "Z"}, {"RequiresFinalization", "c_reqfin c", "bool"},
	} {
		k, v := ic(p[0], p[1], p[2])
		stateAtoms[k] = v
	}
	stateAtoms["datatransfer.Finalizing"] = dAtom{"Finalizing", "status"}
	// sibling accessors are the generated definitions
	stateAtoms["c.IsPull()"] = dAtom{"gen_IsPull c", "bool"}
	stateAtoms["c.InitiatorPaused()"] = dAtom{"gen_InitiatorPaused c", "bool"}
	stateAtoms["c.ResponderPaused()"] = dAtom{"gen_ResponderPaused c", "bool"}
	funcs := []*dFunc{
		{file: "channels/channel_state.go", recvType: "channelState", name: "IsPull", coqName: "gen_IsPull", coqSig: "(c : chan) : bool", result: "bool", atoms: stateAtoms},
		{file: "channels/channel_state.go", recvType: "channelState", name: "InitiatorPaused", coqName: "gen_InitiatorPaused", coqSig: "(c : chan) : bool", result: "bool", atoms: stateAtoms},
		{file: "channels/channel_state.go", recvType: "channelState", name: "ResponderPaused", coqName: "gen_ResponderPaused", coqSig: "(c : chan) : bool", result: "bool", atoms: stateAtoms},
		{file: "channels/channel_state.go", recvType: "channelState", name: "BothPaused", coqName: "gen_BothPaused", coqSig: "(c : chan) : bool", result: "bool", atoms: stateAtoms},
		{file: "channels/channel_state.go", recvType: "channelState", name: "SelfPaused", coqName: "gen_SelfPaused", coqSig: "(c : chan) : bool", result: "bool", atoms: stateAtoms},
		{file: "channels/channel_state.go", recvType: "channelState", name: "OtherPeer", coqName: "gen_OtherPeer", coqSig: "(c : chan) : N", result: "N", atoms: stateAtoms},
		{file: "channels/channel_state.go", recvType: "channelState", name: "Queued", coqName: "gen_Queued", coqSig: "(c : chan) : N", result: "N", atoms: stateAtoms},
		{file: "channels/channel_state.go", recvType: "channelState", name: "Sent", coqName: "gen_Sent", coqSig: "(c : chan) : N", result: "N", atoms: stateAtoms},
		{file: "channels/channel_state.go", recvType: "channelState", name: "Received", coqName: "gen_Received", coqSig: "(c : chan) : N", result: "N", atoms: stateAtoms},
		{file: "channels/channel_state.go", recvType: "channelState", name: "DataLimit", coqName: "gen_DataLimit", coqSig: "(c : chan) : N", result: "N", atoms: stateAtoms},
		{file: "channels/channel_state.go", recvType: "channelState", name: "TotalSize", coqName: "gen_TotalSize", coqSig: "(c : chan) : N", result: "N", atoms: stateAtoms},
		{file: "channels/channel_state.go", recvType: "channelState", name: "RequiresFinalization", coqName: "gen_RequiresFinalization", coqSig: "(c : chan) : bool", result: "bool", atoms: stateAtoms},
		{file: "channels/channel_state.go", recvType: "channelState", name: "QueuedCidsTotal", coqName: "gen_QueuedCidsTotal", coqSig: "(c : chan) : Z", result: "Z", atoms: stateAtoms},
		{file: "channels/channel_state.go", recvType: "channelState", name: "SentCidsTotal", coqName: "gen_SentCidsTotal", coqSig: "(c : chan) : Z", result: "Z", atoms: stateAtoms},
		{file: "channels/channel_state.go", recvType: "channelState", name: "ReceivedCidsTotal", coqName: "gen_ReceivedCidsTotal", coqSig: "(c : chan) : Z", result: "Z", atoms: stateAtoms},
		{file: "types.go", recvType: "ChannelID", name: "OtherParty", coqName: "gen_OtherParty", coqSig: "(thisPeer : N) (k : chid) : N", result: "N",
			atoms: map[string]dAtom{"thisPeer": {"thisPeer", "N"}, "c.Initiator": {"k_init k", "N"}, "c.Responder": {"k_resp k", "N"}}},
		{file: "manager.go", recvType: "ValidationResult", name: "LeaveRequestPaused", coqName: "gen_LeaveRequestPaused", coqSig: "(vr : valres) (c : chan) : bool", result: "bool",
			atoms: map[string]dAtom{
				"vr.ForcePause": {"vr_force vr", "bool"}, "vr.RequiresFinalization": {"vr_fin vr", "bool"}, "vr.DataLimit": {"vr_limit vr", "N"},
				"chst.Status().InFinalization()": {"in_status (c_status c) FinalizationStatuses", "bool"},
				"chst.IsPull()":                  {"gen_IsPull c", "bool"}, "chst.Queued()": {"gen_Queued c", "N"}, "chst.Received()": {"gen_Received c", "N"},
			}},
		{file: "impl/receiving_requests.go", recvType: "manager", name: "requestError", coqName: "gen_requestError", coqSig: "(vr : valres) (err stay : bool) : nret", result: "ret",
			atoms: map[string]dAtom{
				"resultErr != nil": {"err", "bool"}, "resultErr == nil": {"negb err", "bool"}, "result.Accepted": {"vr_accepted vr", "bool"}, "stayPaused": {"stay", "bool"},
				"resultErr": {"ROther", "ret"}, "datatransfer.ErrRejected": {"RRejected", "ret"}, "datatransfer.ErrPause": {"RPause", "ret"}, "nil": {"ROk", "ret"},
			}},
	}
	var b strings.Builder
	b.WriteString("(* GENERATED by tools/dt2coq (decide.go) from channels/channel_state.go, manager.go, impl/receiving_requests.go -- do not edit *)\n")
	b.WriteString("From Coq Require Import List NArith Bool String.\nFrom DT Require Import GenStatus GenEvent GenMsgType FsmTypes GenFsm Fsm Msg Caches Node.\nImport ListNotations.\nLocal Open Scope N_scope.\n\n")
	files := map[string]*ast.File{}
	for _, fn := range funcs {
		f := files[fn.file]
		if f == nil {
			f = parseFile(filepath.Join(repo, fn.file))
			files[fn.file] = f
		}
		fd := findMethod(f, fn.recvType, fn.name)
		if fd == nil || fd.Body == nil {
			refuse(f, "%s: method %s.%s not found", fn.file, fn.recvType, fn.name)
		}
		c := &dCtx{fn: fn, vars: map[string]dAtom{}}
		body := c.stmts(fd.Body.List)
		fmt.Fprintf(&b, "(* %s: %s.%s *)\nDefinition %s %s :=\n  %s.\n\n", fn.file, fn.recvType, fn.name, fn.coqName, fn.coqSig, body)
	}
	genSeeding(files["channels/channel_state.go"], parseFile(filepath.Join(repo, "channels/channels.go")), &b)
	writeIfChanged(filepath.Join(out, "GenDecide.v"), b.String())
}

// ---- channels/channels.go: the readers that lazily seed the caches from the durable record, and the
// wiring of DataQueued / DataSent / DataReceived to fireProgressEvent ----
//
// reader shape:   chst, err := c.GetByID(<ctx>, chid) ; if err != nil { return 0.., err } ;
//                 [x := chst.Acc()] ; return <chst.Acc() | x>.., nil
// report shape:   return c.fireProgressEvent(chid, datatransfer.E1, datatransfer.E2, delta, index, unique, c.reader, c.reader | nil)

var accessorGen = map[string]dAtom{
	"Queued": {"gen_Queued c", "N"}, "Sent": {"gen_Sent c", "N"}, "Received": {"gen_Received c", "N"}, "DataLimit": {"gen_DataLimit c", "N"},
	"QueuedCidsTotal": {"gen_QueuedCidsTotal c", "Z"}, "SentCidsTotal": {"gen_SentCidsTotal c", "Z"}, "ReceivedCidsTotal": {"gen_ReceivedCidsTotal c", "Z"},
}

func readerResults(f *ast.File, name string, want []string) []string {
	fd := findMethod(f, "Channels", name)
	if fd == nil || fd.Body == nil {
		refuse(f, "channels.go: reader %s not found", name)
	}
	l := fd.Body.List
	if len(l) < 3 {
		refuse(fd, "%s: unexpected shape", name)
	}
	as, ok := l[0].(*ast.AssignStmt)
	if !ok || as.Tok != token.DEFINE || len(as.Lhs) != 2 || !isIdent(as.Lhs[0], "chst") || !isIdent(as.Lhs[1], "err") || len(as.Rhs) != 1 {
		refuse(fd, "%s: expected `chst, err := c.GetByID(...)` first", name)
	}
	ce, ok := as.Rhs[0].(*ast.CallExpr)
	if !ok || exprString(ce.Fun) != "c.GetByID" || len(ce.Args) != 2 || !isIdent(ce.Args[1], "chid") {
		refuse(fd, "%s: expected `c.GetByID(ctx, chid)`", name)
	}
	ifs, ok := l[1].(*ast.IfStmt)
	if !ok || exprString(ifs.Cond) != "err != nil" || ifs.Else != nil || len(ifs.Body.List) != 1 {
		refuse(fd, "%s: expected `if err != nil { return ..., err }`", name)
	}
	if _, ok := ifs.Body.List[0].(*ast.ReturnStmt); !ok {
		refuse(fd, "%s: expected `if err != nil { return ..., err }`", name)
	}
	locals := map[string]string{}
	for _, st := range l[2 : len(l)-1] {
		a, ok := st.(*ast.AssignStmt)
		if !ok || a.Tok != token.DEFINE || len(a.Lhs) != 1 || len(a.Rhs) != 1 {
			refuse(st, "%s: statement outside the subset", name)
		}
		locals[a.Lhs[0].(*ast.Ident).Name] = exprString(a.Rhs[0])
	}
	rs, ok := l[len(l)-1].(*ast.ReturnStmt)
	if !ok || len(rs.Results) != len(want)+1 || !isIdent(rs.Results[len(want)], "nil") {
		refuse(fd, "%s: expected a final `return ..., nil` with %d values", name, len(want))
	}
	var out []string
	for i, r := range rs.Results[:len(want)] {
		s := exprString(r)
		if v, ok := locals[s]; ok {
			s = v
		}
		if !strings.HasPrefix(s, "chst.") || !strings.HasSuffix(s, "()") {
			refuse(r, "%s: result %d is not an accessor of the stored channel", name, i)
		}
		a, ok := accessorGen[strings.TrimSuffix(strings.TrimPrefix(s, "chst."), "()")]
		if !ok || a.kind != want[i] {
			refuse(r, "%s: result %d: accessor %s is not a %s accessor", name, i, s, want[i])
		}
		out = append(out, a.coq)
	}
	return out
}

func genSeeding(_ *ast.File, f *ast.File, b *strings.Builder) {
	kinds := []struct{ method, kind string }{{"DataQueued", "KQueued"}, {"DataSent", "KSent"}, {"DataReceived", "KReceived"}}
	var dataEv, progEv, idx, prog []string
	for _, k := range kinds {
		fd := findMethod(f, "Channels", k.method)
		if fd == nil || fd.Body == nil || len(fd.Body.List) != 1 {
			refuse(f, "channels.go: %s: a single return of fireProgressEvent expected", k.method)
		}
		rs, ok := fd.Body.List[0].(*ast.ReturnStmt)
		if !ok || len(rs.Results) != 1 {
			refuse(fd, "%s: a single return of fireProgressEvent expected", k.method)
		}
		ce, ok := rs.Results[0].(*ast.CallExpr)
		if !ok || exprString(ce.Fun) != "c.fireProgressEvent" || len(ce.Args) != 8 {
			refuse(fd, "%s: expected c.fireProgressEvent with 8 arguments", k.method)
		}
		for i, n := range []string{"chid", "", "", "delta", "index", "unique"} {
			if n != "" && !isIdent(ce.Args[i], n) {
				refuse(ce.Args[i], "%s: argument %d of fireProgressEvent is not %s", k.method, i, n)
			}
		}
		ev := func(e ast.Expr) string {
			pkg, n, ok := selName(e)
			if !ok || pkg != "datatransfer" {
				refuse(e, "%s: event argument is not datatransfer.X", k.method)
			}
			return n
		}
		dataEv = append(dataEv, fmt.Sprintf("%s => %s", k.kind, ev(ce.Args[1])))
		progEv = append(progEv, fmt.Sprintf("%s => %s", k.kind, ev(ce.Args[2])))
		ir := exprString(ce.Args[6])
		if !strings.HasPrefix(ir, "c.get") {
			refuse(ce.Args[6], "%s: index reader is not a method of Channels", k.method)
		}
		idx = append(idx, fmt.Sprintf("%s => %s", k.kind, readerResults(f, strings.TrimPrefix(ir, "c."), []string{"Z"})[0]))
		if isIdent(ce.Args[7], "nil") {
			prog = append(prog, fmt.Sprintf("%s => None", k.kind))
		} else {
			pr := exprString(ce.Args[7])
			if !strings.HasPrefix(pr, "c.get") {
				refuse(ce.Args[7], "%s: progress reader is not a method of Channels", k.method)
			}
			r := readerResults(f, strings.TrimPrefix(pr, "c."), []string{"N", "N"})
			prog = append(prog, fmt.Sprintf("%s => Some (%s, %s)", k.kind, r[0], r[1]))
		}
	}
	b.WriteString("(* channels/channels.go: DataQueued / DataSent / DataReceived -> fireProgressEvent, and the readers that seed the caches *)\n")
	fmt.Fprintf(b, "Definition gen_data_event (k : kind) : EventCode := match k with %s end.\n", strings.Join(dataEv, " | "))
	fmt.Fprintf(b, "Definition gen_progress_event (k : kind) : EventCode := match k with %s end.\n", strings.Join(progEv, " | "))
	fmt.Fprintf(b, "Definition gen_index_seed (k : kind) (c : chan) : Z := match k with %s end.\n", strings.Join(idx, " | "))
	fmt.Fprintf(b, "Definition gen_progress_seed (k : kind) (c : chan) : option (N * N) := match k with %s end.\n", strings.Join(prog, " | "))
}
