(* C14  Channel monitor: restarts serialized and bounded; one verdict per channel.  Statements only.
   A schedule is a list of labels of Monitor.mon_step: events delivered to the subscriber, the
   debounced restart call starting, the restart loop advancing to its next blocking call, the
   results of ConnectTo / RestartDataTransferChannel, timers firing, the spawned Shutdown running.
   Real time is not modelled: "the timer fires" is a label. *)
From Coq Require Import List NArith ZArith Bool Arith.
From RecordUpdate Require Import RecordSet.
From DT Require Import Monitor MonitorCorr C14Proofs MonitorCorrFacts.
Import ListNotations RecordSetNotations.

(* at most one reconnect / restart call is in flight, in every schedule *)
Theorem C14_at_most_one_call_in_flight :
  forall c ls, snd (fold_left (fl_step c) ls (mon_init c, 0)) <= 1.
Proof. exact at_most_one_call_in_flight. Qed.
Print Assumptions C14_at_most_one_call_in_flight.

(* a ConnectTo is only issued when nothing is in flight, a Restart only as the continuation of the
   ConnectTo that just returned successfully *)
Theorem C14_restart_mutex :
  forall c m l m' o, mon_step c m l = (m', o) ->
    cnt MConnect o <= 1 /\ cnt MRestart o <= 1 /\ in_connect m' + in_restart m' <= 1 /\
    (cnt MConnect o = 1 -> in_connect m = 0 /\ in_restart m = 0 /\ in_connect m' = 1) /\
    (cnt MRestart o = 1 -> in_connect m = 1 /\ l = LConnectReturns true /\ in_restart m' = 1).
Proof. exact restart_mutex. Qed.
Print Assumptions C14_restart_mutex.

(* a restart requested during an attempt is queued and performed once afterwards *)
Theorem C14_queued_restart_runs_once :
  forall c m n,
    mo_pending_calls m = S n -> restarting m = true ->
    let m1 := fst (mon_step c m LRestartCall) in
    mo_queued m1 = true /\ mo_pc m1 = mo_pc m /\ snd (mon_step c m LRestartCall) = [] /\
    (forall m2, mo_pc m2 = PRestart -> mo_queued m2 = true -> (cf_backoff c && negb (mo_shut m2)) = false ->
       let m3 := fst (mon_step c m2 (LRestartReturns true)) in
       mo_pc m3 = PDo /\ mo_queued m3 = false) /\
    (forall m2, mo_pc m2 = PRestart -> mo_queued m2 = false -> (cf_backoff c && negb (mo_shut m2)) = false ->
       mon_step c m2 (LRestartReturns true) = (m2 <| mo_pc := PIdle |>, [MRestartComplete])).
Proof. exact queued_restart_runs_once. Qed.
Print Assumptions C14_queued_restart_runs_once.

(* no more than MaxConsecutiveRestarts attempts since the last delivered data event, in every schedule *)
Theorem C14_restarts_bounded_without_progress :
  forall c ls, snd (since_run c (mon_init c) ls) <= cf_max c.
Proof. exact restarts_bounded_without_progress. Qed.
Print Assumptions C14_restarts_bounded_without_progress.

Theorem C14_data_resets_count :
  forall c m, mo_shut m = false -> mo_consec (fst (mon_step c m LEvData)) = 0.
Proof. exact data_resets_count. Qed.
Print Assumptions C14_data_resets_count.

(* at the limit the next attempt closes the channel with an error; failed reconnects / restart
   messages go straight to the next counted attempt, so persistent failure ends in that close *)
Theorem C14_persistent_failure_closes :
  forall c m, mo_pc m = PDo -> cf_max c <= mo_consec m -> mo_shut m = false ->
    snd (mon_step c m LLoopStep) = [MClose] /\ mo_pc (fst (mon_step c m LLoopStep)) = PFailed /\
    mo_shut (fst (mon_step c m LLoopStep)) = true.
Proof. exact persistent_failure_closes. Qed.
Print Assumptions C14_persistent_failure_closes.

Theorem C14_failure_retries_counted :
  forall c m,
    (mo_pc m = PConnect -> mon_step c m (LConnectReturns false) = (m <| mo_pc := PDo |>, [])) /\
    (mo_pc m = PRestart -> mon_step c m (LRestartReturns false) = (m <| mo_pc := PDo |>, [])).
Proof. exact failure_retries_counted. Qed.
Print Assumptions C14_failure_retries_counted.

Theorem C14_failed_loop_never_restarts_again :
  forall c ls m m' o, mo_pc m = PFailed -> mon_run c m ls = (m', o) ->
    mo_pc m' = PFailed /\ cnt MConnect o = 0 /\ cnt MRestart o = 0.
Proof. exact failed_loop_never_restarts_again. Qed.
Print Assumptions C14_failed_loop_never_restarts_again.

(* the channel is closed with an error at most once in total, in every schedule *)
Theorem C14_close_at_most_once :
  forall c ls m m' o, mon_run c m ls = (m', o) ->
    cnt MClose o <= 1 /\ (cnt MClose o = 1 -> mo_shut m' = true) /\ (mo_shut m = true -> cnt MClose o = 0 /\ mo_shut m' = true).
Proof. exact close_at_most_once. Qed.
Print Assumptions C14_close_at_most_once.

(* timeouts close exactly when they fire still armed on a live monitor; Accept disarms; disabled
   timers are never armed *)
Theorem C14_timers_close_iff_expired :
  forall c m,
    (snd (mon_step c m LAcceptTimerFires) = [MClose] <-> mo_accept_armed m = true /\ mo_shut m = false) /\
    (snd (mon_step c m LCompleteTimerFires) = [MClose] <-> mo_complete_armed m <> 0 /\ mo_shut m = false) /\
    mo_accept_armed (fst (mon_step c m LEvAccept)) = (mo_accept_armed m && mo_shut m).
Proof. exact timers_close_iff_expired. Qed.
Print Assumptions C14_timers_close_iff_expired.

Theorem C14_disabled_timers_never_close :
  forall c ls m' o,
    mon_run c (mon_init c) ls = (m', o) ->
    (cf_accept c = false -> mo_accept_armed m' = false) /\
    (cf_complete c = false -> mo_complete_armed m' = 0).
Proof. exact disabled_timers_never_close. Qed.
Print Assumptions C14_disabled_timers_never_close.

(* once the monitor has seen the channel cleaning up or terminal it shuts down (unsubscribes) and
   no later timeout or error closes the channel *)
Theorem C14_ending_shuts_down_without_closing :
  forall c m, mo_shut m = false ->
    let '(m', o) := mon_run c m [LEvEnding; LShutdownRuns] in
    mo_shut m' = true /\ o = [] /\
    (forall ls m'' o', mon_run c m' ls = (m'', o') -> cnt MClose o' = 0).
Proof. exact ending_shuts_down_without_closing. Qed.
Print Assumptions C14_ending_shuts_down_without_closing.

Theorem C14_unsubscribed_ignores_events :
  forall c m l, mo_shut m = true ->
    In l [LEvError; LEvData; LEvAccept; LEvFinish; LEvEnding] -> mon_step c m l = (m, []).
Proof. exact unsubscribed_ignores_events. Qed.
Print Assumptions C14_unsubscribed_ignores_events.

(* with monitoring disabled nothing is ever restarted or closed *)
Theorem C14_disabled_monitor_silent :
  forall ls, snd (omon_run None ls) = [].
Proof. exact disabled_monitor_silent. Qed.
Print Assumptions C14_disabled_monitor_silent.

(* the harness's macro steps are schedules of this model *)
Theorem C14_harness_steps_are_schedules :
  forall c short m h, exists ls, hstep c short m h = mon_run c m ls.
Proof. exact hstep_is_run. Qed.
Print Assumptions C14_harness_steps_are_schedules.
