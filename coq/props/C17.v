(* C17  Subscribers see every applied event once, in order, with resulting state (machine level). *)
From Coq Require Import List NArith ZArith String Bool.
From DT Require Import GenStatus GenEvent FsmTypes GenFsm Fsm Machine FsmFacts MachineFacts C17Proofs.
From DT Require Subs C17Subs.
Import ListNotations.

(* for every schedule: the announcements are exactly the planned (applied) events in plan
   order, each announced record is the previous record with that event applied (consecutive
   snapshots differ by that event's effect), the final record is the last announced one, and
   every announced record is exactly what was written to the datastore *)
Theorem C17_notifications_chain :
  forall ls c m' o,
    m_run (m_init c) ls = (m', o) ->
    chain c (notifs o) /\ m_chan m' = last_chan c (notifs o) /\
    map fst (notifs o) = map (fun p => fst (fst p)) (planned o) /\
    puts o = map snd (notifs o).
Proof. exact notifications_chain. Qed.
Print Assumptions C17_notifications_chain.

Theorem C17_invalid_not_announced :
  forall m e q,
    m_dead m = false -> m_handler m = false -> m_queue m = e :: q ->
    is_final (c_status (m_chan m)) = false ->
    apply (m_chan m) e = Invalid ->
    m_step m LPlan = (RecordUpdate.RecordSet.set m_queue (fun _ => q) m, []).
Proof. exact invalid_not_announced. Qed.
Print Assumptions C17_invalid_not_announced.

(* ---------- subscriber windows (Subs.v: pubsub fan-out + per-transfer table) ---------- *)
(* a per-transfer subscriber receives only its own channel's events *)
Theorem C17_per_transfer_only_own_channel :
  forall ops s s' calls i n e, Subs.srun s ops = (s', calls) -> In (Subs.ST i n, e) calls -> fst e = i.
Proof. exact C17Subs.per_transfer_only_own_channel. Qed.
Print Assumptions C17_per_transfer_only_own_channel.

(* ... every one of them while registered ... *)
Theorem C17_per_transfer_sees_own_events :
  forall s k c term, exists s',
    Subs.sstep s (Subs.ONotify k c term) =
      (s', map (fun n => (Subs.ST k n, (k, c))) (Subs.per_of k (Subs.ss_per s)) ++
           map (fun n => (Subs.SG n, (k, c))) (Subs.ss_global s)).
Proof. exact C17Subs.per_transfer_sees_own_events. Qed.
Print Assumptions C17_per_transfer_sees_own_events.

(* ... and is released when the channel terminates *)
Theorem C17_per_transfer_released_at_termination :
  forall s k code ops s1 c1 s2 c2,
    Subs.sstep s (Subs.ONotify k code true) = (s1, c1) ->
    forallb (C17Subs.no_resub k) ops = true ->
    Subs.srun s1 ops = (s2, c2) ->
    forall n e, ~ In (Subs.ST k n, e) c2.
Proof. exact C17Subs.per_transfer_released_at_termination. Qed.
Print Assumptions C17_per_transfer_released_at_termination.

(* a (global) subscriber is called exactly once for each announced event, in order, for as long
   as it stays subscribed *)
Theorem C17_global_subscriber_sees_every_event_once :
  forall n ops s s' calls,
    count_occ N.eq_dec (Subs.ss_global s) n = 1 ->
    forallb (fun o => negb (C17Subs.touches n o)) ops = true ->
    Subs.srun s ops = (s', calls) ->
    Subs.log_of (Subs.SG n) calls = C17Subs.notifs ops.
Proof. exact C17Subs.global_subscriber_sees_every_event_once. Qed.
Print Assumptions C17_global_subscriber_sees_every_event_once.

(* and not at all for events announced after its unsubscribe returned *)
Theorem C17_not_called_after_unsubscribe :
  forall n s ops s' calls,
    forallb (fun o => negb (C17Subs.touches n o)) ops = true ->
    Subs.srun (fst (Subs.sstep s (Subs.OUnsub n))) ops = (s', calls) ->
    Subs.log_of (Subs.SG n) calls = [].
Proof. exact C17Subs.not_called_after_unsubscribe. Qed.
Print Assumptions C17_not_called_after_unsubscribe.
