(* C17  Subscribers see every applied event once, in order, with resulting state (machine level). *)
From Coq Require Import List NArith ZArith String Bool.
From DT Require Import GenStatus GenEvent FsmTypes GenFsm Fsm Machine FsmFacts MachineFacts C17Proofs.
Import ListNotations.

(* for every schedule: the announcements are exactly the planned (applied) events in plan
   order, each announced record is the previous record with that event applied (consecutive
   snapshots differ by that event's effect), the final record is the last announced one, and
   every announced record is exactly what was written to the datastore *)
Theorem C17_notifications_chain :
  forall ls c m' o,
    m_run (m_init c) ls = (m', o) ->
    chain c (notifs o) /\ m_chan m' = last_chan c (notifs o) /\
    map fst (notifs o) = map (fun p => fst (fst p)) (planned o) /\
    puts o = map snd (notifs o).
Proof. exact notifications_chain. Qed.
Print Assumptions C17_notifications_chain.

Theorem C17_invalid_not_announced :
  forall m e q,
    m_dead m = false -> m_handler m = false -> m_queue m = e :: q ->
    is_final (c_status (m_chan m)) = false ->
    apply (m_chan m) e = Invalid ->
    m_step m LPlan = (RecordUpdate.RecordSet.set m_queue (fun _ => q) m, []).
Proof. exact invalid_not_announced. Qed.
Print Assumptions C17_invalid_not_announced.
