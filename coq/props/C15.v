(* C15  Network sends retry boundedly, deliver once; inbound dispatch is faithful.  Statements only.
   libp2p (results of NewStream, of the write, of Reset / Close, the negotiated protocol) and the
   point at which the caller's context is cancelled are inputs of Net.v; real time is not modelled.
   "Configured number of attempts" is read as max 1 (ceil n): the first attempt is always made. *)
From Coq Require Import List NArith Bool Arith.
From DT Require Import Net C15Proofs.
Import ListNotations.

Theorem C15_attempts_bounded :
  forall i, 1 <= so_attempts (send_message i) <= eff_max i /\ 1 <= so_attempts (connect_with_retry i) <= eff_max i.
Proof. exact attempts_bounded. Qed.
Print Assumptions C15_attempts_bounded.

(* the loop ends Opened at the first successful attempt within the cap (every earlier one failed,
   no cancellation before it), Exhausted after exactly the cap when all failed, Cancelled at the
   back-off during which the context was cancelled *)
Theorem C15_open_stream_spec :
  forall i,
    match open_stream i with
    | Opened m => 1 <= m <= eff_max i /\ nth (m - 1) (si_opens i) false = true /\
                  (forall q, q < m - 1 -> nth q (si_opens i) false = false) /\
                  (forall k, si_cancel i = Some k -> 0 < k -> k < si_max i -> m <= k)
    | Exhausted m => m = eff_max i /\ (forall q, q < m -> nth q (si_opens i) false = false) /\
                  (forall k, si_cancel i = Some k -> 0 < k -> k < si_max i -> False)
    | Cancelled m => si_cancel i = Some m /\ 1 <= m < si_max i /\ (forall q, q < m -> nth q (si_opens i) false = false)
    end.
Proof. exact open_stream_spec. Qed.
Print Assumptions C15_open_stream_spec.

Theorem C15_success_iff_and_delivered_once :
  forall i, let o := send_message i in
    (so_res o = SOk <-> (exists m, open_stream i = Opened m) /\ si_proto_ok i = true /\ si_write_ok i = true /\ si_close_ok i = true) /\
    (so_res o = SOk -> so_ops o = [SWrite; SClose]) /\
    writes o <= 1 /\
    (writes o = 1 <-> (exists m, open_stream i = Opened m) /\ si_proto_ok i = true /\ si_write_ok i = true).
Proof. exact success_iff_and_delivered_once. Qed.
Print Assumptions C15_success_iff_and_delivered_once.

Theorem C15_failed_write_resets_and_reports :
  forall i m, open_stream i = Opened m -> si_proto_ok i = true -> si_write_ok i = false ->
    so_ops (send_message i) = [SWriteFailed; SReset] /\ so_res (send_message i) <> SOk.
Proof. exact failed_write_resets_and_reports. Qed.
Print Assumptions C15_failed_write_resets_and_reports.

Theorem C15_cancel_stops_attempts :
  forall i k, 0 < k -> k < si_max i -> si_cancel i = Some k ->
    (forall q, q < k -> nth q (si_opens i) false = false) ->
    open_stream i = Cancelled k /\ so_res (send_message i) = SErrCtx /\ so_attempts (send_message i) = k.
Proof. exact cancel_stops_attempts. Qed.
Print Assumptions C15_cancel_stops_attempts.

Theorem C15_inbound_dispatch_faithful :
  forall peer l e,
    let o := handle_stream true peer l e in
    io_calls o = map (fun p => (fst p, peer, snd p)) (good_prefix l) /\
    io_reset o = has_bad l /\ io_error o = has_bad l.
Proof. exact inbound_dispatch_faithful. Qed.
Print Assumptions C15_inbound_dispatch_faithful.

Theorem C15_no_receiver_resets :
  forall peer l e, handle_stream false peer l e = mkInOut [] true false.
Proof. exact no_receiver_resets. Qed.
Print Assumptions C15_no_receiver_resets.
