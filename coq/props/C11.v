(* C11  Pause state is tracked per party (FSM level).  Statements only. *)
From Coq Require Import List NArith ZArith String Bool.
From DT Require Import GenStatus GenEvent FsmTypes GenFsm Fsm FsmFacts C11Proofs.
From DT Require Transport C16Proofs.
From DT Require GenDecide DecideEq.
Import ListNotations.

Theorem C11_pause_flags_independent :
  forall c e,
    (~ In (fst e) [PauseInitiator; ResumeInitiator] -> c_ipaused (apply_chan c e) = c_ipaused c) /\
    (~ In (fst e) [PauseResponder; ResumeResponder; DataLimitExceeded] -> c_rpaused (apply_chan c e) = c_rpaused c).
Proof. exact pause_flags_independent. Qed.
Print Assumptions C11_pause_flags_independent.

Theorem C11_flags_follow_actions_where_valid :
  forall c a,
    (valid_in PauseInitiator (c_status c) = true -> c_ipaused (apply_chan c (PauseInitiator, a)) = true) /\
    (valid_in ResumeInitiator (c_status c) = true -> c_ipaused (apply_chan c (ResumeInitiator, a)) = false) /\
    (valid_in PauseResponder (c_status c) = true -> c_rpaused (apply_chan c (PauseResponder, a)) = true) /\
    (valid_in DataLimitExceeded (c_status c) = true -> c_rpaused (apply_chan c (DataLimitExceeded, a)) = true) /\
    (valid_in ResumeResponder (c_status c) = true -> c_rpaused (apply_chan c (ResumeResponder, a)) = false).
Proof. exact flags_follow_actions_where_valid. Qed.
Print Assumptions C11_flags_follow_actions_where_valid.

Theorem C11_meaningless_pause_ignored :
  forall c e, valid_in (fst e) (c_status c) = false -> apply_chan c e = c.
Proof. exact meaningless_pause_ignored. Qed.
Print Assumptions C11_meaningless_pause_ignored.

Theorem C11_both_is_conjunction : forall c,
  both_paused_view c = initiator_paused_view c && responder_paused_view c.
Proof. exact both_is_conjunction. Qed.
Print Assumptions C11_both_is_conjunction.

Theorem C11_self_paused_is_local_role : forall c,
  (c_self c = c_init c -> self_paused_view c = initiator_paused_view c) /\
  (c_self c <> c_init c -> self_paused_view c = responder_paused_view c).
Proof. exact self_paused_is_local_role. Qed.
Print Assumptions C11_self_paused_is_local_role.

Theorem C11_finalizing_counts_as_paused : forall c,
  c_status c = Finalizing -> responder_paused_view c = true.
Proof. exact finalizing_counts_as_paused. Qed.
Print Assumptions C11_finalizing_counts_as_paused.

Theorem C11_resume_valid_while_transferring :
  forall s,
    (In s TransferringStates \/ s = Requested \/ s = Queued -> valid_in ResumeInitiator s = true) /\
    (s = Requested \/ s = Queued \/ s = Ongoing \/ s = AwaitingAcceptance ->
       valid_in ResumeResponder s = true /\ valid_in PauseResponder s = true /\ valid_in PauseInitiator s = true).
Proof. exact resume_valid_while_transferring. Qed.
Print Assumptions C11_resume_valid_while_transferring.

(* at the graphsync adaptor: when the counterparty's message arrives on a graphsync response and
   the manager answers nil or "the local side is still paused" (ErrPause), the request is left
   alone -- it stays paused by the local pause and is never terminated (fix #7) *)
Theorem C11_stay_paused_does_not_terminate :
  forall s p rid m a rest k,
    Transport.rlookup rid (Transport.ts_reqmap s) = Some k ->
    Transport.ha_ret a <> Transport.HErr ->
    (let '(_, _, _, used) := Transport.process_extension s k p m a in used = true) ->
    C16Proofs.terminates (snd (Transport.tstep s (Transport.GIncomingResponse p rid (Some m) None) (a :: rest))) = false.
Proof. exact C16Proofs.stay_paused_does_not_terminate. Qed.
Print Assumptions C11_stay_paused_does_not_terminate.

(* the derived views the theorems above are about are the accessors of the source: regenerated from
   channels/channel_state.go (InitiatorPaused, ResponderPaused, BothPaused, SelfPaused) on every run *)
Theorem C11_pause_views_are_the_sources :
  forall c, GenDecide.gen_InitiatorPaused c = initiator_paused_view c /\
            GenDecide.gen_ResponderPaused c = responder_paused_view c /\
            GenDecide.gen_BothPaused c = both_paused_view c /\
            GenDecide.gen_SelfPaused c = self_paused_view c.
Proof. exact DecideEq.pause_views_are_source. Qed.
Print Assumptions C11_pause_views_are_the_sources.

From DT Require GenHandlers HandlerEq.

(* a local pause / resume: transport first, then the message of the right kind to the counterparty, then the
   event for the local role; and the flag recorded for the counterparty's pause / resume.  The programs of
   Node.v run like those regenerated from impl/impl.go Pause/ResumeDataTransferChannel and impl/utils.go *)
Theorem C11_pause_handlers_are_the_sources : forall k,
  HandlerEq.runs_like (HandlerEq.with_self (fun self => GenHandlers.gen_PauseDataTransferChannel self k)) (Node.pause_channel k) /\
  HandlerEq.runs_like (HandlerEq.with_self (fun self => GenHandlers.gen_ResumeDataTransferChannel self k)) (Node.resume_channel k) /\
  (forall self, GenHandlers.gen_pauseMessage self k = Node.pause_message self k true /\ GenHandlers.gen_resumeMessage self k = Node.pause_message self k false /\
                GenHandlers.gen_pauseOther self k = Node.pause_other self k /\ GenHandlers.gen_resumeOther self k = Node.resume_other self k).
Proof. exact HandlerEq.pause_handlers_are_source. Qed.
Print Assumptions C11_pause_handlers_are_the_sources.

(* what a response of the responder does on the initiator (cancel; voucher result recorded; rejection fails the
   channel; Accept / Restart; an un-paused Complete is the responder's final word, a paused one begins
   finalization; otherwise the responder's pause flag follows the message, and ErrPause is returned when this
   side is still paused), and what a pause / resume request does on the responder: Node.v's programs run like
   those regenerated from impl/events.go OnResponseReceived and impl/receiving_requests.go receiveUpdateRequest *)
Theorem C11_response_handlers_are_the_sources : forall k m s,
  HandlerEq.same_run (Node.run (HandlerEq.with_self (fun self => GenHandlers.gen_OnResponseReceived self k m)) s) (Node.run (Node.on_response_received k m) s) /\
  HandlerEq.same_run2 (Node.run (Node.bind (Node.exec Node.ISelf) (fun self => GenHandlers.gen_receiveUpdateRequest self k m)) s) (Node.run (Node.receive_update_request k m) s).
Proof. exact HandlerEq.response_handlers_are_source. Qed.
Print Assumptions C11_response_handlers_are_the_sources.

(* the entry points for messages that arrive over the network -- the channel id is built from the authenticated
   sender, the manager's handler runs, the reply goes out over the network or (an accepted push) on a newly
   opened transport channel, ErrPause pauses the transport and any other error closes it; a restart-existing
   request is honoured only by the channel's initiator for its counterparty on a live channel -- run, for every
   interpreter state, like the programs regenerated from impl/receiver.go on every run *)
Theorem C11_network_entry_points_are_the_sources : forall from m s,
  HandlerEq.same_run (Node.run (GenHandlers.gen_receiveRequest (Node.n_self (Node.s_node s)) from m) s) (Node.run (Node.recv_request from m) s) /\
  HandlerEq.same_run (Node.run (GenHandlers.gen_receiveResponse (Node.n_self (Node.s_node s)) from m) s) (Node.run (Node.recv_response from m) s) /\
  snd (Node.run (GenHandlers.gen_ReceiveRestartExistingChannelRequest (Node.n_self (Node.s_node s)) from m) s) = snd (Node.run (Node.recv_restart_existing from m) s).
Proof. exact HandlerEq.receiver_handlers_are_source. Qed.
Print Assumptions C11_network_entry_points_are_the_sources.

(* UpdateValidationStatus as written in Node.v (only the responder; the events that record the outcome; the reply,
   a Complete while finalizing, paused iff the request stays paused; resume through the transport with the reply
   attached iff accepted, not held, paused and not finalizing; otherwise the reply over the network, then close
   on rejection or pause when newly held) runs, for every interpreter state, like the program regenerated from
   impl/impl.go UpdateValidationStatus / updateValidationStatus / processValidationUpdate / handleTransportUpdate *)
Theorem C11_update_validation_is_the_sources : forall k vr s,
  HandlerEq.same_run (Node.run (HandlerEq.with_self (fun self => GenHandlers.gen_UpdateValidationStatus self k vr)) s) (Node.run (Node.update_validation k vr) s).
Proof. exact HandlerEq.update_validation_is_source. Qed.
Print Assumptions C11_update_validation_is_the_sources.
