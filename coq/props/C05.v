(* C05  Only the counterparty, in its proper role, can act on a channel.  Statements only. *)
From Coq Require Import List NArith ZArith String Bool.
From DT Require Import GenStatus GenEvent GenMsgType FsmTypes GenFsm Fsm Machine View Caches Msg Node
     FsmFacts NodeFacts NodeKeyed.
From DT Require C05Local C05Restart.
From DT Require GenDecide DecideEq.
Import ListNotations.

(* whatever the input, sender and oracle answers: an input that names channel k (every message
   from the network, every API call and transport callback with a channel id) leaves the record
   and the caches of every other channel exactly as they were *)
Theorem C05_step_touches_only_its_key :
  forall n st k,
    input_key (n_self n) (st_in st) = Some k ->
    forall k' cs, k' <> k -> lookup k' (n_chans n) = Some cs ->
      exists cs', lookup k' (n_chans (fst (fst (step n st)))) = Some cs' /\
                  m_chan (cs_m cs') = m_chan (cs_m cs) /\ cs_cache cs' = cs_cache cs.
Proof. exact step_touches_only_its_key. Qed.
Print Assumptions C05_step_touches_only_its_key.

(* the key of a message is built from the authenticated sender: a request can only name a channel
   its sender initiated (with self as responder), a response only a channel self initiated with
   the sender as responder -- strangers and role-confused senders can never name an existing
   channel of another party *)
Theorem C05_message_key_addresses_only_counterparty_role :
  forall self from m c,
    (input_key self (MRequest from m) = Some (chan_id c) -> c_init c = from /\ c_resp c = self) /\
    (input_key self (MResponse from m) = Some (chan_id c) -> c_init c = self /\ c_resp c = from).
Proof. exact message_key_addresses_only_counterparty_role. Qed.
Print Assumptions C05_message_key_addresses_only_counterparty_role.

(* the program-level frame: a keyed run never changes another key *)
Theorem C05_keyed_others_same :
  forall A k (p : prog A) s, others_same k s (snd (run_keyed k p s)).
Proof. exact keyed_others_same. Qed.
Print Assumptions C05_keyed_others_same.

(* local calls in the wrong role: the initiator of a channel cannot issue a validation update for it
   (the call fails and the node's state is untouched), a voucher result for a channel this node
   initiated and a voucher for a channel it did not initiate are refused after merely reading the
   channel: nothing is sent, recorded or announced *)
Theorem C05_initiator_cannot_update_validation :
  forall s k vr, k_init k = n_self (s_node s) -> run (update_validation k vr) s = (ROther, s).
Proof. exact C05Local.initiator_cannot_update_validation. Qed.
Print Assumptions C05_initiator_cannot_update_validation.

Theorem C05_wrong_role_voucher_calls_only_read :
  forall s k v,
    (k_init k = n_self (s_node s) ->
       run (send_voucher_result k v) s = (match fst (run (exec (IGet k)) s) with None => RNotFound | Some _ => ROther end,
                                          snd (run (exec (IGet k)) s))) /\
    (k_init k <> n_self (s_node s) ->
       run (send_voucher k v) s = (match fst (run (exec (IGet k)) s) with None => RNotFound | Some _ => ROther end,
                                   snd (run (exec (IGet k)) s))).
Proof. exact C05Local.wrong_role_voucher_calls_only_read. Qed.
Print Assumptions C05_wrong_role_voucher_calls_only_read.

(* who may restart a channel from outside.  A restart-existing-channel request that names a channel
   this node did not initiate, or that does not come from that channel's counterparty, or whose
   channel is terminated, is not honoured: the handler only reads the channel ... *)
Theorem C05_restart_existing_unauthorised_only_reads :
  forall s from m cs,
    is_restart_existing m = true ->
    lookup (g_restart m) (n_chans (s_node s)) = Some cs ->
    C05Restart.may_restart_existing (n_self (s_node s)) from (m_chan (msync (cs_m cs))) = false ->
    run (recv_restart_existing from m) s = run (C05Restart.only_read (g_restart m)) s.
Proof. exact C05Restart.restart_existing_unauthorised_only_reads. Qed.
Print Assumptions C05_restart_existing_unauthorised_only_reads.

(* ... and one that names no existing channel (or is not a restart-existing request at all) does nothing *)
Theorem C05_restart_existing_unknown_does_nothing :
  forall s from m,
    lookup (g_restart m) (n_chans (s_node s)) = None \/ is_restart_existing m = false ->
    fst (run (recv_restart_existing from m) s) = ROk /\
    s_out (snd (run (recv_restart_existing from m) s)) = s_out s /\
    n_chans (s_node (snd (run (recv_restart_existing from m) s))) = n_chans (s_node s).
Proof. exact C05Restart.restart_existing_unknown_only_reads. Qed.
Print Assumptions C05_restart_existing_unknown_does_nothing.

(* a restart request passes the manager's check exactly when it comes from the initiator of a
   non-terminated channel and repeats the original base cid, voucher type and (non-empty) voucher *)
Theorem C05_restart_request_check :
  forall s from k m,
    fst (run (validate_restart_request from k m) s) =
    match lookup k (n_chans (s_node s)) with
    | None => false
    | Some cs => C05Restart.repeats_original from m (m_chan (msync (cs_m cs)))
    end.
Proof. exact C05Restart.restart_request_check. Qed.
Print Assumptions C05_restart_request_check.

(* a restart request that fails it is refused before anybody is asked: no validator call, event,
   message or transport call; the reply is the error response (C02_refusal_reply's shape) *)
Theorem C05_restart_request_failing_check_is_refused :
  forall s k m,
    fst (run (validate_restart_request (k_init k) k m) s) = false ->
    let '(x, s') := run (restart_request k m) s in
    x = (false, zero_valres, true) /\ s_out s' = s_out s /\ s_vals s' = s_vals s.
Proof. exact C05Restart.restart_request_failing_check_is_refused. Qed.
Print Assumptions C05_restart_request_failing_check_is_refused.

(* who the other party is and which way the data flows (is_pull, other_peer) are the accessors of
   the source: regenerated from channels/channel_state.go (IsPull, OtherPeer) on every run *)
Theorem C05_party_views_are_the_sources :
  forall c, GenDecide.gen_IsPull c = is_pull c /\ GenDecide.gen_OtherPeer c = other_peer c.
Proof. exact DecideEq.party_views_are_source. Qed.
Print Assumptions C05_party_views_are_the_sources.

(* the peer a message about a channel is sent to (Node.other_party: the responder if this node is the
   initiator, else the initiator) is the one the source computes: regenerated from types.go
   ChannelID.OtherParty on every run *)
Theorem C05_counterparty_is_the_sources :
  forall p k, GenDecide.gen_OtherParty p k = other_party p k.
Proof. exact DecideEq.other_party_is_source. Qed.
Print Assumptions C05_counterparty_is_the_sources.

From DT Require GenHandlers HandlerEq.

(* the checks an incoming restart request must pass (Node.validate_restart_request: channel known and not
   terminated, sender is its initiator, same base CID, voucher present, same voucher type and voucher) are
   those of impl/restart.go validateRestartRequest, regenerated on every run: the generated program returns
   an error exactly when the model's says "not ok", and leaves the same state *)
Theorem C05_restart_request_checks_are_the_sources : forall from k m s,
  Node.ret_ok (fst (Node.run (GenHandlers.gen_validateRestartRequest from k m) s)) = fst (Node.run (Node.validate_restart_request from k m) s) /\
  snd (Node.run (GenHandlers.gen_validateRestartRequest from k m) s) = snd (Node.run (Node.validate_restart_request from k m) s).
Proof. exact HandlerEq.validate_restart_request_is_source. Qed.
Print Assumptions C05_restart_request_checks_are_the_sources.

(* only the initiator sends vouchers, only the responder voucher results: the programs with these role
   checks run like the ones regenerated from impl/impl.go SendVoucher / SendVoucherResult *)
Theorem C05_voucher_handlers_are_the_sources : forall k v,
  HandlerEq.runs_like (HandlerEq.with_self (fun self => GenHandlers.gen_SendVoucher self k v)) (Node.send_voucher k v) /\
  HandlerEq.runs_like (HandlerEq.with_self (fun self => GenHandlers.gen_SendVoucherResult self k v)) (Node.send_voucher_result k v).
Proof. exact HandlerEq.voucher_handlers_are_source. Qed.
Print Assumptions C05_voucher_handlers_are_the_sources.

(* how an incoming request is handled -- validation before anything is created (acceptRequest), the checks
   and revalidation of a restart request (restartRequest), the dispatch by kind (OnRequestReceived), the
   validator lookup of a restart (validateRestart) and the events that record a validation outcome -- as
   written in Node.v, runs for every interpreter state like the programs regenerated from
   impl/receiving_requests.go and impl/events.go on every run: same result, same "an error occurred", same
   state and outputs *)
Theorem C05_request_handlers_are_the_sources : forall k m c vr s,
  HandlerEq.same_val (Node.run (Node.bind (Node.exec Node.ISelf) (fun self => GenHandlers.gen_acceptRequest self k m)) s) (Node.run (Node.accept_request k m) s) /\
  HandlerEq.same_val3 (Node.run (Node.bind (Node.exec Node.ISelf) (fun self => GenHandlers.gen_restartRequest self k m)) s) (Node.run (Node.restart_request k m) s) /\
  HandlerEq.same_run2 (Node.run (GenHandlers.gen_OnRequestReceived (Node.n_self (Node.s_node s)) k m) s) (Node.run (Node.on_request_received k m) s) /\
  HandlerEq.same_val (Node.run (GenHandlers.gen_validateRestart c) s) (Node.run (Node.validate_restart c) s) /\
  HandlerEq.same_run (Node.run (GenHandlers.gen_recordRejectedValidationEvents k vr) s) (Node.run (Node.record_rejected k vr) s) /\
  HandlerEq.same_run (Node.run (GenHandlers.gen_recordAcceptedValidationEvents c vr) s) (Node.run (Node.record_accepted c vr) s).
Proof. exact HandlerEq.request_handlers_are_source. Qed.
Print Assumptions C05_request_handlers_are_the_sources.

(* what a response of the responder does on the initiator (cancel; voucher result recorded; rejection fails the
   channel; Accept / Restart; an un-paused Complete is the responder's final word, a paused one begins
   finalization; otherwise the responder's pause flag follows the message, and ErrPause is returned when this
   side is still paused), and what a pause / resume request does on the responder: Node.v's programs run like
   those regenerated from impl/events.go OnResponseReceived and impl/receiving_requests.go receiveUpdateRequest *)
Theorem C05_response_handlers_are_the_sources : forall k m s,
  HandlerEq.same_run (Node.run (HandlerEq.with_self (fun self => GenHandlers.gen_OnResponseReceived self k m)) s) (Node.run (Node.on_response_received k m) s) /\
  HandlerEq.same_run2 (Node.run (Node.bind (Node.exec Node.ISelf) (fun self => GenHandlers.gen_receiveUpdateRequest self k m)) s) (Node.run (Node.receive_update_request k m) s).
Proof. exact HandlerEq.response_handlers_are_source. Qed.
Print Assumptions C05_response_handlers_are_the_sources.

(* the entry points for messages that arrive over the network -- the channel id is built from the authenticated
   sender, the manager's handler runs, the reply goes out over the network or (an accepted push) on a newly
   opened transport channel, ErrPause pauses the transport and any other error closes it; a restart-existing
   request is honoured only by the channel's initiator for its counterparty on a live channel -- run, for every
   interpreter state, like the programs regenerated from impl/receiver.go on every run *)
Theorem C05_network_entry_points_are_the_sources : forall from m s,
  HandlerEq.same_run (Node.run (GenHandlers.gen_receiveRequest (Node.n_self (Node.s_node s)) from m) s) (Node.run (Node.recv_request from m) s) /\
  HandlerEq.same_run (Node.run (GenHandlers.gen_receiveResponse (Node.n_self (Node.s_node s)) from m) s) (Node.run (Node.recv_response from m) s) /\
  snd (Node.run (GenHandlers.gen_ReceiveRestartExistingChannelRequest (Node.n_self (Node.s_node s)) from m) s) = snd (Node.run (Node.recv_restart_existing from m) s).
Proof. exact HandlerEq.receiver_handlers_are_source. Qed.
Print Assumptions C05_network_entry_points_are_the_sources.

(* UpdateValidationStatus as written in Node.v (only the responder; the events that record the outcome; the reply,
   a Complete while finalizing, paused iff the request stays paused; resume through the transport with the reply
   attached iff accepted, not held, paused and not finalizing; otherwise the reply over the network, then close
   on rejection or pause when newly held) runs, for every interpreter state, like the program regenerated from
   impl/impl.go UpdateValidationStatus / updateValidationStatus / processValidationUpdate / handleTransportUpdate *)
Theorem C05_update_validation_is_the_sources : forall k vr s,
  HandlerEq.same_run (Node.run (HandlerEq.with_self (fun self => GenHandlers.gen_UpdateValidationStatus self k vr)) s) (Node.run (Node.update_validation k vr) s).
Proof. exact HandlerEq.update_validation_is_source. Qed.
Print Assumptions C05_update_validation_is_the_sources.
