(* C05  Only the counterparty, in its proper role, can act on a channel.  Statements only. *)
From Coq Require Import List NArith ZArith String Bool.
From DT Require Import GenStatus GenEvent GenMsgType FsmTypes GenFsm Fsm Machine View Caches Msg Node
     FsmFacts NodeFacts NodeKeyed.
From DT Require C05Local.
Import ListNotations.

(* whatever the input, sender and oracle answers: an input that names channel k (every message
   from the network, every API call and transport callback with a channel id) leaves the record
   and the caches of every other channel exactly as they were *)
Theorem C05_step_touches_only_its_key :
  forall n st k,
    input_key (n_self n) (st_in st) = Some k ->
    forall k' cs, k' <> k -> lookup k' (n_chans n) = Some cs ->
      exists cs', lookup k' (n_chans (fst (fst (step n st)))) = Some cs' /\
                  m_chan (cs_m cs') = m_chan (cs_m cs) /\ cs_cache cs' = cs_cache cs.
Proof. exact step_touches_only_its_key. Qed.
Print Assumptions C05_step_touches_only_its_key.

(* the key of a message is built from the authenticated sender: a request can only name a channel
   its sender initiated (with self as responder), a response only a channel self initiated with
   the sender as responder -- strangers and role-confused senders can never name an existing
   channel of another party *)
Theorem C05_message_key_addresses_only_counterparty_role :
  forall self from m c,
    (input_key self (MRequest from m) = Some (chan_id c) -> c_init c = from /\ c_resp c = self) /\
    (input_key self (MResponse from m) = Some (chan_id c) -> c_init c = self /\ c_resp c = from).
Proof. exact message_key_addresses_only_counterparty_role. Qed.
Print Assumptions C05_message_key_addresses_only_counterparty_role.

(* the program-level frame: a keyed run never changes another key *)
Theorem C05_keyed_others_same :
  forall A k (p : prog A) s, others_same k s (snd (run_keyed k p s)).
Proof. exact keyed_others_same. Qed.
Print Assumptions C05_keyed_others_same.

(* local calls in the wrong role: the initiator of a channel cannot issue a validation update for it
   (the call fails and the node's state is untouched), a voucher result for a channel this node
   initiated and a voucher for a channel it did not initiate are refused after merely reading the
   channel: nothing is sent, recorded or announced *)
Theorem C05_initiator_cannot_update_validation :
  forall s k vr, k_init k = n_self (s_node s) -> run (update_validation k vr) s = (ROther, s).
Proof. exact C05Local.initiator_cannot_update_validation. Qed.
Print Assumptions C05_initiator_cannot_update_validation.

Theorem C05_wrong_role_voucher_calls_only_read :
  forall s k v,
    (k_init k = n_self (s_node s) ->
       run (send_voucher_result k v) s = (match fst (run (exec (IGet k)) s) with None => RNotFound | Some _ => ROther end,
                                          snd (run (exec (IGet k)) s))) /\
    (k_init k <> n_self (s_node s) ->
       run (send_voucher k v) s = (match fst (run (exec (IGet k)) s) with None => RNotFound | Some _ => ROther end,
                                   snd (run (exec (IGet k)) s))).
Proof. exact C05Local.wrong_role_voucher_calls_only_read. Qed.
Print Assumptions C05_wrong_role_voucher_calls_only_read.
