(* C04  Only validated requests move data.  Statements only (node model Node.v, handlers as repaired). *)
From Coq Require Import List NArith ZArith String Bool.
From DT Require Import GenStatus GenEvent GenMsgType FsmTypes GenFsm Fsm Machine View Caches Msg Node
     FsmFacts NodeFacts C04Proofs.
From DT Require UpdateProofs C04Restart.
From DT Require GenDecide DecideEq.
Import ListNotations.

(* a validation response reports acceptance precisely when validation succeeded AND accepted;
   it carries exactly the validator's voucher result and the given pause decision *)
Theorem C04_reply_accepted_iff :
  forall t tid vr err paused,
    g_accepted (validation_result_response t tid vr err paused) = negb err && vr_accepted vr /\
    g_pause (validation_result_response t tid vr err paused) = paused /\
    (vr_hasres vr = true ->
       g_vtype (validation_result_response t tid vr err paused) = v_type (vr_res vr) /\
       g_vnode (validation_result_response t tid vr err paused) = v_node (vr_res vr)) /\
    (vr_hasres vr = false -> g_vtype (validation_result_response t tid vr err paused) = EmptyString).
Proof. exact reply_accepted_iff. Qed.
Print Assumptions C04_reply_accepted_iff.

(* acceptRequest reports success only if selector and voucher are present, the voucher type is
   registered, and the validator's answer (the next oracle value) accepted without error; the
   validator call is in the output trace *)
Theorem C04_accept_requires_validation :
  forall k m s,
    let '(x, s') := run (accept_request k m) s in
    snd x = false -> vr_accepted (fst x) = true ->
      g_selector m <> 0%N /\ g_vnode m <> 0%N /\
      existsb (String.eqb (g_vtype m)) (n_registry (s_node s)) = true /\
      (exists rest, s_vals s = fst x :: rest) /\ vr_err (fst x) = false /\
      In (NValidate (if g_pull m then VPull else VPush) k) (s_out s').
Proof. exact accept_requires_validation. Qed.
Print Assumptions C04_accept_requires_validation.

(* otherwise (missing selector or voucher, unregistered type, validator error or rejection) the
   set of channels is unchanged and the request is reported as failed or not accepted *)
Theorem C04_no_validation_no_channel :
  forall k m s,
    (g_selector m = 0%N \/ g_vnode m = 0%N \/
     existsb (String.eqb (g_vtype m)) (n_registry (s_node s)) = false \/
     (let vr := fst (pop_val (s_vals s)) in vr_err vr = true \/ vr_accepted vr = false)) ->
    let '(x, s') := run (accept_request k m) s in
    n_chans (s_node s') = n_chans (s_node s) /\ (snd x = true \/ vr_accepted (fst x) = false).
Proof. exact no_validation_no_channel. Qed.
Print Assumptions C04_no_validation_no_channel.

(* the reply to a new request *)
Theorem C04_new_request_reply :
  forall k m s,
    let '(x, s') := run (receive_new_request k m) s in
    match fst x with
    | None => False
    | Some r =>
        g_isreq r = false /\ g_type r = NewMessage /\ g_tid r = g_tid m /\
        (g_accepted r = true ->
           exists vr rest, s_vals s = vr :: rest /\ vr_accepted vr = true /\ vr_err vr = false /\
             g_pause r = vr_force vr /\
             (if vr_hasres vr then g_vtype r = v_type (vr_res vr) /\ g_vnode r = v_node (vr_res vr)
              else g_vtype r = EmptyString) /\
             In (NValidate (if g_pull m then VPull else VPush) k) (s_out s'))
    end.
Proof. exact new_request_reply. Qed.
Print Assumptions C04_new_request_reply.

(* an existing channel that is re-validated and rejected: the rejection is recorded (the channel
   fails), the initiator is told, the transport channel is closed -- in this order and nothing else,
   whatever the pause-implying fields of the result say *)
Theorem C04_rejecting_update_closes_transport :
  forall k c vr, vr_accepted vr = false ->
    UpdateProofs.uv_body k c vr =
    (r <- record_rejected k vr ;;
     if negb (ret_ok r) then Ret r
     else
       let mt := if status_eqb (c_status c) Finalizing then CompleteMessage else VoucherResultMessage in
       ok <- exec (INetSend (k_init (chid_of c)) (validation_result_response mt (c_tid c) vr false (leave_paused vr c))) ;;
       if negb ok then Ret ROther else exec (ITransport (TClose (chid_of c))) ;;; Ret ROk).
Proof. exact UpdateProofs.rejecting_update_closes_transport. Qed.
Print Assumptions C04_rejecting_update_closes_transport.

(* restart requests: the manager reports one as accepted (no error, validator's result accepting) only
   if its own check passed (C05_restart_request_check: from the initiator of a live channel, repeating
   the original base cid and voucher), the opening voucher's type is registered, and the validator of
   that type was asked about the restart (the call is in the output trace) and accepted without error *)
Theorem C04_restart_accept_requires_validation :
  forall k m s,
    let '(x, s') := run (restart_request k m) s in
    snd x = false -> vr_accepted (snd (fst x)) = true ->
      fst (run (validate_restart_request (k_init k) k m) s) = true /\
      vr_err (snd (fst x)) = false /\
      exists c, In (NValidate VRestart (chid_of c)) (s_out s') /\
                existsb (String.eqb (v_type (first_voucher c))) (n_registry (s_node s)) = true.
Proof. exact C04Restart.restart_requires_validation. Qed.
Print Assumptions C04_restart_accept_requires_validation.

(* the pause rule the theorems above are about (Node.leave_paused: forced pause, or finalization
   still required on a channel in finalization, or a non-zero data limit already reached by the
   limited total) is the one in the source: GenDecide.gen_LeaveRequestPaused is regenerated from
   manager.go ValidationResult.LeaveRequestPaused on every run *)
Theorem C04_pause_rule_is_the_sources :
  forall vr c, GenDecide.gen_LeaveRequestPaused vr c = Node.leave_paused vr c.
Proof. exact DecideEq.leave_paused_is_source. Qed.
Print Assumptions C04_pause_rule_is_the_sources.

(* the signal handed back to whoever carried a request (Node.request_error: a validation error
   first, then rejection, then "stay paused") is the one in the source: regenerated from
   impl/receiving_requests.go manager.requestError on every run *)
Theorem C04_request_signal_is_the_sources :
  forall vr err stay, GenDecide.gen_requestError vr err stay = Node.request_error vr err stay.
Proof. exact DecideEq.request_error_is_source. Qed.
Print Assumptions C04_request_signal_is_the_sources.

From DT Require GenHandlers HandlerEq.

(* every restart path of Node.v (the API call with its terminated / cleaning-up / by-role branches, the
   re-issued push request and pull transport request, the responder's revalidate-then-ask) runs, for every
   interpreter state, exactly like the program regenerated from impl/impl.go RestartDataTransferChannel and
   impl/restart.go on every run *)
Theorem C04_restart_handlers_are_the_sources : forall k c,
  HandlerEq.runs_like (HandlerEq.with_self (fun self => GenHandlers.gen_RestartDataTransferChannel self k)) (Node.restart_channel k) /\
  HandlerEq.runs_like (GenHandlers.gen_openPushRestartChannel c) (Node.open_push_restart c) /\
  HandlerEq.runs_like (GenHandlers.gen_openPullRestartChannel c) (Node.open_pull_restart c) /\
  HandlerEq.runs_like (GenHandlers.gen_restartManagerPeerReceivePush c) (Node.restart_received c) /\
  HandlerEq.runs_like (GenHandlers.gen_restartManagerPeerReceivePull c) (Node.restart_received c).
Proof. exact HandlerEq.restart_handlers_are_source. Qed.
Print Assumptions C04_restart_handlers_are_the_sources.

(* how an incoming request is handled -- validation before anything is created (acceptRequest), the checks
   and revalidation of a restart request (restartRequest), the dispatch by kind (OnRequestReceived), the
   validator lookup of a restart (validateRestart) and the events that record a validation outcome -- as
   written in Node.v, runs for every interpreter state like the programs regenerated from
   impl/receiving_requests.go and impl/events.go on every run: same result, same "an error occurred", same
   state and outputs *)
Theorem C04_request_handlers_are_the_sources : forall k m c vr s,
  HandlerEq.same_val (Node.run (Node.bind (Node.exec Node.ISelf) (fun self => GenHandlers.gen_acceptRequest self k m)) s) (Node.run (Node.accept_request k m) s) /\
  HandlerEq.same_val3 (Node.run (Node.bind (Node.exec Node.ISelf) (fun self => GenHandlers.gen_restartRequest self k m)) s) (Node.run (Node.restart_request k m) s) /\
  HandlerEq.same_run2 (Node.run (GenHandlers.gen_OnRequestReceived (Node.n_self (Node.s_node s)) k m) s) (Node.run (Node.on_request_received k m) s) /\
  HandlerEq.same_val (Node.run (GenHandlers.gen_validateRestart c) s) (Node.run (Node.validate_restart c) s) /\
  HandlerEq.same_run (Node.run (GenHandlers.gen_recordRejectedValidationEvents k vr) s) (Node.run (Node.record_rejected k vr) s) /\
  HandlerEq.same_run (Node.run (GenHandlers.gen_recordAcceptedValidationEvents c vr) s) (Node.run (Node.record_accepted c vr) s).
Proof. exact HandlerEq.request_handlers_are_source. Qed.
Print Assumptions C04_request_handlers_are_the_sources.

(* the entry points for messages that arrive over the network -- the channel id is built from the authenticated
   sender, the manager's handler runs, the reply goes out over the network or (an accepted push) on a newly
   opened transport channel, ErrPause pauses the transport and any other error closes it; a restart-existing
   request is honoured only by the channel's initiator for its counterparty on a live channel -- run, for every
   interpreter state, like the programs regenerated from impl/receiver.go on every run *)
Theorem C04_network_entry_points_are_the_sources : forall from m s,
  HandlerEq.same_run (Node.run (GenHandlers.gen_receiveRequest (Node.n_self (Node.s_node s)) from m) s) (Node.run (Node.recv_request from m) s) /\
  HandlerEq.same_run (Node.run (GenHandlers.gen_receiveResponse (Node.n_self (Node.s_node s)) from m) s) (Node.run (Node.recv_response from m) s) /\
  snd (Node.run (GenHandlers.gen_ReceiveRestartExistingChannelRequest (Node.n_self (Node.s_node s)) from m) s) = snd (Node.run (Node.recv_restart_existing from m) s).
Proof. exact HandlerEq.receiver_handlers_are_source. Qed.
Print Assumptions C04_network_entry_points_are_the_sources.

(* UpdateValidationStatus as written in Node.v (only the responder; the events that record the outcome; the reply,
   a Complete while finalizing, paused iff the request stays paused; resume through the transport with the reply
   attached iff accepted, not held, paused and not finalizing; otherwise the reply over the network, then close
   on rejection or pause when newly held) runs, for every interpreter state, like the program regenerated from
   impl/impl.go UpdateValidationStatus / updateValidationStatus / processValidationUpdate / handleTransportUpdate *)
Theorem C04_update_validation_is_the_sources : forall k vr s,
  HandlerEq.same_run (Node.run (HandlerEq.with_self (fun self => GenHandlers.gen_UpdateValidationStatus self k vr)) s) (Node.run (Node.update_validation k vr) s).
Proof. exact HandlerEq.update_validation_is_source. Qed.
Print Assumptions C04_update_validation_is_the_sources.
