(* C13  Opening a version-2 datastore preserves every channel.  Statements only.
   migrate_2_3 and the record chan2 are GENERATED on every run from
   channels/internal/migrations/migrations.go (struct ChannelStateV2, MigrateChannelState2To3);
   the migration run and the readiness gate (go-ds-versioning, impl.Start / OnReady) are the
   hand-written Migrate.v, tied to the code by the migrate suite. *)
From Coq Require Import List NArith ZArith String Bool.
From DT Require Import GenStatus FsmTypes Fsm GenMigrate Migrate C13Proofs.
Import ListNotations.

Theorem C13_all_fields_preserved :
  forall o, let c := migrate_2_3 o in
    c_self c = c2_self o /\ c_tid c = c2_tid o /\ c_init c = c2_init o /\ c_resp c = c2_resp o /\
    c_basecid c = c2_basecid o /\ c_selector c = c2_selector o /\ c_sender c = c2_sender o /\
    c_recipient c = c2_recipient o /\ c_totalsize c = c2_totalsize o /\
    c_queued c = c2_queued o /\ c_sent c = c2_sent o /\ c_received c = c2_received o /\
    c_msg c = c2_msg o /\ c_vouchers c = c2_vouchers o /\ c_results c = c2_results o /\
    c_rblocks c = c2_rblocks o /\ c_qblocks c = c2_qblocks o /\ c_sblocks c = c2_sblocks o /\
    c_limit c = c2_limit o /\ c_reqfin c = c2_reqfin o /\ c_stages c = c2_stages o.
Proof. exact all_fields_preserved. Qed.
Print Assumptions C13_all_fields_preserved.

Theorem C13_status_mapping :
  forall o, let c := migrate_2_3 o in
    (deprecated_paused (c2_status o) = true ->
       c_status c = Ongoing /\
       c_ipaused c = (status_eqb (c2_status o) InitiatorPaused || status_eqb (c2_status o) BothPaused) /\
       c_rpaused c = (status_eqb (c2_status o) ResponderPaused || status_eqb (c2_status o) BothPaused)) /\
    (deprecated_paused (c2_status o) = false ->
       c_status c = c2_status o /\ c_ipaused c = false /\ c_rpaused c = false).
Proof. exact status_mapping. Qed.
Print Assumptions C13_status_mapping.

Theorem C13_paused_statuses :
  forall o, let c := migrate_2_3 o in
    (c2_status o = InitiatorPaused -> c_status c = Ongoing /\ c_ipaused c = true /\ c_rpaused c = false) /\
    (c2_status o = ResponderPaused -> c_status c = Ongoing /\ c_ipaused c = false /\ c_rpaused c = true) /\
    (c2_status o = BothPaused -> c_status c = Ongoing /\ c_ipaused c = true /\ c_rpaused c = true).
Proof. exact paused_statuses. Qed.
Print Assumptions C13_paused_statuses.

Theorem C13_nothing_dropped : migrate_unassigned = [] /\ migrate_unread = [].
Proof. exact nothing_dropped. Qed.
Print Assumptions C13_nothing_dropped.

Theorem C13_start_migrates_every_record :
  forall s, st_version s = V2 ->
    existsb (fun p => has_key (fst p) (st_v3 s)) (st_v2 s) = false ->
    start s = (mkStore V3 [] (st_v3 s ++ map (fun p => (fst p, migrate_2_3 (snd p))) (st_v2 s)), Ready).
Proof. exact start_migrates_every_record. Qed.
Print Assumptions C13_start_migrates_every_record.

Theorem C13_start_failure_changes_nothing :
  forall s s', start s = (s', MigrationFailed) -> s' = s.
Proof. exact start_failure_changes_nothing. Qed.
Print Assumptions C13_start_failure_changes_nothing.

Theorem C13_restarts_idempotent :
  forall n s s1, start s = (s1, Ready) -> Nat.iter n (fun x => fst (start x)) s1 = s1.
Proof. exact restarts_idempotent. Qed.
Print Assumptions C13_restarts_idempotent.

Theorem C13_gate_refuses_until_ready :
  forall R (m : modl) (f : store -> store * R),
    md_ready m <> Some Ready -> mod_op m f = (m, None).
Proof. exact gate_refuses_until_ready. Qed.
Print Assumptions C13_gate_refuses_until_ready.

Theorem C13_ready_announced_once :
  forall s n, let m := mod_start (reg n (mod_new s)) in
    md_ready m = Some (snd (start s)) /\ md_store m = fst (start s) /\
    md_calls m = map (fun i => (i, snd (start s))) (seq 0 n) /\
    mod_start m = m.
Proof. exact ready_announced_once. Qed.
Print Assumptions C13_ready_announced_once.

(* the number a status is stored under is part of the on-disk format: records written by earlier builds (and by
   schema version 2) carry these numbers, so the numbering is append-only.  GenStatus.v is regenerated from
   statuses.go on every run; this pins the published numbering of every status that exists in stored records *)
Theorem C13_stored_status_numbers_are_the_published_ones :
  forallb (fun p => N.eqb (status_code (fst p)) (snd p))
    [(Requested, 0%N); (Ongoing, 1%N); (TransferFinished, 2%N); (ResponderCompleted, 3%N); (Finalizing, 4%N); (Completing, 5%N); (Completed, 6%N); (Failing, 7%N); (Failed, 8%N); (Cancelling, 9%N); (Cancelled, 10%N); (InitiatorPaused, 11%N); (ResponderPaused, 12%N); (BothPaused, 13%N); (ResponderFinalizing, 14%N); (ResponderFinalizingTransferFinished, 15%N); (ChannelNotFoundError, 16%N); (Queued, 17%N); (AwaitingAcceptance, 18%N)] = true.
Proof. vm_compute. reflexivity. Qed.
Print Assumptions C13_stored_status_numbers_are_the_published_ones.
