(* C10  Restart resumes the same transfer.  Statements only (identity and key-set part; the
   re-issued request, revalidation order and progress are checked by correspondence and monitors). *)
From Coq Require Import List NArith ZArith String Bool.
From DT Require Import GenStatus GenEvent GenMsgType FsmTypes GenFsm Fsm Machine View Caches Msg Node
     FsmFacts NodeFacts NodeProps C19Proofs Transport C16Proofs C10Cleanup.
Import ListNotations.

(* over every history of inputs (restarts of every kind included, with process restarts): every
   channel keeps its id, peers, base cid, selector, self peer, sender and recipient *)
Theorem C10_identity_history :
  forall l n k cs,
    lookup k (n_chans n) = Some cs ->
    exists cs', lookup k (n_chans (run_history n l)) = Some cs' /\
                identity_of (m_chan (cs_m cs')) = identity_of (m_chan (cs_m cs)).
Proof. exact identity_history. Qed.
Print Assumptions C10_identity_history.

(* the opening voucher stays the first voucher, and both logs only grow *)
Theorem C10_logs_history :
  forall l n k cs,
    lookup k (n_chans n) = Some cs ->
    exists cs' s1 s2, lookup k (n_chans (run_history n l)) = Some cs' /\
      c_vouchers (m_chan (cs_m cs')) = c_vouchers (m_chan (cs_m cs)) ++ s1 /\
      c_results (m_chan (cs_m cs')) = c_results (m_chan (cs_m cs)) ++ s2.
Proof. exact logs_history. Qed.
Print Assumptions C10_logs_history.

(* recorded block indexes never move backwards *)
Theorem C10_index_monotone_history :
  forall l n k cs,
    lookup k (n_chans n) = Some cs ->
    exists cs', lookup k (n_chans (run_history n l)) = Some cs' /\
      le3 (idx3 (m_chan (cs_m cs))) (idx3 (m_chan (cs_m cs'))).
Proof. exact index_monotone_history. Qed.
Print Assumptions C10_index_monotone_history.

(* the request an initiator re-issues: same transfer id and direction, marked as restart, with the
   opening voucher, base cid and selector of the stored record (by definition of the handlers) *)
Theorem C10_initiator_reissues_original :
  forall c,
    c_basecid c <> 0%N ->
    new_request (k_tid (chid_of c)) true (is_pull c) (first_voucher c) (c_basecid c) (c_selector c) =
    Some (mkMsg true RestartMessage (k_tid (chid_of c)) false (is_pull c) false
                (v_type (first_voucher c)) (v_node (first_voucher c)) (c_basecid c) (c_selector c) no_chid).
Proof.
  intros c H. unfold new_request. destruct (N.eqb_spec (c_basecid c) 0); [contradiction|reflexivity].
Qed.
Print Assumptions C10_initiator_reissues_original.

(* transport level: the new request tells the sender to skip exactly the recorded number of
   received blocks, after the channel's previous request was cancelled *)
Theorem C10_restart_request_shape :
  forall s to k n m c old,
    tlookup k (ts_chans s) = Some c -> tc_req c = Some old -> tc_rcancel c = false ->
    exists rest1 rest2,
      snd (tstep s (XOpenChannel to k (Some n) m) []) =
      OGs (GCancel old) true :: rest1 ++ OGs (GRequest to m (Some n)) true :: rest2.
Proof. exact restart_request_shape. Qed.
Print Assumptions C10_restart_request_shape.

(* messages queued while the requester was away are delivered once, on its next request for data
   (a graphsync request that carries a cancel is terminated instead, see fix #6) *)
Theorem C10_pending_extensions_delivered_once :
  forall s p rid m c a,
    g_isreq m = true -> is_cancel m = false ->
    tlookup (p, ts_self s, g_tid m) (ts_chans s) = Some c -> tc_rcancel c = true -> ha_ret a <> HErr ->
    let k := (p, ts_self s, g_tid m) in
    let '(s', o) := tstep s (GIncomingRequest p rid (Some m)) [a] in
    (exists c', tlookup k (ts_chans s') = Some c' /\ tc_pending c' = [] /\ tc_rcancel c' = false /\
                tc_req c' = Some rid) /\
    default_exts o = tc_pending c.
Proof. exact pending_extensions_delivered_once. Qed.
Print Assumptions C10_pending_extensions_delivered_once.

(* a restart of a channel that is cleaning up only finishes the cleanup: the handler is then exactly
   "read the channel and send it CompleteCleanupOnRestart" (whose effect is C09 / C06's: one cleanup
   run, the matching terminal status): no message, no transport request, no validation *)
Theorem C10_restart_in_cleanup_only_finishes_cleanup :
  forall s k cs,
    lookup k (n_chans (s_node s)) = Some cs ->
    is_cleanup (c_status (m_chan (msync (cs_m cs)))) = true ->
    run (restart_channel k) s = run (finish_cleanup_only k) s.
Proof. exact restart_in_cleanup_only_finishes_cleanup. Qed.
Print Assumptions C10_restart_in_cleanup_only_finishes_cleanup.

(* a restart of a terminated channel does nothing *)
Theorem C10_restart_of_terminated_does_nothing :
  forall s k cs,
    lookup k (n_chans (s_node s)) = Some cs ->
    is_final (c_status (m_chan (msync (cs_m cs)))) = true ->
    run (restart_channel k) s = (ROk, snd (run (exec (IGet k)) s)).
Proof. exact restart_of_terminated_does_nothing. Qed.
Print Assumptions C10_restart_of_terminated_does_nothing.

From DT Require GenHandlers HandlerEq.

(* every restart path of Node.v (the API call with its terminated / cleaning-up / by-role branches, the
   re-issued push request and pull transport request, the responder's revalidate-then-ask) runs, for every
   interpreter state, exactly like the program regenerated from impl/impl.go RestartDataTransferChannel and
   impl/restart.go on every run *)
Theorem C10_restart_handlers_are_the_sources : forall k c,
  HandlerEq.runs_like (HandlerEq.with_self (fun self => GenHandlers.gen_RestartDataTransferChannel self k)) (Node.restart_channel k) /\
  HandlerEq.runs_like (GenHandlers.gen_openPushRestartChannel c) (Node.open_push_restart c) /\
  HandlerEq.runs_like (GenHandlers.gen_openPullRestartChannel c) (Node.open_pull_restart c) /\
  HandlerEq.runs_like (GenHandlers.gen_restartManagerPeerReceivePush c) (Node.restart_received c) /\
  HandlerEq.runs_like (GenHandlers.gen_restartManagerPeerReceivePull c) (Node.restart_received c).
Proof. exact HandlerEq.restart_handlers_are_source. Qed.
Print Assumptions C10_restart_handlers_are_the_sources.

(* the entry points for messages that arrive over the network -- the channel id is built from the authenticated
   sender, the manager's handler runs, the reply goes out over the network or (an accepted push) on a newly
   opened transport channel, ErrPause pauses the transport and any other error closes it; a restart-existing
   request is honoured only by the channel's initiator for its counterparty on a live channel -- run, for every
   interpreter state, like the programs regenerated from impl/receiver.go on every run *)
Theorem C10_network_entry_points_are_the_sources : forall from m s,
  HandlerEq.same_run (Node.run (GenHandlers.gen_receiveRequest (Node.n_self (Node.s_node s)) from m) s) (Node.run (Node.recv_request from m) s) /\
  HandlerEq.same_run (Node.run (GenHandlers.gen_receiveResponse (Node.n_self (Node.s_node s)) from m) s) (Node.run (Node.recv_response from m) s) /\
  snd (Node.run (GenHandlers.gen_ReceiveRestartExistingChannelRequest (Node.n_self (Node.s_node s)) from m) s) = snd (Node.run (Node.recv_restart_existing from m) s).
Proof. exact HandlerEq.receiver_handlers_are_source. Qed.
Print Assumptions C10_network_entry_points_are_the_sources.

(* opening a channel as written in Node.v (a fresh id from the counter, the request built from the caller's
   voucher, base CID and selector, the record created and opened before anything leaves the node, the peer
   protected, the request sent over the network for a push and handed to the transport for a pull, a failed send
   failing the channel) runs, for every interpreter state, like the programs regenerated from impl/impl.go
   OpenPushDataChannel / OpenPullDataChannel: same error class, same state and outputs, same channel id *)
Theorem C10_opening_calls_are_the_sources : forall to v b sel s,
  HandlerEq.same_open (Node.run (Node.bind (Node.exec Node.ISelf) (fun self => GenHandlers.gen_OpenPushDataChannel self to v b sel)) s) (Node.run (Node.open_channel Node.DPush to v b sel) s) /\
  HandlerEq.same_open (Node.run (Node.bind (Node.exec Node.ISelf) (fun self => GenHandlers.gen_OpenPullDataChannel self to v b sel)) s) (Node.run (Node.open_channel Node.DPull to v b sel) s).
Proof. exact HandlerEq.opening_calls_are_source. Qed.
Print Assumptions C10_opening_calls_are_the_sources.
