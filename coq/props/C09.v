(* C09  Cleanup runs exactly once per ending, always settles (machine level).  Statements only. *)
From Coq Require Import List NArith ZArith String Bool.
From DT Require Import GenStatus GenEvent GenMsgType FsmTypes GenFsm Fsm Machine View Msg Transport FsmFacts MachineFacts C09Proofs C16Proofs.
From DT Require Node C09Reject.
From DT Require GenDecide DecideEq.
Import ListNotations.

(* the cleanup entry function releases the transport channel once, un-protects the other party
   once and triggers exactly CleanupComplete (facts of the regenerated cleanupConnection) *)
Theorem C09_entry_function_shape : entry_prog_ok = true.
Proof. exact entry_prog_checked. Qed.
Print Assumptions C09_entry_function_shape.

(* in every schedule, whenever the machine is idle, the number of cleanup runs (and of
   un-protect calls) equals the number of planned events that started the entry function *)
Theorem C09_cleanup_once_per_entry :
  forall ls c m' o,
    m_run (m_init c) ls = (m', o) ->
    pending m' = 0 ->
    count is_cleanup_out o = List.length (filter (fun p => snd p) (planned o)) /\
    count is_unprotect_out o = List.length (filter (fun p => snd p) (planned o)).
Proof. exact cleanup_once_per_entry. Qed.
Print Assumptions C09_cleanup_once_per_entry.

(* ... and the entry function is started ONLY by a transition that enters a cleanup status,
   or by CompleteCleanupOnRestart in a cleanup status (the explicit request to redo cleanup) *)
Theorem C09_handler_started_only_by_entering_or_restart :
  forall ls c m' o e s,
    m_run (m_init c) ls = (m', o) ->
    In (e, s, true) (planned o) ->
    entering e s = true \/ (e = CompleteCleanupOnRestart /\ is_cleanup s = true).
Proof. exact handler_started_only_by_entering_or_restart. Qed.
Print Assumptions C09_handler_started_only_by_entering_or_restart.

(* a terminal status is never reached without a cleanup run and an un-protect before it *)
Theorem C09_terminal_only_via_cleanup :
  forall ls c m' o,
    is_final (c_status c) = false ->
    forallb ext_ok ls = true ->
    m_run (m_init c) ls = (m', o) ->
    is_final (c_status (m_chan m')) = true ->
    1 <= count is_cleanup_out o /\ 1 <= count is_unprotect_out o.
Proof. exact terminal_only_via_cleanup. Qed.
Print Assumptions C09_terminal_only_via_cleanup.

(* without further input an ending settles in the matching terminal status with exactly one
   cleanup and one un-protect of the other party *)
Theorem C09_cleanup_settles :
  forall c e s',
    is_final (c_status c) = false ->
    dest_of (fst e) (c_status c) = Some (DTo s') ->
    is_cleanup s' = true ->
    exists m' o,
      deliver (m_init c) e = (m', o) /\
      c_status (m_chan m') = terminal_of s' /\ is_final (terminal_of s') = true /\
      m_dead m' = true /\ m_queue m' = [] /\
      count is_cleanup_out o = 1 /\ count is_unprotect_out o = 1 /\
      In (OCleanupChannel (chan_id c)) o /\ In (OUnprotect (cleanup_other c) (chan_id c)) o.
Proof. exact cleanup_settles. Qed.
Print Assumptions C09_cleanup_settles.

Theorem C09_terminal_matching :
  terminal_of Cancelling = Cancelled /\ terminal_of Failing = Failed /\ terminal_of Completing = Completed.
Proof. exact terminal_matching. Qed.
Print Assumptions C09_terminal_matching.

(* Cancel, Error and Complete are endings from every non-terminal status *)
Theorem C09_endings_enter_cleanup :
  forall s, is_final s = false ->
    entering Cancel s = true /\ entering Error s = true /\ entering Complete s = true.
Proof. intros s _. destruct s; repeat split; vm_compute; reflexivity. Qed.
Print Assumptions C09_endings_enter_cleanup.

(* transport level: closing a channel always returns, whatever the state of the underlying
   request (never started, open, already cancelled, cancelled by the remote): the model of
   dtChannel.close (as repaired by fix #4) has no wait state *)
Theorem C09_close_always_returns :
  forall s k orc, exists b, In (ORet b) (snd (tstep s (XClose k) orc)).
Proof. exact close_always_returns. Qed.
Print Assumptions C09_close_always_returns.

(* a cancel or failure that is cleaning up is not diverted by anything the counterparty or the
   transport sends meanwhile: the status stays, cleanup is not re-run, and CleanupComplete then
   takes it to the matching terminal status *)
Theorem C09_cancel_fail_not_diverted :
  forall es s,
    s = Cancelling \/ s = Failing ->
    forallb (fun e => negb (lifecycle_event e)) es = true ->
    run_status s es = s /\
    next_status CleanupComplete (run_status s es) = terminal_of s /\
    forallb (fun e => negb (starts_handler e s)) es = true.
Proof. exact cancel_fail_not_diverted. Qed.
Print Assumptions C09_cancel_fail_not_diverted.

(* closing on a rejected request (node level, handler programs of Node.v).  The reply to a new or
   restart request says "accepted" exactly when the signal handed back lets the carrier go on
   (ok, or stay paused); a request that was not accepted -- whatever ForcePause / data limit / the
   finalization flag of the validator's answer say -- is signalled as rejected or failed ... *)
Theorem C09_unaccepted_new_request_is_signalled_rejected :
  forall k m s,
    let '(x, s') := Node.run (Node.receive_new_request k m) s in
    match fst x with
    | None => False
    | Some r =>
        (g_accepted r = false -> snd x = Node.ROther \/ snd x = Node.RRejected) /\
        (snd x = Node.ROk \/ snd x = Node.RPause -> g_accepted r = true)
    end.
Proof. exact C09Reject.new_request_signal. Qed.
Print Assumptions C09_unaccepted_new_request_is_signalled_rejected.

Theorem C09_unaccepted_restart_request_is_signalled_rejected :
  forall k m s,
    let '(x, s') := Node.run (Node.receive_restart_request k m) s in
    match fst x with
    | None => False
    | Some r =>
        (g_accepted r = false -> snd x = Node.ROther \/ snd x = Node.RRejected) /\
        (snd x = Node.ROk \/ snd x = Node.RPause -> g_accepted r = true)
    end.
Proof. exact C09Reject.restart_request_signal. Qed.
Print Assumptions C09_unaccepted_restart_request_is_signalled_rejected.

(* ... and on that signal the receiver, once the reply went out, closes the transport channel and
   does nothing else (receiver.receiveRequest is exactly the program of C09Reject.recv_request_unfold,
   whose tail is after_reply) *)
Theorem C09_rejected_request_closes_transport :
  forall k e, (e = Node.RRejected \/ e = Node.ROther) ->
    C09Reject.after_reply k e = Node.bind (Node.exec (Node.ITransport (Node.TClose k))) (fun _ => Node.Ret e).
Proof. exact C09Reject.rejected_request_closes_transport. Qed.
Print Assumptions C09_rejected_request_closes_transport.

(* the signal handed back to whoever carried a request (Node.request_error: a validation error
   first, then rejection, then "stay paused") is the one in the source: regenerated from
   impl/receiving_requests.go manager.requestError on every run *)
Theorem C09_request_signal_is_the_sources :
  forall vr err stay, GenDecide.gen_requestError vr err stay = Node.request_error vr err stay.
Proof. exact DecideEq.request_error_is_source. Qed.
Print Assumptions C09_request_signal_is_the_sources.

From DT Require GenHandlers HandlerEq.

(* the programs of Node.v that close a channel (by the user: transport first, then the Cancel event, then the
   cancel message; with an error: transport, cancel message, Error event) run, for every interpreter state,
   exactly like the programs regenerated from impl/impl.go CloseDataTransferChannel /
   CloseDataTransferChannelWithError on every run, and the cancel message's kind by role is the source's *)
Theorem C09_close_handlers_are_the_sources : forall k,
  HandlerEq.runs_like (HandlerEq.with_self (fun self => GenHandlers.gen_CloseDataTransferChannel self k)) (Node.close_channel k) /\
  HandlerEq.runs_like (HandlerEq.with_self (fun self => GenHandlers.gen_CloseDataTransferChannelWithError self k)) (Node.close_with_error k) /\
  (forall self, GenHandlers.gen_cancelMessage self k = Node.cancel_message self k).
Proof. exact HandlerEq.close_handlers_are_source. Qed.
Print Assumptions C09_close_handlers_are_the_sources.

(* the entry points for messages that arrive over the network -- the channel id is built from the authenticated
   sender, the manager's handler runs, the reply goes out over the network or (an accepted push) on a newly
   opened transport channel, ErrPause pauses the transport and any other error closes it; a restart-existing
   request is honoured only by the channel's initiator for its counterparty on a live channel -- run, for every
   interpreter state, like the programs regenerated from impl/receiver.go on every run *)
Theorem C09_network_entry_points_are_the_sources : forall from m s,
  HandlerEq.same_run (Node.run (GenHandlers.gen_receiveRequest (Node.n_self (Node.s_node s)) from m) s) (Node.run (Node.recv_request from m) s) /\
  HandlerEq.same_run (Node.run (GenHandlers.gen_receiveResponse (Node.n_self (Node.s_node s)) from m) s) (Node.run (Node.recv_response from m) s) /\
  snd (Node.run (GenHandlers.gen_ReceiveRestartExistingChannelRequest (Node.n_self (Node.s_node s)) from m) s) = snd (Node.run (Node.recv_restart_existing from m) s).
Proof. exact HandlerEq.receiver_handlers_are_source. Qed.
Print Assumptions C09_network_entry_points_are_the_sources.
