(* C16  Transport routes each graphsync event to its channel; none after cleanup.  Statements only
   (model Transport.v of transport/graphsync/graphsync.go; graphsync itself is not modelled). *)
From Coq Require Import List NArith ZArith String Bool.
From DT Require Import GenStatus GenEvent GenMsgType FsmTypes GenFsm Fsm View Msg Transport C16Proofs C16Store.
From DT Require C16Names.
Import ListNotations.

Theorem C16_event_channel_is_request_owner :
  forall s i r orc,
    request_keyed i = Some r ->
    match rlookup r (ts_reqmap s) with
    | Some k => forall h, In h (calls (snd (tstep s i orc))) -> hcall_chid h = k
    | None => tstep s i orc = (s, [])
    end.
Proof. exact event_channel_is_request_owner. Qed.
Print Assumptions C16_event_channel_is_request_owner.

Theorem C16_channel_id_from_authenticated_peer :
  forall s p rid om orc,
    match om with
    | None => tstep s (GIncomingRequest p rid om) orc = (s, [])
    | Some m =>
        let k := if g_isreq m then (p, ts_self s, g_tid m) else (ts_self s, p, g_tid m) in
        calls (snd (tstep s (GIncomingRequest p rid om) orc)) =
        [if g_isreq m then HRequestReceived k m else HResponseReceived k m]
    end.
Proof. exact channel_id_from_authenticated_peer. Qed.
Print Assumptions C16_channel_id_from_authenticated_peer.

(* in every reachable state every mapped request belongs to a tracked channel ... *)
Theorem C16_tracked_inv_reachable :
  forall self l, tracked_inv (fold_left (fun s io => fst (tstep s (fst io) (snd io))) l (init_tstate self)).
Proof. exact tracked_inv_reachable. Qed.
Print Assumptions C16_tracked_inv_reachable.

(* ... hence after cleanup the channel is untracked and owns no request: by the first theorem
   every request-keyed callback of its requests is dropped without any effect *)
Theorem C16_after_cleanup_silent :
  forall s k orc, reqmap_tracked s ->
    let s' := fst (tstep s (XCleanup k) orc) in
    tlookup k (ts_chans s') = None /\ (forall r, rlookup r (ts_reqmap s') <> Some k).
Proof. exact after_cleanup_silent. Qed.
Print Assumptions C16_after_cleanup_silent.

Theorem C16_not_on_wire_not_accounted :
  forall s rid size index orc,
    tstep s (GOutgoingBlock rid size index false) orc = (s, []) /\
    tstep s (GBlockSent rid size index false) orc = (s, []).
Proof. exact not_on_wire_not_accounted. Qed.
Print Assumptions C16_not_on_wire_not_accounted.

Theorem C16_received_unique_iff_on_wire :
  forall s rid size index onwire orc k,
    rlookup rid (ts_reqmap s) = Some k ->
    exists rest, snd (tstep s (GIncomingBlock rid size index onwire) orc) =
                 OH (HDataReceived k size index onwire) :: rest.
Proof. exact received_unique_iff_on_wire. Qed.
Print Assumptions C16_received_unique_iff_on_wire.

Theorem C16_commands_use_current_request :
  forall s k om orc c,
    tlookup k (ts_chans s) = Some c ->
    (forall o r, In o (snd (tstep s (XPause k) orc)) -> gs_rid o = Some r -> tc_req c = Some r) /\
    (forall o r, In o (snd (tstep s (XResume k om) orc)) -> gs_rid o = Some r -> tc_req c = Some r) /\
    (forall o r, In o (snd (tstep s (XClose k) orc)) -> gs_rid o = Some r -> tc_req c = Some r).
Proof. exact commands_use_current_request. Qed.
Print Assumptions C16_commands_use_current_request.

Theorem C16_completed_reported_once :
  forall s rid k orc,
    rlookup rid (ts_reqmap s) = Some k ->
    tstep s (GCompletedResponse rid SFull) orc = (s, [OH (HChannelCompleted k false)]) /\
    tstep s (GCompletedResponse rid SOtherStatus) orc = (s, [OH (HChannelCompleted k true)]) /\
    tstep s (GCompletedResponse rid SCancelled) orc = (s, []).
Proof. exact completed_reported_once. Qed.
Print Assumptions C16_completed_reported_once.

Theorem C16_store_registered_for_lifetime_only :
  forall s k orc,
    (has_store k s = false ->
       snd (tstep s (XUseStore k) orc) = [OGs (GRegisterStore k) true; ORet true] /\
       has_store k (fst (tstep s (XUseStore k) orc)) = true) /\
    (has_store k s = true ->
       snd (tstep s (XUseStore k) orc) = [OGs (GRegisterStore k) false; ORet false] /\
       has_store k (fst (tstep s (XUseStore k) orc)) = true) /\
    (has_store k s = true ->
       snd (tstep s (XCleanup k) orc) = [OGs (GUnregisterStore k) true] /\
       has_store k (fst (tstep s (XCleanup k) orc)) = false) /\
    (has_store k s = false -> snd (tstep s (XCleanup k) orc) = []).
Proof. exact store_registered_for_lifetime_only. Qed.
Print Assumptions C16_store_registered_for_lifetime_only.

(* ... over whole histories: for every channel, in every sequence of graphsync callbacks and
   transport calls from the initial state, the successful registrations of its store exceed the
   un-registrations by one exactly while the tracked channel has a store, and equal them otherwise:
   a store is never registered twice, never left behind by cleanup, never dropped while the
   channel lives, and only UseStore and the channel's cleanup touch graphsync's registry *)
Theorem C16_store_balance :
  forall self l k,
    cnt (is_reg k) (touts (init_tstate self) l) =
    cnt (is_unreg k) (touts (init_tstate self) l) + b2n (has_store k (tfinal (init_tstate self) l)).
Proof. exact store_balance. Qed.
Print Assumptions C16_store_balance.

Theorem C16_only_usestore_and_cleanup_touch_the_registry :
  forall s i orc, store_input i = false ->
    nosop (snd (tstep s i orc)) = true /\ forall k, has_store k (fst (tstep s i orc)) = has_store k s.
Proof. exact only_usestore_and_cleanup_touch_the_registry. Qed.
Print Assumptions C16_only_usestore_and_cleanup_touch_the_registry.

(* every request opened or answered for a channel that has a store is told to use it *)
Theorem C16_requests_use_channel_store :
  forall s orc k,
    has_store k s = true ->
    (forall to rc m, ha_ret (fst (pop_ans orc)) = HNil ->
       In (OAct (AUseStore k)) (snd (tstep s (XOpenChannel to k rc m) orc))) /\
    (forall p rid m, (g_isreq m && is_cancel m) = false -> ha_ret (fst (pop_ans orc)) <> HErr ->
       k = (if g_isreq m then (p, ts_self s, g_tid m) else (ts_self s, p, g_tid m)) ->
       In (OAct (AUseStore k)) (snd (tstep s (GIncomingRequest p rid (Some m)) orc))).
Proof. exact requests_use_channel_store. Qed.
Print Assumptions C16_requests_use_channel_store.

(* a data-transfer message that arrives with a graphsync callback (new request, request update,
   response) is handed to the events handler only for the channel it names: the message's own
   transfer id, the authenticated remote peer and this node, in the roles the message's kind
   implies (a request: the peer initiated; a response: this node did).  A message naming another
   transfer than the one that owns the graphsync request it rides on is reported for no channel. *)
Theorem C16_reported_message_names_its_channel :
  forall s i orc h,
    In h (calls (snd (tstep s i orc))) ->
    C16Names.names_channel (ts_self s) h /\
    match C16Names.carrier_peer i with Some p => C16Names.from_peer p h | None => True end.
Proof. exact C16Names.reported_message_names_its_channel. Qed.
Print Assumptions C16_reported_message_names_its_channel.

(* a graphsync request the transport refused (it carried no data-transfer message we accept: the
   events handler answered with an error, or it carried a cancel) is terminated and is bound to no
   channel ... *)
Theorem C16_refused_request_is_not_bound :
  forall s p rid om orc,
    C16Names.refused om orc ->
    ts_reqmap (fst (tstep s (GIncomingRequest p rid om) orc)) = ts_reqmap s /\
    In (OAct ATerminate) (snd (tstep s (GIncomingRequest p rid om) orc)) \/ om = None.
Proof. exact C16Names.refused_request_is_not_bound. Qed.
Print Assumptions C16_refused_request_is_not_bound.

(* ... so whatever graphsync reports for it afterwards (its blocks, its end, updates, errors)
   reaches no channel and changes nothing *)
Theorem C16_refused_request_stays_silent :
  forall s p rid om orc i orc',
    C16Names.refused om orc -> om <> None ->
    rlookup rid (ts_reqmap s) = None ->
    request_keyed i = Some rid ->
    let s1 := fst (tstep s (GIncomingRequest p rid om) orc) in
    tstep s1 i orc' = (s1, []).
Proof. exact C16Names.refused_request_stays_silent. Qed.
Print Assumptions C16_refused_request_stays_silent.
