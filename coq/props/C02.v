(* C02  Terminal statuses (Completed, Failed, Cancelled) are final.  Statements only. *)
From Coq Require Import List NArith ZArith String Bool.
From DT Require Import GenStatus GenEvent GenMsgType FsmTypes GenFsm Fsm Machine View Caches Msg Node FsmFacts MachineFacts C02Proofs NodeFacts NodeProps.
From DT Require C02Restart.
Import ListNotations.

Theorem C02_finality_is_the_three_terminal_statuses :
  forall s, is_final s = true <-> (s = Completed \/ s = Failed \/ s = Cancelled).
Proof. exact finality_is_the_three_terminal_statuses. Qed.
Print Assumptions C02_finality_is_the_three_terminal_statuses.

(* under EVERY schedule of further events (sends, plans, handler completions) a terminal
   record never changes and every output is a dropped event: nothing is announced, written,
   cleaned up or un-protected.  m_init c is also the machine created after reopening the
   datastore, so this covers process restarts. *)
Theorem C02_terminal_frozen :
  forall ls c m' o,
    is_final (c_status c) = true ->
    m_run (m_init c) ls = (m', o) ->
    m_chan m' = c /\ (forall x, In x o -> exists e, x = ODropped e).
Proof. exact terminal_frozen. Qed.
Print Assumptions C02_terminal_frozen.

(* from the moment a terminal status is reached in any run, the same holds *)
Theorem C02_once_terminal_always_frozen :
  forall ls1 ls2 c m1 o1 m2 o2,
    m_run (m_init c) ls1 = (m1, o1) ->
    is_final (c_status (m_chan m1)) = true ->
    m_run m1 ls2 = (m2, o2) ->
    m_chan m2 = m_chan m1 /\ (forall x, In x o2 -> exists e, x = ODropped e).
Proof. exact once_terminal_always_frozen. Qed.
Print Assumptions C02_once_terminal_always_frozen.

(* node level: over EVERY history of inputs -- API calls (close, pause, resume, restart, vouchers,
   validation updates), messages from any peer, transport callbacks, process restarts, with any
   validator, send and transport outcomes -- a channel whose record is terminal keeps exactly
   that record *)
Theorem C02_terminal_frame_history :
  forall l n k cs,
    lookup k (n_chans n) = Some cs ->
    is_final (c_status (m_chan (cs_m cs))) = true ->
    exists cs', lookup k (n_chans (run_history n l)) = Some cs' /\ m_chan (cs_m cs') = m_chan (cs_m cs).
Proof. exact terminal_frame_history. Qed.
Print Assumptions C02_terminal_frame_history.

(* an incoming restart request for a terminated channel is refused: on such a channel the handler of
   restart requests is exactly "read the channel and answer" ... *)
Theorem C02_restart_request_for_terminal_is_only_read_and_refused :
  forall s k m cs,
    lookup k (n_chans (s_node s)) = Some cs ->
    is_final (c_status (m_chan (msync (cs_m cs)))) = true ->
    run (receive_restart_request k m) s = run (C02Restart.refuse_restart k m) s.
Proof. exact C02Restart.restart_request_for_terminal_refused. Qed.
Print Assumptions C02_restart_request_for_terminal_is_only_read_and_refused.

(* ... and the answer is a refusal: the reply is a response for the same transfer that is not
   accepted, the carrier (network receiver or transport) is told the request failed -- on which it
   closes, see C09 -- no event, message, transport call or validator call is made *)
Theorem C02_refusal_reply :
  forall s k m,
    let '(x, s') := run (C02Restart.refuse_restart k m) s in
    snd x = ROther /\
    match fst x with Some r => g_accepted r = false /\ g_isreq r = false /\ g_tid r = g_tid m | None => False end /\
    s_out s' = s_out s /\ s_vals s' = s_vals s.
Proof. exact C02Restart.refusal_reply. Qed.
Print Assumptions C02_refusal_reply.

From DT Require GenHandlers HandlerEq.

(* every restart path of Node.v (the API call with its terminated / cleaning-up / by-role branches, the
   re-issued push request and pull transport request, the responder's revalidate-then-ask) runs, for every
   interpreter state, exactly like the program regenerated from impl/impl.go RestartDataTransferChannel and
   impl/restart.go on every run *)
Theorem C02_restart_handlers_are_the_sources : forall k c,
  HandlerEq.runs_like (HandlerEq.with_self (fun self => GenHandlers.gen_RestartDataTransferChannel self k)) (Node.restart_channel k) /\
  HandlerEq.runs_like (GenHandlers.gen_openPushRestartChannel c) (Node.open_push_restart c) /\
  HandlerEq.runs_like (GenHandlers.gen_openPullRestartChannel c) (Node.open_pull_restart c) /\
  HandlerEq.runs_like (GenHandlers.gen_restartManagerPeerReceivePush c) (Node.restart_received c) /\
  HandlerEq.runs_like (GenHandlers.gen_restartManagerPeerReceivePull c) (Node.restart_received c).
Proof. exact HandlerEq.restart_handlers_are_source. Qed.
Print Assumptions C02_restart_handlers_are_the_sources.
