(* C12  Wire format is lossless, stable and safe to decode.  Statements only.
   Cbor.v is a model of DAG-CBOR as go-ipld-prime's dagcbor codec writes it; Wire.v the bindnode
   mapping of the messages.  GenSchema.v (field names, wire keys, types, nullability,
   representation) and GenPred.v (kind predicates) are regenerated from schema.ipldsch and the
   Is* methods on every run.  The encoders' bytes are compared with the model byte for byte by the
   wire suite. *)
From Coq Require Import List NArith ZArith String Ascii Bool Permutation.
From DT Require CanonIdem.
From DT Require Import Cbor CborProofs GenSchema GenMsgType GenPred Wire C12Proofs.
From DT Require Msg.
Import ListNotations.

(* DAG-CBOR round trip for every well-formed IPLD value (ints and lengths below 2^64): decoding
   the encoder's bytes yields the value as DAG-CBOR data (maps in canonical key order) *)
Theorem C12_cbor_round_trip : forall n, wf n -> decode (encode n) = Some (canon n).
Proof. exact decode_encode. Qed.
Print Assumptions C12_cbor_round_trip.

(* ... and entries that arrive in any order are returned as they arrived *)
Theorem C12_cbor_decodes_any_entry_order : forall n, wf n -> decode (enc n) = Some n.
Proof. exact decode_enc. Qed.
Print Assumptions C12_cbor_decodes_any_entry_order.

(* every well-formed message survives the network form with all observable fields intact *)
Theorem C12_net_round_trip : forall m, wf_msg m -> from_net (to_net m) = Some (canon_msg m).
Proof. exact net_round_trip. Qed.
Print Assumptions C12_net_round_trip.

(* ... and the IPLD (graphsync extension) form *)
Theorem C12_ipld_round_trip : forall m, of_node (canon (to_node m)) = Some (canon_msg m).
Proof. exact of_node_to_node. Qed.
Print Assumptions C12_ipld_round_trip.

(* the bytes are the DAG-CBOR maps laid down by the published schema: same keys in the same
   declaration order, map / tuple representation, every field value of its declared type *)
Theorem C12_layout_is_schema :
  (forall r, map fst (req_entries r) = map wire_key schema_TransferRequest /\ schema_TransferRequest_tuple = false) /\
  (forall r, map fst (resp_entries r) = map wire_key schema_TransferResponse /\ schema_TransferResponse_tuple = false) /\
  (forall m, map fst (msg_entries m) = map wire_key schema_TransferMessage1_1 /\ schema_TransferMessage1_1_tuple = false) /\
  (List.length schema_ChannelID = 3%nat /\ schema_ChannelID_tuple = true /\ map ftype_of schema_ChannelID = [TString; TString; TInt]) /\
  (forall r, fits_all schema_TransferRequest (req_entries r) = true) /\
  (forall r, fits_all schema_TransferResponse (resp_entries r) = true).
Proof.
  exact (conj request_layout_is_schema (conj response_layout_is_schema (conj message_layout_is_schema
        (conj channel_id_layout_is_schema (conj request_fields_fit_schema response_fields_fit_schema))))).
Qed.
Print Assumptions C12_layout_is_schema.

(* maps with any key order decode to the same message *)
Theorem C12_key_order_irrelevant :
  (forall l l', NoDup (map fst l) -> Permutation l l' -> of_node (NMap l) = of_node (NMap l')) /\
  (forall l l', NoDup (map fst l) -> Permutation l l' -> req_of_node (NMap l) = req_of_node (NMap l')) /\
  (forall l l', NoDup (map fst l) -> Permutation l l' -> resp_of_node (NMap l) = resp_of_node (NMap l')).
Proof. exact (conj key_order_irrelevant (conj request_key_order_irrelevant response_key_order_irrelevant)). Qed.
Print Assumptions C12_key_order_irrelevant.

(* decoding never yields a message whose body is missing *)
Theorem C12_decoded_body_present :
  forall n m, of_node n = Some m ->
    match n with
    | NMap l => (exists r, m = WReq r /\ lookup "IsRq" l = Some (NBool true) /\ lookup "Request" l <> Some NNull) \/
                (exists r, m = WResp r /\ lookup "IsRq" l = Some (NBool false) /\ lookup "Response" l <> Some NNull)
    | _ => False
    end.
Proof. exact decoded_body_present. Qed.
Print Assumptions C12_decoded_body_present.

(* each message is classified as exactly one kind *)
Theorem C12_each_message_has_exactly_one_kind :
  (forall t, In t request_types -> count_true (request_kinds t) = 1%nat) /\
  (forall t, In t response_types -> count_true (response_kinds t) = 1%nat).
Proof. exact each_message_has_exactly_one_kind. Qed.
Print Assumptions C12_each_message_has_exactly_one_kind.

Theorem C12_message_type_numbering :
  map msgtype_code [NewMessage; UpdateMessage; CancelMessage; CompleteMessage; VoucherMessage; VoucherResultMessage;
                    RestartMessage; RestartExistingChannelRequestMessage] = [0; 1; 2; 3; 4; 5; 6; 7]%N /\
  List.length all_msgtype = 8%nat.
Proof. exact message_type_numbering. Qed.
Print Assumptions C12_message_type_numbering.

(* a validation response reports acceptance precisely when validation succeeded and accepted *)
Theorem C12_validation_response_acceptance :
  forall t tid vr err paused,
    Msg.g_accepted (Msg.validation_result_response t tid vr err paused) = (negb err && Msg.vr_accepted vr).
Proof. exact validation_response_acceptance. Qed.
Print Assumptions C12_validation_response_acceptance.

(* the data-model value a payload stands for is a fixed point of encoding and decoding: a payload
   that went through the wire once goes through it unchanged ever after *)
Theorem C12_canonical_form_is_fixed_point :
  forall n, wf n -> decode (encode (canon n)) = Some (canon n).
Proof. exact CanonIdem.canonical_form_is_fixed_point. Qed.
Print Assumptions C12_canonical_form_is_fixed_point.
