(* C20  Concurrent use is free of data races and deadlocks.  Statements only (lock-order part).
   GenLocks.v is regenerated on every run by tools/lockgraph from the SSA form and the VTA call
   graph of /repo: the library's mutexes and every (holder, callee, taker) way in which one may be
   acquired while another is held.  What a theorem cannot show here -- absence of data races, and
   that every call returns under the real scheduler -- is tested by the race-instrumented stress
   suite and the callback-completion suites (see DESIGN.md); those are tests, not proofs. *)
From Coq Require Import List String Arith Bool.
From DT Require Import GenLocks Locks C20Proofs.
Import ListNotations.

(* the generated "held -> acquired" relation (minus the committed, explained infeasible paths)
   admits a rank that strictly increases along every edge: it is acyclic, in particular no lock is
   re-acquired while held *)
Theorem C20_lock_rank_respects_edges : rank_respects_edges = true.
Proof. exact lock_rank_respects_edges. Qed.
Print Assumptions C20_lock_rank_respects_edges.

Theorem C20_no_lock_is_reacquired : forall a, ~ In (a, a) effective_edges.
Proof. exact no_lock_is_reacquired. Qed.
Print Assumptions C20_no_lock_is_reacquired.

(* every justification of an infeasible path still names a path the analysis reports *)
Theorem C20_lock_justifications_current : justifications_current = true.
Proof. exact lock_justifications_current. Qed.
Print Assumptions C20_lock_justifications_current.

(* threads whose (held, awaited) lock pairs are edges of that relation are never deadlocked: no
   cycle of threads each waiting for a lock the next one holds *)
Theorem C20_library_locks_deadlock_free :
  forall (thread : Type) (waits : thread -> nat) (held_by : thread -> nat -> Prop),
    (forall t l, held_by t l -> In (l, waits t) effective_edges) ->
    forall t l, chain thread nat waits held_by t l -> l <> [] -> last l t = t -> False.
Proof. exact library_locks_deadlock_free. Qed.
Print Assumptions C20_library_locks_deadlock_free.
