(* C01  Completed means delivered: both ends agree (control part).  Statements only.
   Node.v is the hand-written model of the manager (tied to impl/*.go by the node correspondence
   suites); a history is any list of inputs with any oracle answers (network / transport /
   validator results).  What graphsync guarantees -- that a request it reports as completed in
   full has delivered every selected block, and that both ends report each block once with the
   same size -- is not modelled: the data part of C01 (receiver holds the byte-identical payload,
   Received = Queued = unique size) is checked on two real nodes over real graphsync by the e2e
   suite, which is a test. *)
From Coq Require Import List NArith ZArith String Bool.
From DT Require Import GenStatus GenEvent GenMsgType FsmTypes GenFsm Fsm Machine View Caches Msg Node
     NodeFacts NodeLiftS C01Proofs.
Import ListNotations.

(* Initiator: for EVERY history of a node, whenever a channel it initiated is Completing or
   Completed, the history contains the responder's final un-paused Complete -- received from the
   authenticated responder of that channel -- and a successful completion of the node's own
   transport; the only exception is a transport that completed while the channel was still
   awaiting acceptance (a pull served entirely from the initiator's own store) *)
Theorem C01_initiator_completed_needs_both :
  forall self k0, k_init k0 = self ->
  forall steps cs,
    let n := run_history (init_node self) steps in
    lookup k0 (n_chans n) = Some cs ->
    c_status (m_chan (cs_m cs)) = Completing \/ c_status (m_chan (cs_m cs)) = Completed ->
    (existsb (in_rc self k0) (map st_in steps) = true /\ existsb (in_ft self k0) (map st_in steps) = true) \/
    (exists pre st post, steps = pre ++ st :: post /\ in_ft self k0 (st_in st) = true /\
                         awaiting k0 (run_history (init_node self) pre) = true).
Proof. exact initiator_completed_needs_both. Qed.
Print Assumptions C01_initiator_completed_needs_both.

(* Responder: a step puts a final Complete on the wire only when its input is a successful
   completion of the local transport, a validation update by the application, or a voucher result
   on a channel that is already completing -- never in reaction to the counterparty *)
Theorem C01_final_complete_needs_local_completion :
  forall n st, completion_input (st_in st) = false -> Forall out_ok (snd (step n st)).
Proof. exact final_complete_needs_local_completion. Qed.
Print Assumptions C01_final_complete_needs_local_completion.

(* every handler, for every input, raises the completion events on a channel only under the
   stated conditions (the per-handler analysis the two theorems rest on) *)
Theorem C01_handlers_send_only :
  forall self k0 i f ftaw,
    all_instr self (stepQU (S_step self k0 i) (fun c => chan_id c = k0 -> Pre f ftaw (c_status c) = true)) _ (handler i).
Proof. exact handlers_send_only. Qed.
Print Assumptions C01_handlers_send_only.

(* Both ends, assuming only that what A is handed as the responder's final Complete was put on
   the wire by B *)
Theorem C01_completed_means_responder_finished :
  forall a b k0 stepsA stepsB csA,
    k_init k0 = a ->
    let nA := run_history (init_node a) stepsA in
    lookup k0 (n_chans nA) = Some csA ->
    c_status (m_chan (cs_m csA)) = Completing \/ c_status (m_chan (cs_m csA)) = Completed ->
    (forall pre st post, stepsA = pre ++ st :: post -> in_ft a k0 (st_in st) = true ->
                         awaiting k0 (run_history (init_node a) pre) = false) ->
    (forall st m, In st stepsA -> rc_message a k0 (st_in st) = Some m ->
       g_isreq m = false /\
       exists nB stB outs o, In (nB, stB, outs) (trace (init_node b) stepsB) /\ In o outs /\ carries m o) ->
    existsb (in_ft a k0) (map st_in stepsA) = true /\
    exists nB stB outs, In (nB, stB, outs) (trace (init_node b) stepsB) /\ completion_input (st_in stB) = true.
Proof. exact completed_means_responder_finished. Qed.
Print Assumptions C01_completed_means_responder_finished.

From DT Require GenHandlers HandlerEq.

(* what the manager does when the transport reports the end of its part (an error: fail unless already
   failing; the initiator: record FinishTransfer; the responder: send the final Complete, paused iff
   finalization is required, then Complete / BeginFinalizing) runs like the program regenerated from
   impl/events.go OnChannelCompleted on every run *)
Theorem C01_completion_handler_is_the_sources : forall k failed,
  HandlerEq.runs_like (HandlerEq.with_self (fun self => GenHandlers.gen_OnChannelCompleted self k failed)) (Node.on_channel_completed k failed) /\
  HandlerEq.runs_like (GenHandlers.gen_OnChannelOpened k) (Node.on_channel_opened k).
Proof. exact HandlerEq.completion_handlers_are_source. Qed.
Print Assumptions C01_completion_handler_is_the_sources.
