(* C18  Channel identities never collide.  Statements only. *)
From Coq Require Import List NArith ZArith String Bool.
From DT Require Import GenStatus GenEvent GenMsgType FsmTypes GenFsm Fsm Machine View Caches Msg Node
     FsmFacts NodeFacts NodeProps.
Import ListNotations.

(* timeCounter: whatever the interleaving of atomic next() calls (they are linearised by the
   atomic add), the issued ids are seed+1, seed+2, ...: distinct and strictly increasing *)
Theorem C18_ids_strictly_increasing_and_distinct :
  forall c n, NoDup (issue c n) /\ (forall i j a b, nth_error (issue c n) i = Some a ->
     nth_error (issue c n) j = Some b -> (i < j)%nat -> (a < b)%N).
Proof. exact ids_strictly_increasing_and_distinct. Qed.
Print Assumptions C18_ids_strictly_increasing_and_distinct.

(* a later manager (seeded by a non-decreasing clock, after fewer ids were issued than
   nanoseconds elapsed) issues only ids above all ids of the earlier one *)
Theorem C18_later_manager_starts_above :
  forall seed1 seed2 n1 n2 a b,
    (seed1 + N.of_nat n1 <= seed2)%N ->
    In a (issue seed1 n1) -> In b (issue seed2 n2) -> (a < b)%N.
Proof. exact later_manager_starts_above. Qed.
Print Assumptions C18_later_manager_starts_above.

(* in the node model: the id counter never decreases in any handler, and every issued id is
   above the counter *)
Theorem C18_nextid_monotone_prog :
  forall A (p : prog A) s, (n_nextid (s_node s) <= n_nextid (s_node (snd (run p s))))%N.
Proof. exact nextid_monotone_prog. Qed.
Print Assumptions C18_nextid_monotone_prog.

Theorem C18_nextid_strictly_increasing :
  forall s, let '(n, s') := run_instr s INextId in
    (n_nextid (s_node s) < n)%N /\ n_nextid (s_node s') = n.
Proof. exact nextid_strictly_increasing. Qed.
Print Assumptions C18_nextid_strictly_increasing.

(* creating a channel whose id already exists fails and leaves the whole node state as it was *)
Theorem C18_create_existing_fails_and_frames :
  forall s c cs, lookup (chan_id c) (n_chans (s_node s)) = Some cs ->
    run_instr s (ICreate c) = (false, s).
Proof. exact create_existing_fails_and_frames. Qed.
Print Assumptions C18_create_existing_fails_and_frames.

(* with the clock unit and increment the code uses (regenerated from impl/timecounter.go): a later
   manager starts above an earlier one unless the earlier one issued more ids than nanoseconds
   elapsed *)
Theorem C18_later_manager_starts_above_ns :
  forall t1 t2 n1 n2 a b,
    (t1 <= t2)%N -> (N.of_nat n1 <= t2 - t1)%N -> GenTimeCounter.tc_increment = 1%N ->
    In a (issue (seed_at t1) n1) -> In b (issue (seed_at t2) n2) -> (a < b)%N.
Proof. exact later_manager_starts_above_ns. Qed.
Print Assumptions C18_later_manager_starts_above_ns.

Theorem C18_counter_increment_is_one : GenTimeCounter.tc_increment = 1%N.
Proof. exact counter_increment_is_one. Qed.
Print Assumptions C18_counter_increment_is_one.

From DT Require GenHandlers HandlerEq.

(* how an incoming request is handled -- validation before anything is created (acceptRequest), the checks
   and revalidation of a restart request (restartRequest), the dispatch by kind (OnRequestReceived), the
   validator lookup of a restart (validateRestart) and the events that record a validation outcome -- as
   written in Node.v, runs for every interpreter state like the programs regenerated from
   impl/receiving_requests.go and impl/events.go on every run: same result, same "an error occurred", same
   state and outputs *)
Theorem C18_request_handlers_are_the_sources : forall k m c vr s,
  HandlerEq.same_val (Node.run (Node.bind (Node.exec Node.ISelf) (fun self => GenHandlers.gen_acceptRequest self k m)) s) (Node.run (Node.accept_request k m) s) /\
  HandlerEq.same_val3 (Node.run (Node.bind (Node.exec Node.ISelf) (fun self => GenHandlers.gen_restartRequest self k m)) s) (Node.run (Node.restart_request k m) s) /\
  HandlerEq.same_run2 (Node.run (GenHandlers.gen_OnRequestReceived (Node.n_self (Node.s_node s)) k m) s) (Node.run (Node.on_request_received k m) s) /\
  HandlerEq.same_val (Node.run (GenHandlers.gen_validateRestart c) s) (Node.run (Node.validate_restart c) s) /\
  HandlerEq.same_run (Node.run (GenHandlers.gen_recordRejectedValidationEvents k vr) s) (Node.run (Node.record_rejected k vr) s) /\
  HandlerEq.same_run (Node.run (GenHandlers.gen_recordAcceptedValidationEvents c vr) s) (Node.run (Node.record_accepted c vr) s).
Proof. exact HandlerEq.request_handlers_are_source. Qed.
Print Assumptions C18_request_handlers_are_the_sources.

(* opening a channel as written in Node.v (a fresh id from the counter, the request built from the caller's
   voucher, base CID and selector, the record created and opened before anything leaves the node, the peer
   protected, the request sent over the network for a push and handed to the transport for a pull, a failed send
   failing the channel) runs, for every interpreter state, like the programs regenerated from impl/impl.go
   OpenPushDataChannel / OpenPullDataChannel: same error class, same state and outputs, same channel id *)
Theorem C18_opening_calls_are_the_sources : forall to v b sel s,
  HandlerEq.same_open (Node.run (Node.bind (Node.exec Node.ISelf) (fun self => GenHandlers.gen_OpenPushDataChannel self to v b sel)) s) (Node.run (Node.open_channel Node.DPush to v b sel) s) /\
  HandlerEq.same_open (Node.run (Node.bind (Node.exec Node.ISelf) (fun self => GenHandlers.gen_OpenPullDataChannel self to v b sel)) s) (Node.run (Node.open_channel Node.DPull to v b sel) s).
Proof. exact HandlerEq.opening_calls_are_source. Qed.
Print Assumptions C18_opening_calls_are_the_sources.
