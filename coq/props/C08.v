(* C08  Data limits stop the transfer at the limit (cache level).  Statements only. *)
From Coq Require Import List NArith ZArith String Bool.
From DT Require Import GenStatus GenEvent FsmTypes GenFsm Fsm FsmFacts Caches C07Proofs C08Proofs.
From DT Require Node NodeLiftS UpdateProofs.
From DT Require GenDecide DecideEq Caches.
Import ListNotations.
Local Open Scope Z_scope.

(* the report that advances the mark and brings the limited total to or past a non-zero limit,
   and only that one, returns the pause signal; the responder is then marked paused
   (DataLimitExceeded); the limit is untouched; the cache stays consistent *)
Theorem C08_pause_iff_reaches_limit :
  forall k c cc r,
    limited k = true -> r_kind r = k ->
    transferring (c_status c) = true -> (durable_total k c < two64)%N ->
    pg_ok k c cc ->
    let '(c', cc', pause) := report_step (c, cc) r in
    let adv := snd (mark_step (ix k cc, durable_index k c) r) in
    pause = adv && negb (N.eqb (c_limit c) 0) && N.leb (c_limit c) (durable_total k c') /\
    (pause = true -> c_rpaused c' = true) /\
    c_limit c' = c_limit c /\
    pg_ok k c' cc'.
Proof. exact pause_iff_reaches_limit. Qed.
Print Assumptions C08_pause_iff_reaches_limit.

Theorem C08_limit_zero_never_pauses :
  forall k c cc r,
    limited k = true -> r_kind r = k ->
    transferring (c_status c) = true -> (durable_total k c < two64)%N ->
    pg_ok k c cc -> c_limit c = 0%N ->
    snd (report_step (c, cc) r) = false.
Proof. exact limit_zero_never_pauses. Qed.
Print Assumptions C08_limit_zero_never_pauses.

Theorem C08_sent_never_pauses :
  forall c cc r, r_kind r = KSent -> snd (report_step (c, cc) r) = false.
Proof. exact sent_never_pauses. Qed.
Print Assumptions C08_sent_never_pauses.

Theorem C08_setlimit_updates_cache_and_store :
  forall k c cc l,
    pg_ok k c cc ->
    let '(cc', evs) := set_limit cc l in
    let c' := fold_left apply_chan evs c in
    c_limit c' = l /\ durable_total k c' = durable_total k c /\ c_status c' = c_status c /\
    pg_ok k c' cc'.
Proof. exact setlimit_updates_cache_and_store. Qed.
Print Assumptions C08_setlimit_updates_cache_and_store.

Theorem C08_limit_and_progress_survive_restart :
  forall k c cc, fst (crash (c, cc)) = c /\ pg_ok k (fst (crash (c, cc))) (snd (crash (c, cc))).
Proof. exact limit_and_progress_survive_restart. Qed.
Print Assumptions C08_limit_and_progress_survive_restart.

(* the manager's half of the rule (UpdateValidationStatus once the channel c has been read): an
   accepting update resumes the transport only if the result does not leave the request paused --
   Node.leave_paused: no forced pause, no pending finalization, new limit zero or above the progress
   made in the limited direction -- and pauses it only if it does *)
Theorem C08_accepting_update_resumes_only_when_not_left_paused :
  forall self k c vr, Node.leave_paused vr c = true ->
    NodeLiftS.all_instr self UpdateProofs.no_resume _ (UpdateProofs.uv_body k c vr).
Proof. exact UpdateProofs.accepting_update_resumes_only_when_not_left_paused. Qed.
Print Assumptions C08_accepting_update_resumes_only_when_not_left_paused.

Theorem C08_accepting_update_pauses_only_when_left_paused :
  forall self k c vr, Node.leave_paused vr c = false ->
    NodeLiftS.all_instr self UpdateProofs.no_pause _ (UpdateProofs.uv_body k c vr).
Proof. exact UpdateProofs.accepting_update_pauses_only_when_left_paused. Qed.
Print Assumptions C08_accepting_update_pauses_only_when_left_paused.

(* the pause rule the theorems above are about (Node.leave_paused: forced pause, or finalization
   still required on a channel in finalization, or a non-zero data limit already reached by the
   limited total) is the one in the source: GenDecide.gen_LeaveRequestPaused is regenerated from
   manager.go ValidationResult.LeaveRequestPaused on every run *)
Theorem C08_pause_rule_is_the_sources :
  forall vr c, GenDecide.gen_LeaveRequestPaused vr c = Node.leave_paused vr c.
Proof. exact DecideEq.leave_paused_is_source. Qed.
Print Assumptions C08_pause_rule_is_the_sources.

(* the durable values the caches are lazily seeded from after a (re)start, and the events each kind
   of block report fires, are the ones in the source: regenerated on every run from
   channels/channels.go (DataQueued / DataSent / DataReceived, getXIndex, getXProgress) and the
   accessors of channels/channel_state.go they read *)
Theorem C08_cache_seeding_is_the_sources :
  forall k c,
    GenDecide.gen_index_seed k c = Caches.durable_index k c /\
    GenDecide.gen_progress_seed k c =
      (if Caches.limited k then Some (c_limit c, Caches.durable_total k c) else None).
Proof. exact DecideEq.cache_seeding_is_source. Qed.
Print Assumptions C08_cache_seeding_is_the_sources.

Theorem C08_report_wiring_is_the_sources :
  forall k, GenDecide.gen_data_event k = Caches.data_event k /\
            GenDecide.gen_progress_event k = Caches.progress_event k.
Proof. exact DecideEq.report_wiring_is_source. Qed.
Print Assumptions C08_report_wiring_is_the_sources.

From DT Require GenHandlers HandlerEq.

(* a block report that returns the pause signal: a receiving responder tells the initiator with a paused
   update message (and reports a failed send), a sending responder hands the message to the transport; the
   programs of Node.v run like those regenerated from impl/events.go OnDataReceived / OnDataQueued / OnDataSent *)
Theorem C08_report_handlers_are_the_sources : forall k size index unique s,
  (HandlerEq.same_run (Node.run (GenHandlers.gen_OnDataReceived k size index unique) s)
            (snd (fst (Node.run (Node.on_data Caches.KReceived k size index unique) s)), snd (Node.run (Node.on_data Caches.KReceived k size index unique) s)) /\
   fst (fst (Node.run (Node.on_data Caches.KReceived k size index unique) s)) = None) /\
  HandlerEq.same_run2 (Node.run (GenHandlers.gen_OnDataQueued k size index unique) s) (Node.run (Node.on_data Caches.KQueued k size index unique) s) /\
  (HandlerEq.same_run (Node.run (GenHandlers.gen_OnDataSent k size index unique) s)
            (snd (fst (Node.run (Node.on_data Caches.KSent k size index unique) s)), snd (Node.run (Node.on_data Caches.KSent k size index unique) s)) /\
   fst (fst (Node.run (Node.on_data Caches.KSent k size index unique) s)) = None).
Proof. exact HandlerEq.report_handlers_are_source. Qed.
Print Assumptions C08_report_handlers_are_the_sources.

(* UpdateValidationStatus as written in Node.v (only the responder; the events that record the outcome; the reply,
   a Complete while finalizing, paused iff the request stays paused; resume through the transport with the reply
   attached iff accepted, not held, paused and not finalizing; otherwise the reply over the network, then close
   on rejection or pause when newly held) runs, for every interpreter state, like the program regenerated from
   impl/impl.go UpdateValidationStatus / updateValidationStatus / processValidationUpdate / handleTransportUpdate *)
Theorem C08_update_validation_is_the_sources : forall k vr s,
  HandlerEq.same_run (Node.run (HandlerEq.with_self (fun self => GenHandlers.gen_UpdateValidationStatus self k vr)) s) (Node.run (Node.update_validation k vr) s).
Proof. exact HandlerEq.update_validation_is_source. Qed.
Print Assumptions C08_update_validation_is_the_sources.

From DT Require GenCaches CacheEq.

(* the cache decisions are the source's: whether a report advances the high-water mark and what the mark becomes,
   the pause signal from the cached limit and the total after the atomic add, and what a limit update does to the
   cache are regenerated from channels/caches.go on every run; Caches.fire and Caches.set_limit -- the functions
   every theorem of this file is about -- are built from exactly these decisions *)
Theorem C08_cache_decisions_are_the_sources :
  (forall c cc r, Caches.fire c cc r = CacheEq.fire_gen c cc r) /\
  (forall cur new, GenCaches.gen_index_step cur new = if Z.ltb cur new then Some new else None) /\
  (forall limit total, GenCaches.gen_limit_reached limit total = negb (N.eqb limit 0) && N.leb limit total).
Proof. split; [exact CacheEq.fire_is_source | split; [exact CacheEq.index_step_spec | exact CacheEq.limit_reached_spec]]. Qed.
Print Assumptions C08_cache_decisions_are_the_sources.
