(* C07  Transfer accounting counts every block position once.  Statements only. *)
From Coq Require Import List NArith ZArith String Bool.
From DT Require Import GenStatus GenEvent FsmTypes GenFsm Fsm FsmFacts Caches C07Proofs.
Import ListNotations.
Local Open Scope Z_scope.

(* For each direction k, any block function blk (size, uniqueness per traversal position), on
   a transferring channel: after ANY well-shaped history (every reported position at most one
   above the highest so far: first reports, re-sends, replays from any earlier position,
   with process restarts anywhere) the byte total is the summed size of the unique blocks at the
   distinct positions reported (mod 2^64) and the index total is the highest position. *)
Theorem C07_totals_formula :
  forall k blk c hs,
    transferring (c_status c) = true ->
    durable_index k c = 0 ->
    (durable_total k c < two64)%N ->
    well_shaped 0 hs ->
    let c' := fst (hrun k blk (c, empty_cache) hs) in
    durable_total k c' = ((durable_total k c + payload blk (highest 0 hs)) mod two64)%N /\
    durable_index k c' = highest 0 hs /\
    transferring (c_status c') = true.
Proof. exact totals_formula. Qed.
Print Assumptions C07_totals_formula.

Theorem C07_replay_never_increases :
  forall k blk t0 c cc mx p,
    Inv k blk t0 c cc mx -> 1 <= p <= mx ->
    durable_total k (fst (fst (report_step (c, cc) (rep k blk p)))) = durable_total k c /\
    durable_index k (fst (fst (report_step (c, cc) (rep k blk p)))) = durable_index k c.
Proof. exact replay_never_increases. Qed.
Print Assumptions C07_replay_never_increases.

Theorem C07_non_unique_never_increases :
  forall k blk t0 c cc mx p,
    Inv k blk t0 c cc mx -> 1 <= p <= mx + 1 -> snd (blk p) = false ->
    durable_total k (fst (fst (report_step (c, cc) (rep k blk p)))) = durable_total k c.
Proof. exact non_unique_never_increases. Qed.
Print Assumptions C07_non_unique_never_increases.

Theorem C07_totals_monotone :
  forall blk a b, 0 <= a <= b -> (payload blk a <= payload blk b)%N.
Proof. exact payload_monotone. Qed.
Print Assumptions C07_totals_monotone.

Theorem C07_index_monotone : forall mx hs, mx <= highest mx hs.
Proof. exact highest_ge. Qed.
Print Assumptions C07_index_monotone.

(* the invariant survives a process restart between two reports (the cache is re-seeded from
   the durable index) *)
Theorem C07_restart_between_reports_invariant :
  forall k blk t0 c cc mx, Inv k blk t0 c cc mx -> Inv k blk t0 c empty_cache mx.
Proof. exact crash_preserves_inv. Qed.
Print Assumptions C07_restart_between_reports_invariant.

(* for ANY list of reports (no shape assumption) the byte total is the sum of the reports that
   advanced the (lazily seeded) high-water mark *)
Theorem C07_totals_eq_sum_of_mark_advancing_reports :
  forall k rs c cc,
    (forall r, In r rs -> r_kind r = k) ->
    transferring (c_status c) = true -> (durable_total k c < two64)%N ->
    let c' := fst (run_reports (c, cc) rs) in
    durable_total k c' =
      ((durable_total k c + advancing_sum (ix k cc, durable_index k c) rs) mod two64)%N /\
    durable_index k c' = snd (final_mark (ix k cc, durable_index k c) rs).
Proof. exact totals_eq_sum_of_mark_advancing_reports. Qed.
Print Assumptions C07_totals_eq_sum_of_mark_advancing_reports.

(* non-vacuity: a fresh Ongoing channel with an empty cache satisfies the hypotheses *)
Example C07_hypotheses_satisfiable :
  well_shaped 0 [HReport 1; HReport 2; HCrash; HReport 1; HReport 2; HReport 3] /\
  highest 0 [HReport 1; HReport 2; HCrash; HReport 1; HReport 2; HReport 3] = 3.
Proof. cbn. repeat split; try reflexivity; Lia.lia. Qed.
