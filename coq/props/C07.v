(* C07  Transfer accounting counts every block position once.  Statements only. *)
From Coq Require Import List NArith ZArith String Bool.
From DT Require Import GenStatus GenEvent FsmTypes GenFsm Fsm FsmFacts Caches C07Proofs.
From DT Require Conc C07Conc GenDecide DecideEq.
Import ListNotations.
Local Open Scope Z_scope.

(* For each direction k, any block function blk (size, uniqueness per traversal position), on
   a transferring channel: after ANY well-shaped history (every reported position at most one
   above the highest so far: first reports, re-sends, replays from any earlier position,
   with process restarts anywhere) the byte total is the summed size of the unique blocks at the
   distinct positions reported (mod 2^64) and the index total is the highest position. *)
Theorem C07_totals_formula :
  forall k blk c hs,
    transferring (c_status c) = true ->
    durable_index k c = 0 ->
    (durable_total k c < two64)%N ->
    well_shaped 0 hs ->
    let c' := fst (hrun k blk (c, empty_cache) hs) in
    durable_total k c' = ((durable_total k c + payload blk (highest 0 hs)) mod two64)%N /\
    durable_index k c' = highest 0 hs /\
    transferring (c_status c') = true.
Proof. exact totals_formula. Qed.
Print Assumptions C07_totals_formula.

Theorem C07_replay_never_increases :
  forall k blk t0 c cc mx p,
    Inv k blk t0 c cc mx -> 1 <= p <= mx ->
    durable_total k (fst (fst (report_step (c, cc) (rep k blk p)))) = durable_total k c /\
    durable_index k (fst (fst (report_step (c, cc) (rep k blk p)))) = durable_index k c.
Proof. exact replay_never_increases. Qed.
Print Assumptions C07_replay_never_increases.

Theorem C07_non_unique_never_increases :
  forall k blk t0 c cc mx p,
    Inv k blk t0 c cc mx -> 1 <= p <= mx + 1 -> snd (blk p) = false ->
    durable_total k (fst (fst (report_step (c, cc) (rep k blk p)))) = durable_total k c.
Proof. exact non_unique_never_increases. Qed.
Print Assumptions C07_non_unique_never_increases.

Theorem C07_totals_monotone :
  forall blk a b, 0 <= a <= b -> (payload blk a <= payload blk b)%N.
Proof. exact payload_monotone. Qed.
Print Assumptions C07_totals_monotone.

Theorem C07_index_monotone : forall mx hs, mx <= highest mx hs.
Proof. exact highest_ge. Qed.
Print Assumptions C07_index_monotone.

(* the invariant survives a process restart between two reports (the cache is re-seeded from
   the durable index) *)
Theorem C07_restart_between_reports_invariant :
  forall k blk t0 c cc mx, Inv k blk t0 c cc mx -> Inv k blk t0 c empty_cache mx.
Proof. exact crash_preserves_inv. Qed.
Print Assumptions C07_restart_between_reports_invariant.

(* for ANY list of reports (no shape assumption) the byte total is the sum of the reports that
   advanced the (lazily seeded) high-water mark *)
Theorem C07_totals_eq_sum_of_mark_advancing_reports :
  forall k rs c cc,
    (forall r, In r rs -> r_kind r = k) ->
    transferring (c_status c) = true -> (durable_total k c < two64)%N ->
    let c' := fst (run_reports (c, cc) rs) in
    durable_total k c' =
      ((durable_total k c + advancing_sum (ix k cc, durable_index k c) rs) mod two64)%N /\
    durable_index k c' = snd (final_mark (ix k cc, durable_index k c) rs).
Proof. exact totals_eq_sum_of_mark_advancing_reports. Qed.
Print Assumptions C07_totals_eq_sum_of_mark_advancing_reports.

(* non-vacuity: a fresh Ongoing channel with an empty cache satisfies the hypotheses *)
Example C07_hypotheses_satisfiable :
  well_shaped 0 [HReport 1; HReport 2; HCrash; HReport 1; HReport 2; HReport 3] /\
  highest 0 [HReport 1; HReport 2; HCrash; HReport 1; HReport 2; HReport 3] = 3.
Proof. cbn. repeat split; try reflexivity; Lia.lia. Qed.

(* the concurrent clause: for ANY interleaving of the micro-steps of any number of concurrent
   reporters of one direction of one channel (read-locked lookup, write-locked seed with re-check,
   atomic load, compare-and-swap, the FSM applying the progress and index events), once all have
   returned: the byte total is the sum of the reports that advanced the mark, those are unique
   blocks at pairwise distinct positions above the mark they started from, the mark ends at or
   above every unique position, and the durable index at the highest position reported *)
Theorem C07_concurrent_reports_counted_once :
  forall n reps seed base warm, (base < Conc.two64)%N ->
  forall sched, let s := Conc.crun n reps (Conc.cinit seed base warm) sched in
    (forall i, (i < n)%nat -> Conc.is_done (Conc.c_pcs s i) = true) ->
    Conc.c_tot s = ((base + Conc.sum_if reps (fun i => Conc.done_adv (Conc.c_pcs s i)) n) mod Conc.two64)%N /\
    (forall i, Conc.done_adv (Conc.c_pcs s i) = true -> Conc.p_unique (reps i) = true /\ (i < n)%nat /\ (C07Conc.m0 seed warm < Conc.p_idx (reps i))%Z) /\
    (forall i j, i <> j -> Conc.done_adv (Conc.c_pcs s i) = true -> Conc.done_adv (Conc.c_pcs s j) = true -> Conc.p_idx (reps i) <> Conc.p_idx (reps j)) /\
    (forall m, Conc.c_mark s = Some m -> (C07Conc.m0 seed warm <= m)%Z /\ (forall i, (i < n)%nat -> Conc.p_unique (reps i) = true -> (Conc.p_idx (reps i) <= m)%Z)) /\
    (forall i, (i < n)%nat -> (Conc.p_idx (reps i) <= Conc.c_dur s)%Z) /\ (seed <= Conc.c_dur s)%Z /\
    (Conc.c_dur s = seed \/ exists j, (j < n)%nat /\ Conc.p_idx (reps j) = Conc.c_dur s).
Proof. exact C07Conc.concurrent_reports_counted_once. Qed.
Print Assumptions C07_concurrent_reports_counted_once.

(* the durable values the caches are lazily seeded from after a (re)start, and the events each kind
   of block report fires, are the ones in the source: regenerated on every run from
   channels/channels.go (DataQueued / DataSent / DataReceived, getXIndex, getXProgress) and the
   accessors of channels/channel_state.go they read *)
Theorem C07_cache_seeding_is_the_sources :
  forall k c,
    GenDecide.gen_index_seed k c = Caches.durable_index k c /\
    GenDecide.gen_progress_seed k c =
      (if Caches.limited k then Some (c_limit c, Caches.durable_total k c) else None).
Proof. exact DecideEq.cache_seeding_is_source. Qed.
Print Assumptions C07_cache_seeding_is_the_sources.

Theorem C07_report_wiring_is_the_sources :
  forall k, GenDecide.gen_data_event k = Caches.data_event k /\
            GenDecide.gen_progress_event k = Caches.progress_event k.
Proof. exact DecideEq.report_wiring_is_source. Qed.
Print Assumptions C07_report_wiring_is_the_sources.

From DT Require GenHandlers HandlerEq.

(* a block report that returns the pause signal: a receiving responder tells the initiator with a paused
   update message (and reports a failed send), a sending responder hands the message to the transport; the
   programs of Node.v run like those regenerated from impl/events.go OnDataReceived / OnDataQueued / OnDataSent *)
Theorem C07_report_handlers_are_the_sources : forall k size index unique s,
  (HandlerEq.same_run (Node.run (GenHandlers.gen_OnDataReceived k size index unique) s)
            (snd (fst (Node.run (Node.on_data Caches.KReceived k size index unique) s)), snd (Node.run (Node.on_data Caches.KReceived k size index unique) s)) /\
   fst (fst (Node.run (Node.on_data Caches.KReceived k size index unique) s)) = None) /\
  HandlerEq.same_run2 (Node.run (GenHandlers.gen_OnDataQueued k size index unique) s) (Node.run (Node.on_data Caches.KQueued k size index unique) s) /\
  (HandlerEq.same_run (Node.run (GenHandlers.gen_OnDataSent k size index unique) s)
            (snd (fst (Node.run (Node.on_data Caches.KSent k size index unique) s)), snd (Node.run (Node.on_data Caches.KSent k size index unique) s)) /\
   fst (fst (Node.run (Node.on_data Caches.KSent k size index unique) s)) = None).
Proof. exact HandlerEq.report_handlers_are_source. Qed.
Print Assumptions C07_report_handlers_are_the_sources.

From DT Require GenCaches CacheEq.

(* the cache decisions are the source's: whether a report advances the high-water mark and what the mark becomes,
   the pause signal from the cached limit and the total after the atomic add, and what a limit update does to the
   cache are regenerated from channels/caches.go on every run; Caches.fire and Caches.set_limit -- the functions
   every theorem of this file is about -- are built from exactly these decisions *)
Theorem C07_cache_decisions_are_the_sources :
  (forall c cc r, Caches.fire c cc r = CacheEq.fire_gen c cc r) /\
  (forall cur new, GenCaches.gen_index_step cur new = if Z.ltb cur new then Some new else None) /\
  (forall limit total, GenCaches.gen_limit_reached limit total = negb (N.eqb limit 0) && N.leb limit total).
Proof. split; [exact CacheEq.fire_is_source | split; [exact CacheEq.index_step_spec | exact CacheEq.limit_reached_spec]]. Qed.
Print Assumptions C07_cache_decisions_are_the_sources.
