(* C06  Channel state is durable and prefix-consistent across crashes.  Statements only.
   A schedule is a list of labels of the go-statemachine model (Machine.v: sends, the run loop
   planning an event, the cleanup handler finishing); every applied event announces and then
   writes the resulting record.  The byte-level codec is not modelled: that the stored bytes
   decode to the written record (vouchers equal as DAG-CBOR data) is checked on every record of
   every crash image by the crash suite. *)
From Coq Require Import List NArith ZArith String Bool.
From DT Require Import GenStatus GenEvent FsmTypes GenFsm Fsm Machine FsmFacts MachineFacts C17Proofs C09Proofs C06Proofs.
Import ListNotations.

(* at every write boundary n of every schedule, the record on disk is the record obtained by
   applying, one after another, exactly the first n applied events to the record the run started
   from: a state that was current then, never a mixture; after the last write it is the machine's
   current record *)
Theorem C06_crash_prefix_consistent :
  forall ls c m' o n,
    m_run (m_init c) ls = (m', o) ->
    chain c (firstn n (notifs o)) /\
    crash_state c o n = last_chan c (firstn n (notifs o)) /\
    (List.length (puts o) <= n -> crash_state c o n = m_chan m').
Proof. exact crash_prefix_consistent. Qed.
Print Assumptions C06_crash_prefix_consistent.

(* the written records are exactly the announced records, in order (C17's chain theorem) *)
Theorem C06_writes_are_announcements :
  forall ls c m' o,
    m_run (m_init c) ls = (m', o) ->
    chain c (notifs o) /\ m_chan m' = last_chan c (notifs o) /\
    map fst (notifs o) = map (fun p => fst (fst p)) (planned o) /\
    puts o = map snd (notifs o).
Proof. exact notifications_chain. Qed.
Print Assumptions C06_writes_are_announcements.

(* a channel persisted while cleaning up finishes cleanup when it is restarted *)
Theorem C06_restart_finishes_cleanup :
  forall c a,
    is_cleanup (c_status c) = true ->
    exists m' o,
      deliver (m_init c) (CompleteCleanupOnRestart, a) = (m', o) /\
      c_status (m_chan m') = terminal_of (c_status c) /\ is_final (terminal_of (c_status c)) = true /\
      m_dead m' = true /\
      count is_cleanup_out o = 1 /\ count is_unprotect_out o = 1.
Proof. exact restart_finishes_cleanup. Qed.
Print Assumptions C06_restart_finishes_cleanup.
