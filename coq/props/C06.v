(* C06  Channel state is durable and prefix-consistent across crashes.  Statements only.
   A schedule is a list of labels of the go-statemachine model (Machine.v: sends, the run loop
   planning an event, the cleanup handler finishing); every applied event announces and then
   writes the resulting record.  The byte-level codec of the record (cbor-gen map encoding with
   embedded DAG-CBOR vouchers) is StateCodec.v; the last theorems say that what is written is read
   back as the same record, vouchers equal as DAG-CBOR data. *)
From Coq Require Import List NArith ZArith String Bool.
From DT Require Import GenStatus GenEvent FsmTypes GenFsm Fsm Machine FsmFacts MachineFacts C17Proofs C09Proofs C06Proofs.
From DT Require Cbor StateCodec StateCodecProofs StateIdem.
Import ListNotations.

(* at every write boundary n of every schedule, the record on disk is the record obtained by
   applying, one after another, exactly the first n applied events to the record the run started
   from: a state that was current then, never a mixture; after the last write it is the machine's
   current record *)
Theorem C06_crash_prefix_consistent :
  forall ls c m' o n,
    m_run (m_init c) ls = (m', o) ->
    chain c (firstn n (notifs o)) /\
    crash_state c o n = last_chan c (firstn n (notifs o)) /\
    (List.length (puts o) <= n -> crash_state c o n = m_chan m').
Proof. exact crash_prefix_consistent. Qed.
Print Assumptions C06_crash_prefix_consistent.

(* the written records are exactly the announced records, in order (C17's chain theorem) *)
Theorem C06_writes_are_announcements :
  forall ls c m' o,
    m_run (m_init c) ls = (m', o) ->
    chain c (notifs o) /\ m_chan m' = last_chan c (notifs o) /\
    map fst (notifs o) = map (fun p => fst (fst p)) (planned o) /\
    puts o = map snd (notifs o).
Proof. exact notifications_chain. Qed.
Print Assumptions C06_writes_are_announcements.

(* a channel persisted while cleaning up finishes cleanup when it is restarted *)
Theorem C06_restart_finishes_cleanup :
  forall c a,
    is_cleanup (c_status c) = true ->
    exists m' o,
      deliver (m_init c) (CompleteCleanupOnRestart, a) = (m', o) /\
      c_status (m_chan m') = terminal_of (c_status c) /\ is_final (terminal_of (c_status c)) = true /\
      m_dead m' = true /\
      count is_cleanup_out o = 1 /\ count is_unprotect_out o = 1.
Proof. exact restart_finishes_cleanup. Qed.
Print Assumptions C06_restart_finishes_cleanup.

(* the stored bytes: a record the encoder accepts, with every number in its Go range (unsigned
   64-bit counters, signed 64-bit block totals and time stamps, IPLD payloads with 64-bit
   arguments), is read back with all 24 fields, the stage log, and every voucher and result in
   order with its type identifier; vouchers, results and the selector are equal as DAG-CBOR data
   (canonical map-key order) *)
Theorem C06_record_round_trip :
  forall s, StateCodec.encodable s = true -> StateCodec.wf_state s ->
    exists b, StateCodec.st_encode s = Some b /\ StateCodec.st_decode b = Some (StateCodec.canon_state s).
Proof. exact StateCodecProofs.record_round_trip. Qed.
Print Assumptions C06_record_round_trip.

(* nothing else is ever written: the encoder refuses exactly the records outside its limits
   (undefined base CID, a text field above 8192 bytes, a log above 8192 entries) *)
Theorem C06_record_refused_iff :
  forall s, StateCodec.st_encode s = None <-> StateCodec.encodable s = false.
Proof. exact StateCodecProofs.record_refused_iff. Qed.
Print Assumptions C06_record_refused_iff.

(* what was read back is stored and read again unchanged: any number of restarts later the record
   is still the one first read (the canonical form is a fixed point) *)
Theorem C06_record_stable_after_first_read :
  forall s, StateCodec.encodable s = true -> StateCodec.wf_state s ->
    exists b, StateCodec.st_encode (StateCodec.canon_state s) = Some b /\
              StateCodec.st_decode b = Some (StateCodec.canon_state s).
Proof. exact StateIdem.record_stable_after_first_read. Qed.
Print Assumptions C06_record_stable_after_first_read.

(* the number a status is stored under is part of the on-disk format: records written by earlier builds (and by
   schema version 2) carry these numbers, so the numbering is append-only.  GenStatus.v is regenerated from
   statuses.go on every run; this pins the published numbering of every status that exists in stored records *)
Theorem C06_stored_status_numbers_are_the_published_ones :
  forallb (fun p => N.eqb (status_code (fst p)) (snd p))
    [(Requested, 0%N); (Ongoing, 1%N); (TransferFinished, 2%N); (ResponderCompleted, 3%N); (Finalizing, 4%N); (Completing, 5%N); (Completed, 6%N); (Failing, 7%N); (Failed, 8%N); (Cancelling, 9%N); (Cancelled, 10%N); (InitiatorPaused, 11%N); (ResponderPaused, 12%N); (BothPaused, 13%N); (ResponderFinalizing, 14%N); (ResponderFinalizingTransferFinished, 15%N); (ChannelNotFoundError, 16%N); (Queued, 17%N); (AwaitingAcceptance, 18%N)] = true.
Proof. vm_compute. reflexivity. Qed.
Print Assumptions C06_stored_status_numbers_are_the_published_ones.
