(* C03  No success without both parties: local finish AND responder's final word.
   Only statements; proofs are in proofs/C03Proofs.v.  The table (transitions, actions)
   is regenerated from channels/channels_fsm.go on every run. *)
From Coq Require Import List NArith ZArith String Bool.
From DT Require Import GenStatus GenEvent FsmTypes GenFsm Fsm FsmFacts C03Proofs.
From DT Require GenDecide DecideEq.
Import ListNotations.

(* every event code is either bookkeeping or lifecycle, never both *)
Theorem C03_classification_total :
  forall e, xorb (in_events e bookkeeping) (in_events e lifecycle) = true.
Proof. exact classification_total. Qed.
Print Assumptions C03_classification_total.

(* bookkeeping events never change the lifecycle status (one named exception:
   ResumeResponder releases a responder from Finalizing) *)
Theorem C03_bookkeeping_preserves_status :
  forall c e, In (fst e) bookkeeping ->
    ~ (fst e = ResumeResponder /\ c_status c = Finalizing) ->
    c_status (apply_chan c e) = c_status c.
Proof. exact bookkeeping_preserves_status. Qed.
Print Assumptions C03_bookkeeping_preserves_status.

(* lifecycle events never change counters, pause flags, limits or voucher logs *)
Theorem C03_lifecycle_preserves_data :
  forall c e, In (fst e) lifecycle -> data_of (apply_chan c e) = data_of c.
Proof. exact lifecycle_preserves_data. Qed.
Print Assumptions C03_lifecycle_preserves_data.

(* only if: Completing after any normal-flow history from an accepted status implies
   that both FinishTransfer and the un-paused Complete (ResponderCompletes) occurred *)
Theorem C03_completing_needs_both :
  forall c es,
    (c_status c = Queued \/ c_status c = Ongoing) ->
    forallb normal_flow (map fst es) = true ->
    c_status (fold_left apply_chan es c) = Completing ->
    In FinishTransfer (map fst es) /\ In ResponderCompletes (map fst es).
Proof. exact completing_needs_both. Qed.
Print Assumptions C03_completing_needs_both.

Theorem C03_either_alone_never_completes :
  forall c es,
    (c_status c = Queued \/ c_status c = Ongoing) ->
    forallb normal_flow (map fst es) = true ->
    (~ In FinishTransfer (map fst es) \/ ~ In ResponderCompletes (map fst es)) ->
    c_status (fold_left apply_chan es c) <> Completing.
Proof. exact either_alone_never_completes. Qed.
Print Assumptions C03_either_alone_never_completes.

(* if: both signals in either order, with any bookkeeping in between, reach Completing *)
Theorem C03_both_in_either_order_completes :
  forall s b1 b2 b3,
    (s = Queued \/ s = Ongoing) ->
    forallb pure_bk b1 = true -> forallb pure_bk b2 = true -> forallb pure_bk b3 = true ->
    run_status s (b1 ++ [FinishTransfer] ++ b2 ++ [ResponderCompletes] ++ b3) = Completing /\
    run_status s (b1 ++ [ResponderCompletes] ++ b2 ++ [FinishTransfer] ++ b3) = Completing.
Proof. exact both_in_either_order_completes. Qed.
Print Assumptions C03_both_in_either_order_completes.

Theorem C03_finalizing_then_final_complete_completes :
  run_status Ongoing [FinishTransfer; ResponderBeginsFinalization; ResponderCompletes] = Completing /\
  run_status Ongoing [ResponderBeginsFinalization; FinishTransfer; ResponderCompletes] = Completing.
Proof. exact finalizing_then_final_complete_completes. Qed.
Print Assumptions C03_finalizing_then_final_complete_completes.

(* a pull satisfied locally before acceptance completes without the responder *)
Theorem C03_awaiting_acceptance_local :
  next_status FinishTransfer AwaitingAcceptance = Completing /\
  next_status TransferInitiated Requested = AwaitingAcceptance.
Proof. exact awaiting_acceptance_local. Qed.
Print Assumptions C03_awaiting_acceptance_local.

(* responder: Finalizing holds under bookkeeping, reports itself paused, and only
   ResumeResponder releases it, to Completing *)
Theorem C03_finalizing_holds_until_released :
  forall c e, c_status c = Finalizing ->
    In (fst e) bookkeeping ->
    (fst e <> ResumeResponder -> c_status (apply_chan c e) = Finalizing) /\
    (fst e = ResumeResponder -> c_status (apply_chan c e) = Completing) /\
    responder_paused_view c = true.
Proof. exact finalizing_holds_until_released. Qed.
Print Assumptions C03_finalizing_holds_until_released.

Theorem C03_begin_finalizing_enters_finalizing : forall s,
  is_final s = false -> next_status BeginFinalizing s = Finalizing /\ next_status Complete s = Completing.
Proof. exact begin_finalizing_enters_finalizing. Qed.
Print Assumptions C03_begin_finalizing_enters_finalizing.

(* the pause rule the theorems above are about (Node.leave_paused: forced pause, or finalization
   still required on a channel in finalization, or a non-zero data limit already reached by the
   limited total) is the one in the source: GenDecide.gen_LeaveRequestPaused is regenerated from
   manager.go ValidationResult.LeaveRequestPaused on every run *)
Theorem C03_pause_rule_is_the_sources :
  forall vr c, GenDecide.gen_LeaveRequestPaused vr c = Node.leave_paused vr c.
Proof. exact DecideEq.leave_paused_is_source. Qed.
Print Assumptions C03_pause_rule_is_the_sources.

From DT Require GenHandlers HandlerEq.

(* what the manager does when the transport reports the end of its part (an error: fail unless already
   failing; the initiator: record FinishTransfer; the responder: send the final Complete, paused iff
   finalization is required, then Complete / BeginFinalizing) runs like the program regenerated from
   impl/events.go OnChannelCompleted on every run *)
Theorem C03_completion_handler_is_the_sources : forall k failed,
  HandlerEq.runs_like (HandlerEq.with_self (fun self => GenHandlers.gen_OnChannelCompleted self k failed)) (Node.on_channel_completed k failed) /\
  HandlerEq.runs_like (GenHandlers.gen_OnChannelOpened k) (Node.on_channel_opened k).
Proof. exact HandlerEq.completion_handlers_are_source. Qed.
Print Assumptions C03_completion_handler_is_the_sources.

(* what a response of the responder does on the initiator (cancel; voucher result recorded; rejection fails the
   channel; Accept / Restart; an un-paused Complete is the responder's final word, a paused one begins
   finalization; otherwise the responder's pause flag follows the message, and ErrPause is returned when this
   side is still paused), and what a pause / resume request does on the responder: Node.v's programs run like
   those regenerated from impl/events.go OnResponseReceived and impl/receiving_requests.go receiveUpdateRequest *)
Theorem C03_response_handlers_are_the_sources : forall k m s,
  HandlerEq.same_run (Node.run (HandlerEq.with_self (fun self => GenHandlers.gen_OnResponseReceived self k m)) s) (Node.run (Node.on_response_received k m) s) /\
  HandlerEq.same_run2 (Node.run (Node.bind (Node.exec Node.ISelf) (fun self => GenHandlers.gen_receiveUpdateRequest self k m)) s) (Node.run (Node.receive_update_request k m) s).
Proof. exact HandlerEq.response_handlers_are_source. Qed.
Print Assumptions C03_response_handlers_are_the_sources.

(* UpdateValidationStatus as written in Node.v (only the responder; the events that record the outcome; the reply,
   a Complete while finalizing, paused iff the request stays paused; resume through the transport with the reply
   attached iff accepted, not held, paused and not finalizing; otherwise the reply over the network, then close
   on rejection or pause when newly held) runs, for every interpreter state, like the program regenerated from
   impl/impl.go UpdateValidationStatus / updateValidationStatus / processValidationUpdate / handleTransportUpdate *)
Theorem C03_update_validation_is_the_sources : forall k vr s,
  HandlerEq.same_run (Node.run (HandlerEq.with_self (fun self => GenHandlers.gen_UpdateValidationStatus self k vr)) s) (Node.run (Node.update_validation k vr) s).
Proof. exact HandlerEq.update_validation_is_source. Qed.
Print Assumptions C03_update_validation_is_the_sources.
