(* C19  Channel state views are total and self-consistent (FSM level).  Statements only.
   Totality: every accessor of Fsm.v/View.v is a total Gallina function on every record. *)
From Coq Require Import List NArith ZArith String Bool.
From DT Require Import GenStatus GenEvent GenMsgType FsmTypes GenFsm Fsm Machine View Caches Msg Node FsmFacts C19Proofs NodeFacts NodeProps.
From DT Require GenDecide DecideEq.
Import ListNotations.

Theorem C19_last_is_final_entry :
  forall c,
    (c_results c = [] -> last_result c = no_voucher) /\
    (forall l x, c_results c = l ++ [x] -> last_result c = x) /\
    (c_vouchers c = [] -> last_voucher c = no_voucher) /\
    (forall l x, c_vouchers c = l ++ [x] -> last_voucher c = x).
Proof. exact last_is_final_entry. Qed.
Print Assumptions C19_last_is_final_entry.

Theorem C19_created_is_wellformed :
  forall self tid b s v i snd rcv,
    snd <> rcv -> (i = snd \/ i = rcv) -> (self = snd \/ self = rcv) ->
    wf (create_new self tid b s v i snd rcv).
Proof. exact create_new_wf. Qed.
Print Assumptions C19_created_is_wellformed.

Theorem C19_views_consistent :
  forall c, wf c ->
    (is_pull c = true <-> c_init c = c_recipient c) /\
    chid_of c = (c_init c, c_resp c, c_tid c) /\
    other_peer c <> c_self c /\
    (other_peer c = c_sender c \/ other_peer c = c_recipient c) /\
    c_init c <> c_resp c.
Proof. exact views_consistent. Qed.
Print Assumptions C19_views_consistent.

Theorem C19_wf_history : forall es c, wf c -> wf (fold_left apply_chan es c).
Proof. exact wf_history. Qed.
Print Assumptions C19_wf_history.

Theorem C19_logs_append_only :
  forall c e, exists s1 s2,
    c_vouchers (apply_chan c e) = c_vouchers c ++ s1 /\
    c_results (apply_chan c e) = c_results c ++ s2 /\
    (fst e <> NewVoucher -> s1 = []) /\ (fst e <> NewVoucherResult -> s2 = []) /\
    (s1 = [] \/ s1 = [a_voucher (snd e)]) /\ (s2 = [] \/ s2 = [a_voucher (snd e)]).
Proof. exact logs_append_only. Qed.
Print Assumptions C19_logs_append_only.

Theorem C19_logs_prefix_history :
  forall es c, exists s1 s2,
    c_vouchers (fold_left apply_chan es c) = c_vouchers c ++ s1 /\
    c_results (fold_left apply_chan es c) = c_results c ++ s2.
Proof. exact logs_prefix_history. Qed.
Print Assumptions C19_logs_prefix_history.

Theorem C19_first_voucher_is_opening_voucher :
  forall es c, c_vouchers c <> [] -> first_voucher (fold_left apply_chan es c) = first_voucher c.
Proof. exact first_voucher_is_opening_voucher. Qed.
Print Assumptions C19_first_voucher_is_opening_voucher.

(* node level: over every history of inputs a well-formed record stays well-formed (so its views
   stay consistent) and both logs only grow *)
Theorem C19_wf_node_history :
  forall l n k cs,
    lookup k (n_chans n) = Some cs -> wf (m_chan (cs_m cs)) ->
    exists cs', lookup k (n_chans (run_history n l)) = Some cs' /\ wf (m_chan (cs_m cs')).
Proof. exact wf_node_history. Qed.
Print Assumptions C19_wf_node_history.

Theorem C19_logs_node_history :
  forall l n k cs,
    lookup k (n_chans n) = Some cs ->
    exists cs' s1 s2, lookup k (n_chans (run_history n l)) = Some cs' /\
      c_vouchers (m_chan (cs_m cs')) = c_vouchers (m_chan (cs_m cs)) ++ s1 /\
      c_results (m_chan (cs_m cs')) = c_results (m_chan (cs_m cs)) ++ s2.
Proof. exact logs_history. Qed.
Print Assumptions C19_logs_node_history.

(* the derived views the theorems above are about are the accessors of the source: regenerated from
   channels/channel_state.go (InitiatorPaused, ResponderPaused, BothPaused, SelfPaused) on every run *)
Theorem C19_pause_views_are_the_sources :
  forall c, GenDecide.gen_InitiatorPaused c = initiator_paused_view c /\
            GenDecide.gen_ResponderPaused c = responder_paused_view c /\
            GenDecide.gen_BothPaused c = both_paused_view c /\
            GenDecide.gen_SelfPaused c = self_paused_view c.
Proof. exact DecideEq.pause_views_are_source. Qed.
Print Assumptions C19_pause_views_are_the_sources.

(* who the other party is and which way the data flows (is_pull, other_peer) are the accessors of
   the source: regenerated from channels/channel_state.go (IsPull, OtherPeer) on every run *)
Theorem C19_party_views_are_the_sources :
  forall c, GenDecide.gen_IsPull c = is_pull c /\ GenDecide.gen_OtherPeer c = other_peer c.
Proof. exact DecideEq.party_views_are_source. Qed.
Print Assumptions C19_party_views_are_the_sources.

(* the counters, block totals, limit and finalization flag a channel's accessors show are the stored
   fields of the same name: regenerated from channels/channel_state.go on every run *)
Theorem C19_counter_views_are_the_sources :
  forall c, GenDecide.gen_Queued c = c_queued c /\ GenDecide.gen_Sent c = c_sent c /\
            GenDecide.gen_Received c = c_received c /\ GenDecide.gen_DataLimit c = c_limit c /\
            GenDecide.gen_TotalSize c = c_totalsize c /\ GenDecide.gen_RequiresFinalization c = c_reqfin c /\
            GenDecide.gen_QueuedCidsTotal c = c_qblocks c /\ GenDecide.gen_SentCidsTotal c = c_sblocks c /\
            GenDecide.gen_ReceivedCidsTotal c = c_rblocks c.
Proof. exact DecideEq.counters_are_source. Qed.
Print Assumptions C19_counter_views_are_the_sources.

From DT Require GenHandlers HandlerEq.

(* a voucher (result) is recorded only after it was sent, and a failed send records nothing: the programs
   that say so run like the ones regenerated from impl/impl.go SendVoucher / SendVoucherResult *)
Theorem C19_voucher_handlers_are_the_sources : forall k v,
  HandlerEq.runs_like (HandlerEq.with_self (fun self => GenHandlers.gen_SendVoucher self k v)) (Node.send_voucher k v) /\
  HandlerEq.runs_like (HandlerEq.with_self (fun self => GenHandlers.gen_SendVoucherResult self k v)) (Node.send_voucher_result k v).
Proof. exact HandlerEq.voucher_handlers_are_source. Qed.
Print Assumptions C19_voucher_handlers_are_the_sources.

(* what a response of the responder does on the initiator (cancel; voucher result recorded; rejection fails the
   channel; Accept / Restart; an un-paused Complete is the responder's final word, a paused one begins
   finalization; otherwise the responder's pause flag follows the message, and ErrPause is returned when this
   side is still paused), and what a pause / resume request does on the responder: Node.v's programs run like
   those regenerated from impl/events.go OnResponseReceived and impl/receiving_requests.go receiveUpdateRequest *)
Theorem C19_response_handlers_are_the_sources : forall k m s,
  HandlerEq.same_run (Node.run (HandlerEq.with_self (fun self => GenHandlers.gen_OnResponseReceived self k m)) s) (Node.run (Node.on_response_received k m) s) /\
  HandlerEq.same_run2 (Node.run (Node.bind (Node.exec Node.ISelf) (fun self => GenHandlers.gen_receiveUpdateRequest self k m)) s) (Node.run (Node.receive_update_request k m) s).
Proof. exact HandlerEq.response_handlers_are_source. Qed.
Print Assumptions C19_response_handlers_are_the_sources.

(* opening a channel as written in Node.v (a fresh id from the counter, the request built from the caller's
   voucher, base CID and selector, the record created and opened before anything leaves the node, the peer
   protected, the request sent over the network for a push and handed to the transport for a pull, a failed send
   failing the channel) runs, for every interpreter state, like the programs regenerated from impl/impl.go
   OpenPushDataChannel / OpenPullDataChannel: same error class, same state and outputs, same channel id *)
Theorem C19_opening_calls_are_the_sources : forall to v b sel s,
  HandlerEq.same_open (Node.run (Node.bind (Node.exec Node.ISelf) (fun self => GenHandlers.gen_OpenPushDataChannel self to v b sel)) s) (Node.run (Node.open_channel Node.DPush to v b sel) s) /\
  HandlerEq.same_open (Node.run (Node.bind (Node.exec Node.ISelf) (fun self => GenHandlers.gen_OpenPullDataChannel self to v b sel)) s) (Node.run (Node.open_channel Node.DPull to v b sel) s).
Proof. exact HandlerEq.opening_calls_are_source. Qed.
Print Assumptions C19_opening_calls_are_the_sources.
