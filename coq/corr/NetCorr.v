(* Correspondence check H4: the real libp2pDataTransferNetwork over a scripted host / stream double
   against Net.send_message, Net.connect_with_retry and Net.handle_stream. *)
From Coq Require Import List NArith Bool Arith.
From DT Require Import Net.
Import ListNotations.

Definition sres_code (r : sres) : N :=
  match r with SOk => 0 | SErrExhausted => 1 | SErrCtx => 2 | SErrProto => 3 | SErrWrite => 4 | SErrReset => 5 | SErrClose => 6 end.
Definition op_code (o : stream_op) : N := match o with SWrite => 0 | SWriteFailed => 1 | SReset => 2 | SClose => 3 end.
Definition kind_code (k : mkind) : N := match k with KRequest => 0 | KRestartExisting => 1 | KResponse => 2 end.

Fixpoint nlist_eqb (a b : list N) : bool :=
  match a, b with [], [] => true | x :: r, y :: t => N.eqb x y && nlist_eqb r t | _, _ => false end.

Inductive ncase : Type :=
| NSend (id : N) (connect : bool) (i : send_in) (attempts : N) (res : N) (ops : list N) (delivered : N)
| NIn (id : N) (receiver_set : bool) (peer : N) (items : list item) (e : ending)
      (calls : list (N * N * N)) (reset err : bool).

Definition ncheck (c : ncase) : bool :=
  match c with
  | NSend _ connect i attempts res ops delivered =>
      let o := if connect then connect_with_retry i else send_message i in
      N.eqb (N.of_nat (so_attempts o)) attempts && N.eqb (sres_code (so_res o)) res &&
      nlist_eqb (map op_code (so_ops o)) ops &&
      (* the message reached the peer exactly once iff the write happened *)
      N.eqb delivered (if existsb (fun x => match x with SWrite => true | _ => false end) (so_ops o) then 1 else 0)
  | NIn _ rs peer items e calls reset err =>
      let o := handle_stream rs peer items e in
      nlist_eqb (flat_map (fun c => [kind_code (fst (fst c)); snd (fst c); snd c]) (io_calls o))
                (flat_map (fun c => [fst (fst c); snd (fst c); snd c]) calls) &&
      Bool.eqb (io_reset o) reset && Bool.eqb (io_error o) err
  end.

Definition ncase_id (c : ncase) : N := match c with NSend id _ _ _ _ _ _ => id | NIn id _ _ _ _ _ _ _ => id end.
Definition mismatches (l : list ncase) : list N := flat_map (fun c => if ncheck c then [] else [ncase_id c]) l.
