(* Correspondence check H12: every message the library constructs is encoded by the real
   ToNet / ToIPLD+dagcbor and the bytes are compared, byte for byte, with Wire.to_net; the bytes
   (and versions with permuted map keys) are decoded by both and compared. *)
From Coq Require Import List NArith ZArith String Ascii Bool.
From DT Require Import Cbor Wire.
Import ListNotations.

Definition bs (l : list N) : string := string_of_list_ascii (map ascii_of_N l).

Fixpoint node_eqb_fuel (fuel : nat) (a b : node) : bool :=
  match fuel with
  | O => false
  | S f =>
      match a, b with
      | NNull, NNull => true
      | NBool x, NBool y => Bool.eqb x y
      | NInt n x, NInt m y => Bool.eqb n m && N.eqb x y
      | NFloat x, NFloat y => N.eqb x y
      | NString x, NString y | NBytes x, NBytes y | NLink x, NLink y => String.eqb x y
      | NList x, NList y =>
          (fix go (x y : list node) : bool :=
             match x, y with
             | [], [] => true
             | p :: r, q :: t => node_eqb_fuel f p q && go r t
             | _, _ => false
             end) x y
      | NMap x, NMap y =>
          (fix go (x y : list (string * node)) : bool :=
             match x, y with
             | [], [] => true
             | (k, p) :: r, (j, q) :: t => String.eqb k j && node_eqb_fuel f p q && go r t
             | _, _ => false
             end) x y
      | _, _ => false
      end
  end.
Definition node_eqb (a b : node) : bool := node_eqb_fuel (Nat.max (depth a) (depth b)) a b.

Definition onode_eqb (a b : option node) : bool :=
  match a, b with Some x, Some y => node_eqb x y | None, None => true | _, _ => false end.
Definition ostr_eqb (a b : option string) : bool :=
  match a, b with Some x, Some y => String.eqb x y | None, None => true | _, _ => false end.

Definition wmsg_eqb (a b : wmsg) : bool :=
  match a, b with
  | WReq x, WReq y =>
      ostr_eqb (rq_basecid x) (rq_basecid y) && N.eqb (rq_type x) (rq_type y) && Bool.eqb (rq_pause x) (rq_pause y) &&
      Bool.eqb (rq_partial x) (rq_partial y) && Bool.eqb (rq_pull x) (rq_pull y) &&
      onode_eqb (rq_selector x) (rq_selector y) && onode_eqb (rq_voucher x) (rq_voucher y) &&
      String.eqb (rq_vtype x) (rq_vtype y) && N.eqb (rq_xferid x) (rq_xferid y) &&
      String.eqb (wc_init (rq_restart x)) (wc_init (rq_restart y)) &&
      String.eqb (wc_resp (rq_restart x)) (wc_resp (rq_restart y)) && N.eqb (wc_id (rq_restart x)) (wc_id (rq_restart y))
  | WResp x, WResp y =>
      N.eqb (rs_type x) (rs_type y) && Bool.eqb (rs_accepted x) (rs_accepted y) && Bool.eqb (rs_paused x) (rs_paused y) &&
      N.eqb (rs_xferid x) (rs_xferid y) && onode_eqb (rs_vres x) (rs_vres y) && String.eqb (rs_vtype x) (rs_vtype y)
  | _, _ => false
  end.

Record wirecase := mkWireCase {
  wk_id : N;
  wk_msg : wmsg;                 (* the message as constructed (payloads in the order they were built) *)
  wk_bytes : string;             (* what ToNet wrote *)
  wk_decoded : wmsg;             (* what FromNet made of those bytes, as seen through the accessors *)
  wk_perms : list string         (* the same message with the struct-level map keys in other orders *)
}.

Definition wirecheck (k : wirecase) : bool :=
  String.eqb (to_net (wk_msg k)) (wk_bytes k) &&
  wmsg_eqb (wk_decoded k) (canon_msg (wk_msg k)) &&
  match from_net (wk_bytes k) with Some m => wmsg_eqb m (canon_msg (wk_msg k)) | None => false end &&
  forallb (fun b => match from_net b with Some m => wmsg_eqb m (canon_msg (wk_msg k)) | None => false end) (wk_perms k).

Definition mismatches (l : list wirecase) : list N :=
  flat_map (fun k => if wirecheck k then [] else [wk_id k]) l.
