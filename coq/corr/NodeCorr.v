(* Correspondence check H2: the real impl manager (with recording doubles) against Node.step. *)
From Coq Require Import List NArith ZArith String Bool.
From DT Require Import GenStatus GenEvent GenMsgType FsmTypes GenFsm Fsm Machine View Caches Msg Node.
Import ListNotations.

Definition msg_eqb (a b : msg) : bool :=
  Bool.eqb (g_isreq a) (g_isreq b) && msgtype_eqb (g_type a) (g_type b) && N.eqb (g_tid a) (g_tid b) &&
  Bool.eqb (g_pause a) (g_pause b) && Bool.eqb (g_pull a) (g_pull b) &&
  Bool.eqb (g_accepted a) (g_accepted b) && String.eqb (g_vtype a) (g_vtype b) &&
  N.eqb (g_vnode a) (g_vnode b) && N.eqb (g_basecid a) (g_basecid b) &&
  N.eqb (g_selector a) (g_selector b) && triple_eqb (g_restart a) (g_restart b).

Definition tcmd_eqb (a b : tcmd) : bool :=
  match a, b with
  | TOpen t1 k1 h1 m1, TOpen t2 k2 h2 m2 => N.eqb t1 t2 && triple_eqb k1 k2 && Bool.eqb h1 h2 && msg_eqb m1 m2
  | TClose k1, TClose k2 | TPause k1, TPause k2 | TCleanup k1, TCleanup k2 => triple_eqb k1 k2
  | TResume k1 m1, TResume k2 m2 => triple_eqb k1 k2 && msg_eqb m1 m2
  | _, _ => false
  end.

Definition nret_code (r : nret) : N :=
  match r with ROk => 0 | RPause => 1 | RRejected => 2 | RNotFound | RTerminated | ROther => 5 end.
Definition vkind_code (v : vkind) : N := match v with VPush => 0 | VPull => 1 | VRestart => 2 end.

(* what the harness observed for one step, by category (ordering across categories is not
   compared: subscriber calls and cleanup run on other goroutines) *)
Record nobs := mkObs {
  ob_ret : N;                                  (* nret_code *)
  ob_chid : option chid;                       (* channel id returned by an open that succeeded *)
  ob_msg : option msg;                         (* message returned by OnDataQueued / OnRequestReceived *)
  ob_events : list (chid * EventCode * view);  (* subscriber calls, in order *)
  ob_sent : list (N * msg * bool);             (* network sends, in order *)
  ob_transport : list (tcmd * bool);           (* transport calls except CleanupChannel, in order *)
  ob_cleanups : list chid;                     (* transport.CleanupChannel calls *)
  ob_validates : list (N * chid);
  ob_protects : list (N * chid);
  ob_unprotects : list (N * chid)
}.

Definition events_of (o : list nout) := flat_map (fun x => match x with NEvent k e v => [(k, e, v)] | _ => [] end) o.
Definition sent_of (o : list nout) := flat_map (fun x => match x with NSent t m b => [(t, m, b)] | _ => [] end) o.
Definition transport_of (o : list nout) :=
  flat_map (fun x => match x with
                     | NTransport (TCleanup _) _ => []
                     | NTransport c b => [(c, b)]
                     | _ => [] end) o.
Definition cleanups_of (o : list nout) :=
  flat_map (fun x => match x with NTransport (TCleanup k) _ => [k] | _ => [] end) o.
Definition validates_of (o : list nout) :=
  flat_map (fun x => match x with NValidate vk k => [(vkind_code vk, k)] | _ => [] end) o.
Definition protects_of (o : list nout) := flat_map (fun x => match x with NProtect p k => [(p, k)] | _ => [] end) o.
Definition unprotects_of (o : list nout) := flat_map (fun x => match x with NUnprotect p k => [(p, k)] | _ => [] end) o.

Definition pk_eqb (a b : N * chid) : bool := N.eqb (fst a) (fst b) && triple_eqb (snd a) (snd b).

Definition obs_of (r : nres) (o : list nout) : nobs :=
  mkObs (nret_code (nr_ret r))
        (match nr_ret r with ROk => nr_chid r | _ => None end) (nr_msg r)
        (events_of o) (sent_of o) (transport_of o) (cleanups_of o) (validates_of o)
        (protects_of o) (unprotects_of o).

Definition nobs_eqb (a b : nobs) : bool :=
  (* 77 = the real entry point returns nothing (network receiver methods) *)
  (N.eqb (ob_ret b) 77 || N.eqb (ob_ret a) (ob_ret b)) &&
  option_eqb triple_eqb (ob_chid a) (ob_chid b) &&
  option_eqb msg_eqb (ob_msg a) (ob_msg b) &&
  list_eqb (fun x y => triple_eqb (fst (fst x)) (fst (fst y)) && event_eqb (snd (fst x)) (snd (fst y)) &&
                       view_eqb (snd x) (snd y)) (ob_events a) (ob_events b) &&
  list_eqb (fun x y => N.eqb (fst (fst x)) (fst (fst y)) && msg_eqb (snd (fst x)) (snd (fst y)) &&
                       Bool.eqb (snd x) (snd y)) (ob_sent a) (ob_sent b) &&
  list_eqb (fun x y => tcmd_eqb (fst x) (fst y) && Bool.eqb (snd x) (snd y)) (ob_transport a) (ob_transport b) &&
  list_eqb triple_eqb (ob_cleanups a) (ob_cleanups b) &&
  list_eqb pk_eqb (ob_validates a) (ob_validates b) &&
  list_eqb pk_eqb (ob_protects a) (ob_protects b) &&
  list_eqb pk_eqb (ob_unprotects a) (ob_unprotects b).

Record ncase := mkNCase {
  nc_id : N;
  nc_self : N;
  nc_steps : list (nstep * nobs);
  nc_final : list (chid * view)        (* InProgressChannels at the end, in creation order *)
}.

(* index (1-based) of the first diverging step, 0 = all steps agree *)
Fixpoint run_steps (n : node) (l : list (nstep * nobs)) (i : N) : N * node :=
  match l with
  | [] => (0%N, n)
  | (st, ob) :: r =>
      let '(n', res, o) := step n st in
      if nobs_eqb (obs_of res o) ob then run_steps n' r (i + 1)%N else (i, n')
  end.

Definition final_of (n : node) : list (chid * view) :=
  map (fun p => (fst p, view_of (m_chan (cs_m (snd p))))) (n_chans n).

Definition ncheck (k : ncase) : N :=
  let '(bad, n) := run_steps (init_node (nc_self k)) (nc_steps k) 1%N in
  if negb (N.eqb bad 0) then bad
  else if list_eqb (fun x y => triple_eqb (fst x) (fst y) && view_eqb (snd x) (snd y)) (final_of n) (nc_final k)
       then 0%N else 999%N.

(* (case id, first diverging step) for every case that disagrees *)
Definition mismatches (l : list ncase) : list N :=
  flat_map (fun k => if N.eqb (ncheck k) 0 then [] else [nc_id k]) l.
Definition mismatch_steps (l : list ncase) : list (N * N) :=
  flat_map (fun k => if N.eqb (ncheck k) 0 then [] else [(nc_id k, ncheck k)]) l.
