(* Correspondence check H5: the real channelmonitor (over a recording monitorAPI double whose
   ConnectTo / Restart calls block until the harness releases them) against Monitor.mon_step.
   The harness can only observe the monitor at quiescent points, so each harness step is a
   macro step: a few labels of the fine-grained model followed by `settle` (the restart loop
   runs on to its next blocking call).  Every macro schedule is a schedule of the model. *)
From Coq Require Import List NArith ZArith Bool Arith.
From DT Require Import Monitor.
Import ListNotations.

Inductive hlabel : Set :=
| HError | HData | HAccept | HFinish | HEnding
| HConnectRet (ok : bool) | HRestartRet (ok : bool)
| HAcceptTimer | HCompleteTimer
| HOther.           (* an announcement the monitor has no business with: queued data, vouchers, pauses, ... *)

(* back-off mode of the harness configuration: 0 none, 1 short (always waited out as part of
   the step), 2 long (only ever ended by the cancelled context) *)
Definition run_labels (c : cfg) (m : mon) (ls : list mlabel) : mon * list mout :=
  fold_left (fun acc l => let '(m', o) := mon_step c (fst acc) l in (m', snd acc ++ o)) ls (m, []).

Fixpoint settle (c : cfg) (short : bool) (fuel : nat) (m : mon) : mon * list mout :=
  match fuel with
  | O => (m, [])
  | S f =>
      match mo_pc m with
      | PDo => let '(m1, o1) := mon_step c m LLoopStep in
               let '(m2, o2) := settle c short f m1 in (m2, o1 ++ o2)
      | PBackoff =>
          if short || mo_shut m then
            let '(m1, o1) := mon_step c m LBackoffDone in
            let '(m2, o2) := settle c short f m1 in (m2, o1 ++ o2)
          else (m, [])
      | _ => (m, [])
      end
  end.

Definition labels_of (h : hlabel) : list mlabel :=
  match h with
  | HError => [LEvError; LRestartCall]
  | HData => [LEvData]
  | HAccept => [LEvAccept]
  | HFinish => [LEvFinish]
  | HEnding => [LEvEnding; LShutdownRuns]
  | HConnectRet ok => [LConnectReturns ok]
  | HRestartRet ok => [LRestartReturns ok]
  | HAcceptTimer => [LAcceptTimerFires]
  | HCompleteTimer => [LCompleteTimerFires]
  | HOther => []
  end.

Definition hstep (c : cfg) (short : bool) (m : mon) (h : hlabel) : mon * list mout :=
  let '(m1, o1) := run_labels c m (labels_of h) in
  let '(m2, o2) := settle c short 6 m1 in (m2, o1 ++ o2).

Record mobs := mkMObs {
  ob_shut : bool; ob_restarting : bool; ob_queued : bool; ob_consec : N;
  ob_blocked : N;                       (* 0 none, 1 inside ConnectTo, 2 inside Restart *)
  ob_connects : N; ob_restarts : N; ob_closes : N; ob_completes : N;   (* cumulative call counts *)
  ob_tracked : bool                     (* the Monitor still lists the channel *)
}.

Definition cntN (x : mout) (o : list mout) : N :=
  N.of_nat (List.length (filter (fun y => match x, y with
                                | MConnect, MConnect | MRestart, MRestart | MClose, MClose
                                | MRestartComplete, MRestartComplete => true
                                | _, _ => false end) o)).

Definition obs_of (m : mon) (o : list mout) : mobs :=
  mkMObs (mo_shut m) (restarting m) (mo_queued m) (N.of_nat (mo_consec m))
         (match mo_pc m with PConnect => 1 | PRestart => 2 | _ => 0 end)%N
         (cntN MConnect o) (cntN MRestart o) (cntN MClose o) (cntN MRestartComplete o)
         (negb (mo_shut m)).

Definition mobs_eqb (a b : mobs) : bool :=
  Bool.eqb (ob_shut a) (ob_shut b) && Bool.eqb (ob_restarting a) (ob_restarting b) &&
  Bool.eqb (ob_queued a) (ob_queued b) && N.eqb (ob_consec a) (ob_consec b) &&
  N.eqb (ob_blocked a) (ob_blocked b) && N.eqb (ob_connects a) (ob_connects b) &&
  N.eqb (ob_restarts a) (ob_restarts b) && N.eqb (ob_closes a) (ob_closes b) &&
  N.eqb (ob_completes a) (ob_completes b) && Bool.eqb (ob_tracked a) (ob_tracked b).

Record mcase := mkMCase {
  mk_id : N;
  mk_max : N; mk_accept : bool; mk_complete : bool; mk_backoff : N;
  mk_steps : list (hlabel * mobs)
}.

Fixpoint mrun (c : cfg) (short : bool) (m : mon) (acc : list mout) (l : list (hlabel * mobs)) (i : N) : N :=
  match l with
  | [] => 0%N
  | (h, ob) :: r =>
      let '(m', o) := hstep c short m h in
      let acc' := acc ++ o in
      if mobs_eqb (obs_of m' acc') ob then mrun c short m' acc' r (i + 1)%N else i
  end.

Definition mcheck (k : mcase) : N :=
  let c := mkCfg (N.to_nat (mk_max k)) (mk_accept k) (mk_complete k) (negb (N.eqb (mk_backoff k) 0)) in
  mrun c (N.eqb (mk_backoff k) 1) (mon_init c) [] (mk_steps k) 1%N.

Definition mismatches (l : list mcase) : list N :=
  flat_map (fun k => if N.eqb (mcheck k) 0 then [] else [mk_id k]) l.
Definition mismatch_steps (l : list mcase) : list (N * N) :=
  flat_map (fun k => if N.eqb (mcheck k) 0 then [] else [(mk_id k, mcheck k)]) l.
