(* Correspondence check for channels/caches.go and fireProgressEvent: the real
   Channels.DataQueued/DataSent/DataReceived/SetDataLimit against Caches.fire. *)
From Coq Require Import List NArith ZArith String Bool.
From DT Require Import GenStatus GenEvent FsmTypes GenFsm Fsm Machine View Caches.
Import ListNotations.

Inductive rstep : Type :=
| RReport (r : report)
| RSetLimit (l : N)
| RCrash                      (* new Channels instance on the same datastore *)
| REvent (e : ev).            (* any other FSM event *)

(* 0 = nil, 1 = ErrPause, 2 = other error *)
Definition rret := N.

Record cache_obs := mkCacheObs { co_q : option Z; co_s : option Z; co_r : option Z; co_pg : option (N * N) }.

Record rcase := mkRCase {
  rc_id : N;
  rc_seed : chan;
  rc_steps : list rstep;
  rc_rets : list rret;
  rc_final : chan;
  rc_cache : cache_obs
}.

Definition deliver_all_m (m : mstate) (es : list ev) : mstate :=
  fold_left (fun m e => fst (deliver m e)) es m.

Definition rstep_run (st : mstate * ccache) (s : rstep) : (mstate * ccache) * list rret :=
  let '(m, cc) := st in
  match s with
  | RReport r =>
      let '(cc', evs, pause) := fire (m_chan m) cc r in
      ((deliver_all_m m evs, cc'), [if pause then 1%N else 0%N])
  | RSetLimit l =>
      let '(cc', evs) := set_limit cc l in ((deliver_all_m m evs, cc'), [0%N])
  | RCrash => ((m_init (m_chan m), empty_cache), [])
  | REvent e =>
      if known_event (fst e) && negb (m_dead m) then ((fst (deliver m e), cc), [0%N])
      else ((m, cc), [2%N])
  end.

Fixpoint rrun (st : mstate * ccache) (l : list rstep) (rets : list rret) : (mstate * ccache) * list rret :=
  match l with
  | [] => (st, rets)
  | s :: r => let '(st', o) := rstep_run st s in rrun st' r (rets ++ o)
  end.

Definition zopt_eqb := option_eqb Z.eqb.
Definition pg_eqb := option_eqb (fun a b : N * N => N.eqb (fst a) (fst b) && N.eqb (snd a) (snd b)).

Definition rcheck (k : rcase) : bool :=
  let '((m, cc), rets) := rrun (m_init (rc_seed k), empty_cache) (rc_steps k) [] in
  list_eqb N.eqb rets (rc_rets k) &&
  chan_eqb (m_chan m) (rc_final k) &&
  zopt_eqb (ix_q cc) (co_q (rc_cache k)) && zopt_eqb (ix_s cc) (co_s (rc_cache k)) &&
  zopt_eqb (ix_r cc) (co_r (rc_cache k)) && pg_eqb (pg cc) (co_pg (rc_cache k)).

Definition mismatches (l : list rcase) : list N := map rc_id (filter (fun k => negb (rcheck k)) l).
