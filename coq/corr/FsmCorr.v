(* Correspondence check H1: the real channels.Channels (go-statemachine + generated
   table) against Machine.deliver on the same seeded record and event history. *)
From Coq Require Import List NArith ZArith String Bool.
From DT Require Import GenStatus GenEvent FsmTypes GenFsm Fsm Machine View.
Import ListNotations.

Record fsm_obs := mkFsmObs {
  fo_oks : list bool;                         (* did each Send return nil *)
  fo_final : chan;                            (* record decoded from the datastore at the end *)
  fo_notifs : list (EventCode * view);        (* notifier calls, in order *)
  fo_cleanups : list (N * N * N);             (* env.CleanupChannel calls *)
  fo_unprotects : list (N * (N * N * N))      (* env.Unprotect calls *)
}.

(* one step of a harness history *)
Inductive hstep : Type :=
| HEv (e : ev)              (* Send e, then wait until the machine is quiescent *)
| HGated (e1 e2 : ev).      (* Send e1; while its cleanup handler is held at the gate Send e2; release *)

Record fsm_case := mkFsmCase {
  fc_id : N;
  fc_seed : chan;
  fc_evs : list hstep;
  fc_obs : fsm_obs
}.

Definition gated (m : mstate) (e1 e2 : ev) : mstate * list mout :=
  let '(m1, o1) := m_step m (LEnq e1) in
  let '(m2, o2) := m_step m1 LPlan in
  let '(m3, o3) := m_step m2 (LEnq e2) in
  settle (settle_fuel m3) m3 (o1 ++ o2 ++ o3).

(* after every step the harness reads the channel through GetByID (quiescence barrier), whose
   nilEvent terminates the machine of a record that is final *)
Definition hsync (m : mstate) : mstate :=
  if is_final (c_status (m_chan m)) then mkM (m_chan m) [] (m_handler m) true else m.

Fixpoint run_hist (m : mstate) (es : list hstep) (oks : list bool) (outs : list mout)
  : mstate * list bool * list mout :=
  match es with
  | [] => (m, oks, outs)
  | HEv e :: r =>
      if known_event (fst e) && negb (m_dead m) then
        let '(m', o) := deliver m e in run_hist (hsync m') r (oks ++ [true]) (outs ++ o)
      else run_hist (hsync m) r (oks ++ [false]) outs
  | HGated e1 e2 :: r =>
      let '(m', o) := gated m e1 e2 in run_hist (hsync m') r (oks ++ [true; true]) (outs ++ o)
  end.

Definition notifs_of (outs : list mout) : list (EventCode * view) :=
  flat_map (fun o => match o with ONotify e c => [(e, view_of c)] | _ => [] end) outs.
Definition cleanups_of (outs : list mout) : list (N * N * N) :=
  flat_map (fun o => match o with OCleanupChannel k => [k] | _ => [] end) outs.
Definition unprotects_of (outs : list mout) : list (N * (N * N * N)) :=
  flat_map (fun o => match o with OUnprotect p k => [(p, k)] | _ => [] end) outs.

Definition predict (c : chan) (es : list hstep) : fsm_obs :=
  let '(m, oks, outs) := run_hist (m_init c) es [] [] in
  mkFsmObs oks (m_chan m) (notifs_of outs) (cleanups_of outs) (unprotects_of outs).

Definition notif_eqb (a b : EventCode * view) : bool :=
  event_eqb (fst a) (fst b) && view_eqb (snd a) (snd b).
Definition unprot_eqb (a b : N * (N * N * N)) : bool :=
  N.eqb (fst a) (fst b) && triple_eqb (snd a) (snd b).

Definition obs_eqb (a b : fsm_obs) : bool :=
  list_eqb Bool.eqb (fo_oks a) (fo_oks b) &&
  chan_eqb (fo_final a) (fo_final b) &&
  list_eqb notif_eqb (fo_notifs a) (fo_notifs b) &&
  list_eqb triple_eqb (fo_cleanups a) (fo_cleanups b) &&
  list_eqb unprot_eqb (fo_unprotects a) (fo_unprotects b).

Definition check (k : fsm_case) : bool := obs_eqb (predict (fc_seed k) (fc_evs k)) (fc_obs k).

Definition mismatches (l : list fsm_case) : list N :=
  map fc_id (filter (fun k => negb (check k)) l).
