(* debugging aid (not part of any proof): the model's observations for a case *)
From Coq Require Import List NArith ZArith String Bool.
From DT Require Import GenStatus GenEvent GenMsgType FsmTypes GenFsm Fsm Machine View Caches Msg Node NodeCorr.
Import ListNotations.

Fixpoint model_obs (n : node) (l : list (nstep * nobs)) : list nobs :=
  match l with
  | [] => []
  | (st, _) :: r => let '(n', res, o) := step n st in obs_of res o :: model_obs n' r
  end.

Definition debug_case (k : ncase) (i : nat) : option (nobs * nobs) :=
  match nth_error (model_obs (init_node (nc_self k)) (nc_steps k)) i, nth_error (map snd (nc_steps k)) i with
  | Some a, Some b => Some (a, b)
  | _, _ => None
  end.
