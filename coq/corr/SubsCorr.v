(* Correspondence check H6: subscriber call logs of the real manager (global subscribers added /
   removed at any point, per-transfer subscribers given to OpenPush/PullDataChannel, several
   channels incl. channels whose transfer ids collide) against Subs.srun fed with the
   notification stream the reference subscriber recorded. *)
From Coq Require Import List NArith ZArith Bool.
From DT Require Import Msg Subs.
Import ListNotations.

Record subcase := mkSubCase {
  sc_id : N;
  sc_ops : list sop;
  sc_logs : list (sid * list (chid * N))     (* observed log of every harness subscriber *)
}.

Definition ev_eqb (a b : chid * N) : bool := chid_eqb (fst a) (fst b) && N.eqb (snd a) (snd b).
Fixpoint evs_eqb (a b : list (chid * N)) : bool :=
  match a, b with
  | [], [] => true
  | x :: r, y :: t => ev_eqb x y && evs_eqb r t
  | _, _ => false
  end.

Definition subcheck (k : subcase) : bool :=
  let calls := snd (srun subs_init (sc_ops k)) in
  forallb (fun p => evs_eqb (log_of (fst p) calls) (snd p)) (sc_logs k).

Definition mismatches (l : list subcase) : list N :=
  flat_map (fun k => if subcheck k then [] else [sc_id k]) l.
