(* Correspondence check H8: concurrent block reports on the real Channels.  The interleaving is
   chosen by the Go scheduler, so the model cannot predict one outcome; the check is that the
   observed (mark, total) is the outcome of SOME sequential order of the same reports
   (Conc.seq_run over a permutation), which is what C07Conc.concurrent_reports_counted_once
   allows: distinct advancing positions, total = sum of advancing reports. *)
From Coq Require Import List NArith ZArith Bool.
From DT Require Import Conc.
Import ListNotations.

Fixpoint insert_all {A} (x : A) (l : list A) : list (list A) :=
  match l with
  | [] => [[x]]
  | y :: r => (x :: l) :: map (fun t => y :: t) (insert_all x r)
  end.
Fixpoint perms {A} (l : list A) : list (list A) :=
  match l with
  | [] => [[]]
  | x :: r => flat_map (insert_all x) (perms r)
  end.

Record racecase := mkRace {
  ra_id : N; ra_warm : option Z; ra_dur0 : Z; ra_base : N; ra_reps : list rep;
  ra_total : N; ra_mark : option Z; ra_durable : Z
}.

Definition zopt_eqb (a b : option Z) : bool :=
  match a, b with Some x, Some y => Z.eqb x y | None, None => true | _, _ => false end.

Definition race_ok (k : racecase) : bool :=
  existsb (fun p => let '(m, d, t) := seq_run (ra_warm k, ra_dur0 k, ra_base k) p in
                    zopt_eqb m (ra_mark k) && Z.eqb d (ra_durable k) && N.eqb t (ra_total k)) (perms (ra_reps k)).

Definition mismatches (l : list racecase) : list N :=
  flat_map (fun k => if race_ok k then [] else [ra_id k]) l.
