(* Correspondence check H10: crash points.  The harness drives real channels, records every
   datastore write, and for EVERY write boundary reopens a copy of the store holding exactly the
   writes before it.  Per channel it reports the sequence of distinct records seen over the
   boundaries (raw decoded record and accessor view through a fresh Channels).  The model must
   produce exactly that sequence: the record after creation, then the records written by the
   applied events, in order (a write whose bytes equal the stored ones is skipped by the
   datastore layer, so consecutive duplicates are merged on both sides). *)
From Coq Require Import List NArith ZArith String Bool.
From DT Require Import GenStatus GenEvent FsmTypes GenFsm Fsm Machine View FsmCorr.
Import ListNotations.

Record crashchan := mkCrashChan {
  cc_first : chan;                   (* the record CreateNew wrote (observed) *)
  cc_events : list ev;               (* events sent to this channel, in order *)
  cc_seen : list (chan * view)       (* distinct reopened states over all boundaries, in order *)
}.
Record crashcase := mkCrashCase { ck_id : N; ck_chans : list crashchan }.

Definition puts_of (o : list mout) : list chan :=
  flat_map (fun x => match x with OPut c => [c] | _ => [] end) o.

Fixpoint dedupe (prev : chan) (l : list chan) : list chan :=
  match l with
  | [] => []
  | c :: r => if chan_eqb prev c then dedupe prev r else c :: dedupe c r
  end.

(* deliver the events one at a time with the harness's barrier after each (hsync) *)
Definition model_writes (c0 : chan) (es : list ev) : list chan :=
  let '(_, o) := fold_left (fun acc e => let '(m, o) := acc in
                               let '(m', o') := deliver (hsync m) e in (m', o ++ o'))
                           es (m_init c0, []) in
  c0 :: dedupe c0 (puts_of o).

Fixpoint seen_eqb (a : list chan) (b : list (chan * view)) : bool :=
  match a, b with
  | [], [] => true
  | c :: r, (c', v) :: t => chan_eqb c c' && view_eqb (view_of c) v && seen_eqb r t
  | _, _ => false
  end.

Definition crashcheck (k : crashcase) : bool :=
  forallb (fun cc => seen_eqb (model_writes (cc_first cc) (cc_events cc)) (cc_seen cc)) (ck_chans k).

Definition mismatches (l : list crashcase) : list N :=
  flat_map (fun k => if crashcheck k then [] else [ck_id k]) l.
