(* Correspondence check H3: the real graphsync Transport (over a fake GraphExchange and a scripted
   events handler) against Transport.tstep. *)
From Coq Require Import List NArith ZArith String Bool.
From DT Require Import GenStatus GenEvent GenMsgType FsmTypes GenFsm Fsm View Msg Transport NodeCorr.
Import ListNotations.

Definition hcall_eqb (a b : hcall) : bool :=
  match a, b with
  | HChannelOpened k1, HChannelOpened k2 | HTransferInitiated k1, HTransferInitiated k2
  | HRequestCancelled k1, HRequestCancelled k2 | HSendDataError k1, HSendDataError k2
  | HReceiveDataError k1, HReceiveDataError k2 => triple_eqb k1 k2
  | HDataReceived k1 s1 i1 u1, HDataReceived k2 s2 i2 u2 | HDataQueued k1 s1 i1 u1, HDataQueued k2 s2 i2 u2
  | HDataSent k1 s1 i1 u1, HDataSent k2 s2 i2 u2 =>
      triple_eqb k1 k2 && N.eqb s1 s2 && Z.eqb i1 i2 && Bool.eqb u1 u2
  | HRequestReceived k1 m1, HRequestReceived k2 m2 | HResponseReceived k1 m1, HResponseReceived k2 m2 =>
      triple_eqb k1 k2 && msg_eqb m1 m2
  | HChannelCompleted k1 f1, HChannelCompleted k2 f2 => triple_eqb k1 k2 && Bool.eqb f1 f2
  | _, _ => false
  end.

Definition gscmd_eqb (a b : gscmd) : bool :=
  match a, b with
  | GRequest t1 m1 s1, GRequest t2 m2 s2 => N.eqb t1 t2 && msg_eqb m1 m2 && option_eqb Z.eqb s1 s2
  | GCancel r1, GCancel r2 | GPause r1, GPause r2 => N.eqb r1 r2
  | GUnpause r1 l1, GUnpause r2 l2 => N.eqb r1 r2 && list_eqb msg_eqb l1 l2
  | GRegisterStore k1, GRegisterStore k2 | GUnregisterStore k1, GUnregisterStore k2 => triple_eqb k1 k2
  | _, _ => false
  end.

(* hook actions as the fake action recorders see them (order across kinds is not recorded) *)
Record acts_obs := mkActs {
  ao_sent : list (N * msg);          (* extension set code, message *)
  ao_updates : list msg;
  ao_terminated : bool; ao_pause_response : bool; ao_pause_request : bool; ao_validated : bool;
  ao_store : option chid
}.
Definition ext_code (e : extset) : N := match e with EDefault => 0 | EIncomingReq => 1 | EOutgoingBlk => 2 end.

Definition acts_of_outs (o : list tout) : acts_obs :=
  let acts := flat_map (fun x => match x with OAct a => [a] | _ => [] end) o in
  mkActs (flat_map (fun a => match a with ASendExt e m => [(ext_code e, m)] | _ => [] end) acts)
         (flat_map (fun a => match a with AUpdateRequest m => [m] | _ => [] end) acts)
         (existsb (fun a => match a with ATerminate => true | _ => false end) acts)
         (existsb (fun a => match a with APauseResponse => true | _ => false end) acts)
         (existsb (fun a => match a with APauseRequest => true | _ => false end) acts)
         (existsb (fun a => match a with AValidate => true | _ => false end) acts)
         (match flat_map (fun a => match a with AUseStore k => [k] | _ => [] end) acts with k :: _ => Some k | [] => None end).

Definition acts_eqb (a b : acts_obs) : bool :=
  list_eqb (fun x y => N.eqb (fst x) (fst y) && msg_eqb (snd x) (snd y)) (ao_sent a) (ao_sent b) &&
  list_eqb msg_eqb (ao_updates a) (ao_updates b) &&
  Bool.eqb (ao_terminated a) (ao_terminated b) && Bool.eqb (ao_pause_response a) (ao_pause_response b) &&
  Bool.eqb (ao_pause_request a) (ao_pause_request b) && Bool.eqb (ao_validated a) (ao_validated b) &&
  option_eqb triple_eqb (ao_store a) (ao_store b).

Record tobs := mkTObs {
  tb_calls : list hcall;
  tb_gs : list (gscmd * bool);
  tb_acts : acts_obs;
  tb_ret : option bool
}.

(* insertion sort of handler calls by channel id (receive-error fan-out follows Go map order) *)
Definition chid_leb (a b : chid) : bool :=
  let '(a1, a2, a3) := a in let '(b1, b2, b3) := b in
  N.ltb a1 b1 || (N.eqb a1 b1 && (N.ltb a2 b2 || (N.eqb a2 b2 && N.leb a3 b3))).
Fixpoint insert_call (h : hcall) (l : list hcall) : list hcall :=
  match l with
  | [] => [h]
  | x :: r => if chid_leb (hcall_chid h) (hcall_chid x) then h :: l else x :: insert_call h r
  end.
Definition sort_calls (l : list hcall) : list hcall := fold_right insert_call [] l.

Definition obs_of_outs (i : tin) (o : list tout) : tobs :=
  let calls := flat_map (fun x => match x with OH h => [h] | _ => [] end) o in
  mkTObs (match i with GNetRecvError _ => sort_calls calls | _ => calls end)
         (flat_map (fun x => match x with OGs c b => [(c, b)] | _ => [] end) o)
         (acts_of_outs o)
         (match flat_map (fun x => match x with ORet b => [b] | _ => [] end) o with b :: _ => Some b | [] => None end).

Definition tobs_eqb (a b : tobs) : bool :=
  list_eqb hcall_eqb (tb_calls a) (tb_calls b) &&
  list_eqb (fun x y => gscmd_eqb (fst x) (fst y) && Bool.eqb (snd x) (snd y)) (tb_gs a) (tb_gs b) &&
  acts_eqb (tb_acts a) (tb_acts b) && option_eqb Bool.eqb (tb_ret a) (tb_ret b).

(* final bookkeeping snapshot *)
Record tchan_obs := mkTCO { co_k : chid; co_open : bool; co_req : option N; co_rcancel : bool; co_xfer : bool; co_pending : N; co_store : bool }.

Record tcase := mkTCase {
  tk_id : N;
  tk_self : N;
  tk_steps : list (tin * list hans * tobs);
  tk_chans : list tchan_obs;            (* sorted by channel id *)
  tk_reqmap : list (N * chid)           (* sorted by request token *)
}.

Fixpoint trun (s : tstate) (l : list (tin * list hans * tobs)) (i : N) : N * tstate :=
  match l with
  | [] => (0%N, s)
  | (inp, orc, ob) :: r =>
      let '(s', o) := tstep s inp orc in
      if tobs_eqb (obs_of_outs inp o) ob then trun s' r (i + 1)%N else (i, s')
  end.

Definition tco_eqb (a b : tchan_obs) : bool :=
  triple_eqb (co_k a) (co_k b) && Bool.eqb (co_open a) (co_open b) && option_eqb N.eqb (co_req a) (co_req b) &&
  Bool.eqb (co_rcancel a) (co_rcancel b) && Bool.eqb (co_xfer a) (co_xfer b) && N.eqb (co_pending a) (co_pending b) &&
  Bool.eqb (co_store a) (co_store b).

Fixpoint insert_tco (x : tchan_obs) (l : list tchan_obs) : list tchan_obs :=
  match l with [] => [x] | y :: r => if chid_leb (co_k x) (co_k y) then x :: l else y :: insert_tco x r end.
Fixpoint insert_req (x : N * chid) (l : list (N * chid)) : list (N * chid) :=
  match l with [] => [x] | y :: r => if N.leb (fst x) (fst y) then x :: l else y :: insert_req x r end.

Definition chans_of (s : tstate) : list tchan_obs :=
  fold_right insert_tco []
    (map (fun p => mkTCO (fst p) (tc_open (snd p)) (tc_req (snd p)) (tc_rcancel (snd p)) (tc_xfer (snd p))
                         (N.of_nat (List.length (tc_pending (snd p)))) (tc_store (snd p))) (ts_chans s)).
Definition reqmap_of (s : tstate) : list (N * chid) :=
  fold_right insert_req [] (map (fun p => (fst p, snd (snd p))) (ts_reqmap s)).

Definition tcheck (k : tcase) : N :=
  let '(bad, s) := trun (init_tstate (tk_self k)) (tk_steps k) 1%N in
  if negb (N.eqb bad 0) then bad
  else if list_eqb tco_eqb (chans_of s) (tk_chans k) &&
          list_eqb (fun x y => N.eqb (fst x) (fst y) && triple_eqb (snd x) (snd y)) (reqmap_of s) (tk_reqmap k)
       then 0%N else 999%N.

Definition mismatches (l : list tcase) : list N :=
  flat_map (fun k => if N.eqb (tcheck k) 0 then [] else [tk_id k]) l.
Definition mismatch_steps (l : list tcase) : list (N * N) :=
  flat_map (fun k => if N.eqb (tcheck k) 0 then [] else [(tk_id k, tcheck k)]) l.
