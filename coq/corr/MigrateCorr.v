(* Correspondence check H9: the real channels.Channels / manager started on datastores holding
   version-2 records (encoded by the repository's own ChannelStateV2 codec) against Migrate.start,
   then driven with an event and restarted. *)
From Coq Require Import List NArith ZArith String Bool.
From DT Require Import GenStatus GenEvent FsmTypes GenFsm Fsm Machine View GenMigrate Migrate.
Import ListNotations.

Record migcase := mkMigCase {
  mg_id : N;
  mg_version : N;                         (* 0 absent, 2, 3 *)
  mg_v2 : list (N * chan2);
  mg_v3 : list (N * chan);
  mg_ready : bool;                        (* observed: readiness announced without error *)
  mg_after : list (N * chan);             (* observed /3 records after Start, sorted by key *)
  mg_left_v2 : list N;                    (* observed keys left under /2 *)
  mg_version_after : N;
  mg_refused_before : bool;               (* operations before Start were refused *)
  mg_refused_after : bool;                (* operations after Start were refused *)
  mg_listener_calls : list N;             (* calls per listener registered before Start *)
  mg_events : list (N * ev * bool);       (* key, event sent after migration, accepted *)
  mg_final : list (N * chan);             (* observed /3 records after the events and one more restart *)
  mg_second_ready : bool
}.

Definition ver_of (n : N) : ver := if N.eqb n 2 then V2 else if N.eqb n 3 then V3 else VNone.
Definition ver_code (v : ver) : N := match v with VNone => 0 | V2 => 2 | V3 => 3 end.

Fixpoint insert_rec (x : N * chan) (l : list (N * chan)) : list (N * chan) :=
  match l with [] => [x] | y :: r => if N.leb (fst x) (fst y) then x :: l else y :: insert_rec x r end.
Definition sort_recs (l : list (N * chan)) : list (N * chan) := fold_right insert_rec [] l.

Fixpoint recs_eqb (a b : list (N * chan)) : bool :=
  match a, b with
  | [], [] => true
  | x :: r, y :: t => N.eqb (fst x) (fst y) && chan_eqb (snd x) (snd y) && recs_eqb r t
  | _, _ => false
  end.
Fixpoint nl_eqb (a b : list N) : bool :=
  match a, b with [], [] => true | x :: r, y :: t => N.eqb x y && nl_eqb r t | _, _ => false end.

(* apply one event to the record of key k (go-statemachine semantics through Machine.deliver) *)
Fixpoint send_to (k : N) (e : ev) (l : list (N * chan)) : list (N * chan) * bool :=
  match l with
  | [] => ([], false)
  | (j, c) :: r =>
      if N.eqb j k then
        if known_event (fst e) && negb (is_final (c_status c)) then ((j, m_chan (fst (deliver (m_init c) e))) :: r, true)
        else ((j, c) :: r, known_event (fst e) && negb (is_final (c_status c)))
      else let '(r', ok) := send_to k e r in ((j, c) :: r', ok)
  end.

Definition migcheck (k : migcase) : bool :=
  let s0 := mkStore (ver_of (mg_version k)) (mg_v2 k) (mg_v3 k) in
  let m1 := mod_start (Nat.iter 2 mod_on_ready (mod_new s0)) in
  let ready := match md_ready m1 with Some Ready => true | _ => false end in
  let s1 := md_store m1 in
  let refused_before := match snd (mod_op (mod_new s0) (fun s => (s, tt))) with None => true | Some _ => false end in
  let refused_after := match snd (mod_op m1 (fun s => (s, tt))) with None => true | Some _ => false end in
  (* events, then a restart *)
  let '(recs2, oks) := fold_left (fun (acc : list (N * chan) * list bool) (x : N * ev * bool) =>
                                      let '(l, oks) := acc in
                                      let '(l', ok) := send_to (fst (fst x)) (snd (fst x)) l in (l', oks ++ [ok]))
                                 (mg_events k) (st_v3 s1, []) in
  let m2 := mod_start (restart (mkMod (mkStore (st_version s1) (st_v2 s1) recs2) None 0 [])) in
  Bool.eqb ready (mg_ready k) &&
  recs_eqb (sort_recs (st_v3 s1)) (mg_after k) &&
  nl_eqb (map fst (st_v2 s1)) (mg_left_v2 k) &&
  N.eqb (ver_code (st_version s1)) (mg_version_after k) &&
  Bool.eqb refused_before (mg_refused_before k) && Bool.eqb refused_after (mg_refused_after k) &&
  nl_eqb (map (fun i => N.of_nat (List.length (filter (fun c => Nat.eqb (fst c) i) (md_calls m1)))) (seq 0 2)) (mg_listener_calls k) &&
  (if ready then
     nl_eqb (map (fun b : bool => if b then 1%N else 0%N) oks) (map (fun x : N * ev * bool => if snd x then 1%N else 0%N) (mg_events k)) &&
     recs_eqb (sort_recs (st_v3 (md_store m2))) (mg_final k) &&
     Bool.eqb (match md_ready m2 with Some Ready => true | _ => false end) (mg_second_ready k)
   else true).

Definition mismatches (l : list migcase) : list N :=
  flat_map (fun k => if migcheck k then [] else [mg_id k]) l.
