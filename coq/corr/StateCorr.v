(* Correspondence check H15: records of every shape are written by the real cbor-gen MarshalCBOR
   and the bytes compared, byte for byte, with StateCodec.st_encode (including the records it
   refuses); those bytes, and variants with shuffled / dropped / duplicated / unknown / ill-typed
   fields, are read by the real UnmarshalCBOR and by st_decode, and what each makes of them is
   compared through a second encoding. *)
From Coq Require Import List NArith ZArith String Ascii Bool.
From DT Require Import Cbor StateCodec WireCorr.
Import ListNotations.

(* n copies of the byte c (long boundary strings) *)
Definition rep (n c : N) : string := N.iter n (String (ascii_of_N c)) EmptyString.

(* what a reader makes of some bytes: rejected, a record the encoder refuses, or a record (as its bytes) *)
Inductive outcome : Type := ORejected | OUnencodable | OBytes (b : string).

Definition outcome_eqb (a b : outcome) : bool :=
  match a, b with
  | ORejected, ORejected | OUnencodable, OUnencodable => true
  | OBytes x, OBytes y => String.eqb x y
  | _, _ => false
  end.

Definition read (b : string) : outcome :=
  match st_decode b with
  | None => ORejected
  | Some s => match st_encode s with Some b' => OBytes b' | None => OUnencodable end
  end.

Record statecase := mkSCase {
  sk_id : N;
  sk_state : cstate;
  sk_bytes : option string;                    (* MarshalCBOR: the bytes, or None when it refused *)
  sk_inputs : list (string * outcome)          (* bytes handed to UnmarshalCBOR, and what came of them *)
}.

Definition ostring_eqb (a b : option string) : bool :=
  match a, b with Some x, Some y => String.eqb x y | None, None => true | _, _ => false end.

Definition statecheck (k : statecase) : bool :=
  ostring_eqb (st_encode (sk_state k)) (sk_bytes k) &&
  forallb (fun p => outcome_eqb (read (fst p)) (snd p)) (sk_inputs k).

Definition mismatches (l : list statecase) : list N :=
  flat_map (fun k => if statecheck k then [] else [sk_id k]) l.
