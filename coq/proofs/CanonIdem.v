(* canonical form is a fixed point: what was read back is stored unchanged the next time *)
From Coq Require Import List NArith ZArith String Ascii Bool Arith Lia.
From DT Require Import Cbor CborProofs.
Import ListNotations.

Lemma str_ltb_asym : forall a b, str_ltb a b = true -> str_ltb b a = false.
Proof.
  induction a as [|x r IH]; intros [|y t] H; cbn in *; try discriminate; try reflexivity.
  destruct (N.ltb_spec (N_of_byte x) (N_of_byte y)) as [L|L].
  - destruct (N.ltb_spec (N_of_byte y) (N_of_byte x)) as [L'|L']; [lia|]. reflexivity.
  - destruct (N.ltb_spec (N_of_byte y) (N_of_byte x)) as [L'|L']; [discriminate|].
    apply IH. exact H.
Qed.

Lemma key_leb_total a b : key_leb a b = false -> key_leb b a = true.
Proof.
  unfold key_leb. intros H. apply orb_false_iff in H. destruct H as [H1 H2].
  apply Nat.ltb_ge in H1.
  destruct (Nat.eqb_spec (String.length a) (String.length b)) as [E|E].
  - cbn [andb] in H2. apply negb_false_iff in H2. apply str_ltb_asym in H2.
    rewrite E, Nat.ltb_irrefl, Nat.eqb_refl, H2. reflexivity.
  - assert (L : (String.length b < String.length a)%nat) by lia.
    apply Nat.ltb_lt in L. rewrite L. reflexivity.
Qed.

Section Sorted.
  Context {A : Type}.
  Fixpoint lsorted (l : list (string * A)) : Prop :=
    match l with
    | [] => True
    | x :: r => match r with [] => True | y :: _ => key_leb (fst x) (fst y) = true end /\ lsorted r
    end.

  Lemma insert_sorted e (l : list (string * A)) : lsorted l -> lsorted (insert_entry e l).
  Proof.
    induction l as [|x r IH]; intros H; cbn [insert_entry].
    - cbn. auto.
    - destruct (key_leb (fst e) (fst x)) eqn:K.
      + cbn [lsorted]. split; [exact K|exact H].
      + destruct H as [Hx Hr]. specialize (IH Hr). cbn [lsorted]. split; [|exact IH].
        destruct r as [|y t]; cbn [insert_entry].
        * apply key_leb_total. exact K.
        * destruct (key_leb (fst e) (fst y)); [apply key_leb_total; exact K|exact Hx].
  Qed.

  Lemma sort_sorted (l : list (string * A)) : lsorted (sort_entries l).
  Proof. induction l as [|x r IH]; cbn [sort_entries fold_right]; [exact I|]. apply insert_sorted. exact IH. Qed.

  Lemma sort_of_sorted (l : list (string * A)) : lsorted l -> sort_entries l = l.
  Proof.
    induction l as [|x r IH]; intros H; [reflexivity|].
    destruct H as [Hx Hr]. change (sort_entries (x :: r)) with (insert_entry x (sort_entries r)).
    rewrite (IH Hr). destruct r as [|y t]; [reflexivity|]. cbn [insert_entry]. rewrite Hx. reflexivity.
  Qed.

  Lemma sort_idem (l : list (string * A)) : sort_entries (sort_entries l) = sort_entries l.
  Proof. apply sort_of_sorted. apply sort_sorted. Qed.
End Sorted.

(* changing the values does not change where an entry is inserted *)
Lemma insert_map {A B} (f : A -> B) e (l : list (string * A)) :
  map (fun p => (fst p, f (snd p))) (insert_entry e l) =
  insert_entry (fst e, f (snd e)) (map (fun p => (fst p, f (snd p))) l).
Proof.
  induction l as [|x r IH]; cbn [insert_entry map]; [reflexivity|].
  cbn [fst]. destruct (key_leb (fst e) (fst x)); cbn [map]; [reflexivity|]. rewrite IH. reflexivity.
Qed.

Lemma sort_map {A B} (f : A -> B) (l : list (string * A)) :
  map (fun p => (fst p, f (snd p))) (sort_entries l) = sort_entries (map (fun p => (fst p, f (snd p))) l).
Proof.
  induction l as [|x r IH]; [reflexivity|].
  change (sort_entries (x :: r)) with (insert_entry x (sort_entries r)).
  rewrite insert_map, IH. reflexivity.
Qed.

Lemma canon_idem_depth : forall d n, (depth n <= d)%nat -> canon (canon n) = canon n.
Proof.
  induction d as [|d IH]; intros n Hd.
  - destruct n; cbn in Hd; lia.
  - destruct n as [| | | | | |l|l|]; try reflexivity.
    + cbn [canon]. f_equal. rewrite map_map. apply map_ext_in. intros x Hx. apply IH.
      pose proof (in_depth_list x l Hx). cbn [depth] in Hd. unfold depth_list in H. lia.
    + cbn [canon]. f_equal.
      rewrite (sort_map canon). rewrite sort_idem. f_equal.
      rewrite map_map. apply map_ext_in. intros p Hp. cbn [fst snd]. f_equal. apply IH.
      pose proof (in_depth_ents p l Hp). cbn [depth] in Hd. unfold depth_ents in H. lia.
Qed.

Theorem canon_idem n : canon (canon n) = canon n.
Proof. apply (canon_idem_depth (depth n)). apply le_n. Qed.

Theorem canonical_form_is_fixed_point : forall n, wf n -> decode (encode (canon n)) = Some (canon n).
Proof.
  intros n Hw. rewrite decode_encode by (apply (wf_canon (depth n) n (le_n _) Hw)).
  rewrite canon_idem. reflexivity.
Qed.
