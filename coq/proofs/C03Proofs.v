(* C03: no success without both parties.  All statements are about the table
   regenerated from channels_fsm.go; finite facts are decided by vm_compute over
   the complete (event x status) domain and lifted with forallb_forall. *)
From Coq Require Import List NArith ZArith String Bool Lia.
From RecordUpdate Require Import RecordSet.
From DT Require Import GenStatus GenEvent FsmTypes GenFsm Fsm FsmFacts.
Import ListNotations RecordSetNotations.

(* ---------- classification of events ---------- *)

(* bookkeeping: data, pause, voucher, limit, network-error notices *)
Definition bookkeeping : list EventCode :=
  [ DataReceived; DataSent; DataQueued; DataReceivedProgress; DataSentProgress; DataQueuedProgress;
    PauseInitiator; ResumeInitiator; PauseResponder; ResumeResponder; DataLimitExceeded;
    NewVoucher; NewVoucherResult; SetDataLimit; SetRequiresFinalization;
    Disconnected; SendDataError; ReceiveDataError; RequestCancelled;
    Opened; Restart; CompleteCleanupOnRestart;
    RequestTimedOut; TransferRequestQueued; SendMessageError ].

(* lifecycle events *)
Definition lifecycle : list EventCode :=
  [ Open; Accept; TransferInitiated; Cancel; Error; CleanupComplete;
    FinishTransfer; ResponderCompletes; ResponderBeginsFinalization; BeginFinalizing; Complete ].

Definition in_events (e : EventCode) (l : list EventCode) : bool := existsb (event_eqb e) l.

Lemma in_events_In e l : in_events e l = true <-> In e l.
Proof.
  unfold in_events; rewrite existsb_exists; split.
  - intros [x [Hx He]]. apply event_eqb_eq in He. subst; exact Hx.
  - intros H; exists e; split; [exact H| apply event_eqb_eq; reflexivity].
Qed.

(* every event code is classified exactly once *)
Definition classification_ok : bool :=
  forallb (fun e => xorb (in_events e bookkeeping) (in_events e lifecycle)) all_event.

Lemma classification_total : forall e, xorb (in_events e bookkeeping) (in_events e lifecycle) = true.
Proof. apply forall_event. vm_compute. reflexivity. Qed.

(* ---------- bookkeeping never changes the lifecycle status ---------- *)
(* the single lifecycle use of a bookkeeping event: ResumeResponder releases Finalizing *)
Definition bk_exception (e : EventCode) (s : Status) : bool :=
  event_eqb e ResumeResponder && status_eqb s Finalizing.

Definition bk_check (e : EventCode) (s : Status) : bool :=
  negb (in_events e bookkeeping) || bk_exception e s || status_eqb (next_status e s) s.

Lemma bk_check_all : forall e s, bk_check e s = true.
Proof. apply forall_event_status. vm_compute. reflexivity. Qed.

Lemma bookkeeping_preserves_status :
  forall c e, In (fst e) bookkeeping ->
    ~ (fst e = ResumeResponder /\ c_status c = Finalizing) ->
    c_status (apply_chan c e) = c_status c.
Proof.
  intros c e Hin Hex. rewrite apply_chan_status.
  pose proof (bk_check_all (fst e) (c_status c)) as H. unfold bk_check in H.
  apply in_events_In in Hin. rewrite Hin in H. cbn in H.
  apply orb_true_iff in H. destruct H as [H|H].
  - exfalso; apply Hex. unfold bk_exception in H. apply andb_true_iff in H.
    destruct H as [H1 H2]. apply event_eqb_eq in H1. apply status_eqb_eq in H2. tauto.
  - apply status_eqb_eq in H. exact H.
Qed.

Lemma resume_releases_finalizing : next_status ResumeResponder Finalizing = Completing.
Proof. vm_compute. reflexivity. Qed.

(* ---------- lifecycle events never change counters, pause flags or vouchers ---------- *)
Definition data_act (a : Act) : bool :=
  match a with
  | ASetStr _ _ => false         (* the message is not a counter, flag or voucher *)
  | ALog _ => false              (* stage log only *)
  | _ => true
  end.

Definition lc_check (e : EventCode) : bool :=
  negb (in_events e lifecycle) || negb (existsb data_act (acts_of e)).

Lemma lc_check_all : forall e, lc_check e = true.
Proof. apply forall_event. vm_compute. reflexivity. Qed.

(* the projection of a record onto counters, pause flags and voucher logs *)
Definition data_of (c : chan) :=
  (c_queued c, c_sent c, c_received c, c_qblocks c, c_sblocks c, c_rblocks c,
   c_limit c, c_reqfin c, c_ipaused c, c_rpaused c, c_vouchers c, c_results c, c_totalsize c).

Lemma add_log_data m c : data_of (add_log m c) = data_of c.
Proof. unfold add_log; destruct (c_stages c); reflexivity. Qed.

Lemma run_act_nodata a c act : data_act act = false -> data_of (run_act a c act) = data_of c.
Proof.
  destruct act as [f s|f b|f|f|f|f|l]; cbn; intros H; try discriminate H.
  - destruct f, s; reflexivity.
  - destruct l; apply add_log_data.
Qed.

Lemma run_acts_nodata a l : existsb data_act l = false -> forall c, data_of (run_acts a c l) = data_of c.
Proof.
  unfold run_acts; induction l as [|x l IH]; cbn; intros H c; [reflexivity|].
  apply orb_false_iff in H. destruct H as [Hx Hl].
  rewrite (IH Hl). apply run_act_nodata; exact Hx.
Qed.

Lemma lifecycle_preserves_data :
  forall c e, In (fst e) lifecycle -> data_of (apply_chan c e) = data_of c.
Proof.
  intros c e Hin. pose proof (lc_check_all (fst e)) as H. unfold lc_check in H.
  apply in_events_In in Hin. rewrite Hin in H. cbn in H. apply negb_true_iff in H.
  unfold apply_chan, apply.
  destruct (dest_of (fst e) (c_status c)) as [[s'| |]|]; cbn; try reflexivity;
    try (apply run_acts_nodata; exact H).
Qed.

(* ---------- initiator: Completing needs both signals ---------- *)

(* the normal flow of an accepted initiator: everything except (re)opening, endings by
   cancel/error, the cleanup trigger and the responder-side completion events *)
Definition normal_flow (e : EventCode) : bool :=
  negb (in_events e [Open; Cancel; Error; CleanupComplete; Complete; BeginFinalizing]).

(* what must have been observed to be in a status: (transport finished, responder's
   un-paused Complete, responder's paused Complete) *)
Definition needs (s : Status) : option (bool * bool * bool) :=
  match s with
  | Queued | Ongoing => Some (false, false, false)
  | TransferFinished => Some (true, false, false)
  | ResponderCompleted => Some (false, true, false)
  | ResponderFinalizing => Some (false, false, true)
  | ResponderFinalizingTransferFinished => Some (true, false, true)
  | Completing => Some (true, true, false)
  | _ => None                         (* not reachable in the normal flow *)
  end.

Definition leb3 (a b : bool * bool * bool) : bool :=
  let '(a1, a2, a3) := a in let '(b1, b2, b3) := b in
  implb a1 b1 && implb a2 b2 && implb a3 b3.
Definition or3 (a b : bool * bool * bool) : bool * bool * bool :=
  let '(a1, a2, a3) := a in let '(b1, b2, b3) := b in (a1 || b1, a2 || b2, a3 || b3).
Definition signal (e : EventCode) : bool * bool * bool :=
  (event_eqb e FinishTransfer, event_eqb e ResponderCompletes, event_eqb e ResponderBeginsFinalization).

(* one step: from a reachable status the destination is reachable and needs no more
   than what the source needed plus the signal carried by this very event *)
Definition needs_step (e : EventCode) (s : Status) : bool :=
  negb (normal_flow e) ||
  match needs s with
  | None => true
  | Some n =>
      match needs (next_status e s) with
      | None => false
      | Some n' => leb3 n' (or3 n (signal e))
      end
  end.

Lemma needs_step_all : forall e s, needs_step e s = true.
Proof. apply forall_event_status. vm_compute. reflexivity. Qed.

Definition seen (es : list EventCode) : bool * bool * bool :=
  (in_events FinishTransfer es, in_events ResponderCompletes es,
   in_events ResponderBeginsFinalization es).

Lemma in_events_app e l1 l2 : in_events e (l1 ++ l2) = in_events e l1 || in_events e l2.
Proof. unfold in_events; apply existsb_app. Qed.

Lemma event_eqb_sym a b : event_eqb a b = event_eqb b a.
Proof. unfold event_eqb; apply N.eqb_sym. Qed.

Lemma in_events_snoc x es e : in_events x (es ++ [e]) = in_events x es || event_eqb e x.
Proof.
  rewrite in_events_app. f_equal. unfold in_events. cbn [existsb]. rewrite orb_false_r.
  apply event_eqb_sym.
Qed.

Lemma seen_snoc es e : seen (es ++ [e]) = or3 (seen es) (signal e).
Proof. unfold seen, signal, or3. rewrite !in_events_snoc. reflexivity. Qed.

Lemma leb3_trans a b c : leb3 a b = true -> leb3 b c = true -> leb3 a c = true.
Proof.
  destruct a as [[a1 a2] a3], b as [[b1 b2] b3], c as [[c1 c2] c3]; cbn.
  destruct a1, a2, a3, b1, b2, b3, c1, c2, c3; cbn; intros; try reflexivity; discriminate.
Qed.

Lemma leb3_or3_mono a b x : leb3 a b = true -> leb3 (or3 a x) (or3 b x) = true.
Proof.
  destruct a as [[a1 a2] a3], b as [[b1 b2] b3], x as [[x1 x2] x3]; cbn.
  destruct a1, a2, a3, b1, b2, b3, x1, x2, x3; cbn; intros; try reflexivity; discriminate.
Qed.

(* invariant over every normal-flow history, by induction from the right *)
Lemma needs_invariant s0 n0 : needs s0 = Some n0 ->
  forall es, forallb normal_flow es = true ->
  exists n, needs (run_status s0 es) = Some n /\ leb3 n (or3 n0 (seen es)) = true.
Proof.
  intros H0 es. induction es as [|e es IH] using rev_ind; intros Hnf.
  - exists n0. split; [exact H0|]. destruct n0 as [[a b] c]; cbn. destruct a, b, c; reflexivity.
  - rewrite forallb_app in Hnf. apply andb_true_iff in Hnf. destruct Hnf as [Hes He].
    cbn in He. rewrite andb_true_r in He.
    destruct (IH Hes) as [n [Hn Hle]].
    unfold run_status in *. rewrite fold_left_app. cbn.
    pose proof (needs_step_all e (fold_left (fun s e0 => next_status e0 s) es s0)) as Hs.
    unfold needs_step in Hs. rewrite He in Hs. cbn in Hs. rewrite Hn in Hs.
    destruct (needs (next_status e (fold_left (fun s e0 => next_status e0 s) es s0))) as [n'|];
      [|discriminate Hs].
    exists n'. split; [reflexivity|].
    rewrite seen_snoc.
    eapply leb3_trans; [exact Hs|].
    assert (or3 n0 (or3 (seen es) (signal e)) = or3 (or3 n0 (seen es)) (signal e)) as ->.
    { destruct n0 as [[a b] c], (seen es) as [[d f] g], (signal e) as [[h i] j]; cbn.
      rewrite !orb_assoc. reflexivity. }
    apply leb3_or3_mono. exact Hle.
Qed.

(* C03, "only if": an accepted initiator channel that is Completing after a normal-flow
   history has seen BOTH its own FinishTransfer AND the responder's un-paused Complete *)
Theorem completing_needs_both :
  forall c es,
    (c_status c = Queued \/ c_status c = Ongoing) ->
    forallb normal_flow (map fst es) = true ->
    c_status (fold_left apply_chan es c) = Completing ->
    In FinishTransfer (map fst es) /\ In ResponderCompletes (map fst es).
Proof.
  intros c es Hs Hnf Hc. rewrite fold_apply_status in Hc.
  assert (needs (c_status c) = Some (false, false, false)) as H0
      by (destruct Hs as [-> | ->]; reflexivity).
  destruct (needs_invariant _ _ H0 _ Hnf) as [n [Hn Hle]].
  rewrite Hc in Hn. cbn in Hn. inversion Hn; subst n. cbn in Hle.
  apply andb_true_iff in Hle. destruct Hle as [Hle _].
  apply andb_true_iff in Hle. destruct Hle as [H1 H2].
  split; apply in_events_In; assumption.
Qed.

(* corollaries: either signal alone, or only a paused Complete, never completes *)
Corollary either_alone_never_completes :
  forall c es,
    (c_status c = Queued \/ c_status c = Ongoing) ->
    forallb normal_flow (map fst es) = true ->
    (~ In FinishTransfer (map fst es) \/ ~ In ResponderCompletes (map fst es)) ->
    c_status (fold_left apply_chan es c) <> Completing.
Proof.
  intros c es Hs Hnf Hno Hc. destruct (completing_needs_both c es Hs Hnf Hc) as [A B].
  destruct Hno as [N|N]; apply N; assumption.
Qed.

(* ---------- "if": both signals, in either order, complete it ---------- *)
Definition pure_bk (e : EventCode) : bool :=
  in_events e bookkeeping && negb (event_eqb e ResumeResponder).

Definition pure_bk_check (e : EventCode) (s : Status) : bool :=
  negb (pure_bk e) || status_eqb (next_status e s) s.
Lemma pure_bk_check_all : forall e s, pure_bk_check e s = true.
Proof. apply forall_event_status. vm_compute. reflexivity. Qed.

Lemma run_status_pure_bk es : forallb pure_bk es = true -> forall s, run_status s es = s.
Proof.
  induction es as [|e es IH]; cbn; intros H s; [reflexivity|].
  apply andb_true_iff in H. destruct H as [He Hes].
  pose proof (pure_bk_check_all e s) as Hc. unfold pure_bk_check in Hc. rewrite He in Hc.
  cbn in Hc. apply status_eqb_eq in Hc. unfold run_status in *. cbn. rewrite Hc. apply IH; exact Hes.
Qed.

Lemma run_status_app s a b : run_status s (a ++ b) = run_status (run_status s a) b.
Proof. unfold run_status; apply fold_left_app. Qed.

Theorem both_in_either_order_completes :
  forall s b1 b2 b3,
    (s = Queued \/ s = Ongoing) ->
    forallb pure_bk b1 = true -> forallb pure_bk b2 = true -> forallb pure_bk b3 = true ->
    run_status s (b1 ++ [FinishTransfer] ++ b2 ++ [ResponderCompletes] ++ b3) = Completing /\
    run_status s (b1 ++ [ResponderCompletes] ++ b2 ++ [FinishTransfer] ++ b3) = Completing.
Proof.
  intros s b1 b2 b3 Hs H1 H2 H3.
  rewrite !run_status_app, !(run_status_pure_bk b1 H1).
  split.
  - replace (run_status s [FinishTransfer]) with TransferFinished
      by (destruct Hs as [-> | ->]; vm_compute; reflexivity).
    rewrite (run_status_pure_bk b2 H2).
    replace (run_status TransferFinished [ResponderCompletes]) with Completing by (vm_compute; reflexivity).
    apply run_status_pure_bk; exact H3.
  - replace (run_status s [ResponderCompletes]) with ResponderCompleted
      by (destruct Hs as [-> | ->]; vm_compute; reflexivity).
    rewrite (run_status_pure_bk b2 H2).
    replace (run_status ResponderCompleted [FinishTransfer]) with Completing by (vm_compute; reflexivity).
    apply run_status_pure_bk; exact H3.
Qed.

(* a paused Complete followed by the final Complete also completes, in either order
   with the local finish *)
Theorem finalizing_then_final_complete_completes :
  run_status Ongoing [FinishTransfer; ResponderBeginsFinalization; ResponderCompletes] = Completing /\
  run_status Ongoing [ResponderBeginsFinalization; FinishTransfer; ResponderCompletes] = Completing.
Proof. split; vm_compute; reflexivity. Qed.

(* the local-only completion: never accepted, own transport finished *)
Theorem awaiting_acceptance_local :
  next_status FinishTransfer AwaitingAcceptance = Completing /\
  next_status TransferInitiated Requested = AwaitingAcceptance.
Proof. split; vm_compute; reflexivity. Qed.

(* ---------- responder: Finalizing holds, counts as paused, released only by resume ---------- *)
Theorem finalizing_holds_until_released :
  forall c e, c_status c = Finalizing ->
    In (fst e) bookkeeping ->
    (fst e <> ResumeResponder -> c_status (apply_chan c e) = Finalizing) /\
    (fst e = ResumeResponder -> c_status (apply_chan c e) = Completing) /\
    responder_paused_view c = true.
Proof.
  intros c e Hs Hin. repeat split.
  - intros Hne. rewrite (bookkeeping_preserves_status c e Hin); [exact Hs|]. tauto.
  - intros He. rewrite apply_chan_status, He, Hs. apply resume_releases_finalizing.
  - unfold responder_paused_view. rewrite Hs. cbn. apply orb_true_r.
Qed.

Theorem begin_finalizing_enters_finalizing : forall s,
  is_final s = false -> next_status BeginFinalizing s = Finalizing /\ next_status Complete s = Completing.
Proof. intros s _; split; destruct s; vm_compute; reflexivity. Qed.

(* non-vacuity: concrete histories that satisfy the hypotheses *)
Example normal_flow_history_exists :
  forallb normal_flow [DataReceived; FinishTransfer; PauseResponder; ResponderCompletes] = true /\
  run_status Ongoing [DataReceived; FinishTransfer; PauseResponder; ResponderCompletes] = Completing /\
  run_status Ongoing [DataReceived; FinishTransfer; ResponderBeginsFinalization] = ResponderFinalizingTransferFinished.
Proof. repeat split; vm_compute; reflexivity. Qed.
