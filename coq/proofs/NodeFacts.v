(* Generic lifting: a per-record relation that every FSM event respects is respected by every
   instruction, every handler program, every step and every history of the node model. *)
From Coq Require Import List NArith ZArith String Bool Lia.
From RecordUpdate Require Import RecordSet.
From DT Require Import GenStatus GenEvent GenMsgType FsmTypes GenFsm Fsm Machine View Caches Msg Node FsmFacts.
Import ListNotations RecordSetNotations.

Local Arguments is_final : simpl never.
Local Arguments apply : simpl never.
Local Arguments run_entry : simpl never.
Local Arguments entry_prog : simpl never.

(* ---------- the generic induction principle for handler programs ---------- *)
Section ProgPreserves.
  Variable P : nstate -> Prop.
  Hypothesis instr_preserves : forall X (i : instr X) s, P s -> P (snd (run_instr s i)).

  Theorem prog_preserves : forall A (p : prog A) s, P s -> P (snd (run p s)).
  Proof.
    intros A p. induction p as [a|X i k IH]; intros s Hs; cbn [run].
    - exact Hs.
    - destruct (run_instr s i) as [x s'] eqn:E.
      apply IH. pose proof (instr_preserves X i s Hs) as H. rewrite E in H. exact H.
  Qed.

  Theorem keyed_preserves : forall A k (p : prog A) s, P s -> P (snd (run_keyed k p s)).
  Proof.
    intros A k p. induction p as [a|X i cont IH]; intros s Hs; cbn [run_keyed].
    - exact Hs.
    - destruct (key_ok k i); [|exact Hs].
      destruct (run_instr s i) as [x s'] eqn:E.
      apply IH. pose proof (instr_preserves X i s Hs) as H. rewrite E in H. exact H.
  Qed.
End ProgPreserves.

(* ---------- association list facts ---------- *)
Lemma triple_eqb_eq a b : triple_eqb a b = true <-> a = b.
Proof.
  destruct a as [[a1 a2] a3], b as [[b1 b2] b3]. unfold triple_eqb.
  rewrite !andb_true_iff, !N.eqb_eq. split; [intros [[-> ->] ->]; reflexivity|intros H; inversion H; auto].
Qed.

Lemma lookup_update_same k c l cs : lookup k l = Some cs -> lookup k (update k c l) = Some c.
Proof.
  induction l as [|[k' c'] r IH]; cbn; [discriminate|].
  unfold chid_eqb. destruct (triple_eqb k' k) eqn:E; cbn; unfold chid_eqb; rewrite E; auto.
Qed.

Lemma lookup_update_other k k' c l : k' <> k -> lookup k' (update k c l) = lookup k' l.
Proof.
  intros Hne. induction l as [|[k0 c0] r IH]; cbn; [reflexivity|].
  unfold chid_eqb. destruct (triple_eqb k0 k) eqn:E; cbn; unfold chid_eqb.
  - apply triple_eqb_eq in E. subst k0.
    destruct (triple_eqb k k') eqn:E'; [apply triple_eqb_eq in E'; congruence|reflexivity].
  - destruct (triple_eqb k0 k'); [reflexivity|exact IH].
Qed.

Lemma lookup_update_none k k' c l : lookup k' l = None -> lookup k' (update k c l) = None.
Proof.
  induction l as [|[k0 c0] r IH]; cbn; [reflexivity|].
  unfold chid_eqb. destruct (triple_eqb k0 k') eqn:E'; [discriminate|]. intros H.
  destruct (triple_eqb k0 k) eqn:E; cbn; unfold chid_eqb; rewrite E'; auto.
Qed.

Lemma lookup_app_new k k' c l : lookup k l = None -> lookup k' (l ++ [(k, c)]) =
  match lookup k' l with Some x => Some x | None => if chid_eqb k k' then Some c else None end.
Proof.
  intros _. induction l as [|[k0 c0] r IH]; cbn; [reflexivity|].
  destruct (chid_eqb k0 k'); [reflexivity|exact IH].
Qed.

(* ---------- lifting a record relation ---------- *)
Section Lift.
  Variable R : chan -> chan -> Prop.
  Hypothesis R_refl : forall c, R c c.
  Hypothesis R_trans : forall a b c, R a b -> R b c -> R a c.
  (* the machine only applies events to records that are not final *)
  Hypothesis R_plan : forall c e c' h, is_final (c_status c) = false -> apply c e = Applied c' h -> R c c'.

  (* one machine micro-step *)
  Lemma m_step_R m l m' o : m_step m l = (m', o) -> R (m_chan m) (m_chan m').
  Proof.
    destruct l as [e| |]; cbn.
    - destruct (m_dead m); intros H; inversion H; subst; cbn; apply R_refl.
    - destruct (m_dead m || m_handler m); [intros H; inversion H; subst; apply R_refl|].
      destruct (m_queue m) as [|e q]; [intros H; inversion H; subst; apply R_refl|].
      destruct (is_final (c_status (m_chan m))) eqn:Hf; [intros H; inversion H; subst; cbn; apply R_refl|].
      destruct (apply (m_chan m) e) as [|c' h] eqn:Ha; [intros H; inversion H; subst; cbn; apply R_refl|].
      pose proof (R_plan _ _ _ _ Hf Ha) as HR.
      destruct (is_final (c_status c')); intros H; inversion H; subst; cbn; exact HR.
    - destruct (m_handler m && negb (m_dead m)); [|intros H; inversion H; subst; apply R_refl].
      destruct (run_entry (m_chan m) entry_prog). intros H; inversion H; subst; cbn. apply R_refl.
  Qed.

  Lemma settle_R f : forall m acc, R (m_chan m) (m_chan (fst (settle f m acc))).
  Proof.
    induction f as [|f IH]; intros m acc; cbn [settle]; [apply R_refl|].
    destruct (m_dead m); [apply R_refl|].
    destruct (m_handler m).
    - destruct (m_step m LHandlerDone) as [m' o] eqn:E. eapply R_trans; [eapply m_step_R; exact E|apply IH].
    - destruct (m_queue m) as [|e q] eqn:Q; [apply R_refl|].
      destruct (m_step m LPlan) as [m' o] eqn:E. eapply R_trans; [eapply m_step_R; exact E|apply IH].
  Qed.

  Lemma deliver_R m e : R (m_chan m) (m_chan (fst (deliver m e))).
  Proof.
    unfold deliver. destruct (m_step m (LEnq e)) as [m1 o1] eqn:E.
    eapply R_trans; [eapply m_step_R; exact E|apply settle_R].
  Qed.

  Lemma msync_chan m : m_chan (msync m) = m_chan m.
  Proof. unfold msync. destruct (is_final _); reflexivity. Qed.

  (* every channel that existed in s0 still exists in s, with a related record *)
  Definition Inv (n0 n : node) : Prop :=
    forall k cs0, lookup k (n_chans n0) = Some cs0 ->
      exists cs, lookup k (n_chans n) = Some cs /\ R (m_chan (cs_m cs0)) (m_chan (cs_m cs)).

  Lemma Inv_refl n : Inv n n.
  Proof. intros k cs H. exists cs. split; [exact H|apply R_refl]. Qed.

  (* replacing one record by a related one *)
  Lemma Inv_set n0 s k cs cs' :
    Inv n0 (s_node s) -> lookup k (n_chans (s_node s)) = Some cs ->
    R (m_chan (cs_m cs)) (m_chan (cs_m cs')) ->
    Inv n0 (s_node (set_chan s k cs')).
  Proof.
    intros HI Hl HR k0 c0 H0. destruct (HI k0 c0 H0) as [c1 [L1 R1]].
    unfold set_chan. cbn.
    destruct (triple_eqb k0 k) eqn:E.
    - apply triple_eqb_eq in E. subst k0. exists cs'. split.
      + eapply lookup_update_same. exact Hl.
      + rewrite Hl in L1. inversion L1; subst. eapply R_trans; eassumption.
    - exists c1. split; [|exact R1]. rewrite lookup_update_other; [exact L1|].
      intros ->. rewrite (proj2 (triple_eqb_eq k k) eq_refl) in E. discriminate.
  Qed.

  Lemma emit_node s o : s_node (emit s o) = s_node s.
  Proof. reflexivity. Qed.

  Lemma send_chan_Inv n0 s k cs e :
    Inv n0 (s_node s) -> lookup k (n_chans (s_node s)) = Some cs ->
    Inv n0 (s_node (snd (send_chan s k cs e))).
  Proof.
    intros HI Hl. unfold send_chan. destruct (m_dead (cs_m cs)); [exact HI|].
    destruct (deliver (cs_m cs) e) as [m' o] eqn:E. cbn [snd]. rewrite emit_node.
    eapply Inv_set; [exact HI|exact Hl|]. cbn.
    pose proof (deliver_R (cs_m cs) e) as H. rewrite E in H. exact H.
  Qed.

  Lemma send_all_Inv n0 evs : forall s k,
    Inv n0 (s_node s) -> Inv n0 (s_node (snd (send_all s k evs))).
  Proof.
    induction evs as [|e r IH]; intros s k HI; cbn [send_all]; [exact HI|].
    destruct (lookup k (n_chans (s_node s))) as [cs|] eqn:L; [|exact HI].
    destruct (send_chan s k cs e) as [res s'] eqn:E.
    pose proof (send_chan_Inv n0 s k cs e HI L) as H. rewrite E in H. cbn [snd] in H.
    destruct res; try exact H. apply IH. exact H.
  Qed.

  (* every instruction preserves the invariant *)
  Lemma instr_Inv n0 : forall X (i : instr X) s, Inv n0 (s_node s) -> Inv n0 (s_node (snd (run_instr s i))).
  Proof.
    intros X i s HI. destruct i; cbn [run_instr].
    - (* IGet *) destruct (lookup k (n_chans (s_node s))) as [cs|] eqn:L; [|exact HI]. cbn [snd].
      eapply Inv_set; [exact HI|exact L|]. cbn. rewrite msync_chan. apply R_refl.
    - exact HI.
    - (* ISend *) destruct (lookup k (n_chans (s_node s))) as [cs|] eqn:L; [|exact HI].
      apply send_chan_Inv; assumption.
    - (* ICreate *) destruct (lookup (chan_id c) (n_chans (s_node s))) as [cs|] eqn:L; [exact HI|]. cbn.
      intros k0 c0 H0. destruct (HI k0 c0 H0) as [c1 [L1 R1]]. exists c1. split; [|exact R1].
      change (lookup k0 (n_chans (s_node s) ++ [(chan_id c, mkCS (m_init c) empty_cache)]) = Some c1).
      rewrite lookup_app_new by exact L. rewrite L1. reflexivity.
    - (* IReport *) destruct (lookup k (n_chans (s_node s))) as [cs|] eqn:L; [|exact HI].
      destruct (fire (m_chan (cs_m cs)) (cs_cache cs) r) as [[cc' evs] pause].
      match goal with |- context [set_chan s k (mkCS ?m cc')] => set (m1 := m) end.
      assert (HI1 : Inv n0 (s_node (set_chan s k (mkCS m1 cc')))).
      { eapply Inv_set; [exact HI|exact L|]. cbn. subst m1.
        destruct (_ || _); [rewrite msync_chan|]; apply R_refl. }
      destruct (send_all (set_chan s k (mkCS m1 cc')) k evs) as [res s2] eqn:E. cbn [snd].
      pose proof (send_all_Inv n0 evs _ k HI1) as H. rewrite E in H. exact H.
    - (* ISetLimit *) destruct (lookup k (n_chans (s_node s))) as [cs|] eqn:L; [|exact HI].
      destruct (set_limit (cs_cache cs) l) as [cc' evs].
      apply send_all_Inv. eapply Inv_set; [exact HI|exact L|]. cbn. apply R_refl.
    - destruct (pop_val (s_vals s)). exact HI.
    - exact HI.
    - destruct (pop_bool (s_sendf s)). exact HI.
    - destruct c; try (destruct (pop_bool (s_trf s))); exact HI.
    - exact HI.
    - exact HI.
    - exact HI.
  Qed.

  Theorem prog_Inv n0 A (p : prog A) s : Inv n0 (s_node s) -> Inv n0 (s_node (snd (run p s))).
  Proof.
    apply (prog_preserves (fun s => Inv n0 (s_node s))). intros X i s0. apply instr_Inv.
  Qed.

  Lemma lookup_map f k l :
    (forall cs, m_chan (cs_m (f cs)) = m_chan (cs_m cs)) ->
    lookup k (map (fun p => (fst p, f (snd p))) l) = option_map f (lookup k l).
  Proof.
    intros Hf. induction l as [|[k0 c0] r IH]; cbn; [reflexivity|].
    destruct (chid_eqb k0 k); [reflexivity|exact IH].
  Qed.

  Lemma Inv_map n0 n f :
    (forall cs, m_chan (cs_m (f cs)) = m_chan (cs_m cs)) ->
    Inv n0 n -> Inv n0 (n <| n_chans := map (fun p => (fst p, f (snd p))) (n_chans n) |>).
  Proof.
    intros Hf HI k c0 H0. destruct (HI k c0 H0) as [c1 [L1 R1]]. exists (f c1). cbn. split.
    - rewrite lookup_map by exact Hf. rewrite L1. reflexivity.
    - rewrite Hf. exact R1.
  Qed.

  (* one step of the node (any input, any oracle answers) *)
  Theorem step_Inv n0 n st : Inv n0 n -> Inv n0 (fst (fst (step n st))).
  Proof.
    intros HI. unfold step.
    set (s0 := mkNS (pre_step n (st_in st)) (st_sendf st) (st_trf st) (st_vals st) []).
    assert (H0 : Inv n0 (s_node s0)).
    { subst s0. cbn [s_node]. unfold pre_step. destruct (st_in st); try exact HI.
      - destruct (existsb _ _); exact HI.
      - (* NCrash *)
        apply (Inv_map n0 n (fun cs => mkCS (m_init (m_chan (cs_m cs))) empty_cache)) in HI; [|reflexivity].
        intros k c0 Hk. destruct (HI k c0 Hk) as [c1 [L1 R1]]. exists c1. split; [exact L1|exact R1]. }
    assert (Hsync : forall s1, Inv n0 (s_node s1) -> Inv n0 (sync_all (s_node s1))).
    { intros s1 H1. unfold sync_all.
      apply (Inv_map n0 (s_node s1) (fun cs => cs <| cs_m := msync (cs_m cs) |>)); [|exact H1].
      intros cs. cbn. apply msync_chan. }
    destruct (input_key (n_self n) (st_in st)) as [k|].
    - destruct (run_keyed k (handler (st_in st)) s0) as [r s1] eqn:E. cbn [fst].
      apply Hsync.
      pose proof (keyed_preserves (fun s => Inv n0 (s_node s)) (instr_Inv n0) _ k (handler (st_in st)) s0 H0) as H1.
      rewrite E in H1. exact H1.
    - destruct (run (handler (st_in st)) s0) as [r s1] eqn:E. cbn [fst].
      apply Hsync.
      pose proof (prog_Inv n0 _ (handler (st_in st)) s0 H0) as H1. rewrite E in H1. exact H1.
  Qed.

  (* every history of inputs *)
  Definition run_history (n : node) (l : list nstep) : node :=
    fold_left (fun n st => fst (fst (step n st))) l n.

  Theorem history_Inv : forall l n0 n, Inv n0 n -> Inv n0 (run_history n l).
  Proof.
    induction l as [|st l IH]; intros n0 n HI; cbn; [exact HI|].
    apply IH. apply step_Inv. exact HI.
  Qed.
End Lift.
