(* C07: transfer accounting counts every block position once.
   Model: Caches.fire (channels/caches.go + fireProgressEvent) over the generated FSM actions. *)
From Coq Require Import List NArith ZArith String Bool Lia.
From RecordUpdate Require Import RecordSet.
From DT Require Import GenStatus GenEvent FsmTypes GenFsm Fsm FsmFacts Caches.
Import ListNotations RecordSetNotations.

Local Open Scope Z_scope.

(* ---------- per-direction views of the accounting tuple ---------- *)
Definition tot (k : kind) (t : acct) : N :=
  let '(q, s, r, _, _, _) := t in match k with KQueued => q | KSent => s | KReceived => r end.
Definition idx (k : kind) (t : acct) : Z :=
  let '(_, _, _, qb, sb, rb) := t in match k with KQueued => qb | KSent => sb | KReceived => rb end.

Lemma durable_total_tot k c : durable_total k c = tot k (acct_of c).
Proof. destruct k; reflexivity. Qed.
Lemma durable_index_idx k c : durable_index k c = idx k (acct_of c).
Proof. destruct k; reflexivity. Qed.

Definition transferring (s : Status) : bool := in_status s TransferringStates.

(* ---------- table facts: the report events in transferring statuses ---------- *)
Definition report_events_ok (s : Status) : bool :=
  negb (transferring s) ||
  forallb (fun e => valid_in e s && status_eqb (next_status e s) s)
          [DataQueued; DataSent; DataReceived; DataQueuedProgress; DataSentProgress;
           DataReceivedProgress; DataLimitExceeded].
Lemma report_events_ok_all : forall s, report_events_ok s = true.
Proof. apply forall_status. vm_compute. reflexivity. Qed.

Lemma transferring_valid s e :
  transferring s = true ->
  In e [DataQueued; DataSent; DataReceived; DataQueuedProgress; DataSentProgress;
        DataReceivedProgress; DataLimitExceeded] ->
  valid_in e s = true /\ next_status e s = s.
Proof.
  intros Ht Hin. pose proof (report_events_ok_all s) as H. unfold report_events_ok in H.
  rewrite Ht in H. cbn [negb orb] in H. rewrite forallb_forall in H. specialize (H e Hin).
  apply andb_true_iff in H. destruct H as [H1 H2]. apply status_eqb_eq in H2. tauto.
Qed.

(* effect of the three kinds of events on the accounting tuple (from the generated actions) *)
Lemma data_event_acct k a t :
  fold_left (act_acct a) (acts_of (data_event k)) t =
  let '(q, s, r, qb, sb, rb) := t in
  match k with
  | KQueued => (q, s, r, Z.max qb (a_int a), sb, rb)
  | KSent => (q, s, r, qb, Z.max sb (a_int a), rb)
  | KReceived => (q, s, r, qb, sb, Z.max rb (a_int a))
  end.
Proof.
  destruct t as [[[[[q s] r] qb] sb] rb]. destruct k; cbn;
    match goal with |- context [Z.gtb ?x ?y] => destruct (Z.gtb_spec x y) end;
    repeat f_equal; lia.
Qed.

Lemma progress_event_acct k a t :
  fold_left (act_acct a) (acts_of (progress_event k)) t =
  let '(q, s, r, qb, sb, rb) := t in
  match k with
  | KQueued => (((q + a_uint a) mod two64)%N, s, r, qb, sb, rb)
  | KSent => (q, ((s + a_uint a) mod two64)%N, r, qb, sb, rb)
  | KReceived => (q, s, ((r + a_uint a) mod two64)%N, qb, sb, rb)
  end.
Proof. destruct t as [[[[[q s] r] qb] sb] rb]. destruct k; reflexivity. Qed.

Lemma limit_exceeded_acct a t : fold_left (act_acct a) (acts_of DataLimitExceeded) t = t.
Proof. destruct t as [[[[[q s] r] qb] sb] rb]. reflexivity. Qed.

Lemma data_event_in k : In (data_event k) [DataQueued; DataSent; DataReceived; DataQueuedProgress;
  DataSentProgress; DataReceivedProgress; DataLimitExceeded].
Proof. destruct k; cbn; tauto. Qed.
Lemma progress_event_in k : In (progress_event k) [DataQueued; DataSent; DataReceived; DataQueuedProgress;
  DataSentProgress; DataReceivedProgress; DataLimitExceeded].
Proof. destruct k; cbn; tauto. Qed.

(* applying a list of report events in a transferring status *)
Lemma apply_report_event c e :
  transferring (c_status c) = true ->
  In (fst e) [DataQueued; DataSent; DataReceived; DataQueuedProgress; DataSentProgress;
              DataReceivedProgress; DataLimitExceeded] ->
  c_status (apply_chan c e) = c_status c /\
  acct_of (apply_chan c e) = fold_left (act_acct (snd e)) (acts_of (fst e)) (acct_of c).
Proof.
  intros Ht Hin. destruct (transferring_valid _ _ Ht Hin) as [V N].
  split.
  - rewrite apply_chan_status. exact N.
  - rewrite apply_chan_acct, V. reflexivity.
Qed.

(* ---------- the abstract accounting of a DAG traversal ---------- *)
(* blk p = (size, unique) of the block at traversal position p *)
Section Traversal.
  Variable k : kind.
  Variable blk : Z -> N * bool.

  Definition rep (p : Z) : report := mkReport k (fst (blk p)) p (snd (blk p)).

  (* payload: summed sizes of the unique blocks at positions 1..n *)
  Fixpoint payload_nat (n : nat) : N :=
    match n with
    | O => 0%N
    | S m => (payload_nat m + (if snd (blk (Z.of_nat n)) then fst (blk (Z.of_nat n)) else 0))%N
    end.
  Definition payload (mx : Z) : N := payload_nat (Z.to_nat mx).

  Lemma payload_succ mx : 0 <= mx ->
    payload (mx + 1) = (payload mx + (if snd (blk (mx + 1)) then fst (blk (mx + 1)) else 0))%N.
  Proof.
    intros H. unfold payload. replace (Z.to_nat (mx + 1)) with (S (Z.to_nat mx)) by lia.
    cbn [payload_nat]. replace (Z.of_nat (S (Z.to_nat mx))) with (mx + 1) by lia. reflexivity.
  Qed.

  (* effective high-water mark: the cached one, or the durable index it would be seeded from *)
  Definition eff_mark (c : chan) (cc : ccache) : Z :=
    match ix k cc with Some v => v | None => durable_index k c end.

  (* invariant tying the concrete state to the traversal: mx = highest position reported *)
  Record Inv (t0 : N) (c : chan) (cc : ccache) (mx : Z) : Prop := {
    inv_status : transferring (c_status c) = true;
    inv_mx : 0 <= mx;
    inv_index : durable_index k c = mx;
    inv_total : durable_total k c = ((t0 + payload mx) mod two64)%N;
    inv_mark_le : eff_mark c cc <= mx;
    inv_mark_ge : forall q, 1 <= q <= mx -> snd (blk q) = true -> q <= eff_mark c cc
  }.

  Lemma two64_nz : two64 <> 0%N.
  Proof. discriminate. Qed.

  Lemma ix_set_same v cc : ix k (set_ix k v cc) = Some v.
  Proof. destruct k; reflexivity. Qed.

  Lemma ix_set_pg v cc p : ix k (set_ix k v cc <| pg := p |>) = Some v.
  Proof. destruct k; reflexivity. Qed.

  Lemma tot_idx_data a t : tot k (fold_left (act_acct a) (acts_of (data_event k)) t) = tot k t /\
                           idx k (fold_left (act_acct a) (acts_of (data_event k)) t) = Z.max (idx k t) (a_int a).
  Proof. rewrite data_event_acct. destruct t as [[[[[q s] r] qb] sb] rb]. destruct k; split; reflexivity. Qed.

  Lemma tot_idx_progress a t :
    tot k (fold_left (act_acct a) (acts_of (progress_event k)) t) = ((tot k t + a_uint a) mod two64)%N /\
    idx k (fold_left (act_acct a) (acts_of (progress_event k)) t) = idx k t.
  Proof. rewrite progress_event_acct. destruct t as [[[[[q s] r] qb] sb] rb]. destruct k; split; reflexivity. Qed.

  (* the three possible event lists of fire, applied in a transferring status *)
  Lemma apply_data_only c p :
    transferring (c_status c) = true ->
    let c' := fold_left apply_chan [(data_event k, int_arg p)] c in
    c_status c' = c_status c /\ durable_total k c' = durable_total k c /\
    durable_index k c' = Z.max (durable_index k c) p.
  Proof.
    intros Ht. cbn [fold_left].
    destruct (apply_report_event c (data_event k, int_arg p) Ht (data_event_in k)) as [S A].
    cbn [fst snd] in *. rewrite !durable_total_tot, !durable_index_idx, A.
    destruct (tot_idx_data (int_arg p) (acct_of c)) as [T I]. cbn [a_int int_arg] in I.
    repeat split; assumption.
  Qed.

  Lemma apply_progress_data c p sz (tail : list ev) :
    transferring (c_status c) = true ->
    (tail = [] \/ tail = [(DataLimitExceeded, no_arg)]) ->
    let c' := fold_left apply_chan ([(progress_event k, uint_arg sz); (data_event k, int_arg p)] ++ tail) c in
    c_status c' = c_status c /\
    durable_total k c' = ((durable_total k c + sz) mod two64)%N /\
    durable_index k c' = Z.max (durable_index k c) p.
  Proof.
    intros Ht Htail.
    destruct (apply_report_event c (progress_event k, uint_arg sz) Ht (progress_event_in k)) as [S1 A1].
    set (c1 := apply_chan c (progress_event k, uint_arg sz)) in *.
    assert (Ht1 : transferring (c_status c1) = true) by (rewrite S1; exact Ht).
    destruct (apply_report_event c1 (data_event k, int_arg p) Ht1 (data_event_in k)) as [S2 A2].
    set (c2 := apply_chan c1 (data_event k, int_arg p)) in *.
    assert (Ht2 : transferring (c_status c2) = true) by (rewrite S2; exact Ht1).
    cbn [fst snd] in *.
    destruct (tot_idx_progress (uint_arg sz) (acct_of c)) as [T1 I1]. cbn [a_uint uint_arg] in T1.
    destruct (tot_idx_data (int_arg p) (acct_of c1)) as [T2 I2]. cbn [a_int int_arg] in I2.
    assert (G : c_status c2 = c_status c /\
                durable_total k c2 = ((durable_total k c + sz) mod two64)%N /\
                durable_index k c2 = Z.max (durable_index k c) p).
    { rewrite !durable_total_tot, !durable_index_idx. rewrite A2, T2, I2, A1, T1, I1.
      repeat split; congruence. }
    destruct Htail as [-> | ->]; cbn [app fold_left]; fold c1; fold c2; [exact G|].
    assert (Hin : In (fst (DataLimitExceeded, no_arg)) [DataQueued; DataSent; DataReceived;
              DataQueuedProgress; DataSentProgress; DataReceivedProgress; DataLimitExceeded])
      by (cbn; tauto).
    destruct (apply_report_event c2 (DataLimitExceeded, no_arg) Ht2 Hin) as [S3 A3].
    cbn [fst snd] in A3. rewrite limit_exceeded_acct in A3.
    destruct G as [G1 [G2 G3]].
    rewrite !durable_total_tot, !durable_index_idx in *. rewrite A3.
    repeat split; congruence.
  Qed.

  (* one contiguous report preserves the invariant *)
  Lemma report_preserves_inv t0 c cc mx p :
    Inv t0 c cc mx -> 1 <= p <= mx + 1 ->
    let '(c', cc', _) := report_step (c, cc) (rep p) in
    Inv t0 c' cc' (Z.max mx p).
  Proof.
    intros [Hs Hmx Hi Ht Hle Hge] Hp.
    unfold report_step, fire, rep. cbn [r_kind r_size r_index r_unique].
    destruct (snd (blk p)) eqn:Hu; cbn [negb].
    - (* unique block *)
      fold (eff_mark c cc).
      destruct (Z.leb_spec p (eff_mark c cc)) as [Hcmp|Hcmp].
      + (* not above the mark: a replay *)
        destruct (apply_data_only c p Hs) as [S [T I]].
        assert (Hmax : Z.max mx p = mx) by lia.
        rewrite Hmax.
        constructor; try assumption.
        * rewrite S; exact Hs.
        * rewrite I, Hi. lia.
        * rewrite T. exact Ht.
        * unfold eff_mark. rewrite ix_set_same. exact Hle.
        * intros q Hq Huq. unfold eff_mark. rewrite ix_set_same. apply Hge; assumption.
      + (* above the mark: it must be the next new position *)
        assert (Hnew : p = mx + 1).
        { destruct (Z.le_gt_cases p mx) as [L|G]; [|lia].
          specialize (Hge p (conj (proj1 Hp) L) Hu). lia. }
        assert (Hmax : Z.max mx p = mx + 1) by lia.
        rewrite Hmax.
        destruct (limited k) eqn:Hlim; cbn [negb].
        * (* limited direction: progress cache involved *)
          destruct (match pg (set_ix k p cc) with
                    | Some p0 => p0
                    | None => (c_limit c, durable_total k c)
                    end) as [limit total] eqn:Hpg.
          set (pause := negb (N.eqb limit 0) && N.leb limit ((total + fst (blk p)) mod two64)%N).
          destruct (apply_progress_data c p (fst (blk p))
                      (if pause then [(DataLimitExceeded, no_arg)] else []) Hs) as [S [T I]].
          { destruct pause; [right|left]; reflexivity. }
          constructor.
          -- rewrite S; exact Hs.
          -- lia.
          -- rewrite I, Hi. lia.
          -- rewrite T, Ht, payload_succ by exact Hmx. rewrite <- Hnew, Hu.
             rewrite N.add_mod_idemp_l by apply two64_nz. f_equal. lia.
          -- unfold eff_mark. rewrite ix_set_pg. lia.
          -- intros q Hq _. unfold eff_mark. rewrite ix_set_pg. lia.
        * (* sent: no limit check *)
          destruct (apply_progress_data c p (fst (blk p)) [] Hs (or_introl eq_refl)) as [S [T I]].
          cbn [app] in S, T, I.
          constructor.
          -- rewrite S; exact Hs.
          -- lia.
          -- rewrite I, Hi. lia.
          -- rewrite T, Ht, payload_succ by exact Hmx. rewrite <- Hnew, Hu.
             rewrite N.add_mod_idemp_l by apply two64_nz. f_equal. lia.
          -- unfold eff_mark. rewrite ix_set_same. lia.
          -- intros q Hq _. unfold eff_mark. rewrite ix_set_same. lia.
    - (* non-unique block: only the index moves *)
      destruct (apply_data_only c p Hs) as [S [T I]].
      constructor.
      + rewrite S; exact Hs.
      + lia.
      + rewrite I, Hi. reflexivity.
      + rewrite T, Ht. destruct (Z.le_gt_cases p mx) as [L|G].
        * replace (Z.max mx p) with mx by lia. reflexivity.
        * replace (Z.max mx p) with (mx + 1) by lia. rewrite payload_succ by exact Hmx.
          replace (mx + 1) with p by lia. rewrite Hu. rewrite N.add_0_r. reflexivity.
      + unfold eff_mark in *. destruct (ix k cc) as [v|]; [lia|]. rewrite I, Hi. lia.
      + intros q Hq Huq. unfold eff_mark in *.
        assert (q <= mx).
        { destruct (Z.le_gt_cases q mx) as [L|G]; [exact L|].
          assert (q = p) by lia. subst q. congruence. }
        destruct (ix k cc) as [v|].
        * apply Hge; [lia|exact Huq].
        * rewrite I, Hi. lia.
  Qed.

  (* a process restart preserves the invariant: the cache is re-seeded from the durable index *)
  Lemma crash_preserves_inv t0 c cc mx : Inv t0 c cc mx -> Inv t0 c empty_cache mx.
  Proof.
    intros [Hs Hmx Hi Ht Hle Hge]. constructor; try assumption.
    - unfold eff_mark. replace (ix k empty_cache) with (@None Z) by (destruct k; reflexivity). lia.
    - intros q Hq _. unfold eff_mark. replace (ix k empty_cache) with (@None Z) by (destruct k; reflexivity). lia.
  Qed.

  (* histories: contiguous reports of the traversal, with process restarts anywhere *)
  Inductive hstep : Type := HReport (p : Z) | HCrash.

  Definition hrun1 (st : chan * ccache) (h : hstep) : chan * ccache :=
    match h with
    | HReport p => fst (report_step st (rep p))
    | HCrash => crash st
    end.
  Definition hrun (st : chan * ccache) (hs : list hstep) : chan * ccache := fold_left hrun1 hs st.

  (* well-shaped: every reported position is at most one above the highest reported so far *)
  Fixpoint well_shaped (mx : Z) (hs : list hstep) : Prop :=
    match hs with
    | [] => True
    | HReport p :: r => 1 <= p <= mx + 1 /\ well_shaped (Z.max mx p) r
    | HCrash :: r => well_shaped mx r
    end.
  Fixpoint highest (mx : Z) (hs : list hstep) : Z :=
    match hs with
    | [] => mx
    | HReport p :: r => highest (Z.max mx p) r
    | HCrash :: r => highest mx r
    end.

  Theorem inv_history t0 : forall hs c cc mx,
    Inv t0 c cc mx -> well_shaped mx hs ->
    Inv t0 (fst (hrun (c, cc) hs)) (snd (hrun (c, cc) hs)) (highest mx hs).
  Proof.
    induction hs as [|h hs IH]; intros c cc mx HI Hw; cbn [hrun fold_left highest].
    - exact HI.
    - destruct h as [p|]; cbn [well_shaped] in Hw.
      + destruct Hw as [Hp Hw].
        pose proof (report_preserves_inv t0 c cc mx p HI Hp) as H.
        cbn [hrun1]. destruct (report_step (c, cc) (rep p)) as [[c' cc'] pz]. cbn [fst].
        apply (IH c' cc' (Z.max mx p) H Hw).
      + cbn [hrun1]. unfold crash. cbn [fst]. apply IH; [|exact Hw].
        apply crash_preserves_inv with (cc := cc). exact HI.
  Qed.
End Traversal.

(* ---------- C07: the closed formula ---------- *)
(* For each direction, on a transferring channel, after ANY well-shaped history of block
   reports with process restarts anywhere: the byte total is the summed size of the unique
   blocks at the distinct positions reported (mod 2^64) and the block index is the highest
   position reported. *)
Theorem totals_formula :
  forall k blk c hs,
    transferring (c_status c) = true ->
    durable_index k c = 0 ->
    (durable_total k c < two64)%N ->
    well_shaped 0 hs ->
    let c' := fst (hrun k blk (c, empty_cache) hs) in
    durable_total k c' = ((durable_total k c + payload blk (highest 0 hs)) mod two64)%N /\
    durable_index k c' = highest 0 hs /\
    transferring (c_status c') = true.
Proof.
  intros k blk c hs Ht Hi Hlt Hw.
  assert (HI : Inv k blk (durable_total k c) c empty_cache 0).
  { constructor.
    - exact Ht.
    - lia.
    - exact Hi.
    - unfold payload. cbn. rewrite N.add_0_r. symmetry. apply N.mod_small. exact Hlt.
    - unfold eff_mark. replace (ix k empty_cache) with (@None Z) by (destruct k; reflexivity). lia.
    - intros q Hq. lia. }
  destruct (inv_history k blk _ hs c empty_cache 0 HI Hw) as [A B C D E F].
  repeat split; assumption.
Qed.

(* ---------- corollaries on well-shaped histories ---------- *)
Section Corollaries.
  Variable k : kind.
  Variable blk : Z -> N * bool.

  (* a position reported again (re-sent, or replayed after a transport or process restart)
     never changes the byte total *)
  Theorem replay_never_increases t0 c cc mx p :
    Inv k blk t0 c cc mx -> 1 <= p <= mx ->
    durable_total k (fst (fst (report_step (c, cc) (rep k blk p)))) = durable_total k c /\
    durable_index k (fst (fst (report_step (c, cc) (rep k blk p)))) = durable_index k c.
  Proof.
    intros HI Hp. pose proof (report_preserves_inv k blk t0 c cc mx p HI) as H.
    destruct (report_step (c, cc) (rep k blk p)) as [[c' cc'] pz]. cbn [fst].
    assert (Hp' : 1 <= p <= mx + 1) by lia. specialize (H Hp').
    replace (Z.max mx p) with mx in H by lia.
    destruct HI as [_ _ Hi Ht _ _]. destruct H as [_ _ Hi' Ht' _ _].
    split; congruence.
  Qed.

  (* a non-unique block never changes the byte total, whatever its position *)
  Theorem non_unique_never_increases t0 c cc mx p :
    Inv k blk t0 c cc mx -> 1 <= p <= mx + 1 -> snd (blk p) = false ->
    durable_total k (fst (fst (report_step (c, cc) (rep k blk p)))) = durable_total k c.
  Proof.
    intros HI Hp Hu. destruct HI as [Hs _ _ _ _ _].
    unfold report_step, fire, rep. cbn [r_kind r_size r_index r_unique]. rewrite Hu. cbn [negb fst].
    destruct (apply_data_only k c p Hs) as [_ [T _]]. exact T.
  Qed.

  (* the block-index total is the highest position reported and never decreases *)
  Lemma highest_ge mx hs : mx <= highest mx hs.
  Proof.
    revert mx. induction hs as [|h hs IH]; intros mx; cbn; [lia|].
    destruct h; [specialize (IH (Z.max mx p))|specialize (IH mx)]; lia.
  Qed.

  Lemma payload_nat_mono n m : (n <= m)%nat -> (payload_nat blk n <= payload_nat blk m)%N.
  Proof. induction 1; [lia|]. cbn [payload_nat]. lia. Qed.

  (* the (unreduced) byte total never decreases as more positions are reported *)
  Theorem payload_monotone a b : 0 <= a <= b -> (payload blk a <= payload blk b)%N.
  Proof. intros H. unfold payload. apply payload_nat_mono. lia. Qed.
End Corollaries.

(* ---------- arbitrary report lists: the sum of the reports that advanced the mark ---------- *)
(* the high-water mark as the block-index cache keeps it: cached value, lazily seeded from the
   durable index the first time a unique block is reported *)
Definition mark_step (st : option Z * Z) (r : report) : (option Z * Z) * bool :=
  let '(mark, didx) := st in
  let didx' := Z.max didx (r_index r) in
  if negb (r_unique r) then ((mark, didx'), false)
  else
    let cur := match mark with Some v => v | None => didx end in
    if Z.leb (r_index r) cur then ((Some cur, didx'), false)
    else ((Some (r_index r), didx'), true).

Fixpoint advancing_sum (st : option Z * Z) (rs : list report) : N :=
  match rs with
  | [] => 0%N
  | r :: rest =>
      let '(st', adv) := mark_step st r in
      ((if adv then r_size r else 0) + advancing_sum st' rest)%N
  end.

Fixpoint final_mark (st : option Z * Z) (rs : list report) : option Z * Z :=
  match rs with
  | [] => st
  | r :: rest => final_mark (fst (mark_step st r)) rest
  end.

Lemma ix_set_same' k v cc : ix k (set_ix k v cc) = Some v.
Proof. destruct k; reflexivity. Qed.
Lemma ix_set_pg' k v cc p : ix k (set_ix k v cc <| pg := p |>) = Some v.
Proof. destruct k; reflexivity. Qed.

Definition noblk : Z -> N * bool := fun _ => (0%N, false).

Lemma report_step_mark k c cc r :
  r_kind r = k -> transferring (c_status c) = true -> (durable_total k c < two64)%N ->
  let '(c', cc', _) := report_step (c, cc) r in
  let '(st', adv) := mark_step (ix k cc, durable_index k c) r in
  transferring (c_status c') = true /\ (durable_total k c' < two64)%N /\
  ix k cc' = fst st' /\ durable_index k c' = snd st' /\
  durable_total k c' = ((durable_total k c + (if adv then r_size r else 0)) mod two64)%N.
Proof.
  intros Hk Ht Hlt. unfold report_step, fire, mark_step. rewrite Hk.
  assert (Hsmall : ((durable_total k c + 0) mod two64 = durable_total k c)%N)
    by (rewrite N.add_0_r; apply N.mod_small; exact Hlt).
  assert (Hmod : forall x, (x mod two64 < two64)%N) by (intros x; apply N.mod_lt; discriminate).
  destruct (r_unique r); cbn [negb].
  - destruct (Z.leb_spec (r_index r) (match ix k cc with Some v => v | None => durable_index k c end)) as [L|G].
    + destruct (apply_data_only k c (r_index r) Ht) as [S [T I]].
      cbn [fst snd]. repeat split.
      * rewrite S; exact Ht.
      * rewrite T; exact Hlt.
      * apply ix_set_same'.
      * exact I.
      * rewrite T, Hsmall. reflexivity.
    + destruct (limited k) eqn:Hlim; cbn [negb].
      * destruct (match pg (set_ix k (r_index r) cc) with
                  | Some p0 => p0 | None => (c_limit c, durable_total k c) end) as [limit total].
        set (pause := negb (N.eqb limit 0) && N.leb limit ((total + r_size r) mod two64)%N).
        destruct (apply_progress_data k noblk c (r_index r) (r_size r)
                    (if pause then [(DataLimitExceeded, no_arg)] else []) Ht) as [S [T I]].
        { destruct pause; [right|left]; reflexivity. }
        cbn [fst snd]. repeat split.
        -- rewrite S; exact Ht.
        -- rewrite T; apply Hmod.
        -- apply ix_set_pg'.
        -- exact I.
        -- exact T.
      * destruct (apply_progress_data k noblk c (r_index r) (r_size r) [] Ht (or_introl eq_refl)) as [S [T I]].
        cbn [app] in S, T, I. cbn [fst snd]. repeat split.
        -- rewrite S; exact Ht.
        -- rewrite T; apply Hmod.
        -- apply ix_set_same'.
        -- exact I.
        -- exact T.
  - destruct (apply_data_only k c (r_index r) Ht) as [S [T I]].
    cbn [fst snd]. repeat split.
    + rewrite S; exact Ht.
    + rewrite T; exact Hlt.
    + exact I.
    + rewrite T, Hsmall. reflexivity.
Qed.

(* C07, last sentence: for ANY list of reports of one direction on a transferring channel the
   byte total equals the sum of the sizes of the reports that advanced the high-water mark *)
Theorem totals_eq_sum_of_mark_advancing_reports :
  forall k rs c cc,
    (forall r, In r rs -> r_kind r = k) ->
    transferring (c_status c) = true -> (durable_total k c < two64)%N ->
    let c' := fst (run_reports (c, cc) rs) in
    durable_total k c' =
      ((durable_total k c + advancing_sum (ix k cc, durable_index k c) rs) mod two64)%N /\
    durable_index k c' = snd (final_mark (ix k cc, durable_index k c) rs).
Proof.
  intros k rs. induction rs as [|r rs IH]; intros c cc Hk Ht Hlt; cbn [run_reports fold_left fst].
  - cbn. rewrite N.add_0_r. split; [symmetry; apply N.mod_small; exact Hlt | reflexivity].
  - pose proof (report_step_mark k c cc r (Hk r (or_introl eq_refl)) Ht Hlt) as H.
    cbn [advancing_sum final_mark].
    destruct (report_step (c, cc) r) as [[c1 cc1] pz]. cbn [fst].
    destruct (mark_step (ix k cc, durable_index k c) r) as [st' adv] eqn:Hms.
    destruct H as [Ht1 [Hlt1 [Hix [Hdi Htot]]]].
    assert (Hk1 : forall r0, In r0 rs -> r_kind r0 = k) by (intros r0 Hin; apply Hk; right; exact Hin).
    specialize (IH c1 cc1 Hk1 Ht1 Hlt1). cbn [run_reports fst] in IH.
    destruct IH as [IH1 IH2].
    assert (Hst : (ix k cc1, durable_index k c1) = st') by (destruct st'; cbn in *; congruence).
    rewrite Hst in IH1, IH2. cbn [fst].
    change (fold_left (fun (st : chan * ccache) (r0 : report) => fst (report_step st r0)) rs (c1, cc1))
      with (run_reports (c1, cc1) rs).
    split.
    + rewrite IH1, Htot. rewrite N.add_mod_idemp_l by discriminate. f_equal. lia.
    + exact IH2.
Qed.
