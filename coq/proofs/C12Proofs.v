(* C12: the wire format is lossless and is the DAG-CBOR map laid down by the schema. *)
From Coq Require Import List NArith ZArith String Ascii Bool Arith Lia Permutation.
From DT Require Import Cbor CborProofs GenSchema Wire.
Import ListNotations.
Local Open Scope string_scope.

(* ---------- layout = published schema ---------- *)
Definition wire_key (f : sfield) : string := snd (fst (fst f)).
Definition ftype_of (f : sfield) : ftype := snd (fst f).
Definition nullable_of (f : sfield) : bool := snd f.

(* does a node fit a schema field? (structs are checked by their own theorem) *)
Definition fits (f : sfield) (n : node) : bool :=
  match n with
  | NNull => nullable_of f
  | NInt false _ => match ftype_of f with TInt | TAny => true | _ => false end
  | NBool _ => match ftype_of f with TBool | TAny => true | _ => false end
  | NString _ => match ftype_of f with TString | TAny => true | _ => false end
  | NLink _ => match ftype_of f with TLink | TAny => true | _ => false end
  | NMap _ => match ftype_of f with TStruct _ | TAny => true | _ => false end
  | NList _ => match ftype_of f with TStruct _ | TAny => true | _ => false end
  | _ => match ftype_of f with TAny => true | _ => false end
  end.

Fixpoint fits_all (s : list sfield) (l : list (string * node)) : bool :=
  match s, l with
  | [], [] => true
  | f :: s', (k, n) :: l' => String.eqb (wire_key f) k && fits f n && fits_all s' l'
  | _, _ => false
  end.

(* a payload that is itself null cannot be told from an absent one: the schema field is nullable *)
Definition any_ok (o : option node) : Prop := True.

Theorem request_layout_is_schema :
  forall r, map fst (req_entries r) = map wire_key schema_TransferRequest /\
            schema_TransferRequest_tuple = false.
Proof. intros r. split; reflexivity. Qed.

Theorem response_layout_is_schema :
  forall r, map fst (resp_entries r) = map wire_key schema_TransferResponse /\ schema_TransferResponse_tuple = false.
Proof. intros r. split; reflexivity. Qed.

Theorem message_layout_is_schema :
  forall m, map fst (msg_entries m) = map wire_key schema_TransferMessage1_1 /\ schema_TransferMessage1_1_tuple = false.
Proof. intros [r|r]; split; reflexivity. Qed.

Theorem channel_id_layout_is_schema :
  List.length schema_ChannelID = 3%nat /\ schema_ChannelID_tuple = true /\
  map ftype_of schema_ChannelID = [TString; TString; TInt].
Proof. repeat split. Qed.

Lemma fits_any f n : ftype_of f = TAny -> nullable_of f = true -> fits f n = true.
Proof. intros H1 H2. unfold fits. rewrite H1, H2. destruct n as [| | [|] | | | | | |]; reflexivity. Qed.

Theorem request_fields_fit_schema : forall r, fits_all schema_TransferRequest (req_entries r) = true.
Proof.
  intros r. unfold schema_TransferRequest, req_entries. cbn [fits_all wire_key fst snd String.eqb Ascii.eqb Bool.eqb andb].
  rewrite (fits_any ("SelectorPtr", "Stor", TAny, true)), (fits_any ("VoucherPtr", "Vouch", TAny, true)) by reflexivity.
  destruct (rq_basecid r); reflexivity.
Qed.

Theorem response_fields_fit_schema : forall r, fits_all schema_TransferResponse (resp_entries r) = true.
Proof.
  intros r. unfold schema_TransferResponse, resp_entries. cbn [fits_all wire_key fst snd String.eqb Ascii.eqb Bool.eqb andb].
  rewrite (fits_any ("VoucherResultPtr", "VRes", TAny, true)) by reflexivity. reflexivity.
Qed.

(* ---------- round trip through the network form ---------- *)
Lemma get_any_canon n : get_any (canon n) = Some (canon_opt (Some n)).
Proof. destruct n; reflexivity. Qed.

Lemma get_any_opt o : get_any (canon (opt_any o)) = Some (canon_opt o).
Proof. destruct o as [n|]; [apply get_any_canon|reflexivity]. Qed.

Lemma canon_opt_link o : canon (opt_link o) = opt_link o.
Proof. destruct o; reflexivity. Qed.

Lemma of_node_to_node m : of_node (canon (to_node m)) = Some (canon_msg m).
Proof.
  destruct m as [r|r]; unfold to_node, msg_entries.
  - destruct r as [bc ty pa pt pu st vo vt xi [ci cr cid]].
    cbn [canon map fst snd sort_entries fold_right insert_entry key_leb String.length Nat.ltb Nat.leb Nat.eqb orb andb negb str_ltb].
    unfold req_entries, chid_to_node.
    cbn -[get_any get_link opt_any opt_link canon_opt].
    rewrite canon_opt_link.
    cbn -[get_any get_link opt_any opt_link canon_opt canon].
    rewrite !get_any_opt. destruct bc; reflexivity.
  - destruct r as [ty ac pa xi vr vt].
    cbn [canon map fst snd sort_entries fold_right insert_entry key_leb String.length Nat.ltb Nat.leb Nat.eqb orb andb negb str_ltb].
    unfold resp_entries.
    cbn -[get_any opt_any canon_opt canon].
    rewrite !get_any_opt. reflexivity.
Qed.

Lemma wf_opt_any o : wf_opt o -> wf (opt_any o).
Proof. destruct o; cbn; auto. Qed.

Lemma wf_to_node m : wf_msg m -> wf (to_node m).
Proof.
  destruct m as [[bc ty pa pt pu st vo vt xi [ci cr cid]]|[ty ac pa xi vr vt]]; cbn -[wf two64 opt_any N.of_nat]; intros H.
  - destruct H as [H1 [H2 [H3 [H4 [H5 [H6 [H7 [H8 H9]]]]]]]].
    apply wf_opt_any in H3. apply wf_opt_any in H4. unfold wf_str in *.
    unfold to_node, msg_entries, req_entries, chid_to_node.
    destruct bc as [c|]; cbn -[two64 opt_any N.of_nat];
      repeat split; try assumption; try exact I; unfold two64 in *; cbn [List.length String.length]; lia.
  - destruct H as [H1 [H2 [H3 H4]]]. apply wf_opt_any in H3. unfold wf_str in *.
    unfold to_node, msg_entries, resp_entries. cbn -[two64 opt_any N.of_nat];
      repeat split; try assumption; try exact I; unfold two64 in *; cbn [List.length String.length]; lia.
Qed.

(* every well-formed message survives ToNet / FromNet with all observable fields intact: kind,
   transfer id over the full unsigned 64-bit range, flags, base CID, selector, voucher (as
   DAG-CBOR data; null = none), type identifier, restart channel id *)
Theorem net_round_trip : forall m, wf_msg m -> from_net (to_net m) = Some (canon_msg m).
Proof.
  intros m Hw. unfold from_net, to_net. rewrite decode_encode by (apply wf_to_node; exact Hw).
  apply of_node_to_node.
Qed.

(* ---------- any key order ---------- *)
Lemma lookup_in k v l : NoDup (map fst l) -> In (k, v) l -> lookup k l = Some v.
Proof.
  induction l as [|[j w] l IH]; intros Hn Hi; [contradiction|]. cbn in Hn. inversion Hn; subst. cbn [lookup].
  destruct Hi as [Hi|Hi].
  - inversion Hi; subst. rewrite String.eqb_refl. reflexivity.
  - destruct (String.eqb_spec j k) as [->|Hne].
    + exfalso. apply H1. change k with (fst (k, v)). apply in_map. exact Hi.
    + apply IH; assumption.
Qed.

Lemma lookup_none k l : ~ In k (map fst l) -> lookup k l = None.
Proof.
  induction l as [|[j w] l IH]; intros Hn; [reflexivity|]. cbn [lookup].
  destruct (String.eqb_spec j k) as [->|Hne]; [exfalso; apply Hn; left; reflexivity|].
  apply IH. intros H. apply Hn. right. exact H.
Qed.

Lemma lookup_perm k l l' : NoDup (map fst l) -> Permutation l l' -> lookup k l = lookup k l'.
Proof.
  intros Hn Hp.
  assert (Hn' : NoDup (map fst l')) by (eapply Permutation_NoDup; [apply Permutation_map; exact Hp|exact Hn]).
  destruct (lookup k l) as [v|] eqn:E.
  - assert (Hin : In (k, v) l).
    { clear -E. induction l as [|[j w] l IH]; [discriminate|]. cbn in E.
      destruct (String.eqb_spec j k) as [->|Hne]; [inversion E; left; reflexivity|right; apply IH; exact E]. }
    symmetry. apply lookup_in; [exact Hn'|]. eapply Permutation_in; eassumption.
  - symmetry. apply lookup_none. intros H.
    assert (H' : In k (map fst l)) by (eapply Permutation_in; [apply Permutation_sym; apply Permutation_map; exact Hp|exact H]).
    clear -E H'. induction l as [|[j w] l IH]; [contradiction|]. cbn in E.
    destruct (String.eqb_spec j k) as [->|Hne]; [discriminate|]. destruct H' as [H'|H']; [contradiction|]. apply IH; assumption.
Qed.

(* a map whose entries arrive in any order decodes to the same message *)
Theorem key_order_irrelevant :
  forall l l', NoDup (map fst l) -> Permutation l l' -> of_node (NMap l) = of_node (NMap l').
Proof.
  intros l l' Hn Hp. unfold of_node. rewrite (Permutation_length Hp).
  rewrite !(lookup_perm _ l l' Hn Hp). reflexivity.
Qed.

Theorem request_key_order_irrelevant :
  forall l l', NoDup (map fst l) -> Permutation l l' -> req_of_node (NMap l) = req_of_node (NMap l').
Proof.
  intros l l' Hn Hp. unfold req_of_node. rewrite (Permutation_length Hp).
  rewrite !(lookup_perm _ l l' Hn Hp). reflexivity.
Qed.

Theorem response_key_order_irrelevant :
  forall l l', NoDup (map fst l) -> Permutation l l' -> resp_of_node (NMap l) = resp_of_node (NMap l').
Proof.
  intros l l' Hn Hp. unfold resp_of_node. rewrite (Permutation_length Hp).
  rewrite !(lookup_perm _ l l' Hn Hp). reflexivity.
Qed.

(* decoding never yields a message whose body is missing *)
Theorem decoded_body_present :
  forall n m, of_node n = Some m ->
    match n with
    | NMap l => (exists r, m = WReq r /\ lookup "IsRq" l = Some (NBool true) /\ lookup "Request" l <> Some NNull) \/
                (exists r, m = WResp r /\ lookup "IsRq" l = Some (NBool false) /\ lookup "Response" l <> Some NNull)
    | _ => False
    end.
Proof.
  intros n m H. destruct n as [| | | | | | |l|]; try discriminate H. unfold of_node in H.
  destruct (negb (Nat.eqb (List.length l) 3)); [discriminate|].
  destruct (lookup "IsRq" l) as [a|]; [|discriminate]. destruct a as [|b| | | | | | |]; try discriminate H. cbn [get_bool] in H.
  destruct (lookup "Request" l) as [rq|]; [|discriminate]. destruct (lookup "Response" l) as [rs|]; [|discriminate].
  destruct b.
  - left. destruct rq; try discriminate H; destruct (req_of_node _) as [r|] eqn:E; try discriminate H;
      inversion H; subst; exists r; repeat split; discriminate.
  - right. destruct rs; try discriminate H; destruct (resp_of_node _) as [r|] eqn:E; try discriminate H;
      inversion H; subst; exists r; repeat split; discriminate.
Qed.

Example wire_example :
  let m := WReq (mkWReq (Some "c") 0 false false true (Some (NInt false 5))
                        (Some (NMap [("bb", NInt false 1); ("a", NString "x")])) "T1" 18446744073709551615 (mkWChid "" "" 0)) in
  from_net (to_net m) = Some (canon_msg m) /\
  canon_msg m = WReq (mkWReq (Some "c") 0 false false true (Some (NInt false 5))
                        (Some (NMap [("a", NString "x"); ("bb", NInt false 1)])) "T1" 18446744073709551615 (mkWChid "" "" 0)).
Proof. vm_compute. split; reflexivity. Qed.

(* ---------- kinds ---------- *)
From DT Require Import GenMsgType GenPred.
From DT Require Msg.

Definition count_true (l : list bool) : nat := List.length (filter (fun b => b) l).

(* the message types the request / response constructors produce *)
Definition request_types : list MessageType :=
  [NewMessage; RestartMessage; UpdateMessage; CancelMessage; VoucherMessage; RestartExistingChannelRequestMessage].
Definition response_types : list MessageType :=
  [NewMessage; RestartMessage; UpdateMessage; CancelMessage; CompleteMessage; VoucherResultMessage].

(* primary kinds: the generated predicates, with the two umbrella predicates (IsVoucher,
   IsValidationResult) restricted to what the narrower ones leave *)
Definition request_kinds (t : MessageType) : list bool :=
  [req_IsNew t; req_IsRestart t; req_IsUpdate t; req_IsCancel t; req_IsRestartExistingChannelRequest t;
   req_IsVoucher t && negb (req_IsNew t)].
Definition response_kinds (t : MessageType) : list bool :=
  [resp_IsNew t; resp_IsRestart t; resp_IsUpdate t; resp_IsCancel t; resp_IsComplete t;
   resp_IsValidationResult t && negb (resp_IsNew t) && negb (resp_IsRestart t) && negb (resp_IsComplete t)].

Theorem each_message_has_exactly_one_kind :
  (forall t, In t request_types -> count_true (request_kinds t) = 1%nat) /\
  (forall t, In t response_types -> count_true (response_kinds t) = 1%nat).
Proof.
  split; intros t H; cbn in H; repeat (destruct H as [<-|H]; [vm_compute; reflexivity|]); contradiction.
Qed.

(* the umbrella predicates are exactly the unions the handlers rely on *)
Theorem umbrella_predicates :
  (forall t, req_IsVoucher t = (msgtype_eqb t VoucherMessage || req_IsNew t)) /\
  (forall t, resp_IsValidationResult t =
             (msgtype_eqb t VoucherResultMessage || resp_IsNew t || resp_IsComplete t || resp_IsRestart t)).
Proof. split; intros t; reflexivity. Qed.

(* the hand-written predicates of Msg.v (used by the node model) are the generated ones *)
Theorem msg_predicates_are_generated :
  forall m, Msg.is_new m = req_IsNew (Msg.g_type m) /\ Msg.is_restart m = req_IsRestart (Msg.g_type m) /\
            Msg.is_update m = req_IsUpdate (Msg.g_type m) /\ Msg.is_cancel m = req_IsCancel (Msg.g_type m) /\
            Msg.is_complete m = resp_IsComplete (Msg.g_type m) /\
            Msg.is_restart_existing m = req_IsRestartExistingChannelRequest (Msg.g_type m) /\
            Msg.is_voucher m = req_IsVoucher (Msg.g_type m) /\
            Msg.is_validation_result m = resp_IsValidationResult (Msg.g_type m).
Proof. intros m. repeat split. Qed.

(* the published, append-only numbering of message types *)
Theorem message_type_numbering :
  map msgtype_code [NewMessage; UpdateMessage; CancelMessage; CompleteMessage; VoucherMessage; VoucherResultMessage;
                    RestartMessage; RestartExistingChannelRequestMessage] = [0; 1; 2; 3; 4; 5; 6; 7]%N /\
  List.length all_msgtype = 8%nat.
Proof. split; reflexivity. Qed.

(* a validation response reports acceptance precisely when validation succeeded and accepted *)
Theorem validation_response_acceptance :
  forall t tid vr err paused,
    Msg.g_accepted (Msg.validation_result_response t tid vr err paused) = (negb err && Msg.vr_accepted vr).
Proof. reflexivity. Qed.
