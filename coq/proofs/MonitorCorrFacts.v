(* every macro step of the correspondence harness is a schedule of the fine-grained monitor model,
   so the theorems over all schedules of Monitor.mon_step cover everything the harness exercises *)
From Coq Require Import List NArith ZArith Bool Lia Arith.
From DT Require Import Monitor MonitorCorr C14Proofs.
Import ListNotations.

Lemma mon_run_app c : forall l1 l2 m,
  mon_run c m (l1 ++ l2) =
  let '(m1, o1) := mon_run c m l1 in let '(m2, o2) := mon_run c m1 l2 in (m2, o1 ++ o2).
Proof.
  intros l1 l2. revert l1. induction l2 as [|l l2 IH] using rev_ind; intros l1 m.
  - rewrite app_nil_r. destruct (mon_run c m l1) as [m1 o1]. cbn. rewrite app_nil_r. reflexivity.
  - rewrite app_assoc, mon_run_snoc, IH. destruct (mon_run c m l1) as [m1 o1].
    rewrite mon_run_snoc. destruct (mon_run c m1 l2) as [m2 o2]. destruct (mon_step c m2 l) as [m3 o3].
    rewrite app_assoc. reflexivity.
Qed.

Lemma mon_run_one c m l : mon_run c m [l] = mon_step c m l.
Proof. unfold mon_run. cbn. destruct (mon_step c m l). reflexivity. Qed.

Lemma settle_is_run c short : forall fuel m, exists ls, settle c short fuel m = mon_run c m ls.
Proof.
  induction fuel as [|f IH]; intros m; cbn [settle].
  - exists []. reflexivity.
  - destruct (mo_pc m) eqn:P; try (exists []; reflexivity).
    + destruct (mon_step c m LLoopStep) as [m1 o1] eqn:E. destruct (IH m1) as [ls Hls].
      exists (LLoopStep :: ls). change (LLoopStep :: ls) with ([LLoopStep] ++ ls).
      rewrite mon_run_app, mon_run_one, E, Hls. reflexivity.
    + destruct (short || mo_shut m); [|exists []; reflexivity].
      destruct (mon_step c m LBackoffDone) as [m1 o1] eqn:E. destruct (IH m1) as [ls Hls].
      exists (LBackoffDone :: ls). change (LBackoffDone :: ls) with ([LBackoffDone] ++ ls).
      rewrite mon_run_app, mon_run_one, E, Hls. reflexivity.
Qed.

Theorem hstep_is_run c short m h : exists ls, hstep c short m h = mon_run c m ls.
Proof.
  unfold hstep. change (run_labels c m (labels_of h)) with (mon_run c m (labels_of h)).
  destruct (mon_run c m (labels_of h)) as [m1 o1] eqn:E.
  destruct (settle_is_run c short 6 m1) as [ls Hls].
  exists (labels_of h ++ ls). rewrite mon_run_app, E, Hls. reflexivity.
Qed.
