(* C08 (cache level): the data limit pauses exactly at the report that reaches it.
   Model: Caches.fire / set_limit over the generated FSM actions. *)
From Coq Require Import List NArith ZArith String Bool Lia.
From RecordUpdate Require Import RecordSet.
From DT Require Import GenStatus GenEvent FsmTypes GenFsm Fsm FsmFacts Caches C07Proofs.
Import ListNotations RecordSetNotations.
Local Open Scope Z_scope.

(* the progress cache is absent or agrees with the durable record *)
Definition pg_ok (k : kind) (c : chan) (cc : ccache) : Prop :=
  pg cc = None \/ pg cc = Some (c_limit c, durable_total k c).

(* report events never touch the limit or the finalization flag; DataLimitExceeded marks the
   responder paused -- facts of the generated actions *)
Lemma data_event_ctl k a t : fold_left (act_ctl a) (acts_of (data_event k)) t = t.
Proof. destruct t as [[[ip rp] rf] lim]. destruct k; reflexivity. Qed.
Lemma progress_event_ctl k a t : fold_left (act_ctl a) (acts_of (progress_event k)) t = t.
Proof. destruct t as [[[ip rp] rf] lim]. destruct k; reflexivity. Qed.
Lemma limit_exceeded_ctl a t :
  fold_left (act_ctl a) (acts_of DataLimitExceeded) t = let '(ip, rp, rf, lim) := t in (ip, true, rf, lim).
Proof. destruct t as [[[ip rp] rf] lim]. reflexivity. Qed.
Lemma set_limit_ctl a t :
  fold_left (act_ctl a) (acts_of SetDataLimit) t = let '(ip, rp, rf, lim) := t in (ip, rp, rf, a_uint a).
Proof. destruct t as [[[ip rp] rf] lim]. reflexivity. Qed.
Lemma set_limit_acct a t : fold_left (act_acct a) (acts_of SetDataLimit) t = t.
Proof. destruct t as [[[[[q s] r] qb] sb] rb]. reflexivity. Qed.

Lemma set_limit_valid : forall s, valid_in SetDataLimit s = true /\ next_status SetDataLimit s = s.
Proof. intros s; destruct s; split; vm_compute; reflexivity. Qed.

Definition limit_of (t : ctl) : N := let '(_, _, _, l) := t in l.
Definition rpaused_of (t : ctl) : bool := let '(_, rp, _, _) := t in rp.
Lemma c_limit_ctl c : c_limit c = limit_of (ctl_of c).
Proof. reflexivity. Qed.
Lemma c_rpaused_ctl c : c_rpaused c = rpaused_of (ctl_of c).
Proof. reflexivity. Qed.

Lemma apply_report_event_ctl c e :
  transferring (c_status c) = true ->
  In (fst e) [DataQueued; DataSent; DataReceived; DataQueuedProgress; DataSentProgress;
              DataReceivedProgress; DataLimitExceeded] ->
  ctl_of (apply_chan c e) = fold_left (act_ctl (snd e)) (acts_of (fst e)) (ctl_of c).
Proof.
  intros Ht Hin. destruct (transferring_valid _ _ Ht Hin) as [V _].
  rewrite apply_chan_ctl, V. reflexivity.
Qed.

(* control fields after the event lists of fire *)
Lemma ctl_after_events k c p sz (pause : bool) :
  transferring (c_status c) = true ->
  let c' := fold_left apply_chan
              ([(progress_event k, uint_arg sz); (data_event k, int_arg p)] ++
               (if pause then [(DataLimitExceeded, no_arg)] else [])) c in
  c_limit c' = c_limit c /\ (pause = true -> c_rpaused c' = true).
Proof.
  intros Ht.
  destruct (apply_report_event c (progress_event k, uint_arg sz) Ht (progress_event_in k)) as [S1 _].
  pose proof (apply_report_event_ctl c (progress_event k, uint_arg sz) Ht (progress_event_in k)) as C1.
  set (c1 := apply_chan c (progress_event k, uint_arg sz)) in *.
  assert (Ht1 : transferring (c_status c1) = true) by (rewrite S1; exact Ht).
  destruct (apply_report_event c1 (data_event k, int_arg p) Ht1 (data_event_in k)) as [S2 _].
  pose proof (apply_report_event_ctl c1 (data_event k, int_arg p) Ht1 (data_event_in k)) as C2.
  set (c2 := apply_chan c1 (data_event k, int_arg p)) in *.
  assert (Ht2 : transferring (c_status c2) = true) by (rewrite S2; exact Ht1).
  cbn [fst snd] in C1, C2. rewrite progress_event_ctl in C1. rewrite data_event_ctl in C2.
  destruct pause; cbn [app fold_left]; fold c1; fold c2.
  - assert (Hin : In (fst (DataLimitExceeded, no_arg)) [DataQueued; DataSent; DataReceived;
              DataQueuedProgress; DataSentProgress; DataReceivedProgress; DataLimitExceeded])
      by (cbn; tauto).
    pose proof (apply_report_event_ctl c2 (DataLimitExceeded, no_arg) Ht2 Hin) as C3.
    cbn [fst snd] in C3. rewrite limit_exceeded_ctl in C3.
    rewrite !c_limit_ctl, c_rpaused_ctl, C3, C2, C1.
    destruct (ctl_of c) as [[[ip rp] rf] lim]. cbn. split; [reflexivity|intros _; reflexivity].
  - rewrite !c_limit_ctl, C2, C1. split; [reflexivity|discriminate].
Qed.

(* the pause decision of one report, in terms of the durable record *)
Theorem pause_iff_reaches_limit :
  forall k c cc r,
    limited k = true -> r_kind r = k ->
    transferring (c_status c) = true -> (durable_total k c < two64)%N ->
    pg_ok k c cc ->
    let '(c', cc', pause) := report_step (c, cc) r in
    let adv := snd (mark_step (ix k cc, durable_index k c) r) in
    pause = adv && negb (N.eqb (c_limit c) 0) && N.leb (c_limit c) (durable_total k c') /\
    (pause = true -> c_rpaused c' = true) /\
    c_limit c' = c_limit c /\
    pg_ok k c' cc'.
Proof.
  intros k c cc r Hlim Hk Ht Hlt Hpg.
  pose proof (report_step_mark k c cc r Hk Ht Hlt) as HM.
  unfold report_step, fire, mark_step in *. rewrite Hk in *. rewrite Hlim in *.
  destruct (r_unique r); cbn [negb] in *.
  - destruct (Z.leb (r_index r) (match ix k cc with Some v => v | None => durable_index k c end)) eqn:Hle.
    + (* not advancing *)
      destruct HM as [_ [_ [_ [_ T]]]]. cbn [snd andb].
      destruct (apply_data_only k c (r_index r) Ht) as [_ [T' _]].
      repeat split; try discriminate.
      * pose proof (apply_report_event_ctl c (data_event k, int_arg (r_index r)) Ht (data_event_in k)) as C.
        cbn [fst snd] in C. rewrite data_event_ctl in C. cbn [fold_left]. rewrite !c_limit_ctl, C. reflexivity.
      * cbn [fold_left]. pose proof (apply_report_event_ctl c (data_event k, int_arg (r_index r)) Ht (data_event_in k)) as C.
        cbn [fst snd] in C. rewrite data_event_ctl in C.
        destruct Hpg as [Hn|Hs]; [left|right].
        -- destruct k; cbn; exact Hn.
        -- replace (pg (set_ix k _ cc)) with (pg cc) by (destruct k; reflexivity).
           rewrite Hs. cbn [fold_left] in T'. rewrite T'. rewrite !c_limit_ctl, C. reflexivity.
    + (* advancing *)
      cbn [negb] in *.
      assert (Hpg' : match pg (set_ix k (r_index r) cc) with
                     | Some p0 => p0 | None => (c_limit c, durable_total k c) end
                     = (c_limit c, durable_total k c)).
      { replace (pg (set_ix k (r_index r) cc)) with (pg cc) by (destruct k; reflexivity).
        destruct Hpg as [-> | ->]; reflexivity. }
      rewrite Hpg' in *.
      set (pause := negb (N.eqb (c_limit c) 0) &&
                    N.leb (c_limit c) ((durable_total k c + r_size r) mod two64)%N) in *.
      destruct HM as [_ [_ [_ [_ T]]]]. cbn [snd andb].
      destruct (ctl_after_events k c (r_index r) (r_size r) pause Ht) as [L P].
      repeat split.
      * rewrite T. unfold pause. reflexivity.
      * exact P.
      * exact L.
      * right.
        change (pg (set_ix k (r_index r) cc <| pg := Some (c_limit c, ((durable_total k c + r_size r) mod two64)%N) |>))
          with (Some (c_limit c, ((durable_total k c + r_size r) mod two64)%N)).
        rewrite L, T. reflexivity.
  - (* non-unique *)
    destruct HM as [_ [_ [_ [_ T]]]]. cbn [snd andb].
    destruct (apply_data_only k c (r_index r) Ht) as [_ [T' _]].
    pose proof (apply_report_event_ctl c (data_event k, int_arg (r_index r)) Ht (data_event_in k)) as C.
    cbn [fst snd] in C. rewrite data_event_ctl in C. cbn [fold_left] in *.
    repeat split; try discriminate.
    + rewrite !c_limit_ctl, C. reflexivity.
    + destruct Hpg as [Hn|Hs]; [left; exact Hn|right].
      rewrite Hs, T'. rewrite !c_limit_ctl, C. reflexivity.
Qed.

(* with limit zero no report ever returns the pause signal *)
Corollary limit_zero_never_pauses :
  forall k c cc r,
    limited k = true -> r_kind r = k ->
    transferring (c_status c) = true -> (durable_total k c < two64)%N ->
    pg_ok k c cc -> c_limit c = 0%N ->
    snd (report_step (c, cc) r) = false.
Proof.
  intros k c cc r Hlim Hk Ht Hlt Hpg H0.
  pose proof (pause_iff_reaches_limit k c cc r Hlim Hk Ht Hlt Hpg) as H.
  destruct (report_step (c, cc) r) as [[c' cc'] pause]. cbn [snd].
  destruct H as [H _]. rewrite H, H0. cbn [N.eqb negb]. rewrite andb_false_r. reflexivity.
Qed.

(* sent reports are never checked against the limit *)
Theorem sent_never_pauses : forall c cc r, r_kind r = KSent -> snd (report_step (c, cc) r) = false.
Proof.
  intros c cc r Hk. unfold report_step, fire. rewrite Hk. cbn [limited negb].
  destruct (r_unique r); cbn [negb snd]; [|reflexivity].
  destruct (Z.leb _ _); reflexivity.
Qed.

(* SetDataLimit: the durable limit and the cached limit change together *)
Theorem setlimit_updates_cache_and_store :
  forall k c cc l,
    pg_ok k c cc ->
    let '(cc', evs) := set_limit cc l in
    let c' := fold_left apply_chan evs c in
    c_limit c' = l /\ durable_total k c' = durable_total k c /\ c_status c' = c_status c /\
    pg_ok k c' cc'.
Proof.
  intros k c cc l Hpg. unfold set_limit. cbn [fold_left].
  destruct (set_limit_valid (c_status c)) as [V N].
  assert (C : ctl_of (apply_chan c (SetDataLimit, uint_arg l)) =
              let '(ip, rp, rf, _) := ctl_of c in (ip, rp, rf, l)).
  { rewrite apply_chan_ctl. cbn [fst snd]. rewrite V, set_limit_ctl. reflexivity. }
  assert (A : acct_of (apply_chan c (SetDataLimit, uint_arg l)) = acct_of c).
  { rewrite apply_chan_acct. cbn [fst snd]. rewrite V, set_limit_acct. reflexivity. }
  assert (L : c_limit (apply_chan c (SetDataLimit, uint_arg l)) = l).
  { rewrite c_limit_ctl, C. destruct (ctl_of c) as [[[ip rp] rf] lim]. reflexivity. }
  assert (T : durable_total k (apply_chan c (SetDataLimit, uint_arg l)) = durable_total k c).
  { rewrite !durable_total_tot, A. reflexivity. }
  repeat split; try assumption.
  - rewrite apply_chan_status. exact N.
  - destruct Hpg as [Hn|Hs].
    + left. rewrite Hn. exact Hn.
    + right. rewrite Hs.
      change (pg (cc <| pg := Some (l, durable_total k c) |>)) with (Some (l, durable_total k c)).
      rewrite L, T. reflexivity.
Qed.

(* the limit and the progress survive a process restart: the record is untouched and the
   empty caches are consistent with it, so the same rule applies at the same totals *)
Theorem limit_and_progress_survive_restart :
  forall k c cc, fst (crash (c, cc)) = c /\ pg_ok k (fst (crash (c, cc))) (snd (crash (c, cc))).
Proof. intros k c cc. split; [reflexivity| left; reflexivity]. Qed.
