(* C20 (lock-order part): a rank that strictly increases along "held -> acquired" excludes
   deadlock among the library's locks; the generated lock graph has such a rank. *)
From Coq Require Import List String Arith Bool Lia.
From DT Require Import GenLocks Locks.
Import ListNotations.

(* ---------- the generated graph ---------- *)
Theorem lock_rank_respects_edges : rank_respects_edges = true.
Proof. vm_compute. reflexivity. Qed.

Theorem lock_justifications_current : justifications_current = true.
Proof. vm_compute. reflexivity. Qed.

Corollary effective_edge_increases_rank :
  forall a b, In (a, b) effective_edges -> lock_rank a < lock_rank b.
Proof.
  intros a b H. pose proof lock_rank_respects_edges as R. unfold rank_respects_edges in R.
  rewrite forallb_forall in R. specialize (R (a, b) H). apply Nat.ltb_lt in R. exact R.
Qed.

Corollary no_lock_is_reacquired : forall a, ~ In (a, a) effective_edges.
Proof. intros a H. apply effective_edge_increases_rank in H. lia. Qed.

(* ---------- why a rank excludes deadlock ---------- *)
(* Abstract model: each blocked thread waits for one lock and holds some; `held_by t l` says
   thread t holds lock l.  A deadlock is a cycle of threads each waiting for a lock held by the
   next.  If every (held, awaited) pair of every thread is an edge of a relation along which the
   rank strictly increases, no such cycle exists. *)
Section NoDeadlock.
  Variable thread lock : Type.
  Variable rank : lock -> nat.
  Variable waits : thread -> lock.
  Variable held_by : thread -> lock -> Prop.
  (* the discipline: a thread only waits for locks ranked above everything it holds *)
  Hypothesis ordered : forall t l, held_by t l -> rank l < rank (waits t).

  (* t1 waits for a lock that t2 holds *)
  Definition blocked_on (t1 t2 : thread) : Prop := held_by t2 (waits t1).

  Fixpoint chain (t : thread) (l : list thread) : Prop :=
    match l with
    | [] => True
    | u :: r => blocked_on t u /\ chain u r
    end.

  Lemma last_cons (u t : thread) r : last (u :: r) t = last r u.
  Proof. revert u. induction r as [|v r IH]; intros u; [reflexivity|]. cbn [last] in *. destruct r; [reflexivity|apply IH]. Qed.

  Lemma chain_rank : forall l t, chain t l -> rank (waits t) <= rank (waits (last l t)).
  Proof.
    induction l as [|u r IH]; intros t H; [cbn; lia|].
    destruct H as [H1 H2]. specialize (IH u H2). apply ordered in H1. rewrite last_cons. lia.
  Qed.

  (* no cycle t -> ... -> t of blocked threads *)
  Theorem no_deadlock_cycle : forall t l, chain t l -> l <> [] -> last l t = t -> False.
  Proof.
    intros t l H Hne Hc. destruct l as [|u r]; [congruence|]. destruct H as [H1 H2].
    pose proof (chain_rank r u H2) as R. apply ordered in H1.
    rewrite last_cons in Hc. rewrite Hc in R. lia.
  Qed.
End NoDeadlock.

(* instance: threads of the library.  If every (held, awaited) pair is an effective edge of the
   generated graph -- which is what the static analysis over-approximates, up to the justified
   infeasible paths -- then no set of threads is deadlocked on library locks *)
Theorem library_locks_deadlock_free :
  forall (thread : Type) (waits : thread -> nat) (held_by : thread -> nat -> Prop),
    (forall t l, held_by t l -> In (l, waits t) effective_edges) ->
    forall t l, chain thread nat waits held_by t l -> l <> [] -> last l t = t -> False.
Proof.
  intros thread waits held_by H. apply (no_deadlock_cycle thread nat lock_rank waits held_by).
  intros t l Hh. apply effective_edge_increases_rank. apply H. exact Hh.
Qed.
