(* Facts about the go-statemachine model (Machine.v) that hold for every schedule. *)
From Coq Require Import List NArith ZArith String Bool Lia Arith.
From RecordUpdate Require Import RecordSet.
From DT Require Import GenStatus GenEvent FsmTypes GenFsm Fsm Machine FsmFacts.
Import ListNotations RecordSetNotations.

Definition b2n (b : bool) : nat := if b then 1 else 0.

Definition is_cleanup_out (o : mout) : bool := match o with OCleanupChannel _ => true | _ => false end.
Definition is_unprotect_out (o : mout) : bool := match o with OUnprotect _ _ => true | _ => false end.
Definition is_start_out (o : mout) : bool := match o with OPlanned _ _ true => true | _ => false end.

Definition count (f : mout -> bool) (l : list mout) : nat := List.length (filter f l).

Lemma count_app f a b : count f (a ++ b) = count f a + count f b.
Proof. unfold count. rewrite filter_app, app_length. reflexivity. Qed.

Lemma count_map_dropped f (q : list ev) :
  (forall e, f (ODropped e) = false) -> count f (map (fun x => ODropped (fst x)) q) = 0.
Proof.
  intros H. unfold count. induction q as [|x q IH]; cbn; [reflexivity|]. rewrite H. exact IH.
Qed.

(* a state entry function is running *)
Definition pending (m : mstate) : nat := b2n (m_handler m && negb (m_dead m)).

(* the entry function releases the transport channel and un-protects the peer exactly once,
   and its only trigger is CleanupComplete -- facts of the generated entry_prog *)
Definition count_step (f : EntryStep -> bool) : nat := List.length (filter f entry_prog).
Definition entry_prog_ok : bool :=
  Nat.eqb (count_step (fun s => match s with ECleanupChannel => true | _ => false end)) 1 &&
  Nat.eqb (count_step (fun s => match s with EUnprotectOther => true | _ => false end)) 1 &&
  match filter (fun s => match s with ETrigger _ => true | _ => false end) entry_prog with
  | [ETrigger CleanupComplete] => true
  | _ => false
  end.

Lemma entry_prog_checked : entry_prog_ok = true.
Proof. vm_compute. reflexivity. Qed.

Lemma run_entry_counts c p :
  count is_cleanup_out (fst (run_entry c p)) =
    List.length (filter (fun s => match s with ECleanupChannel => true | _ => false end) p) /\
  count is_unprotect_out (fst (run_entry c p)) =
    List.length (filter (fun s => match s with EUnprotectOther => true | _ => false end) p) /\
  count is_start_out (fst (run_entry c p)) = 0 /\
  map fst (snd (run_entry c p)) =
    flat_map (fun s => match s with ETrigger e => [e] | _ => [] end) p.
Proof.
  induction p as [|s p IH]; cbn; [repeat split; reflexivity|].
  destruct IH as [A [B [C D]]].
  destruct s; cbn; destruct (run_entry c p) as [o t]; cbn in *; unfold count in *; cbn;
    repeat split; try lia; try assumption; try (f_equal; assumption).
Qed.

Lemma entry_outputs c :
  count is_cleanup_out (fst (run_entry c entry_prog)) = 1 /\
  count is_unprotect_out (fst (run_entry c entry_prog)) = 1 /\
  count is_start_out (fst (run_entry c entry_prog)) = 0 /\
  map fst (snd (run_entry c entry_prog)) = [CleanupComplete].
Proof.
  destruct (run_entry_counts c entry_prog) as [A [B [C D]]].
  pose proof entry_prog_checked as H. unfold entry_prog_ok, count_step in H.
  apply andb_true_iff in H. destruct H as [H H3]. apply andb_true_iff in H. destruct H as [H1 H2].
  apply Nat.eqb_eq in H1. apply Nat.eqb_eq in H2.
  repeat split; try congruence.
Qed.

(* planned events of a trace *)
Definition planned (o : list mout) : list (EventCode * Status * bool) :=
  flat_map (fun x => match x with OPlanned e s h => [(e, s, h)] | _ => [] end) o.

Lemma planned_app a b : planned (a ++ b) = planned a ++ planned b.
Proof. unfold planned. apply flat_map_app. Qed.

Lemma planned_dropped (q : list ev) : planned (map (fun x => ODropped (fst x)) q) = [].
Proof. induction q; cbn; auto. Qed.

Lemma planned_entry c : planned (fst (run_entry c entry_prog)) = [].
Proof.
  generalize entry_prog. induction l as [|s p IH]; cbn; [reflexivity|].
  destruct s; cbn; destruct (run_entry c p) as [o t]; cbn in *; exact IH.
Qed.

Lemma run_entry_in_cleanup c p :
  In ECleanupChannel p -> In (OCleanupChannel (chan_id c)) (fst (run_entry c p)).
Proof.
  induction p as [|s p IH]; cbn; [tauto|]. intros [H|H].
  - subst s. cbn. destruct (run_entry c p); cbn. left; reflexivity.
  - specialize (IH H). destruct s; cbn; destruct (run_entry c p); cbn in *; auto.
Qed.

Lemma run_entry_in_unprotect c p :
  In EUnprotectOther p -> In (OUnprotect (cleanup_other c) (chan_id c)) (fst (run_entry c p)).
Proof.
  induction p as [|s p IH]; cbn; [tauto|]. intros [H|H].
  - subst s. cbn. destruct (run_entry c p); cbn. left; reflexivity.
  - specialize (IH H). destruct s; cbn; destruct (run_entry c p); cbn in *; auto.
Qed.

Lemma entry_prog_has_both : In ECleanupChannel entry_prog /\ In EUnprotectOther entry_prog.
Proof.
  pose proof entry_prog_checked as H. unfold entry_prog_ok, count_step in H.
  apply andb_true_iff in H. destruct H as [H _]. apply andb_true_iff in H. destruct H as [H1 H2].
  apply Nat.eqb_eq in H1. apply Nat.eqb_eq in H2.
  split.
  - destruct (filter (fun s => match s with ECleanupChannel => true | _ => false end) entry_prog) as [|x l] eqn:F;
      [discriminate H1|].
    assert (In x (x :: l)) as I by (left; reflexivity). rewrite <- F in I. apply filter_In in I.
    destruct I as [I1 I2]. destruct x; try discriminate I2. exact I1.
  - destruct (filter (fun s => match s with EUnprotectOther => true | _ => false end) entry_prog) as [|x l] eqn:F;
      [discriminate H2|].
    assert (In x (x :: l)) as I by (left; reflexivity). rewrite <- F in I. apply filter_In in I.
    destruct I as [I1 I2]. destruct x; try discriminate I2. exact I1.
Qed.

(* ---- handler starts versus cleanup runs, for every schedule ---- *)
Local Arguments is_final : simpl never.
Local Arguments apply : simpl never.
Local Arguments run_entry : simpl never.
Local Arguments entry_prog : simpl never.

Lemma count_cons f x l : count f (x :: l) = b2n (f x) + count f l.
Proof. unfold count; cbn. destruct (f x); reflexivity. Qed.
Lemma count_nil f : count f [] = 0.
Proof. reflexivity. Qed.
Local Arguments count : simpl never.

Ltac count_norm :=
  rewrite ?count_cons, ?count_nil, ?count_app;
  rewrite ?(count_map_dropped is_cleanup_out), ?(count_map_dropped is_unprotect_out),
          ?(count_map_dropped is_start_out) by reflexivity;
  cbn [b2n is_cleanup_out is_unprotect_out is_start_out negb andb].

Lemma step_balance m l m' o :
  m_step m l = (m', o) ->
  count is_cleanup_out o + pending m' = count is_start_out o + pending m /\
  count is_unprotect_out o + pending m' = count is_start_out o + pending m.
Proof.
  unfold pending. destruct l as [e| |]; cbn.
  - destruct (m_dead m) eqn:Hd; intros H; inversion H; subst; cbn; rewrite ?Hd; count_norm; lia.
  - destruct (m_dead m) eqn:Hd; cbn.
    { intros H; inversion H; subst; rewrite Hd; count_norm; lia. }
    destruct (m_handler m) eqn:Hh; cbn.
    { intros H; inversion H; subst; rewrite Hd, Hh; count_norm; lia. }
    destruct (m_queue m) as [|e q] eqn:Hq.
    { intros H; inversion H; subst; rewrite Hd, Hh; count_norm; lia. }
    destruct (is_final (c_status (m_chan m))) eqn:Hf.
    { intros H; inversion H; subst; cbn; rewrite Hh; count_norm; cbn; lia. }
    destruct (apply (m_chan m) e) as [|c' h] eqn:Ha.
    { intros H; inversion H; subst; cbn; rewrite Hd, Hh; count_norm; lia. }
    destruct (is_final (c_status c')) eqn:Hf'.
    + intros H; inversion H; subst; cbn; count_norm; lia.
    + intros H; inversion H; subst; cbn; count_norm. destruct h; cbn; lia.
  - destruct (m_handler m) eqn:Hh; cbn.
    2:{ intros H; inversion H; subst; rewrite Hh; cbn; count_norm; lia. }
    destruct (m_dead m) eqn:Hd; cbn.
    { intros H; inversion H; subst; rewrite Hd, Hh; cbn; count_norm; lia. }
    destruct (run_entry (m_chan m) entry_prog) as [o' t] eqn:He.
    intros H; inversion H; subst; cbn. cbn.
    destruct (entry_outputs (m_chan m)) as [A [B [C _]]]. rewrite He in A, B, C. cbn in A, B, C.
    lia.
Qed.

Lemma m_run_snoc m ls l :
  m_run m (ls ++ [l]) =
  let '(m1, o1) := m_run m ls in let '(m2, o2) := m_step m1 l in (m2, o1 ++ o2).
Proof.
  unfold m_run. rewrite fold_left_app. cbn.
  destruct (fold_left _ ls (m, [])) as [m1 o1]. cbn. destruct (m_step m1 l). reflexivity.
Qed.

Theorem run_balance : forall ls m m' o,
  m_run m ls = (m', o) ->
  count is_cleanup_out o + pending m' = count is_start_out o + pending m /\
  count is_unprotect_out o + pending m' = count is_start_out o + pending m.
Proof.
  induction ls as [|l ls IH] using rev_ind; intros m m' o H.
  - cbn in H. inversion H; subst. rewrite !count_nil. lia.
  - rewrite m_run_snoc in H. destruct (m_run m ls) as [m1 o1] eqn:H1.
    destruct (m_step m1 l) as [m2 o2] eqn:H2. inversion H; subst.
    destruct (IH _ _ _ H1) as [A B]. destruct (step_balance _ _ _ _ H2) as [C D].
    rewrite !count_app. lia.
Qed.

(* ---- which planned events start the entry function: a table fact ---- *)
Definition starts_handler (e : EventCode) (s : Status) : bool :=
  match dest_of e s with
  | Some (DTo s') => has_entry s' && negb (is_final s')
  | Some DNoChange => has_entry s
  | _ => false
  end.

(* an entering transition: the event moves the channel into a cleanup status *)
Definition entering (e : EventCode) (s : Status) : bool :=
  match dest_of e s with
  | Some (DTo s') => is_cleanup s'
  | _ => false
  end.

Definition handler_cause_check (e : EventCode) (s : Status) : bool :=
  is_final s || negb (starts_handler e s) || entering e s ||
  (event_eqb e CompleteCleanupOnRestart && is_cleanup s).

Lemma handler_cause_all : forall e s, handler_cause_check e s = true.
Proof. apply forall_event_status. vm_compute. reflexivity. Qed.

(* the handler flag recorded by Plan is starts_handler *)
Lemma apply_handler_flag c e c' h :
  apply c e = Applied c' h -> is_final (c_status c') = false ->
  h = starts_handler (fst e) (c_status c).
Proof.
  unfold apply, starts_handler. destruct (dest_of (fst e) (c_status c)) as [[s'| |]|]; cbn;
    intros H Hf; inversion H; subst; cbn in *.
  - rewrite Hf. rewrite andb_true_r. reflexivity.
  - rewrite run_acts_status. reflexivity.
  - reflexivity.
Qed.

Lemma step_planned_sound m l m' o :
  m_step m l = (m', o) ->
  forall e s h, In (e, s, h) (planned o) ->
    is_final s = false /\ (h = true -> starts_handler e s = true).
Proof.
  destruct l as [e0| |]; cbn.
  - destruct (m_dead m); intros H; inversion H; subst; cbn; intros; contradiction.
  - destruct (m_dead m || m_handler m); [intros H; inversion H; subst; cbn; intros; contradiction|].
    destruct (m_queue m) as [|e0 q]; [intros H; inversion H; subst; cbn; intros; contradiction|].
    destruct (is_final (c_status (m_chan m))) eqn:Hf.
    { intros H; inversion H; subst. intros e s h Hin.
      pose proof (planned_dropped (e0 :: q)) as P.
      change (In (e, s, h) (planned (map (fun x : EventCode * evarg => ODropped (fst x)) (e0 :: q)))) in Hin.
      rewrite P in Hin. contradiction. }
    destruct (apply (m_chan m) e0) as [|c' h0] eqn:Ha;
      [intros H; inversion H; subst; cbn; intros; contradiction|].
    destruct (is_final (c_status c')) eqn:Hf'; intros H; inversion H; subst; intros e s h Hin.
    + pose proof (planned_dropped q) as P.
      change (In (e, s, h) ((fst e0, c_status (m_chan m), false) ::
                planned (map (fun x : EventCode * evarg => ODropped (fst x)) q))) in Hin.
      rewrite P in Hin. destruct Hin as [Hin|[]].
      inversion Hin; subst. split; [exact Hf| discriminate].
    + cbn in Hin. destruct Hin as [Hin|[]]. inversion Hin; subst. split; [exact Hf|].
      intros ->. symmetry. eapply apply_handler_flag; eassumption.
  - destruct (m_handler m && negb (m_dead m));
      [|intros H; inversion H; subst; cbn; intros; contradiction].
    destruct (run_entry (m_chan m) entry_prog) as [o' t] eqn:He.
    intros H; inversion H; subst. intros e s h Hin.
    pose proof (planned_entry (m_chan m)) as P. rewrite He in P. cbn [fst] in P. rewrite P in Hin. contradiction.
Qed.

Theorem run_planned_sound : forall ls m m' o,
  m_run m ls = (m', o) ->
  forall e s h, In (e, s, h) (planned o) ->
    is_final s = false /\ (h = true -> starts_handler e s = true).
Proof.
  induction ls as [|l ls IH] using rev_ind; intros m m' o H e s h Hin.
  - cbn in H. inversion H; subst. contradiction.
  - rewrite m_run_snoc in H. destruct (m_run m ls) as [m1 o1] eqn:H1.
    destruct (m_step m1 l) as [m2 o2] eqn:H2. inversion H; subst.
    rewrite planned_app in Hin. apply in_app_or in Hin. destruct Hin as [Hin|Hin].
    + eapply IH; eassumption.
    + eapply step_planned_sound; eassumption.
Qed.

Lemma count_start_planned o :
  count is_start_out o = List.length (filter (fun p => snd p) (planned o)).
Proof.
  unfold count. induction o as [|x o IH]; cbn; [reflexivity|].
  destruct x; cbn; try exact IH. destruct handler; cbn; rewrite IH; reflexivity.
Qed.
