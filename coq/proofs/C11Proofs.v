(* C11 (FSM level): pause state is tracked per party. *)
From Coq Require Import List NArith ZArith String Bool Lia.
From RecordUpdate Require Import RecordSet.
From DT Require Import GenStatus GenEvent FsmTypes GenFsm Fsm FsmFacts.
Import ListNotations RecordSetNotations.

Definition ip_of (t : ctl) : bool := let '(ip, _, _, _) := t in ip.
Definition rp_of (t : ctl) : bool := let '(_, rp, _, _) := t in rp.

(* which flag an action may write *)
Definition writes_ip (a : Act) : bool := match a with ASetBool FInitiatorPaused _ => true | _ => false end.
Definition writes_rp (a : Act) : bool := match a with ASetBool FResponderPaused _ => true | _ => false end.

Definition initiator_events : list EventCode := [PauseInitiator; ResumeInitiator].
Definition responder_events : list EventCode := [PauseResponder; ResumeResponder; DataLimitExceeded].
Definition in_ev (e : EventCode) (l : list EventCode) : bool := existsb (event_eqb e) l.

(* only the initiator's pause/resume events write the initiator flag, only the responder's
   (incl. DataLimitExceeded) write the responder flag: decided on the generated actions *)
Definition flag_writers_ok (e : EventCode) : bool :=
  Bool.eqb (existsb writes_ip (acts_of e)) (in_ev e initiator_events) &&
  Bool.eqb (existsb writes_rp (acts_of e)) (in_ev e responder_events).
Lemma flag_writers_all : forall e, flag_writers_ok e = true.
Proof. apply forall_event. vm_compute. reflexivity. Qed.

Lemma act_ctl_ip a t act : writes_ip act = false -> ip_of (act_ctl a t act) = ip_of t.
Proof. destruct t as [[[ip rp] rf] lim]. destruct act as [f s|f b|f|f|f|f|l]; try reflexivity; destruct f; try reflexivity; discriminate. Qed.
Lemma act_ctl_rp a t act : writes_rp act = false -> rp_of (act_ctl a t act) = rp_of t.
Proof. destruct t as [[[ip rp] rf] lim]. destruct act as [f s|f b|f|f|f|f|l]; try reflexivity; destruct f; try reflexivity; discriminate. Qed.

Lemma fold_ctl_ip a l : existsb writes_ip l = false -> forall t, ip_of (fold_left (act_ctl a) l t) = ip_of t.
Proof.
  induction l as [|x l IH]; cbn; intros H t; [reflexivity|].
  apply orb_false_iff in H. destruct H as [Hx Hl]. rewrite (IH Hl). apply act_ctl_ip; exact Hx.
Qed.
Lemma fold_ctl_rp a l : existsb writes_rp l = false -> forall t, rp_of (fold_left (act_ctl a) l t) = rp_of t.
Proof.
  induction l as [|x l IH]; cbn; intros H t; [reflexivity|].
  apply orb_false_iff in H. destruct H as [Hx Hl]. rewrite (IH Hl). apply act_ctl_rp; exact Hx.
Qed.

Lemma in_ev_In e l : in_ev e l = true <-> In e l.
Proof.
  unfold in_ev; rewrite existsb_exists; split.
  - intros [x [Hx He]]. apply event_eqb_eq in He. subst; exact Hx.
  - intros H; exists e; split; [exact H| apply event_eqb_eq; reflexivity].
Qed.

(* pausing or resuming one party never changes the other party's flag; no other event
   changes either flag *)
Theorem pause_flags_independent :
  forall c e,
    (~ In (fst e) initiator_events -> c_ipaused (apply_chan c e) = c_ipaused c) /\
    (~ In (fst e) responder_events -> c_rpaused (apply_chan c e) = c_rpaused c).
Proof.
  intros c e.
  pose proof (flag_writers_all (fst e)) as H. unfold flag_writers_ok in H.
  apply andb_true_iff in H. destruct H as [H1 H2].
  apply eqb_prop in H1. apply eqb_prop in H2.
  change (c_ipaused (apply_chan c e)) with (ip_of (ctl_of (apply_chan c e))).
  change (c_rpaused (apply_chan c e)) with (rp_of (ctl_of (apply_chan c e))).
  change (c_ipaused c) with (ip_of (ctl_of c)). change (c_rpaused c) with (rp_of (ctl_of c)).
  rewrite apply_chan_ctl. split; intros Hn; destruct (valid_in (fst e) (c_status c)); try reflexivity.
  - apply fold_ctl_ip. rewrite H1. apply not_true_iff_false. intros Hin. apply Hn. apply in_ev_In. exact Hin.
  - apply fold_ctl_rp. rewrite H2. apply not_true_iff_false. intros Hin. apply Hn. apply in_ev_In. exact Hin.
Qed.

(* where the event is valid, the flag follows the action exactly *)
Definition flag_value_ok (e : EventCode) : bool :=
  match e with
  | PauseInitiator => existsb (fun a => match a with ASetBool FInitiatorPaused (BLit true) => true | _ => false end) (acts_of e)
  | ResumeInitiator => existsb (fun a => match a with ASetBool FInitiatorPaused (BLit false) => true | _ => false end) (acts_of e)
  | PauseResponder | DataLimitExceeded => existsb (fun a => match a with ASetBool FResponderPaused (BLit true) => true | _ => false end) (acts_of e)
  | ResumeResponder => existsb (fun a => match a with ASetBool FResponderPaused (BLit false) => true | _ => false end) (acts_of e)
  | _ => true
  end.
Lemma flag_value_all : forall e, flag_value_ok e = true.
Proof. apply forall_event. vm_compute. reflexivity. Qed.

Theorem flags_follow_actions_where_valid :
  forall c a,
    (valid_in PauseInitiator (c_status c) = true -> c_ipaused (apply_chan c (PauseInitiator, a)) = true) /\
    (valid_in ResumeInitiator (c_status c) = true -> c_ipaused (apply_chan c (ResumeInitiator, a)) = false) /\
    (valid_in PauseResponder (c_status c) = true -> c_rpaused (apply_chan c (PauseResponder, a)) = true) /\
    (valid_in DataLimitExceeded (c_status c) = true -> c_rpaused (apply_chan c (DataLimitExceeded, a)) = true) /\
    (valid_in ResumeResponder (c_status c) = true -> c_rpaused (apply_chan c (ResumeResponder, a)) = false).
Proof.
  intros c a.
  repeat split; intros V;
    match goal with
    | |- c_ipaused (apply_chan c ?e) = _ => change (c_ipaused (apply_chan c e)) with (ip_of (ctl_of (apply_chan c e)))
    | |- c_rpaused (apply_chan c ?e) = _ => change (c_rpaused (apply_chan c e)) with (rp_of (ctl_of (apply_chan c e)))
    end; rewrite apply_chan_ctl; cbn [fst snd]; rewrite V;
    destruct (ctl_of c) as [[[ip rp] rf] lim]; reflexivity.
Qed.

(* requests in statuses where they are meaningless are ignored: the record is unchanged *)
Theorem meaningless_pause_ignored :
  forall c e, valid_in (fst e) (c_status c) = false -> apply_chan c e = c.
Proof.
  intros c e H. unfold apply_chan, apply. unfold valid_in in H.
  destruct (dest_of (fst e) (c_status c)); [discriminate|reflexivity].
Qed.

(* the derived views *)
Theorem both_is_conjunction : forall c,
  both_paused_view c = initiator_paused_view c && responder_paused_view c.
Proof. reflexivity. Qed.

Theorem self_paused_is_local_role : forall c,
  (c_self c = c_init c -> self_paused_view c = initiator_paused_view c) /\
  (c_self c <> c_init c -> self_paused_view c = responder_paused_view c).
Proof.
  intros c. unfold self_paused_view. split; intros H.
  - rewrite H, N.eqb_refl. reflexivity.
  - apply N.eqb_neq in H. rewrite H. reflexivity.
Qed.

Theorem finalizing_counts_as_paused : forall c,
  c_status c = Finalizing -> responder_paused_view c = true.
Proof. intros c H. unfold responder_paused_view. rewrite H. apply orb_true_r. Qed.

(* the statuses in which pause/resume are meaningful, read from the generated table *)
Example pause_valid_statuses :
  filter (valid_in PauseInitiator) all_status = [Requested; Ongoing; Queued; AwaitingAcceptance] /\
  filter (valid_in PauseResponder) all_status = [Requested; Ongoing; TransferFinished; Queued; AwaitingAcceptance].
Proof. split; vm_compute; reflexivity. Qed.

(* while data may still flow, pausing and resuming are never meaningless: a paused side can always
   resume (so its flag cannot get stuck), and every party can pause in the pre-transfer and
   transferring statuses it can be in *)
Definition resume_ok (s : Status) : bool :=
  (negb (in_status s TransferringStates || status_eqb s Requested || status_eqb s Queued) ||
   valid_in ResumeInitiator s) &&
  (negb (status_eqb s Requested || status_eqb s Queued || status_eqb s Ongoing || status_eqb s AwaitingAcceptance) ||
   (valid_in ResumeResponder s && valid_in PauseResponder s && valid_in PauseInitiator s)).
Lemma resume_ok_all : forall s, resume_ok s = true.
Proof. apply forall_status. vm_compute. reflexivity. Qed.

Theorem resume_valid_while_transferring :
  forall s,
    (In s TransferringStates \/ s = Requested \/ s = Queued -> valid_in ResumeInitiator s = true) /\
    (s = Requested \/ s = Queued \/ s = Ongoing \/ s = AwaitingAcceptance ->
       valid_in ResumeResponder s = true /\ valid_in PauseResponder s = true /\ valid_in PauseInitiator s = true).
Proof.
  intros s. pose proof (resume_ok_all s) as H. unfold resume_ok in H.
  apply andb_true_iff in H. destruct H as [H1 H2]. split.
  - intros Hin. apply orb_true_iff in H1. destruct H1 as [H1|H1]; [|exact H1].
    apply negb_true_iff in H1. exfalso.
    assert (in_status s TransferringStates || status_eqb s Requested || status_eqb s Queued = true) as C.
    { destruct Hin as [Hin|[->| ->]].
      - unfold in_status. apply orb_true_iff; left. apply orb_true_iff; left.
        apply existsb_exists. exists s. split; [exact Hin| apply status_eqb_refl].
      - reflexivity.
      - reflexivity. }
    congruence.
  - intros Hin. apply orb_true_iff in H2. destruct H2 as [H2|H2].
    + apply negb_true_iff in H2. exfalso. destruct Hin as [->|[->|[->| ->]]]; discriminate H2.
    + apply andb_true_iff in H2. destruct H2 as [H2 H3]. apply andb_true_iff in H2. tauto.
Qed.
