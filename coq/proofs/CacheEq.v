(* The cache decisions that C07 and C08 rest on are the ones in the source.  gen/GenCaches.v is regenerated
   from channels/caches.go on every run (tools/dt2coq/caches.go): whether a report advances the high-water
   mark and what the mark becomes (blockIndexCache.updateIfGreater), the pause signal from the cached limit
   and the total after the one atomic add (progressCache.progress), and what a limit update does to the cache
   (progressCache.setDataLimit).  Here Caches.fire and Caches.set_limit -- the functions the theorems are
   about -- are proved to be built from exactly these decisions, for all arguments. *)
From Coq Require Import List NArith ZArith String Bool.
From RecordUpdate Require Import RecordSet.
From DT Require Import GenStatus GenEvent FsmTypes GenFsm Fsm Caches GenCaches.
Import ListNotations RecordSetNotations.

(* Caches.fire, written with the generated decisions *)
Definition fire_gen (c : chan) (cc : ccache) (r : report) : ccache * list ev * bool :=
  let k := r_kind r in
  let dataev := (data_event k, int_arg (r_index r)) in
  if negb (r_unique r) then (cc, [dataev], false)
  else
    let cur := match ix k cc with Some v => v | None => durable_index k c end in
    match gen_index_step cur (r_index r) with
    | None => (set_ix k cur cc, [dataev], false)
    | Some mark =>
      let cc1 := set_ix k mark cc in
      let progev := (progress_event k, uint_arg (r_size r)) in
      if negb (limited k) then (cc1, [progev; dataev], false)
      else
        let '(limit, total) := match pg cc1 with
                               | Some p => p
                               | None => (c_limit c, durable_total k c)
                               end in
        let total' := ((total + r_size r) mod two64)%N in
        let pause := gen_limit_reached limit total' in
        (cc1 <| pg := Some (limit, total') |>,
         [progev; dataev] ++ (if pause then [(DataLimitExceeded, no_arg)] else []),
         pause)
    end.

Theorem fire_is_source : forall c cc r, fire c cc r = fire_gen c cc r.
Proof.
  intros c cc r. unfold fire, fire_gen, gen_index_step, gen_limit_reached.
  destruct (negb (r_unique r)); [reflexivity|].
  destruct (Z.leb (r_index r) match ix (r_kind r) cc with Some v => v | None => durable_index (r_kind r) c end); reflexivity.
Qed.

Theorem set_limit_is_source : forall cc l,
  set_limit cc l = (match gen_set_cached_limit (pg cc) l with Some p => cc <| pg := Some p |> | None => cc end,
                    [(SetDataLimit, uint_arg l)]).
Proof.
  intros cc l. unfold set_limit, gen_set_cached_limit. destruct (pg cc) as [[lim t]|]; reflexivity.
Qed.

(* the two decisions, spelled out (what a reader of the properties expects to see) *)
Theorem index_step_spec : forall cur new,
  gen_index_step cur new = if Z.ltb cur new then Some new else None.
Proof.
  intros cur new. unfold gen_index_step. destruct (Z.leb_spec new cur), (Z.ltb_spec cur new); try reflexivity; exfalso; auto with zarith.
Qed.

Theorem limit_reached_spec : forall limit total,
  gen_limit_reached limit total = negb (N.eqb limit 0) && N.leb limit total.
Proof. reflexivity. Qed.
