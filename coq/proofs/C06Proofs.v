(* C06: channel state is durable and prefix-consistent across crashes (machine level). *)
From Coq Require Import List NArith ZArith String Bool Lia.
From RecordUpdate Require Import RecordSet.
From DT Require Import GenStatus GenEvent FsmTypes GenFsm Fsm Machine FsmFacts MachineFacts C17Proofs C09Proofs.
Import ListNotations RecordSetNotations.

(* the record on disk after the first n datastore writes of a run that started from record c *)
Definition crash_state (c : chan) (o : list mout) (n : nat) : chan := last (firstn n (puts o)) c.

Lemma chain_firstn n : forall c l, chain c l -> chain c (firstn n l).
Proof.
  induction n as [|n IH]; intros c l H; cbn; [exact I|].
  destruct l as [|[e c1] l]; cbn; [exact I|]. destruct H as [H1 H2]. split; [exact H1|]. apply IH. exact H2.
Qed.

Lemma last_cons_default {A} (x d : A) l : last (x :: l) d = last l x.
Proof.
  revert x d. induction l as [|y l IH]; intros x d; [reflexivity|].
  change (last (x :: y :: l) d) with (last (y :: l) d). rewrite (IH y d), (IH y x). reflexivity.
Qed.

Lemma last_map_snd : forall l c, last (map snd l) c = last_chan c l.
Proof.
  induction l as [|[e c1] l IH]; intros c; [reflexivity|].
  cbn [map snd last_chan]. rewrite last_cons_default. apply IH.
Qed.

(* In every schedule, at every write boundary: the record on disk is the record that resulted
   from applying, one after the other, exactly the first n applied (announced) events to the
   record the run started from -- a state that was current, never a mixture *)
Theorem crash_prefix_consistent :
  forall ls c m' o n,
    m_run (m_init c) ls = (m', o) ->
    chain c (firstn n (notifs o)) /\
    crash_state c o n = last_chan c (firstn n (notifs o)) /\
    (List.length (puts o) <= n -> crash_state c o n = m_chan m').
Proof.
  intros ls c m' o n H. destruct (notifications_chain ls c m' o H) as [A [B [_ D]]].
  unfold crash_state. rewrite D, firstn_map, last_map_snd.
  split; [apply chain_firstn; exact A|]. split; [reflexivity|].
  intros Hn. rewrite map_length in Hn. rewrite firstn_all2 by exact Hn. symmetry. exact B.
Qed.

(* reopening: a fresh machine on the stored record (go-statemachine loads the record lazily; the
   codec round trip is the correspondence's subject).  A channel persisted while cleaning up
   finishes cleanup when it is restarted (CompleteCleanupOnRestart): cleanup runs once more and
   the matching terminal status is reached *)
Lemma apply_DNoChange c e :
  dest_of (fst e) (c_status c) = Some DNoChange ->
  exists c', apply c e = Applied c' (has_entry (c_status c)) /\ c_status c' = c_status c /\ identity_of c' = identity_of c.
Proof.
  intros H. unfold apply. rewrite H. eexists. rewrite run_acts_status. split; [reflexivity|].
  split; [apply run_acts_status|apply run_acts_identity].
Qed.

Definition restart_table_ok (s : Status) : bool :=
  negb (is_cleanup s) ||
  match dest_of CompleteCleanupOnRestart s with Some DNoChange => true | _ => false end.
Lemma restart_table_ok_all : forall s, restart_table_ok s = true.
Proof. apply forall_status. vm_compute. reflexivity. Qed.

Local Arguments settle : simpl never.
Local Arguments is_final : simpl never.
Local Arguments apply : simpl never.
Local Arguments run_entry : simpl never.
Local Arguments entry_prog : simpl never.

Theorem restart_finishes_cleanup :
  forall c a,
    is_cleanup (c_status c) = true ->
    exists m' o,
      deliver (m_init c) (CompleteCleanupOnRestart, a) = (m', o) /\
      c_status (m_chan m') = terminal_of (c_status c) /\ is_final (terminal_of (c_status c)) = true /\
      m_dead m' = true /\
      count is_cleanup_out o = 1 /\ count is_unprotect_out o = 1.
Proof.
  intros c a Hcl. set (s := c_status c) in *.
  pose proof (cleanup_states_ok_all s) as T. unfold cleanup_states_ok in T. rewrite Hcl in T.
  cbn [negb orb] in T. apply andb_true_iff in T. destruct T as [T T3]. apply andb_true_iff in T.
  destruct T as [T1 T2]. apply negb_true_iff in T1.
  destruct (dest_of CleanupComplete s) as [[t| |]|] eqn:Hcc; try discriminate T3.
  assert (Hterm : terminal_of s = t) by (unfold terminal_of, next_status; rewrite Hcc; reflexivity).
  pose proof (restart_table_ok_all s) as R. unfold restart_table_ok in R. rewrite Hcl in R. cbn [negb orb] in R.
  destruct (dest_of CompleteCleanupOnRestart s) as [[| |]|] eqn:Hr; try discriminate R.
  destruct (apply_DNoChange c (CompleteCleanupOnRestart, a) Hr) as [c1 [Ha1 [Hs1 Hi1]]].
  unfold deliver. cbn [m_step m_init m_dead m_queue app].
  change (settle_fuel _) with 20.
  erewrite settle_plan; [|reflexivity|reflexivity|reflexivity].
  cbn. fold s. rewrite T1, Ha1, Hs1. fold s. rewrite T1, T2.
  erewrite settle_handler; [|reflexivity|reflexivity].
  cbn.
  destruct (run_entry c1 entry_prog) as [oe te] eqn:He.
  destruct (entry_outputs c1) as [E1 [E2 [E3 E4]]]. rewrite He in E1, E2, E3, E4. cbn [fst snd] in *.
  destruct te as [|[ce ae] [|? ?]]; try discriminate E4. cbn in E4. inversion E4; subst ce.
  cbn [app].
  assert (Hd2 : dest_of (fst (CleanupComplete, ae)) (c_status c1) = Some (DTo t)) by (rewrite Hs1; exact Hcc).
  destruct (apply_DTo c1 (CleanupComplete, ae) t Hd2) as [c2 [Ha2 [Hs2 Hi2]]].
  erewrite settle_plan; [|reflexivity|reflexivity|reflexivity].
  cbn.
  rewrite Hs1. fold s. rewrite T1, Ha2, Hs2, T3.
  rewrite settle_dead by reflexivity.
  eexists. eexists. split; [reflexivity|]. cbn [m_chan m_dead m_queue].
  rewrite Hterm. repeat split; try assumption.
  - rewrite !count_cons, !count_app, !count_cons, !count_nil, E1. cbn. reflexivity.
  - rewrite !count_cons, !count_app, !count_cons, !count_nil, E2. cbn. reflexivity.
Qed.
