(* restarting a channel that is cleaning up only finishes the cleanup: the restart handler then is
   nothing but "read the channel, send it CompleteCleanupOnRestart" -- no message, no transport
   request, no validation *)
From Coq Require Import List NArith ZArith String Bool.
From RecordUpdate Require Import RecordSet.
From DT Require Import GenStatus GenEvent GenMsgType FsmTypes GenFsm Fsm Machine View Caches Msg Node.
Import ListNotations RecordSetNotations.

Lemma cleanup_not_final st : is_cleanup st = true -> is_final st = false.
Proof. destruct st; vm_compute; congruence. Qed.

Definition finish_cleanup_only (k : chid) : prog nret :=
  _self <- exec ISelf ;; oc <- exec (IGet k) ;;
  match oc with
  | None => Ret ROther
  | Some c => send0 (chid_of c) CompleteCleanupOnRestart
  end.

Theorem restart_in_cleanup_only_finishes_cleanup :
  forall s k cs,
    lookup k (n_chans (s_node s)) = Some cs ->
    is_cleanup (c_status (m_chan (msync (cs_m cs)))) = true ->
    run (restart_channel k) s = run (finish_cleanup_only k) s.
Proof.
  intros s k cs L C. unfold restart_channel, finish_cleanup_only.
  cbn [run exec bind]. unfold run_instr at 1. cbn [run].
  cbn [run_instr]. rewrite L. cbn [run].
  rewrite (cleanup_not_final _ C), C. reflexivity.
Qed.

(* ... and restarting a terminated channel does nothing at all (it only reads the channel) *)
Theorem restart_of_terminated_does_nothing :
  forall s k cs,
    lookup k (n_chans (s_node s)) = Some cs ->
    is_final (c_status (m_chan (msync (cs_m cs)))) = true ->
    run (restart_channel k) s = (ROk, snd (run (exec (IGet k)) s)).
Proof.
  intros s k cs L C. unfold restart_channel.
  cbn [run exec bind]. unfold run_instr at 1. cbn [run].
  cbn [run_instr]. rewrite L. cbn [run snd]. rewrite C. reflexivity.
Qed.
