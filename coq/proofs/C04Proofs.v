(* C04: only validated requests move data (node level). *)
From Coq Require Import List NArith ZArith String Bool Lia.
From RecordUpdate Require Import RecordSet.
From DT Require Import GenStatus GenEvent GenMsgType FsmTypes GenFsm Fsm Machine View Caches Msg Node
     FsmFacts NodeFacts.
Import ListNotations RecordSetNotations.

(* ---------- monad laws for the interpreter ---------- *)
Lemma run_bind A B (p : prog A) (f : A -> prog B) : forall s,
  run (bind p f) s = let '(a, s1) := run p s in run (f a) s1.
Proof.
  induction p as [a|X i k IH]; intros s; cbn [bind run]; [reflexivity|].
  destruct (run_instr s i) as [x s']. apply IH.
Qed.

Lemma run_exec X (i : instr X) s : run (exec i) s = run_instr s i.
Proof. unfold exec. cbn [run]. destruct (run_instr s i). reflexivity. Qed.

(* every return value of a program satisfies Q *)
Fixpoint all_returns {A} (Q : A -> Prop) (p : prog A) : Prop :=
  match p with
  | Ret a => Q a
  | Do i k => forall x, all_returns Q (k x)
  end.

Lemma all_returns_bind A B (Q : B -> Prop) (p : prog A) (f : A -> prog B) :
  all_returns (fun a => all_returns Q (f a)) p -> all_returns Q (bind p f).
Proof. induction p as [a|X i k IH]; cbn; intros H; [exact H|]. intros x. apply IH. apply H. Qed.

Lemma all_returns_any A (p : prog A) : all_returns (fun _ => True) p.
Proof. induction p; cbn; auto. Qed.

Lemma all_returns_weaken A (Q Q' : A -> Prop) (p : prog A) :
  (forall a, Q a -> Q' a) -> all_returns Q p -> all_returns Q' p.
Proof. intros H. induction p as [a|X i k IH]; cbn; intros G; [apply H; exact G|]. intros x. apply IH. apply G. Qed.

Lemma run_returns A (Q : A -> Prop) (p : prog A) : all_returns Q p -> forall s, Q (fst (run p s)).
Proof.
  induction p as [a|X i k IH]; cbn [all_returns run]; intros H s; [exact H|].
  destruct (run_instr s i) as [x s']. apply IH. apply H.
Qed.

(* outputs only grow *)
Lemma outs_grow_instr X (i : instr X) s : exists l, s_out (snd (run_instr s i)) = s_out s ++ l.
Proof.
  assert (E : forall s0 o, s_out (emit s0 o) = s_out s0 ++ o) by reflexivity.
  assert (SC : forall s0 k cs e, exists l, s_out (snd (send_chan s0 k cs e)) = s_out s0 ++ l).
  { intros s0 k cs e. unfold send_chan. destruct (m_dead _); [exists []; rewrite app_nil_r; reflexivity|].
    destruct (deliver _ _) as [m' o]. cbn [snd]. rewrite E. eexists. reflexivity. }
  assert (SA : forall evs s0 k, exists l, s_out (snd (send_all s0 k evs)) = s_out s0 ++ l).
  { induction evs as [|e r IH]; intros s0 k; cbn [send_all]; [exists []; rewrite app_nil_r; reflexivity|].
    destruct (lookup k _) as [cs|]; [|exists []; rewrite app_nil_r; reflexivity].
    destruct (send_chan s0 k cs e) as [res s'] eqn:Eq.
    destruct (SC s0 k cs e) as [l1 H1]. rewrite Eq in H1. cbn [snd] in H1.
    destruct res; try (exists l1; exact H1).
    destruct (IH s' k) as [l2 H2]. exists (l1 ++ l2). rewrite H2, H1, app_assoc. reflexivity. }
  destruct i; cbn [run_instr].
  - destruct (lookup _ _); exists []; rewrite app_nil_r; reflexivity.
  - exists []; rewrite app_nil_r; reflexivity.
  - destruct (lookup k _) as [cs|]; [apply SC|exists []; rewrite app_nil_r; reflexivity].
  - destruct (lookup _ _); exists []; rewrite app_nil_r; reflexivity.
  - destruct (lookup k _) as [cs|]; [|exists []; rewrite app_nil_r; reflexivity].
    destruct (fire _ _ _) as [[cc' evs] pause].
    match goal with |- context [send_all ?s1 k evs] => set (s1' := s1) end.
    destruct (SA evs s1' k) as [l0 H0]. destruct (send_all s1' k evs) as [res s2]. cbn [snd] in *.
    exists l0. rewrite H0. reflexivity.
  - destruct (lookup k _) as [cs|]; [|exists []; rewrite app_nil_r; reflexivity].
    destruct (set_limit _ _) as [cc' evs].
    match goal with |- context [send_all ?s1 k evs] => set (s1' := s1) end.
    destruct (SA evs s1' k) as [l1 H1]. exists l1. rewrite H1. reflexivity.
  - destruct (pop_val _). cbn [snd]. rewrite E. eexists; reflexivity.
  - exists []; rewrite app_nil_r; reflexivity.
  - destruct (pop_bool _). cbn [snd]. rewrite E. eexists; reflexivity.
  - destruct c; try destruct (pop_bool _); cbn [snd]; rewrite E; eexists; reflexivity.
  - cbn [snd]. rewrite E. eexists; reflexivity.
  - exists []; rewrite app_nil_r; reflexivity.
  - exists []; rewrite app_nil_r; reflexivity.
Qed.

Lemma outs_grow A (p : prog A) : forall s, exists l, s_out (snd (run p s)) = s_out s ++ l.
Proof.
  induction p as [a|X i k IH]; intros s; cbn [run]; [exists []; rewrite app_nil_r; reflexivity|].
  destruct (outs_grow_instr X i s) as [l1 H1]. destruct (run_instr s i) as [x s'] eqn:E. cbn [snd] in H1.
  destruct (IH x s') as [l2 H2]. exists (l1 ++ l2). rewrite H2, H1, app_assoc. reflexivity.
Qed.

(* ---------- the reply says accepted exactly when validation succeeded and accepted ---------- *)
Theorem reply_accepted_iff :
  forall t tid vr err paused,
    g_accepted (validation_result_response t tid vr err paused) = negb err && vr_accepted vr /\
    g_pause (validation_result_response t tid vr err paused) = paused /\
    (vr_hasres vr = true ->
       g_vtype (validation_result_response t tid vr err paused) = v_type (vr_res vr) /\
       g_vnode (validation_result_response t tid vr err paused) = v_node (vr_res vr)) /\
    (vr_hasres vr = false -> g_vtype (validation_result_response t tid vr err paused) = EmptyString).
Proof.
  intros t tid vr err paused. unfold validation_result_response, response. cbn.
  split; [reflexivity|]. split; [reflexivity|]. split; intros Hh; rewrite Hh; cbn; auto.
Qed.

(* ---------- a new request is accepted only after a successful, accepting validation ---------- *)
Ltac returns :=
  repeat first
    [ progress cbn [all_returns]
    | apply all_returns_bind
    | match goal with
      | |- all_returns _ (exec _) => unfold exec
      | |- all_returns _ (send _ _ _) => unfold send
      | |- all_returns _ (send0 _ _) => unfold send0, send
      | |- all_returns _ (andthen _ _) => unfold andthen
      | |- all_returns _ (if ?b then _ else _) => destruct b
      | |- all_returns _ (match ?x with _ => _ end) => destruct x
      | |- forall _, _ => intros
      end ].

(* after the validator has answered vr, every return of the rest of acceptRequest that
   reports no error returns exactly vr *)
Definition accept_tail (self : N) (k : chid) (m : msg) (vr : valres) : prog (valres * bool) :=
  let v := {| v_type := g_vtype m; v_node := g_vnode m |} in
  let c := if g_pull m
           then create_new self (g_tid m) (g_basecid m) (g_selector m) v (k_init k) self (k_init k)
           else create_new self (g_tid m) (g_basecid m) (g_selector m) v (k_init k) (k_init k) self in
  ok <- exec (ICreate c) ;;
  if negb ok then Ret (vr, true)
  else
    r <- (send0 k Open >>> send0 k Accept) ;;
    if negb (ret_ok r) then Ret (vr, true)
    else
      oc <- exec (IGet k) ;;
      match oc with
      | None => Ret (zero_valres, true)
      | Some c1 =>
          r2 <- record_accepted c1 vr ;;
          if negb (ret_ok r2) then Ret (vr, true)
          else exec (IProtect (k_init k) k) ;;; Ret (vr, false)
      end.

Lemma accept_tail_returns self k m vr :
  all_returns (fun x => snd x = false -> fst x = vr) (accept_tail self k m vr).
Proof.
  unfold accept_tail, record_accepted. returns; cbn; intros; try congruence; try reflexivity;
    match goal with H : snd (_, true) = false |- _ => cbn in H; discriminate H end.
Qed.

Theorem accept_requires_validation :
  forall k m s,
    let '(x, s') := run (accept_request k m) s in
    snd x = false -> vr_accepted (fst x) = true ->
      g_selector m <> 0%N /\ g_vnode m <> 0%N /\
      existsb (String.eqb (g_vtype m)) (n_registry (s_node s)) = true /\
      (exists rest, s_vals s = fst x :: rest) /\ vr_err (fst x) = false /\
      In (NValidate (if g_pull m then VPull else VPush) k) (s_out s').
Proof.
  intros k m s. unfold accept_request.
  rewrite run_bind, run_exec. cbn [run_instr].
  destruct (N.eqb_spec (g_selector m) 0) as [Hs|Hs]; [cbn; intros; discriminate|].
  destruct (N.eqb_spec (g_vnode m) 0) as [Hv|Hv]; [cbn; intros; discriminate|].
  rewrite run_bind, run_exec. cbn [run_instr].
  destruct (existsb (String.eqb (g_vtype m)) (n_registry (s_node s))) eqn:Hreg; cbn [negb];
    [|cbn; intros; discriminate].
  rewrite run_bind, run_exec. cbn [run_instr].
  destruct (s_vals s) as [|vr rest] eqn:Hvals; cbn [pop_val].
  - (* no scripted answer: the zero result is not accepting *)
    cbn [vr_err vr_accepted zero_valres orb negb]. cbn [run]. cbn. intros _ H; discriminate.
  - destruct (vr_err vr || negb (vr_accepted vr)) eqn:Hc.
    + cbn [run fst snd]. intros He Ha. rewrite He in Hc. rewrite Ha in Hc. discriminate.
    + apply orb_false_iff in Hc. destruct Hc as [He Ha].
      fold (accept_tail (n_self (s_node s)) k m vr).
      set (s1 := emit (s <| s_vals := rest |>) [NValidate (if g_pull m then VPull else VPush) k]).
      pose proof (run_returns _ _ _ (accept_tail_returns (n_self (s_node s)) k m vr) s1) as HR.
      destruct (outs_grow _ (accept_tail (n_self (s_node s)) k m vr) s1) as [l HO].
      destruct (run (accept_tail (n_self (s_node s)) k m vr) s1) as [x s'] eqn:E.
      cbn [fst snd] in *. intros Hx Hacc. specialize (HR Hx). subst.
      repeat split; auto.
      * exists rest. reflexivity.
      * rewrite HO. apply in_or_app. left. subst s1. cbn. apply in_or_app. right. left. reflexivity.
Qed.

(* no validation, no channel: unless the validator registered for the voucher type answered
   accepted without error, handling a new request leaves the set of channels unchanged *)
Theorem no_validation_no_channel :
  forall k m s,
    (g_selector m = 0%N \/ g_vnode m = 0%N \/
     existsb (String.eqb (g_vtype m)) (n_registry (s_node s)) = false \/
     (let vr := fst (pop_val (s_vals s)) in vr_err vr = true \/ vr_accepted vr = false)) ->
    let '(x, s') := run (accept_request k m) s in
    n_chans (s_node s') = n_chans (s_node s) /\ (snd x = true \/ vr_accepted (fst x) = false).
Proof.
  intros k m s H. unfold accept_request.
  rewrite run_bind, run_exec. cbn [run_instr].
  destruct (N.eqb_spec (g_selector m) 0) as [Hs|Hs]; [cbn; auto|].
  destruct (N.eqb_spec (g_vnode m) 0) as [Hv|Hv]; [cbn; auto|].
  rewrite run_bind, run_exec. cbn [run_instr].
  destruct (existsb (String.eqb (g_vtype m)) (n_registry (s_node s))) eqn:Hreg; cbn [negb]; [|cbn; auto].
  rewrite run_bind, run_exec. cbn [run_instr].
  destruct H as [H|[H|[H|H]]]; try congruence.
  destruct (pop_val (s_vals s)) as [vr rest] eqn:Hp. cbn [fst] in H.
  assert (Hc : vr_err vr || negb (vr_accepted vr) = true).
  { destruct H as [-> | ->]; [reflexivity|apply orb_true_r]. }
  rewrite Hc. cbn [run fst snd]. split; [reflexivity|].
  destruct H as [H|H]; [left; exact H|right; exact H].
Qed.

(* the reply to a new request: accepted iff validated; it carries exactly the validator's
   voucher result and ForcePause *)
Theorem new_request_reply :
  forall k m s,
    let '(x, s') := run (receive_new_request k m) s in
    match fst x with
    | None => False
    | Some r =>
        g_isreq r = false /\ g_type r = NewMessage /\ g_tid r = g_tid m /\
        (g_accepted r = true ->
           exists vr rest, s_vals s = vr :: rest /\ vr_accepted vr = true /\ vr_err vr = false /\
             g_pause r = vr_force vr /\
             (if vr_hasres vr then g_vtype r = v_type (vr_res vr) /\ g_vnode r = v_node (vr_res vr)
              else g_vtype r = EmptyString) /\
             In (NValidate (if g_pull m then VPull else VPush) k) (s_out s'))
    end.
Proof.
  intros k m s. unfold receive_new_request. rewrite run_bind.
  pose proof (accept_requires_validation k m s) as H.
  destruct (run (accept_request k m) s) as [[vr err] s'] eqn:E. cbn [run fst snd] in *.
  repeat split; try reflexivity.
  intros Hacc. unfold validation_result_response, response in Hacc. cbn in Hacc.
  apply andb_true_iff in Hacc. destruct Hacc as [He Ha]. apply negb_true_iff in He.
  destruct (H He Ha) as [_ [_ [_ [[rest Hv] [Hne Hin]]]]].
  exists vr, rest. repeat split; auto.
  unfold validation_result_response, response. cbn. destruct (vr_hasres vr); cbn; auto.
Qed.
