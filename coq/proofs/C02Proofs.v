(* C02 (machine level): a channel in a finality state is frozen under every schedule. *)
From Coq Require Import List NArith ZArith String Bool Lia Arith.
From RecordUpdate Require Import RecordSet.
From DT Require Import GenStatus GenEvent FsmTypes GenFsm Fsm Machine FsmFacts MachineFacts.
Import ListNotations RecordSetNotations.

Local Arguments is_final : simpl never.
Local Arguments apply : simpl never.
Local Arguments run_entry : simpl never.
Local Arguments entry_prog : simpl never.

(* the finality states are exactly Completed, Failed, Cancelled *)
Lemma finality_is_the_three_terminal_statuses :
  forall s, is_final s = true <-> (s = Completed \/ s = Failed \/ s = Cancelled).
Proof.
  intros s; split.
  - destruct s; vm_compute; intros H; try discriminate H; tauto.
  - intros [-> | [-> | ->]]; vm_compute; reflexivity.
Qed.

Definition only_dropped (o : list mout) : Prop := forall x, In x o -> exists e, x = ODropped e.

Lemma only_dropped_app a b : only_dropped a -> only_dropped b -> only_dropped (a ++ b).
Proof. intros A B x H. apply in_app_or in H. destruct H; auto. Qed.

Lemma only_dropped_map (q : list ev) : only_dropped (map (fun x => ODropped (fst x)) q).
Proof. intros x H. apply in_map_iff in H. destruct H as [y [<- _]]. eexists; reflexivity. Qed.

(* one step of a machine whose record is terminal and whose handler is idle *)
Lemma terminal_step m l m' o :
  is_final (c_status (m_chan m)) = true -> m_handler m = false ->
  m_step m l = (m', o) ->
  m_chan m' = m_chan m /\ m_handler m' = false /\ only_dropped o.
Proof.
  intros Hf Hh. destruct l as [e| |]; cbn.
  - destruct (m_dead m); intros H; inversion H; subst; cbn; repeat split; auto.
    + intros x [<-|[]]. eexists; reflexivity.
    + intros x [].
  - destruct (m_dead m || m_handler m); [intros H; inversion H; subst; repeat split; auto; intros x []|].
    destruct (m_queue m) as [|e q]; [intros H; inversion H; subst; repeat split; auto; intros x []|].
    rewrite Hf. intros H; inversion H; subst; cbn. repeat split; auto.
    change (ODropped (fst e) :: map (fun x : EventCode * evarg => ODropped (fst x)) q)
      with (map (fun x : EventCode * evarg => ODropped (fst x)) (e :: q)).
    apply only_dropped_map.
  - rewrite Hh. cbn. intros H; inversion H; subst. repeat split; auto. intros x [].
Qed.

Lemma terminal_frozen_strong :
  forall ls m m' o,
    is_final (c_status (m_chan m)) = true -> m_handler m = false ->
    m_run m ls = (m', o) ->
    m_chan m' = m_chan m /\ m_handler m' = false /\ only_dropped o.
Proof.
  induction ls as [|l ls IH] using rev_ind; intros m m' o Hf Hh Hrun.
  - cbn in Hrun. inversion Hrun; subst. repeat split; auto. intros x [].
  - rewrite m_run_snoc in Hrun. destruct (m_run m ls) as [m1 o1] eqn:H1.
    destruct (m_step m1 l) as [m2 o2] eqn:H2. inversion Hrun; subst.
    destruct (IH _ _ _ Hf Hh H1) as [G1 [G2 G3]].
    assert (Hf1 : is_final (c_status (m_chan m1)) = true) by (rewrite G1; exact Hf).
    destruct (terminal_step _ _ _ _ Hf1 G2 H2) as [K1 [K2 K3]].
    repeat split; [congruence| assumption | apply only_dropped_app; assumption].
Qed.

(* C02: under every schedule of further events, a terminal record never changes, nothing is
   announced, written, cleaned up or un-protected: every event is dropped with ErrTerminated *)
Theorem terminal_frozen :
  forall ls c m' o,
    is_final (c_status c) = true ->
    m_run (m_init c) ls = (m', o) ->
    m_chan m' = c /\ only_dropped o.
Proof.
  intros ls c m' o Hf Hrun.
  destruct (terminal_frozen_strong ls (m_init c) m' o Hf eq_refl Hrun) as [A [_ B]].
  split; assumption.
Qed.

(* reachable machines never have a handler running in a terminal status, so the theorem
   applies from the moment a terminal status is reached *)
Lemma handler_idle_when_final :
  forall ls c m' o, m_run (m_init c) ls = (m', o) ->
    is_final (c_status (m_chan m')) = true -> m_handler m' = false.
Proof.
  induction ls as [|l ls IH] using rev_ind; intros c m' o Hrun Hf.
  - cbn in Hrun. inversion Hrun; subst. reflexivity.
  - rewrite m_run_snoc in Hrun. destruct (m_run (m_init c) ls) as [m1 o1] eqn:H1.
    destruct (m_step m1 l) as [m2 o2] eqn:H2. inversion Hrun; subst.
    specialize (IH _ _ _ H1).
    destruct l as [e| |]; cbn in H2.
    + destruct (m_dead m1); inversion H2; subst; cbn in *; auto.
    + destruct (m_dead m1 || m_handler m1) eqn:G.
      { inversion H2; subst. auto. }
      apply orb_false_iff in G. destruct G as [_ G].
      destruct (m_queue m1) as [|e q]; [inversion H2; subst; auto|].
      destruct (is_final (c_status (m_chan m1))); [inversion H2; subst; cbn; auto|].
      destruct (apply (m_chan m1) e) as [|c' h]; [inversion H2; subst; cbn; auto|].
      destruct (is_final (c_status c')) eqn:F; inversion H2; subst; cbn in *; [reflexivity|congruence].
    + destruct (m_handler m1 && negb (m_dead m1)) eqn:G.
      * destruct (run_entry (m_chan m1) entry_prog). inversion H2; subst; cbn. reflexivity.
      * inversion H2; subst. auto.
Qed.

Theorem once_terminal_always_frozen :
  forall ls1 ls2 c m1 o1 m2 o2,
    m_run (m_init c) ls1 = (m1, o1) ->
    is_final (c_status (m_chan m1)) = true ->
    m_run m1 ls2 = (m2, o2) ->
    m_chan m2 = m_chan m1 /\ only_dropped o2.
Proof.
  intros ls1 ls2 c m1 o1 m2 o2 H1 Hf H2.
  pose proof (handler_idle_when_final _ _ _ _ H1 Hf) as Hh.
  destruct (terminal_frozen_strong ls2 m1 m2 o2 Hf Hh H2) as [A [_ B]]. split; assumption.
Qed.
