(* local calls in the wrong role change nothing: only the responder issues validation updates and
   voucher results, only the initiator sends vouchers *)
From Coq Require Import List NArith ZArith String Bool.
From RecordUpdate Require Import RecordSet.
From DT Require Import GenStatus GenEvent GenMsgType FsmTypes GenFsm Fsm Machine View Caches Msg Node.
Import ListNotations RecordSetNotations.

Theorem initiator_cannot_update_validation :
  forall s k vr, k_init k = n_self (s_node s) -> run (update_validation k vr) s = (ROther, s).
Proof.
  intros s k vr H. unfold update_validation. cbn [run exec bind run_instr]. rewrite H, N.eqb_refl. reflexivity.
Qed.

(* a voucher result for a channel this node initiated, and a voucher for a channel it did not, are
   refused after a mere read of the channel: nothing is sent, recorded or announced *)
Theorem wrong_role_voucher_calls_only_read :
  forall s k v,
    (k_init k = n_self (s_node s) ->
       run (send_voucher_result k v) s = (match fst (run (exec (IGet k)) s) with None => RNotFound | Some _ => ROther end,
                                          snd (run (exec (IGet k)) s))) /\
    (k_init k <> n_self (s_node s) ->
       run (send_voucher k v) s = (match fst (run (exec (IGet k)) s) with None => RNotFound | Some _ => ROther end,
                                   snd (run (exec (IGet k)) s))).
Proof.
  intros s k v. split; intros H.
  - unfold send_voucher_result. cbn [run exec bind]. unfold run_instr at 1. cbn [run].
    cbn [run_instr]. destruct (lookup k (n_chans (s_node s))) as [cs|]; cbn [run fst snd]; [|reflexivity].
    rewrite H, N.eqb_refl. reflexivity.
  - unfold send_voucher. cbn [run exec bind]. unfold run_instr at 1. cbn [run].
    cbn [run_instr]. destruct (lookup k (n_chans (s_node s))) as [cs|]; cbn [run fst snd]; [|reflexivity].
    destruct (N.eqb_spec (k_init k) (n_self (s_node s))); [contradiction|]. reflexivity.
Qed.
