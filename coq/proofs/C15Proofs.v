(* C15: bounded retry, deliver once, faithful inbound dispatch -- over Net.v *)
From Coq Require Import List NArith Bool Arith Lia.
From DT Require Import Net.
Import ListNotations.

Definition eff_max (i : send_in) : nat := Nat.max 1 (si_max i).

(* ---------- the open loop ---------- *)
Lemma open_loop_spec max cancel : forall fuel n opens,
  max <= fuel + n -> 
  match open_loop max cancel fuel n opens with
  | Opened m => n < m /\ nth (m - n - 1) opens false = true /\ (forall q, q < m - n - 1 -> nth q opens false = false) /\
                (m <= Nat.max 1 max \/ m = S n) /\ (forall k, cancel = Some k -> n < k -> k < max -> m <= k)
  | Exhausted m => n < m /\ (forall q, q < m - n -> nth q opens false = false) /\ max <= m /\ (m = S n \/ m <= max) /\
                   (forall k, cancel = Some k -> n < k -> k < max -> m <= k)
  | Cancelled m => n < m /\ (forall q, q < m - n -> nth q opens false = false) /\ cancel = Some m /\ m < max
  end \/ fuel = 0.
Proof.
  induction fuel as [|f IH]; intros n opens Hf; [right; reflexivity|left].
  cbn [open_loop].
  assert (Hnth0 : forall (l : list bool) q, q < S n - n -> hd false l = false -> nth q l false = false).
  { intros l q Hq Hh. replace q with 0 by lia. destruct l; [reflexivity|exact Hh]. }
  destruct (hd false opens) eqn:Hhd.
  - (* success *)
    split; [lia|]. split; [|split; [|split]].
    + replace (S n - n - 1) with 0 by lia. destruct opens; [discriminate|exact Hhd].
    + intros q Hq. lia.
    + lia.
    + intros k Hk Hn Hm. lia.
  - destruct (Nat.leb_spec max (S n)) as [Hle|Hgt].
    + split; [lia|]. split; [|split; [|split]].
      * intros q Hq. apply Hnth0; assumption.
      * lia.
      * lia.
      * intros k Hk Hn Hm. lia.
    + destruct (match cancel with Some k => Nat.eqb k (S n) | None => false end) eqn:Ec.
      * destruct cancel as [k|]; [|discriminate]. apply Nat.eqb_eq in Ec. subst k.
        split; [lia|]. split; [|split]; [|reflexivity|lia].
        intros q Hq. apply Hnth0; assumption.
      * specialize (IH (S n) (tl opens) ltac:(lia)). destruct IH as [IH|IH]; [|lia].
        assert (Hshift : forall q, nth (S q) opens false = nth q (tl opens) false).
        { intros q. destruct opens; [destruct q; reflexivity|reflexivity]. }
        assert (H0 : nth 0 opens false = false) by (destruct opens; [reflexivity|exact Hhd]).
        assert (Hk' : forall k m, cancel = Some k -> n < k -> k < max -> (S n < k -> m <= k) -> S n <= m -> m <= k).
        { intros k m Hk Hn Hm Hi Hsm. destruct (Nat.eq_dec k (S n)) as [->|Hne].
          - rewrite Hk in Ec. rewrite Nat.eqb_refl in Ec. discriminate.
          - apply Hi. lia. }
        destruct (open_loop max cancel f (S n) (tl opens)) as [m|m|m].
        -- destruct IH as [A [B [C [D E]]]]. split; [lia|]. split; [|split; [|split]].
           ++ replace (m - n - 1) with (S (m - S n - 1)) by lia. rewrite Hshift. exact B.
           ++ intros q Hq. destruct q; [exact H0|]. rewrite Hshift. apply C. lia.
           ++ lia.
           ++ intros k Hk Hn Hm. apply (Hk' k m Hk Hn Hm); [|lia]. intros H. apply (E k Hk H Hm).
        -- destruct IH as [A [B [C [D E]]]]. split; [lia|]. split; [|split; [|split]].
           ++ intros q Hq. destruct q; [exact H0|]. rewrite Hshift. apply B. lia.
           ++ lia.
           ++ lia.
           ++ intros k Hk Hn Hm. apply (Hk' k m Hk Hn Hm); [|lia]. intros H. apply (E k Hk H Hm).
        -- destruct IH as [A [B [C D]]]. split; [lia|]. split; [|split]; [|exact C|exact D].
           intros q Hq. destruct q; [exact H0|]. rewrite Hshift. apply B. lia.
Qed.

(* what openStream does, for every configuration, pattern of open failures and cancellation point *)
Theorem open_stream_spec :
  forall i,
    match open_stream i with
    | Opened m => 1 <= m <= eff_max i /\ nth (m - 1) (si_opens i) false = true /\
                  (forall q, q < m - 1 -> nth q (si_opens i) false = false) /\
                  (forall k, si_cancel i = Some k -> 0 < k -> k < si_max i -> m <= k)
    | Exhausted m => m = eff_max i /\ (forall q, q < m -> nth q (si_opens i) false = false) /\
                  (forall k, si_cancel i = Some k -> 0 < k -> k < si_max i -> False)
    | Cancelled m => si_cancel i = Some m /\ 1 <= m < si_max i /\ (forall q, q < m -> nth q (si_opens i) false = false)
    end.
Proof.
  intros i. unfold open_stream, eff_max.
  destruct (open_loop_spec (si_max i) (si_cancel i) (Nat.max 1 (si_max i)) 0 (si_opens i) ltac:(lia)) as [H|H]; [|lia].
  destruct (open_loop (si_max i) (si_cancel i) (Nat.max 1 (si_max i)) 0 (si_opens i)) as [m|m|m].
  - destruct H as [A [B [C [D E]]]]. rewrite Nat.sub_0_r in B, C.
    repeat split; try lia; auto; try (intros k Hk H0 Hm; apply (E k Hk H0 Hm)).
  - destruct H as [A [B [C [D E]]]]. rewrite Nat.sub_0_r in B.
    repeat split; try lia; auto; try (intros k Hk H0 Hm; specialize (E k Hk H0 Hm); lia).
  - destruct H as [A [B [C D]]]. rewrite Nat.sub_0_r in B. repeat split; try lia; auto.
Qed.

(* at most the configured number of stream-open attempts (at least the initial one) *)
Theorem attempts_bounded :
  forall i, 1 <= so_attempts (send_message i) <= eff_max i /\ 1 <= so_attempts (connect_with_retry i) <= eff_max i.
Proof.
  intros i. pose proof (open_stream_spec i) as H. unfold send_message, connect_with_retry.
  destruct (open_stream i) as [m|m|m]; cbn [so_attempts].
  - destruct H as [A _]. destruct (negb (si_proto_ok i)), (si_write_ok i); cbn [so_attempts]; lia.
  - destruct H as [A _]. unfold eff_max in *. lia.
  - destruct H as [_ [A _]]. unfold eff_max. lia.
Qed.

(* success exactly when an attempt succeeded (and then the write and the close went through);
   the message is written exactly once on success and never more than once *)
Definition writes (o : send_out) : nat := List.length (filter (fun x => match x with SWrite => true | _ => false end) (so_ops o)).

Theorem success_iff_and_delivered_once :
  forall i, let o := send_message i in
    (so_res o = SOk <-> (exists m, open_stream i = Opened m) /\ si_proto_ok i = true /\ si_write_ok i = true /\ si_close_ok i = true) /\
    (so_res o = SOk -> so_ops o = [SWrite; SClose]) /\
    writes o <= 1 /\
    (writes o = 1 <-> (exists m, open_stream i = Opened m) /\ si_proto_ok i = true /\ si_write_ok i = true).
Proof.
  intros i. unfold send_message, writes. destruct (open_stream i) as [m|m|m]; cbn.
  - destruct (si_proto_ok i), (si_write_ok i), (si_close_ok i), (si_reset_ok i); cbn;
      repeat split; try discriminate; try lia; try (intros [_ H]; decompose [and] H; discriminate);
      try (intros; eauto; fail); try (intros H; decompose [and] H; discriminate); eauto.
  - repeat split; try discriminate; try lia; intros [[x Hx] _]; discriminate.
  - repeat split; try discriminate; try lia; intros [[x Hx] _]; discriminate.
Qed.

(* a failed write resets the stream and is reported *)
Theorem failed_write_resets_and_reports :
  forall i m, open_stream i = Opened m -> si_proto_ok i = true -> si_write_ok i = false ->
    so_ops (send_message i) = [SWriteFailed; SReset] /\ so_res (send_message i) <> SOk.
Proof.
  intros i m Ho Hp Hw. unfold send_message. rewrite Ho, Hp, Hw. cbn.
  split; [reflexivity|]. destruct (si_reset_ok i); discriminate.
Qed.

(* cancellation during a back-off ends the send with the context's error and no further attempt *)
Theorem cancel_stops_attempts :
  forall i k, 0 < k -> k < si_max i -> si_cancel i = Some k ->
    (forall q, q < k -> nth q (si_opens i) false = false) ->
    open_stream i = Cancelled k /\ so_res (send_message i) = SErrCtx /\ so_attempts (send_message i) = k.
Proof.
  intros i k H0 Hm Hc Hf. pose proof (open_stream_spec i) as H. unfold send_message.
  destruct (open_stream i) as [m|m|m]; cbn.
  - destruct H as [A [B [C D]]]. specialize (D k Hc H0 Hm).
    rewrite Hf in B by lia. discriminate.
  - destruct H as [_ [_ E]]. exfalso. exact (E k Hc H0 Hm).
  - destruct H as [A _]. rewrite Hc in A. inversion A; subst. auto.
Qed.

(* ---------- inbound ---------- *)
Fixpoint good_prefix (l : list item) : list (mkind * N) :=
  match l with
  | IMsg k id :: r => (k, id) :: good_prefix r
  | _ => []
  end.
Definition has_bad (l : list item) : bool := existsb (fun x => match x with IBad => true | _ => false end) l.

Lemma dispatch_spec peer l :
  dispatch peer l = (map (fun p => (fst p, peer, snd p)) (good_prefix l), has_bad l).
Proof.
  induction l as [|[k id|] l IH]; cbn; [reflexivity| |reflexivity].
  rewrite IH. reflexivity.
Qed.

(* every well-formed message before the first malformed item is handed exactly once, in order, to
   the handler of its kind together with the authenticated remote peer; a malformed item resets
   the stream and is reported, and neither it nor anything after it reaches a message handler *)
Theorem inbound_dispatch_faithful :
  forall peer l e,
    let o := handle_stream true peer l e in
    io_calls o = map (fun p => (fst p, peer, snd p)) (good_prefix l) /\
    io_reset o = has_bad l /\ io_error o = has_bad l.
Proof. intros peer l e. unfold handle_stream. cbn. rewrite dispatch_spec. cbn. auto. Qed.

Theorem no_receiver_resets :
  forall peer l e, handle_stream false peer l e = mkInOut [] true false.
Proof. reflexivity. Qed.

Example retry_example :
  send_message (mkSendIn 3 [false; false; true] None true true true true) = mkSendOut 3 SOk [SWrite; SClose] /\
  send_message (mkSendIn 3 [false; false; true] (Some 1) true true true true) = mkSendOut 1 SErrCtx [] /\
  send_message (mkSendIn 2 [false; false; true] None true true true true) = mkSendOut 2 SErrExhausted [] /\
  send_message (mkSendIn 2 [false; true] None true false true true) = mkSendOut 2 SErrWrite [SWriteFailed; SReset].
Proof. vm_compute. repeat split. Qed.
