(* The datastore record codec: whatever MarshalCBOR writes, UnmarshalCBOR reads back as the same
   record (vouchers and selector as DAG-CBOR data), over the whole range of every field. *)
From Coq Require Import List NArith ZArith String Ascii Bool Lia.
From Coq Require Import ZifyBool ZifyNat ZifyN.
From DT Require Import Cbor CborProofs StateCodec.
Import ListNotations.
Local Open Scope string_scope.

(* ---------- no maps inside the stage log: canonical form is the identity ---------- *)
Lemma canon_log l : canon (log_node l) = log_node l.
Proof. destruct l as [[t [n a]]|]; reflexivity. Qed.

Lemma map_canon_logs l : map canon (map log_node l) = map log_node l.
Proof. induction l as [|x r IH]; cbn [map]; [reflexivity|]. rewrite canon_log, IH. reflexivity. Qed.

Lemma canon_stage s : canon (stage_node s) = stage_node s.
Proof.
  destruct s as [[nm ds [cn ca] [un ua] lg]|]; [|reflexivity].
  unfold stage_node, int_node. cbn [canon map fst snd sg_name sg_desc sg_created sg_updated sg_logs].
  rewrite map_canon_logs. reflexivity.
Qed.

Lemma map_canon_stages l : map canon (map stage_node l) = map stage_node l.
Proof. induction l as [|x r IH]; cbn [map]; [reflexivity|]. rewrite canon_stage, IH. reflexivity. Qed.

Lemma canon_stages o : canon (stages_node o) = stages_node o.
Proof. destruct o as [l|]; [|reflexivity]. unfold stages_node. cbn [canon map]. rewrite map_canon_stages. reflexivity. Qed.

Lemma canon_cid o : canon (cid_node o) = cid_node o.
Proof. destruct o; reflexivity. Qed.

Lemma canon_voucher_node v :
  canon (voucher_node "Voucher" v) = voucher_node "Voucher" (canon_voucher v).
Proof. destruct v as [t n]. reflexivity. Qed.
Lemma canon_result_node v :
  canon (voucher_node "VoucherResult" v) = voucher_node "VoucherResult" (canon_voucher v).
Proof. destruct v as [t n]. reflexivity. Qed.

(* ---------- element readers ---------- *)
Lemma all_some_map {A B C} (f : B -> option C) (g : A -> B) (h : A -> C) (P : A -> Prop) l :
  (forall x, P x -> f (g x) = Some (h x)) -> Forall P l -> all_some f (map g l) = Some (map h l).
Proof.
  intros Hf. induction l as [|x r IH]; intros HP; cbn [map all_some]; [reflexivity|].
  inversion HP as [|? ? Hx Hr]; subst. rewrite (Hf x Hx), (IH Hr). reflexivity.
Qed.

Lemma g_int_node i : wf_i64 i -> g_int (int_node i) = Some i.
Proof.
  destruct i as [n a]. unfold wf_i64, g_int, int_node, two63. cbn [fst snd]. intros H.
  destruct (N.ltb_spec a 9223372036854775808); [reflexivity|lia].
Qed.

Lemma g_str_short s : short s = true -> g_str (NString s) = Some s.
Proof. intros H. unfold g_str. rewrite H. reflexivity. Qed.

Lemma log_of_node l : log_ok l = true -> wf_log l -> log_of (log_node l) = Some l.
Proof.
  destruct l as [[t i]|]; [|reflexivity]. cbn [log_ok wf_log lg_text lg_time]. intros Hs Hw.
  unfold log_node, log_of. cbn [lg_text lg_time]. rewrite (g_str_short _ Hs), (g_int_node _ Hw). reflexivity.
Qed.

Lemma forallb_Forall {A} (f : A -> bool) l : forallb f l = true -> Forall (fun x => f x = true) l.
Proof. intros H. apply Forall_forall. apply forallb_forall. exact H. Qed.

Lemma Forall_and {A} (P Q : A -> Prop) l : Forall P l -> Forall Q l -> Forall (fun x => P x /\ Q x) l.
Proof. intros HP HQ. induction HP as [|x r Hx Hr IH]; [constructor|]. inversion HQ; subst. constructor; auto. Qed.

Lemma few_map {A B} (g : A -> B) l : few (map g l) = few l.
Proof. unfold few. rewrite map_length. reflexivity. Qed.

Lemma stage_of_node s : stage_ok s = true -> wf_stage s -> stage_of (stage_node s) = Some s.
Proof.
  destruct s as [[nm ds ct ut lg]|]; [|reflexivity].
  cbn [stage_ok wf_stage sg_name sg_desc sg_created sg_updated sg_logs]. intros Hs [Hc [Hu Hl]].
  apply andb_prop in Hs. destruct Hs as [Hs Hlg]. apply andb_prop in Hs. destruct Hs as [Hs Hfew].
  apply andb_prop in Hs. destruct Hs as [Hn Hd].
  unfold stage_node, stage_of. cbn [sg_name sg_desc sg_created sg_updated sg_logs].
  rewrite (g_str_short _ Hn), (g_str_short _ Hd), (g_int_node _ Hc), (g_int_node _ Hu).
  unfold g_list. rewrite few_map, Hfew.
  rewrite (all_some_map log_of log_node (fun x => x) (fun l => log_ok l = true /\ wf_log l)).
  - rewrite map_id. reflexivity.
  - intros x [A B]. apply log_of_node; assumption.
  - apply Forall_and; [apply forallb_Forall; exact Hlg|exact Hl].
Qed.

Lemma stages_of_node o :
  match o with None => True | Some l => few l = true /\ forallb stage_ok l = true /\ Forall wf_stage l end ->
  stages_of (stages_node o) = Some o.
Proof.
  destruct o as [l|]; [|reflexivity]. intros [Hf [Ho Hw]].
  unfold stages_node, stages_of, g_list. rewrite few_map, Hf.
  rewrite (all_some_map stage_of stage_node (fun x => x) (fun s => stage_ok s = true /\ wf_stage s)).
  - rewrite map_id. reflexivity.
  - intros x [A B]. apply stage_of_node; assumption.
  - apply Forall_and; [apply forallb_Forall; exact Ho|exact Hw].
Qed.

Lemma few_two {A} (a b : A) : few [a; b] = true.
Proof. reflexivity. Qed.

Lemma voucher_of_node v : voucher_ok v = true -> voucher_of "Voucher" (voucher_node "Voucher" v) = Some v.
Proof.
  destruct v as [t n]. unfold voucher_ok. cbn [ev_type]. intros Hs.
  unfold voucher_node, voucher_of. rewrite few_two. cbn [voucher_fields String.eqb Ascii.eqb Bool.eqb ev_type ev_node].
  rewrite (g_str_short _ Hs). reflexivity.
Qed.
Lemma result_of_node v : voucher_ok v = true -> voucher_of "VoucherResult" (voucher_node "VoucherResult" v) = Some v.
Proof.
  destruct v as [t n]. unfold voucher_ok. cbn [ev_type]. intros Hs.
  unfold voucher_node, voucher_of. rewrite few_two. cbn [voucher_fields String.eqb Ascii.eqb Bool.eqb ev_type ev_node].
  rewrite (g_str_short _ Hs). reflexivity.
Qed.

Lemma vouchers_of_nodes l :
  few l = true -> forallb voucher_ok l = true ->
  g_list (voucher_of "Voucher") (NList (map canon (map (voucher_node "Voucher") l))) = Some (map canon_voucher l).
Proof.
  intros Hf Ho. unfold g_list. rewrite !few_map, Hf. rewrite map_map.
  apply (all_some_map _ _ _ (fun v => voucher_ok v = true)).
  - intros x Hx. rewrite canon_voucher_node. apply voucher_of_node. destruct x; exact Hx.
  - apply forallb_Forall. exact Ho.
Qed.
Lemma results_of_nodes l :
  few l = true -> forallb voucher_ok l = true ->
  g_list (voucher_of "VoucherResult") (NList (map canon (map (voucher_node "VoucherResult") l))) = Some (map canon_voucher l).
Proof.
  intros Hf Ho. unfold g_list. rewrite !few_map, Hf. rewrite map_map.
  apply (all_some_map _ _ _ (fun v => voucher_ok v = true)).
  - intros x Hx. rewrite canon_result_node. apply result_of_node. destruct x; exact Hx.
  - apply forallb_Forall. exact Ho.
Qed.

(* ---------- the record ---------- *)
Lemma few_24 {A} (l : list A) : List.length l = 24%nat -> few l = true.
Proof. intros H. unfold few. rewrite H. reflexivity. Qed.

Lemma state_of_state_node s :
  encodable s = true -> wf_state s -> state_of_node (canon (state_node s)) = Some (canon_state s).
Proof.
  destruct s as [self xfer init resp bc sel snd_ rcp tot sta que sen rec msg vs rs rbt qbt sbt lim rf rp ip sg].
  unfold encodable, wf_state.
  cbn [st_self st_xfer st_init st_resp st_basecid st_selector st_sender st_recipient st_total st_status st_queued
       st_sent st_received st_message st_vouchers st_results st_rbt st_qbt st_sbt st_limit st_reqfin st_rpaused
       st_ipaused st_stages].
  intros He Hw.
  repeat match type of He with (_ && _) = true => apply andb_prop in He; let H := fresh "E" in destruct He as [He H] end.
  destruct Hw as [_ [_ [_ [_ [_ [_ [_ [Wr [Wq [Ws [_ [_ [_ [_ Wsg]]]]]]]]]]]]]].
  destruct bc as [c|]; [|discriminate He].
  unfold state_node, state_entries.
  cbn [st_self st_xfer st_init st_resp st_basecid st_selector st_sender st_recipient st_total st_status st_queued
       st_sent st_received st_message st_vouchers st_results st_rbt st_qbt st_sbt st_limit st_reqfin st_rpaused
       st_ipaused st_stages].
  cbn [canon map fst snd sort_entries fold_right insert_entry key_leb String.length Nat.ltb Nat.leb Nat.eqb orb andb negb str_ltb
       N_of_byte N_of_ascii N.ltb N.compare Pos.compare Pos.compare_cont N.add N.mul Pos.add Pos.mul Pos.succ N_of_digits].
  rewrite canon_stages.
  unfold state_of_node. rewrite few_24 by reflexivity.
  unfold int_node.
  cbn [canon cid_node].
  assert (Hsg : stages_of (stages_node sg) = Some sg).
  { apply stages_of_node. destruct sg as [l|]; [|exact I].
    apply andb_prop in E. destruct E as [A B]. repeat split; assumption. }
  pose proof (vouchers_of_nodes vs E3 E2) as Hvs.
  pose proof (results_of_nodes rs E1 E0) as Hrs.
  pose proof (g_int_node _ Ws) as Is. pose proof (g_int_node _ Wq) as Iq. pose proof (g_int_node _ Wr) as Ir.
  unfold int_node in Is, Iq, Ir.
  Ltac sc_step :=
    cbn [read_fields set_field zero_state String.eqb Ascii.eqb Bool.eqb andb g_uint g_bool g_cid].
  sc_step. rewrite (g_str_short snd_) by assumption.
  sc_step. rewrite Hsg.
  sc_step. rewrite (g_str_short msg) by assumption.
  sc_step. rewrite (g_str_short self) by assumption.
  sc_step. rewrite Hvs.
  sc_step. rewrite (g_str_short init) by assumption.
  sc_step. rewrite (g_str_short rcp) by assumption.
  sc_step. rewrite (g_str_short resp) by assumption.
  sc_step. rewrite Hrs.
  sc_step. rewrite Is.
  sc_step. rewrite Iq.
  sc_step. rewrite Ir.
  sc_step. destruct sbt, qbt, rbt.
  replace (or_old (map canon_voucher vs) []) with (map canon_voucher vs) by (destruct vs; reflexivity).
  replace (or_old (map canon_voucher rs) []) with (map canon_voucher rs) by (destruct rs; reflexivity).
  replace (or_old_ptr sg None) with sg by (destruct sg; reflexivity).
  reflexivity.
Qed.


(* ---------- the node of an encodable, in-range record is a well-formed IPLD value ---------- *)
Local Open Scope N_scope.
Lemma short_wf s : short s = true -> N.of_nat (String.length s) < two64.
Proof. unfold short, max_len, two64. intros H. lia. Qed.
Lemma few_wf {A} (l : list A) : few l = true -> N.of_nat (List.length l) < two64.
Proof. unfold few, max_len, two64. intros H. lia. Qed.

Lemma wf_all_map {A} (g : A -> node) (P : A -> Prop) l :
  (forall x, P x -> wf (g x)) -> Forall P l -> wf_all (map g l).
Proof.
  intros Hg HP. induction HP as [|x r Hx Hr IH]; cbn [map wf_all]; [exact I|]. split; [apply Hg; exact Hx|exact IH].
Qed.

Lemma wf_int_node i : wf_i64 i -> wf (int_node i).
Proof. destruct i as [n a]. unfold wf_i64, int_node, two63. cbn [fst snd wf]. unfold two64. lia. Qed.

Lemma wf_log_node l : log_ok l = true -> wf_log l -> wf (log_node l).
Proof.
  destruct l as [[t i]|]; [|intros; exact I]. cbn [log_ok wf_log lg_text lg_time]. intros Hs Hw.
  unfold log_node. apply wf_list. split; [cbn; unfold two64; lia|].
  cbn [wf_all lg_text lg_time]. refine (conj _ (conj _ I)); [apply short_wf; exact Hs|apply wf_int_node; exact Hw].
Qed.

Lemma wf_stage_node s : stage_ok s = true -> wf_stage s -> wf (stage_node s).
Proof.
  destruct s as [[nm ds ct ut lg]|]; [|intros; exact I].
  cbn [stage_ok wf_stage sg_name sg_desc sg_created sg_updated sg_logs]. intros Hs [Hc [Hu Hl]].
  apply andb_prop in Hs. destruct Hs as [Hs Hlg]. apply andb_prop in Hs. destruct Hs as [Hs Hfew].
  apply andb_prop in Hs. destruct Hs as [Hn Hd].
  unfold stage_node. apply wf_list. split; [cbn; unfold two64; lia|].
  cbn [wf_all sg_name sg_desc sg_created sg_updated sg_logs].
  refine (conj _ (conj _ (conj _ (conj _ (conj _ I))))); try (apply short_wf; assumption);
    try (apply wf_int_node; assumption).
  apply wf_list. split; [rewrite map_length; apply few_wf; exact Hfew|].
  apply (wf_all_map _ (fun l => log_ok l = true /\ wf_log l)).
  - intros x [A B]. apply wf_log_node; assumption.
  - apply Forall_and; [apply forallb_Forall; exact Hlg|exact Hl].
Qed.

Lemma wf_stages_node o :
  match o with None => True | Some l => few l = true /\ forallb stage_ok l = true /\ Forall wf_stage l end ->
  wf (stages_node o).
Proof.
  destruct o as [l|]; [|intros; exact I]. intros [Hf [Ho Hw]].
  unfold stages_node. apply wf_list. split; [cbn; unfold two64; lia|]. cbn [wf_all]. split; [|exact I].
  apply wf_list. split; [rewrite map_length; apply few_wf; exact Hf|].
  apply (wf_all_map _ (fun s => stage_ok s = true /\ wf_stage s)).
  - intros x [A B]. apply wf_stage_node; assumption.
  - apply Forall_and; [apply forallb_Forall; exact Ho|exact Hw].
Qed.

Lemma wf_voucher_node key v :
  N.of_nat (String.length key) < two64 -> voucher_ok v = true -> wf (ev_node v) -> wf (voucher_node key v).
Proof.
  destruct v as [t n]. unfold voucher_ok. cbn [ev_type ev_node]. intros Hk Hs Hw.
  unfold voucher_node. apply wf_map. split; [cbn; unfold two64; lia|].
  cbn [wf_ents fst snd]. refine (conj (conj _ _) (conj (conj _ _) I)); try assumption;
    [cbn; unfold two64; lia|apply short_wf; exact Hs].
Qed.

Lemma wf_vouchers key l :
  N.of_nat (String.length key) < two64 -> few l = true -> forallb voucher_ok l = true ->
  Forall (fun v => wf (ev_node v)) l -> wf (NList (map (voucher_node key) l)).
Proof.
  intros Hk Hf Ho Hw. apply wf_list. split; [rewrite map_length; apply few_wf; exact Hf|].
  apply (wf_all_map _ (fun v => voucher_ok v = true /\ wf (ev_node v))).
  - intros x [A B]. apply wf_voucher_node; assumption.
  - apply Forall_and; [apply forallb_Forall; exact Ho|exact Hw].
Qed.

Lemma wf_state_node s : encodable s = true -> wf_state s -> wf (state_node s).
Proof.
  destruct s as [self xfer init resp bc sel snd_ rcp tot sta que sen rec msg vs rs rbt qbt sbt lim rf rp ip sg].
  unfold encodable, wf_state.
  cbn [st_self st_xfer st_init st_resp st_basecid st_selector st_sender st_recipient st_total st_status st_queued
       st_sent st_received st_message st_vouchers st_results st_rbt st_qbt st_sbt st_limit st_reqfin st_rpaused
       st_ipaused st_stages].
  intros He Hw.
  repeat match type of He with (_ && _) = true => apply andb_prop in He; let H := fresh "E" in destruct He as [He H] end.
  destruct Hw as [W1 [W2 [W3 [W4 [W5 [W6 [W7 [Wr [Wq [Ws [Wsel [Wvs [Wrs [Wc Wsg]]]]]]]]]]]]]].
  destruct bc as [c|]; [|discriminate He].
  unfold state_node, state_entries. apply wf_map. split; [cbn; unfold two64; lia|].
  cbn [st_self st_xfer st_init st_resp st_basecid st_selector st_sender st_recipient st_total st_status st_queued
       st_sent st_received st_message st_vouchers st_results st_rbt st_qbt st_sbt st_limit st_reqfin st_rpaused
       st_ipaused st_stages wf_ents fst snd cid_node].
  assert (Hk : forall k : string, (String.length k <= 24)%nat -> N.of_nat (String.length k) < two64)
    by (intros k Hk; unfold two64; lia).
  assert (Hsg : wf (stages_node sg)).
  { apply wf_stages_node. destruct sg as [l|]; [|exact I]. apply andb_prop in E. destruct E as [A B]. repeat split; assumption. }
  assert (Hvs : wf (NList (map (voucher_node "Voucher") vs))) by (apply wf_vouchers; try assumption; cbn; unfold two64; lia).
  assert (Hrs : wf (NList (map (voucher_node "VoucherResult") rs))) by (apply wf_vouchers; try assumption; cbn; unfold two64; lia).
  pose proof (wf_int_node _ Ws) as Is. pose proof (wf_int_node _ Wq) as Iq. pose proof (wf_int_node _ Wr) as Ir.
  revert Hsg Hvs Hrs Is Iq Ir.
  generalize (stages_node sg), (NList (map (voucher_node "Voucher") vs)), (NList (map (voucher_node "VoucherResult") rs)),
    (int_node sbt), (int_node qbt), (int_node rbt).
  intros n1 n2 n3 n4 n5 n6 H1 H2 H3 H4 H5 H6.
  repeat split; try (apply Hk; cbn; lia); try (apply short_wf; assumption); try assumption.
Qed.

(* ---------- the theorems ---------- *)
(* a record the encoder accepts, with every number in its Go range, is read back as the same record:
   all 24 fields, the stage log entry by entry, every voucher and result in order with its type,
   vouchers / results / selector equal as DAG-CBOR data *)
Theorem record_round_trip :
  forall s, encodable s = true -> wf_state s ->
    exists b, st_encode s = Some b /\ st_decode b = Some (canon_state s).
Proof.
  intros s He Hw. exists (encode (state_node s)). split.
  - unfold st_encode. rewrite He. reflexivity.
  - unfold st_decode. rewrite decode_encode by (apply wf_state_node; assumption).
    apply state_of_state_node; assumption.
Qed.

(* ... and nothing else is ever written: the encoder refuses exactly the records outside its limits *)
Theorem record_refused_iff : forall s, st_encode s = None <-> encodable s = false.
Proof. intros s. unfold st_encode. destruct (encodable s); split; intros H; congruence. Qed.

(* the hypotheses are satisfiable by a record with a float 0.0 in its voucher, a nil result node,
   negative block totals and a stage log: the round trip computes *)
Example record_example :
  let s := mkCState "self" 18446744073709551615 "init" "resp" (Some "cid") (NList [NInt true 4; NNull]) "snd" "rcp" 7 3 100 50 0
                    "msg" [mkEV "T" (NMap [("b", NFloat 0); ("a", NInt false 1)])] [mkEV "R" NNull]
                    (true, 0%N) (false, 9%N) (false, 9223372036854775807%N) 1000 true false true
                    (Some [Some (mkStage "Requested" "" (false, 5%N) (true, 6%N) [Some (mkLog "opened" (false, 5%N)); None]); None]) in
  encodable s = true /\
  match st_encode s with Some b => st_decode b = Some (canon_state s) | None => False end.
Proof. vm_compute. split; reflexivity. Qed.
