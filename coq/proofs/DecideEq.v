(* The decision functions the hand-written models use are the ones in the source: GenDecide.v is
   regenerated from channels/channel_state.go, manager.go and impl/receiving_requests.go on every
   run; here each generated definition is proved equal, for all arguments, to the definition the
   models and theorems are written with. *)
From Coq Require Import List NArith ZArith String Bool.
From DT Require Import GenStatus GenEvent GenMsgType FsmTypes GenFsm Fsm Msg Node GenDecide.
Import ListNotations.

Theorem is_pull_is_source : forall c, gen_IsPull c = is_pull c.
Proof. reflexivity. Qed.

Theorem initiator_paused_is_source : forall c, gen_InitiatorPaused c = initiator_paused_view c.
Proof. reflexivity. Qed.

Theorem responder_paused_is_source : forall c, gen_ResponderPaused c = responder_paused_view c.
Proof. reflexivity. Qed.

Theorem both_paused_is_source : forall c, gen_BothPaused c = both_paused_view c.
Proof. reflexivity. Qed.

Theorem self_paused_is_source : forall c, gen_SelfPaused c = self_paused_view c.
Proof. reflexivity. Qed.

Theorem other_peer_is_source : forall c, gen_OtherPeer c = other_peer c.
Proof. reflexivity. Qed.

Theorem leave_paused_is_source : forall vr c, gen_LeaveRequestPaused vr c = leave_paused vr c.
Proof.
  intros vr c. unfold gen_LeaveRequestPaused, leave_paused, in_finalization, gen_IsPull, is_pull.
  destruct (vr_force vr); [reflexivity|].
  destruct (vr_fin vr && in_status (c_status c) FinalizationStatuses); reflexivity.
Qed.

Theorem request_error_is_source : forall vr err stay, gen_requestError vr err stay = request_error vr err stay.
Proof. intros vr err stay. unfold gen_requestError, request_error. destruct err, (vr_accepted vr), stay; reflexivity. Qed.

Theorem pause_views_are_source :
  forall c, gen_InitiatorPaused c = initiator_paused_view c /\ gen_ResponderPaused c = responder_paused_view c /\
            gen_BothPaused c = both_paused_view c /\ gen_SelfPaused c = self_paused_view c.
Proof. intros c. repeat split. Qed.

Theorem party_views_are_source : forall c, gen_IsPull c = is_pull c /\ gen_OtherPeer c = other_peer c.
Proof. intros c. split; reflexivity. Qed.

(* ---- the accessors the readers use, the readers that seed the caches, and the wiring of the three
   kinds of block report (channels/channel_state.go, channels/channels.go) ---- *)
From DT Require Import Caches.

Theorem counters_are_source :
  forall c, gen_Queued c = c_queued c /\ gen_Sent c = c_sent c /\ gen_Received c = c_received c /\
            gen_DataLimit c = c_limit c /\ gen_TotalSize c = c_totalsize c /\
            gen_RequiresFinalization c = c_reqfin c /\
            gen_QueuedCidsTotal c = c_qblocks c /\ gen_SentCidsTotal c = c_sblocks c /\
            gen_ReceivedCidsTotal c = c_rblocks c.
Proof. intros c. repeat split. Qed.

Theorem report_wiring_is_source :
  forall k, gen_data_event k = data_event k /\ gen_progress_event k = progress_event k.
Proof. intros k. destruct k; split; reflexivity. Qed.

Theorem cache_seeding_is_source :
  forall k c,
    gen_index_seed k c = durable_index k c /\
    gen_progress_seed k c = (if limited k then Some (c_limit c, durable_total k c) else None).
Proof. intros k c. destruct k; split; reflexivity. Qed.

Theorem other_party_is_source : forall p k, gen_OtherParty p k = other_party p k.
Proof. reflexivity. Qed.
