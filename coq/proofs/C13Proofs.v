(* C13: opening a version-2 datastore -- over the generated migrate_2_3 and Migrate.v *)
From Coq Require Import List NArith ZArith String Bool Lia.
From DT Require Import GenStatus FsmTypes Fsm GenMigrate Migrate.
Import ListNotations.

(* ---------- the record migration (generated from MigrateChannelState2To3) ---------- *)
Definition deprecated_paused (s : Status) : bool :=
  match s with InitiatorPaused | ResponderPaused | BothPaused => true | _ => false end.

Theorem all_fields_preserved :
  forall o, let c := migrate_2_3 o in
    c_self c = c2_self o /\ c_tid c = c2_tid o /\ c_init c = c2_init o /\ c_resp c = c2_resp o /\
    c_basecid c = c2_basecid o /\ c_selector c = c2_selector o /\ c_sender c = c2_sender o /\
    c_recipient c = c2_recipient o /\ c_totalsize c = c2_totalsize o /\
    c_queued c = c2_queued o /\ c_sent c = c2_sent o /\ c_received c = c2_received o /\
    c_msg c = c2_msg o /\ c_vouchers c = c2_vouchers o /\ c_results c = c2_results o /\
    c_rblocks c = c2_rblocks o /\ c_qblocks c = c2_qblocks o /\ c_sblocks c = c2_sblocks o /\
    c_limit c = c2_limit o /\ c_reqfin c = c2_reqfin o /\ c_stages c = c2_stages o.
Proof. intros o. cbn. repeat split. Qed.

Theorem status_mapping :
  forall o, let c := migrate_2_3 o in
    (deprecated_paused (c2_status o) = true ->
       c_status c = Ongoing /\
       c_ipaused c = (status_eqb (c2_status o) InitiatorPaused || status_eqb (c2_status o) BothPaused) /\
       c_rpaused c = (status_eqb (c2_status o) ResponderPaused || status_eqb (c2_status o) BothPaused)) /\
    (deprecated_paused (c2_status o) = false ->
       c_status c = c2_status o /\ c_ipaused c = false /\ c_rpaused c = false).
Proof. intros o. cbn. destruct (c2_status o); cbn; split; intros H; try discriminate H; repeat split. Qed.

(* per deprecated status, spelled out *)
Corollary paused_statuses :
  forall o, let c := migrate_2_3 o in
    (c2_status o = InitiatorPaused -> c_status c = Ongoing /\ c_ipaused c = true /\ c_rpaused c = false) /\
    (c2_status o = ResponderPaused -> c_status c = Ongoing /\ c_ipaused c = false /\ c_rpaused c = true) /\
    (c2_status o = BothPaused -> c_status c = Ongoing /\ c_ipaused c = true /\ c_rpaused c = true).
Proof. intros o. cbn. repeat split; rewrite H; reflexivity. Qed.

(* the struct literal assigns every field of ChannelState and reads every field of ChannelStateV2 *)
Theorem nothing_dropped : migrate_unassigned = [] /\ migrate_unread = [].
Proof. split; reflexivity. Qed.

(* ---------- the migration run ---------- *)
Theorem start_migrates_every_record :
  forall s, st_version s = V2 ->
    existsb (fun p => has_key (fst p) (st_v3 s)) (st_v2 s) = false ->
    start s = (mkStore V3 [] (st_v3 s ++ map (fun p => (fst p, migrate_2_3 (snd p))) (st_v2 s)), Ready).
Proof. intros s Hv Hc. unfold start. rewrite Hv, Hc. reflexivity. Qed.

Theorem start_failure_changes_nothing :
  forall s s', start s = (s', MigrationFailed) -> s' = s.
Proof.
  intros s s'. unfold start. destruct (st_version s).
  - intros H. inversion H.
  - destruct (existsb _ (st_v2 s)); intros H; inversion H; reflexivity.
  - intros H. inversion H.
Qed.

(* native (version 3) stores and fresh stores are left as they are *)
Theorem start_native_unchanged :
  forall s, st_version s = V3 -> start s = (s, Ready).
Proof. intros s H. unfold start. rewrite H. reflexivity. Qed.

(* starting again on an already migrated store changes nothing *)
Theorem restart_idempotent :
  forall s s1, start s = (s1, Ready) -> start s1 = (s1, Ready) /\ st_version s1 = V3.
Proof.
  intros s s1. unfold start at 1. destruct (st_version s) eqn:V.
  - intros H. inversion H; subst. split; reflexivity.
  - destruct (existsb _ (st_v2 s)); intros H; inversion H; subst. split; reflexivity.
  - intros H. inversion H; subst. split; [apply start_native_unchanged|]; exact V.
Qed.

(* ... for any number of restarts *)
Theorem restarts_idempotent :
  forall n s s1, start s = (s1, Ready) -> Nat.iter n (fun x => fst (start x)) s1 = s1.
Proof.
  intros n s s1 H. destruct (restart_idempotent s s1 H) as [H1 _].
  induction n as [|n IH]; [reflexivity|]. cbn [Nat.iter nat_rect]. unfold Nat.iter in IH. rewrite IH, H1. reflexivity.
Qed.

(* ---------- readiness ---------- *)
Theorem gate_refuses_until_ready :
  forall R (m : modl) (f : store -> store * R),
    md_ready m <> Some Ready -> mod_op m f = (m, None).
Proof.
  intros R m f H. unfold mod_op. destruct (md_ready m) as [[|]|]; try reflexivity. contradiction H. reflexivity.
Qed.

Theorem gate_open_when_ready :
  forall R (m : modl) (f : store -> store * R),
    md_ready m = Some Ready -> exists r s', f (md_store m) = (s', r) /\ snd (mod_op m f) = Some r /\ md_store (fst (mod_op m f)) = s'.
Proof.
  intros R m f H. unfold mod_op. rewrite H. destruct (f (md_store m)) as [s' r]. exists r, s'. cbn. auto.
Qed.

(* n listeners registered through OnReady *)
Fixpoint reg (n : nat) (m : modl) : modl := match n with O => m | S k => mod_on_ready (reg k m) end.

Lemma reg_spec n m : md_listeners (reg n m) = n + md_listeners m /\
  md_calls (reg n m) = md_calls m /\ md_ready (reg n m) = md_ready m /\ md_store (reg n m) = md_store m.
Proof.
  induction n as [|n IH]; cbn [reg]; [cbn; auto|]. destruct IH as [A [B [C D]]].
  unfold mod_on_ready. cbn. rewrite A, B, C, D. auto.
Qed.

(* readiness is announced once, with the migration outcome, to each listener registered before
   Start; Start on a started module announces nothing more *)
Theorem ready_announced_once :
  forall s n, let m := mod_start (reg n (mod_new s)) in
    md_ready m = Some (snd (start s)) /\ md_store m = fst (start s) /\
    md_calls m = map (fun i => (i, snd (start s))) (seq 0 n) /\
    mod_start m = m.
Proof.
  intros s n. cbv zeta. destruct (reg_spec n (mod_new s)) as [A [B [C D]]]. cbn in A, B, C, D.
  set (r := reg n (mod_new s)) in *.
  assert (E : mod_start r = mkMod (fst (start s)) (Some (snd (start s))) n (map (fun i => (i, snd (start s))) (seq 0 n))).
  { unfold mod_start. rewrite C, D, A, B. destruct (start s) as [s' o]. cbn. rewrite Nat.add_0_r. reflexivity. }
  rewrite E. cbn. repeat split.
Qed.

Example migration_example :
  let o := mkChan2 1 7 1 2 1 2 1 2 100 BothPaused 10 20 30 "m" [] [] 3 4 5 50 true None in
  let s := mkStore V2 [(1%N, o)] [] in
  fst (start s) = mkStore V3 [] [(1%N, mkChan 1 7 1 2 1 2 1 2 100 Ongoing 10 20 30 "m" [] [] 3 4 5 50 true true true None)] /\
  snd (start s) = Ready.
Proof. vm_compute. split; reflexivity. Qed.
