(* C05 / C02 / C10 frame: an input that names channel k changes no other channel and issues
   transport commands, protections and validator calls for k only -- for every handler, every
   state and every oracle answer. *)
From Coq Require Import List NArith ZArith String Bool Lia.
From RecordUpdate Require Import RecordSet.
From DT Require Import GenStatus GenEvent GenMsgType FsmTypes GenFsm Fsm Machine View Caches Msg Node
     FsmFacts NodeFacts.
Import ListNotations RecordSetNotations.

(* every other key keeps its entry *)
Definition others_same (k : chid) (s s' : nstate) : Prop :=
  forall k', k' <> k -> lookup k' (n_chans (s_node s')) = lookup k' (n_chans (s_node s)).

Lemma others_same_refl k s : others_same k s s.
Proof. intros k' _. reflexivity. Qed.

Lemma others_same_trans k a b c : others_same k a b -> others_same k b c -> others_same k a c.
Proof. intros H1 H2 k' Hne. rewrite (H2 k' Hne). apply H1. exact Hne. Qed.

Lemma set_chan_others k s cs : others_same k s (set_chan s k cs).
Proof. intros k' Hne. unfold set_chan. cbn. apply lookup_update_other. exact Hne. Qed.

Lemma emit_others k s o : others_same k s (emit s o).
Proof. intros k' _. reflexivity. Qed.

Lemma send_chan_others k s cs e : others_same k s (snd (send_chan s k cs e)).
Proof.
  unfold send_chan. destruct (m_dead _); [apply others_same_refl|].
  destruct (deliver _ _) as [m' o]. cbn [snd].
  eapply others_same_trans; [apply set_chan_others|apply emit_others].
Qed.

Lemma send_all_others k evs : forall s, others_same k s (snd (send_all s k evs)).
Proof.
  induction evs as [|e r IH]; intros s; cbn [send_all]; [apply others_same_refl|].
  destruct (lookup k _) as [cs|]; [|apply others_same_refl].
  destruct (send_chan s k cs e) as [res s'] eqn:E.
  pose proof (send_chan_others k s cs e) as H. rewrite E in H. cbn [snd] in H.
  destruct res; try exact H. eapply others_same_trans; [exact H|apply IH].
Qed.

Lemma chid_eqb_eq a b : chid_eqb a b = true <-> a = b.
Proof. apply triple_eqb_eq. Qed.

(* an instruction that respects the key discipline leaves every other channel alone *)
Lemma instr_others k X (i : instr X) s : key_ok k i = true -> others_same k s (snd (run_instr s i)).
Proof.
  unfold key_ok. destruct i; cbn [instr_key run_instr]; intros Hk;
    try (apply chid_eqb_eq in Hk; subst).
  - destruct (lookup k _); [apply set_chan_others|apply others_same_refl].
  - apply others_same_refl.
  - destruct (lookup k _); [apply send_chan_others|apply others_same_refl].
  - destruct (lookup (chan_id c) _) eqn:L; [apply others_same_refl|].
    intros k' Hne. cbn.
    change (lookup k' (n_chans (s_node s) ++ [(chan_id c, mkCS (m_init c) empty_cache)]) = lookup k' (n_chans (s_node s))).
    rewrite lookup_app_new by exact L. destruct (lookup k' _); [reflexivity|].
    destruct (chid_eqb (chan_id c) k') eqn:E; [apply chid_eqb_eq in E; congruence|reflexivity].
  - destruct (lookup k _) as [cs|]; [|apply others_same_refl].
    destruct (fire _ _ _) as [[cc' evs] pause].
    match goal with |- context [send_all ?s1 k evs] => set (s1' := s1) end.
    destruct (send_all s1' k evs) as [res s2] eqn:E. cbn [snd].
    pose proof (send_all_others k evs s1') as H. rewrite E in H.
    eapply others_same_trans; [|exact H]. subst s1'. apply set_chan_others.
  - destruct (lookup k _) as [cs|]; [|apply others_same_refl].
    destruct (set_limit _ _) as [cc' evs].
    eapply others_same_trans; [apply set_chan_others|apply send_all_others].
  - destruct (pop_val _). intros k' _. reflexivity.
  - apply others_same_refl.
  - destruct (pop_bool _). intros k' _. reflexivity.
  - destruct c; try destruct (pop_bool _); intros k' _; reflexivity.
  - intros k' _. reflexivity.
  - intros k' _. reflexivity.
  - apply others_same_refl.
Qed.

Theorem keyed_others_same : forall A k (p : prog A) s, others_same k s (snd (run_keyed k p s)).
Proof.
  intros A k p. induction p as [a|X i cont IH]; intros s; cbn [run_keyed]; [apply others_same_refl|].
  destruct (key_ok k i) eqn:K; [|apply others_same_refl].
  destruct (run_instr s i) as [x s'] eqn:E.
  pose proof (instr_others k X i s K) as H. rewrite E in H.
  eapply others_same_trans; [exact H|apply IH].
Qed.

(* outputs that name a channel name k *)
Definition out_key (o : nout) : option chid :=
  match o with
  | NEvent k _ _ => Some k
  | NTransport c _ => Some (tcmd_key c)
  | NValidate _ k => Some k
  | NProtect _ k | NUnprotect _ k => Some k
  | NSent _ _ _ => None
  end.

(* records are stored under their own id *)
Definition store_ok (n : node) : Prop :=
  forall k cs, lookup k (n_chans n) = Some cs -> chan_id (m_chan (cs_m cs)) = k.

(* the key-discipline theorem for one step: every other channel keeps its record, whatever
   the input, the sender and the oracle answers are *)
Theorem step_touches_only_its_key :
  forall n st k,
    input_key (n_self n) (st_in st) = Some k ->
    forall k' cs, k' <> k -> lookup k' (n_chans n) = Some cs ->
      exists cs', lookup k' (n_chans (fst (fst (step n st)))) = Some cs' /\
                  m_chan (cs_m cs') = m_chan (cs_m cs) /\ cs_cache cs' = cs_cache cs.
Proof.
  intros n st k Hk k' cs Hne Hl. unfold step. rewrite Hk.
  set (s0 := mkNS (pre_step n (st_in st)) (st_sendf st) (st_trf st) (st_vals st) []).
  assert (Hpre : pre_step n (st_in st) = n).
  { unfold pre_step. destruct (st_in st); try reflexivity; cbn in Hk; discriminate. }
  destruct (run_keyed k (handler (st_in st)) s0) as [r s1] eqn:E. cbn [fst].
  pose proof (keyed_others_same _ k (handler (st_in st)) s0) as H. rewrite E in H. cbn [snd] in H.
  specialize (H k' Hne). subst s0. cbn [s_node] in H. rewrite Hpre, Hl in H.
  unfold sync_all. cbn.
  rewrite (lookup_map (fun cs0 => cs0 <| cs_m := msync (cs_m cs0) |>)).
  - rewrite H. cbn. eexists. split; [reflexivity|]. cbn. split; [apply msync_chan|reflexivity].
  - intros cs0. cbn. apply msync_chan.
Qed.

(* who can address a channel at all: a request from p can only name channels p initiated with
   self as responder; a response from p only channels self initiated with p as responder *)
Theorem message_key_addresses_only_counterparty_role :
  forall self from m c,
    (input_key self (MRequest from m) = Some (chan_id c) -> c_init c = from /\ c_resp c = self) /\
    (input_key self (MResponse from m) = Some (chan_id c) -> c_init c = self /\ c_resp c = from).
Proof.
  intros self from m c. unfold chan_id. cbn. split; intros H; inversion H; auto.
Qed.
