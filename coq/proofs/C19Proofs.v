(* C19 (FSM level): state views are total and self-consistent; logs are append-only. *)
From Coq Require Import List NArith ZArith String Bool Lia.
From RecordUpdate Require Import RecordSet.
From DT Require Import GenStatus GenEvent FsmTypes GenFsm Fsm FsmFacts.
Import ListNotations RecordSetNotations.

(* ---------- 'last' accessors: the final entry, or the empty value ---------- *)
Theorem last_is_final_entry :
  forall c,
    (c_results c = [] -> last_result c = no_voucher) /\
    (forall l x, c_results c = l ++ [x] -> last_result c = x) /\
    (c_vouchers c = [] -> last_voucher c = no_voucher) /\
    (forall l x, c_vouchers c = l ++ [x] -> last_voucher c = x).
Proof.
  intros c. unfold last_result, last_voucher. repeat split.
  - intros ->. reflexivity.
  - intros l x ->. apply last_last.
  - intros ->. reflexivity.
  - intros l x ->. apply last_last.
Qed.

(* ---------- well-formed records and the derived views ---------- *)
(* how CreateNew builds a record: self and the initiator are parties, the parties differ,
   the responder is the party that is not the initiator *)
Record wf (c : chan) : Prop := {
  wf_parties : c_sender c <> c_recipient c;
  wf_init : c_init c = c_sender c \/ c_init c = c_recipient c;
  wf_resp : c_resp c = (if N.eqb (c_sender c) (c_init c) then c_recipient c else c_sender c);
  wf_self : c_self c = c_sender c \/ c_self c = c_recipient c
}.

Lemma create_new_wf self tid b s v i snd rcv :
  snd <> rcv -> (i = snd \/ i = rcv) -> (self = snd \/ self = rcv) ->
  wf (create_new self tid b s v i snd rcv).
Proof. intros H1 H2 H3. constructor; cbn; auto. Qed.

Theorem views_consistent :
  forall c, wf c ->
    (is_pull c = true <-> c_init c = c_recipient c) /\
    chid_of c = (c_init c, c_resp c, c_tid c) /\
    other_peer c <> c_self c /\
    (other_peer c = c_sender c \/ other_peer c = c_recipient c) /\
    c_init c <> c_resp c.
Proof.
  intros c [Hp Hi Hr Hs].
  assert (Hpull : is_pull c = true <-> c_init c = c_recipient c) by (unfold is_pull; apply N.eqb_eq).
  split; [exact Hpull|].
  unfold chid_of, other_peer, is_pull in *.
  destruct (N.eqb_spec (c_init c) (c_recipient c)) as [E|NE].
  - (* pull: initiator is the recipient, so the responder is the sender *)
    assert (c_sender c <> c_init c) by congruence.
    destruct (N.eqb_spec (c_sender c) (c_init c)) as [E'|_]; [congruence|].
    rewrite Hr. repeat split.
    + rewrite E. reflexivity.
    + destruct (N.eqb_spec (c_sender c) (c_self c)); destruct Hs; congruence.
    + destruct (N.eqb_spec (c_sender c) (c_self c)); auto.
    + congruence.
  - assert (Ei : c_init c = c_sender c) by (destruct Hi; congruence).
    destruct (N.eqb_spec (c_sender c) (c_init c)) as [_|NE']; [|congruence].
    rewrite Hr. repeat split.
    + rewrite Ei. reflexivity.
    + destruct (N.eqb_spec (c_sender c) (c_self c)); destruct Hs; congruence.
    + destruct (N.eqb_spec (c_sender c) (c_self c)); auto.
    + congruence.
Qed.

Lemma wf_identity c c' : identity_of c' = identity_of c -> wf c -> wf c'.
Proof.
  unfold identity_of. intros H [A B C D]. inversion H.
  constructor; rewrite ?H1, ?H3, ?H4, ?H7, ?H8; assumption.
Qed.

(* every event preserves well-formedness (identity fields are never written) *)
Theorem wf_preserved : forall c e, wf c -> wf (apply_chan c e).
Proof. intros c e. apply wf_identity. apply apply_chan_identity. Qed.

Theorem wf_history : forall es c, wf c -> wf (fold_left apply_chan es c).
Proof. induction es as [|e es IH]; intros c H; cbn; [exact H|]. apply IH. apply wf_preserved. exact H. Qed.

(* ---------- voucher logs are append-only ---------- *)
Definition appends (a : Act) : (bool * bool) :=
  match a with AAppend FVouchers => (true, false) | AAppend FVoucherResults => (false, true) | _ => (false, false) end.

Lemma fold_logs_append a l : forall t,
  exists s1 s2, fold_left (act_logs a) l t = (fst t ++ s1, snd t ++ s2) /\
    List.length s1 = List.length (filter (fun x => fst (appends x)) l) /\
    List.length s2 = List.length (filter (fun x => snd (appends x)) l) /\
    (forall x, In x s1 -> x = a_voucher a) /\ (forall x, In x s2 -> x = a_voucher a).
Proof.
  induction l as [|x l IH]; intros t; cbn [fold_left filter].
  - exists [], []. rewrite !app_nil_r. destruct t. repeat split; auto; intros ? [].
  - destruct (IH (act_logs a t x)) as [s1 [s2 [E [L1 [L2 [I1 I2]]]]]].
    destruct x as [f s|f b|f|f|f|f|lg]; cbn [act_logs appends fst snd] in *;
      try (exists s1, s2; repeat split; assumption).
    destruct f; cbn [act_logs appends fst snd] in *.
    + exists (a_voucher a :: s1), s2. rewrite E. cbn [fst snd]. rewrite <- app_assoc. cbn.
      repeat split; auto. intros y [<-|H]; auto.
    + exists s1, (a_voucher a :: s2). rewrite E. cbn [fst snd]. rewrite <- app_assoc. cbn.
      repeat split; auto. intros y [<-|H]; auto.
Qed.

(* exactly NewVoucher appends one voucher, exactly NewVoucherResult appends one result *)
Definition log_writers_ok (e : EventCode) : bool :=
  Nat.eqb (List.length (filter (fun x => fst (appends x)) (acts_of e))) (if event_eqb e NewVoucher then 1 else 0) &&
  Nat.eqb (List.length (filter (fun x => snd (appends x)) (acts_of e))) (if event_eqb e NewVoucherResult then 1 else 0).
Lemma log_writers_all : forall e, log_writers_ok e = true.
Proof. apply forall_event. vm_compute. reflexivity. Qed.

Theorem logs_append_only :
  forall c e, exists s1 s2,
    c_vouchers (apply_chan c e) = c_vouchers c ++ s1 /\
    c_results (apply_chan c e) = c_results c ++ s2 /\
    (fst e <> NewVoucher -> s1 = []) /\ (fst e <> NewVoucherResult -> s2 = []) /\
    (s1 = [] \/ s1 = [a_voucher (snd e)]) /\ (s2 = [] \/ s2 = [a_voucher (snd e)]).
Proof.
  intros c e.
  change (c_vouchers (apply_chan c e)) with (fst (logs_of (apply_chan c e))).
  change (c_results (apply_chan c e)) with (snd (logs_of (apply_chan c e))).
  rewrite apply_chan_logs.
  destruct (valid_in (fst e) (c_status c)).
  2:{ exists [], []. cbn. rewrite !app_nil_r. repeat split; auto. }
  destruct (fold_logs_append (snd e) (acts_of (fst e)) (logs_of c)) as [s1 [s2 [E [L1 [L2 [I1 I2]]]]]].
  pose proof (log_writers_all (fst e)) as W. unfold log_writers_ok in W.
  apply andb_true_iff in W. destruct W as [W1 W2]. apply Nat.eqb_eq in W1. apply Nat.eqb_eq in W2.
  rewrite W1 in L1. rewrite W2 in L2.
  exists s1, s2. rewrite E. cbn [fst snd logs_of]. repeat split.
  - intros Hne. destruct (event_eqb (fst e) NewVoucher) eqn:He.
    + apply event_eqb_eq in He. contradiction.
    + destruct s1; [reflexivity|discriminate L1].
  - intros Hne. destruct (event_eqb (fst e) NewVoucherResult) eqn:He.
    + apply event_eqb_eq in He. contradiction.
    + destruct s2; [reflexivity|discriminate L2].
  - destruct s1 as [|x [|y s1]]; [left; reflexivity| right | ].
    + rewrite (I1 x (or_introl eq_refl)). reflexivity.
    + destruct (event_eqb (fst e) NewVoucher); discriminate L1.
  - destruct s2 as [|x [|y s2]]; [left; reflexivity| right | ].
    + rewrite (I2 x (or_introl eq_refl)). reflexivity.
    + destruct (event_eqb (fst e) NewVoucherResult); discriminate L2.
Qed.

(* over any history both logs only grow: the old log is a prefix of the new one *)
Theorem logs_prefix_history :
  forall es c, exists s1 s2,
    c_vouchers (fold_left apply_chan es c) = c_vouchers c ++ s1 /\
    c_results (fold_left apply_chan es c) = c_results c ++ s2.
Proof.
  induction es as [|e es IH]; intros c; cbn [fold_left].
  - exists [], []. rewrite !app_nil_r. auto.
  - destruct (IH (apply_chan c e)) as [t1 [t2 [A B]]].
    destruct (logs_append_only c e) as [s1 [s2 [C [D _]]]].
    exists (s1 ++ t1), (s2 ++ t2). rewrite A, B, C, D, !app_assoc. auto.
Qed.

(* the first voucher is always the one the channel was opened with *)
Theorem first_voucher_is_opening_voucher :
  forall es c, c_vouchers c <> [] -> first_voucher (fold_left apply_chan es c) = first_voucher c.
Proof.
  intros es c Hne. destruct (logs_prefix_history es c) as [s1 [_ [A _]]].
  unfold first_voucher. rewrite A. destruct (c_vouchers c); [contradiction|reflexivity].
Qed.

Example created_channel_views :
  let c := create_new 1 7 5 6 {| v_type := "T"; v_node := 9 |} 1 2 1 in
  wf c /\ is_pull c = true /\ chid_of c = (1%N, 2%N, 7%N) /\ other_peer c = 2%N /\
  last_result c = no_voucher /\ first_voucher c = {| v_type := "T"; v_node := 9 |}.
Proof. cbn. repeat split; try reflexivity; try (left; reflexivity); try (right; reflexivity); discriminate. Qed.
