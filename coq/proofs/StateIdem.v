From Coq Require Import List NArith ZArith String Ascii Bool Arith Lia.
From DT Require Import Cbor CborProofs StateCodec StateCodecProofs CanonIdem.
Import ListNotations.

Lemma canon_voucher_idem v : canon_voucher (canon_voucher v) = canon_voucher v.
Proof. destruct v as [t n]. unfold canon_voucher. cbn [ev_type ev_node]. rewrite canon_idem. reflexivity. Qed.

Lemma canon_state_idem s : canon_state (canon_state s) = canon_state s.
Proof.
  destruct s as [self xfer init resp bc sel snd_ rcp tot sta que sen rec msg vs rs rbt qbt sbt lim rf rp ip sg]. unfold canon_state. rewrite canon_idem, !map_map.
  f_equal; apply map_ext; intros v; apply canon_voucher_idem.
Qed.

Lemma forallb_map {A B} (f : B -> bool) (g : A -> B) l : forallb f (map g l) = forallb (fun x => f (g x)) l.
Proof. induction l as [|x r IH]; cbn; [reflexivity|]. rewrite IH. reflexivity. Qed.

Lemma encodable_canon s : encodable (canon_state s) = encodable s.
Proof.
  destruct s as [self xfer init resp bc sel snd_ rcp tot sta que sen rec msg vs rs rbt qbt sbt lim rf rp ip sg]. unfold encodable, canon_state.
  cbn [st_self st_init st_resp st_basecid st_sender st_recipient st_message st_vouchers st_results st_stages].
  rewrite !few_map, !forallb_map. reflexivity.
Qed.

Lemma wf_canon_node n : wf n -> wf (canon n).
Proof. apply (wf_canon (depth n) n (le_n _)). Qed.

Lemma Forall_map_wf l : Forall (fun v => wf (ev_node v)) l -> Forall (fun v => wf (ev_node v)) (map canon_voucher l).
Proof.
  intros H. induction H as [|x r Hx Hr IH]; cbn [map]; constructor; [|exact IH].
  destruct x as [t n]. cbn [canon_voucher ev_node ev_type] in *. apply wf_canon_node. exact Hx.
Qed.

Lemma wf_state_canon s : wf_state s -> wf_state (canon_state s).
Proof.
  destruct s as [self xfer init resp bc sel snd_ rcp tot sta que sen rec msg vs rs rbt qbt sbt lim rf rp ip sg]. unfold wf_state, canon_state.
  cbn [st_xfer st_total st_status st_queued st_sent st_received st_limit st_rbt st_qbt st_sbt st_selector st_vouchers
       st_results st_basecid st_stages].
  intros [H1 [H2 [H3 [H4 [H5 [H6 [H7 [H8 [H9 [H10 [H11 [H12 [H13 [H14 H15]]]]]]]]]]]]]].
  repeat (split; [assumption|]).
  split; [apply wf_canon_node; exact H11|].
  split; [apply Forall_map_wf; exact H12|].
  split; [apply Forall_map_wf; exact H13|].
  split; assumption.
Qed.

(* a record that was read back is written and read again unchanged: restarts do not drift *)
Theorem record_stable_after_first_read :
  forall s, encodable s = true -> wf_state s ->
    exists b, st_encode (canon_state s) = Some b /\ st_decode b = Some (canon_state s).
Proof.
  intros s He Hw.
  destruct (record_round_trip (canon_state s)) as [b [E D]].
  - rewrite encodable_canon. exact He.
  - apply wf_state_canon. exact Hw.
  - exists b. split; [exact E|]. rewrite D, canon_state_idem. reflexivity.
Qed.
