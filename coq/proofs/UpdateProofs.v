(* UpdateValidationStatus, once the channel c has been read (the responder's side): what it does to
   the transport for each kind of outcome *)
From Coq Require Import List NArith ZArith String Bool.
From RecordUpdate Require Import RecordSet.
From DT Require Import GenStatus GenEvent GenMsgType FsmTypes GenFsm Fsm Machine View Caches Msg Node NodeLiftS.
Import ListNotations RecordSetNotations.

Definition uv_body (k : chid) (c : chan) (vr : valres) : prog nret :=
  r <- (if negb (vr_accepted vr) then record_rejected k vr else record_accepted c vr) ;;
  if negb (ret_ok r) then Ret r
  else
    let mt := if status_eqb (c_status c) Finalizing then CompleteMessage else VoucherResultMessage in
    let pause := leave_paused vr c in
    let resp := validation_result_response mt (c_tid c) vr false pause in
    let kk := chid_of c in
    if vr_accepted vr && negb pause && responder_paused_view c && negb (in_finalization (c_status c))
    then ok <- exec (ITransport (TResume kk resp)) ;; Ret (if ok then ROk else ROther)
    else
      ok <- exec (INetSend (k_init kk) resp) ;;
      if negb ok then Ret ROther
      else if negb (vr_accepted vr) then exec (ITransport (TClose kk)) ;;; Ret ROk
      else if pause && negb (responder_paused_view c) && negb (in_finalization (c_status c))
      then ok <- exec (ITransport (TPause kk)) ;; Ret (if ok then ROk else ROther)
      else Ret ROk.

Lemma update_validation_unfold k vr :
  update_validation k vr =
  (self <- exec ISelf ;;
   if N.eqb (k_init k) self then Ret ROther
   else oc <- exec (IGet k) ;;
        match oc with None => Ret RNotFound | Some c => uv_body k c vr end).
Proof. reflexivity. Qed.

(* a rejecting update: record the rejection, tell the initiator, close the transport channel -- in
   this order, and nothing else (the pause-implying fields of the result play no part) *)
Theorem rejecting_update_closes_transport :
  forall k c vr, vr_accepted vr = false ->
    uv_body k c vr =
    (r <- record_rejected k vr ;;
     if negb (ret_ok r) then Ret r
     else
       let mt := if status_eqb (c_status c) Finalizing then CompleteMessage else VoucherResultMessage in
       ok <- exec (INetSend (k_init (chid_of c)) (validation_result_response mt (c_tid c) vr false (leave_paused vr c))) ;;
       if negb ok then Ret ROther else exec (ITransport (TClose (chid_of c))) ;;; Ret ROk).
Proof. intros k c vr H. unfold uv_body. rewrite H. reflexivity. Qed.

(* an accepting update resumes the transport only if the result does not leave the request paused:
   new limit zero or above the progress made, no forced pause, no pending finalization *)
Definition no_resume (X : Type) (i : instr X) : Prop :=
  match i with ITransport (TResume _ _) => False | _ => True end.
Definition no_pause (X : Type) (i : instr X) : Prop :=
  match i with ITransport (TPause _) => False | _ => True end.

Lemma all_instr_weaken self (Q Q' : forall X, instr X -> Prop) A (p : prog A) :
  (forall X i, Q X i -> Q' X i) -> all_instr self Q A p -> all_instr self Q' A p.
Proof. intros H HP. induction HP; constructor; auto. Qed.

Ltac ai_step :=
  match goal with
  | |- all_instr _ _ _ (Ret _) => apply ai_ret
  | |- all_instr _ _ _ (Do _ _) => apply ai_do; [cbn; try exact I|intros ? ?]
  | |- all_instr _ _ _ (exec _) => unfold exec
  | |- all_instr _ _ _ (bind (Ret ?a) ?f) => change (bind (Ret a) f) with (f a); cbv beta
  | |- all_instr _ _ _ (bind _ _) => apply all_instr_bind; [|intros ?]
  | |- all_instr _ _ _ (if ?b then _ else _) => destruct b eqn:?
  | |- all_instr _ _ _ (match ?x with _ => _ end) => destruct x eqn:?
  | |- all_instr _ _ _ (send _ _ _) => unfold send
  | |- all_instr _ _ _ (send0 _ _) => unfold send0, send
  | |- all_instr _ _ _ (andthen _ _) => unfold andthen
  | |- all_instr _ _ _ (record_accepted _ _) => unfold record_accepted
  | |- all_instr _ _ _ (record_rejected _ _) => unfold record_rejected
  | |- all_instr _ _ _ (let _ := _ in _) => cbv zeta
  end.
Ltac ai := repeat ai_step.

Theorem accepting_update_resumes_only_when_not_left_paused :
  forall self k c vr, leave_paused vr c = true -> all_instr self no_resume _ (uv_body k c vr).
Proof.
  intros self k c vr H. unfold uv_body. rewrite H. cbn [negb andb].
  rewrite !andb_false_r. cbn [andb].
  ai.
Qed.

(* ... and pauses it only when it is (and the responder is not already paused or finalizing) *)
Theorem accepting_update_pauses_only_when_left_paused :
  forall self k c vr, leave_paused vr c = false -> all_instr self no_pause _ (uv_body k c vr).
Proof.
  intros self k c vr H. unfold uv_body. rewrite H. cbn [negb andb].
  ai.
Qed.
