(* C16: a data-transfer message riding on a graphsync request is reported to the events handler
   only for the channel it names: transfer id of the message, the authenticated peer and this node
   in the roles the message's kind implies.  (processExtension's cross-check with the owner of the
   graphsync request; for a new graphsync request the channel id is built from the message.) *)
From Coq Require Import List NArith ZArith String Bool Lia.
From RecordUpdate Require Import RecordSet.
From DT Require Import GenStatus GenEvent GenMsgType FsmTypes GenFsm Fsm View Msg Transport C16Proofs.
Import ListNotations RecordSetNotations.

Definition names_channel (self : N) (h : hcall) : Prop :=
  match h with
  | HRequestReceived k m => g_isreq m = true /\ k_tid k = g_tid m /\ k_resp k = self
  | HResponseReceived k m => g_isreq m = false /\ k_tid k = g_tid m /\ k_init k = self
  | _ => True
  end.

(* the peer a message-carrying callback is authenticated for *)
Definition carrier_peer (i : tin) : option N :=
  match i with
  | GIncomingRequest p _ _ | GRequestUpdated p _ _ | GIncomingResponse p _ _ _ => Some p
  | _ => None
  end.

Definition from_peer (p : N) (h : hcall) : Prop :=
  match h with
  | HRequestReceived k _ => k_init k = p
  | HResponseReceived k _ => k_resp k = p
  | _ => True
  end.

Lemma process_extension_names s k p m a :
  forall h, In h (calls (fst (fst (fst (process_extension s k p m a))))) ->
            names_channel (ts_self s) h /\ from_peer p h.
Proof.
  unfold process_extension. intros h.
  destruct (g_isreq m) eqn:R.
  - destruct (triple_eqb k (p, ts_self s, g_tid m)) eqn:E; cbn; [|contradiction].
    apply teq_eq in E. subst k. intros [<-|[]]. cbn. auto.
  - destruct (triple_eqb k (ts_self s, p, g_tid m)) eqn:E; cbn; [|contradiction].
    apply teq_eq in E. subst k. intros [<-|[]]. cbn. auto.
Qed.

Lemma calls_done_calls rid out h : In h (calls (done_calls rid out)) -> exists k, h = HRequestCancelled k.
Proof.
  unfold done_calls. destruct (find _ out) as [[r k]|]; cbn; [|contradiction].
  intros [<-|[]]. eexists; reflexivity.
Qed.

Ltac trivial_call H :=
  cbn in H; repeat (rewrite ?calls_app in H; cbn in H);
  repeat match type of H with
         | _ \/ _ => destruct H as [H|H]
         | False => contradiction
         | _ = _ => subst; cbn; auto
         end.

Theorem reported_message_names_its_channel :
  forall s i orc h,
    In h (calls (snd (tstep s i orc))) ->
    names_channel (ts_self s) h /\
    match carrier_peer i with Some p => from_peer p h | None => True end.
Proof.
  intros s i orc h H.
  assert (NM : forall k, names_channel (ts_self s) (HRequestCancelled k)) by (intros; exact I).
  destruct i as [to k0 rc m0|k0|k0 om|k0|k0|k0|p rid om|rid|rid size index onwire|rid size index onwire
                |rid size index onwire|rid st|p rid om|p rid om1 om2|rid|rid|p|rid d]; unfold tstep in H; cbn [carrier_peer].
  - (* XOpenChannel *)
    destruct (tc_req (track k0 s)) as [old|]; [destruct (tc_rcancel (track k0 s))|];
      destruct (pop_ans orc) as [a rest]; destruct (ha_ret a); cbn [snd] in H;
      repeat (rewrite ?calls_app in H; cbn in H);
      repeat match type of H with
             | In _ (_ ++ _) => apply in_app_or in H; destruct H as [H|H]
             | In _ (calls (done_calls _ _)) => apply calls_done_calls in H; destruct H as [kk ->]; cbn; auto
             | In _ (calls (if ?b then _ else _)) => destruct b; cbn in H
             | _ \/ _ => destruct H as [H|H]
             | False => contradiction
             | In _ [] => contradiction
             | In _ (_ :: _) => apply in_inv in H
             | _ = h => subst h; cbn; auto
             end.
  - destruct (tlookup k0 (ts_chans s)) as [c|]; [destruct (tc_req c); [destruct (tc_rcancel c)|]|]; cbn in H;
      repeat match type of H with _ \/ _ => destruct H as [H|H] | False => contradiction end.
  - destruct (tlookup k0 (ts_chans s)) as [c|]; [destruct (tc_req c); [destruct (tc_rcancel c)|]|]; cbn in H;
      repeat match type of H with _ \/ _ => destruct H as [H|H] | False => contradiction end.
  - destruct (tlookup k0 (ts_chans s)) as [c|]; [destruct (tc_req c); [destruct (tc_rcancel c)|]|]; cbn [snd] in H;
      repeat (rewrite ?calls_app in H; cbn in H);
      repeat match type of H with
             | In _ (calls (done_calls _ _)) => apply calls_done_calls in H; destruct H as [kk ->]; cbn; auto
             | _ \/ _ => destruct H as [H|H] | False => contradiction end.
  - destruct (tlookup k0 (ts_chans s)) as [c|]; cbn [snd] in H; [destruct (tc_store c)|]; cbn in H;
      repeat match type of H with _ \/ _ => destruct H as [H|H] | False => contradiction end.
  - destruct (tc_store (track k0 s)); cbn in H;
      repeat match type of H with _ \/ _ => destruct H as [H|H] | False => contradiction end.
  - (* GIncomingRequest: the channel id is built from the message and the authenticated peer *)
    destruct om as [m|]; [|cbn in H; contradiction].
    destruct (g_isreq m) eqn:R; cbn [andb] in H.
    + destruct (is_cancel m).
      * cbn in H. destruct H as [<-|[]]. cbn. rewrite R. auto.
      * destruct (pop_ans orc) as [a rest]. destruct (ha_ret a); cbn [snd] in H;
          rewrite calls_app in H; apply in_app_or in H; destruct H as [H|H];
          try (cbn in H; destruct H as [<-|[]]; cbn; rewrite R; auto);
          rewrite calls_map_act in H; contradiction.
    + destruct (pop_ans orc) as [a rest]. destruct (ha_ret a); cbn [snd] in H;
        rewrite calls_app in H; apply in_app_or in H; destruct H as [H|H];
        try (cbn in H; destruct H as [<-|[]]; cbn; rewrite R; auto);
        rewrite calls_map_act in H; contradiction.
  - destruct (rlookup rid (ts_reqmap s)); cbn in H; [destruct H as [<-|[]]; cbn; auto|contradiction].
  - destruct (rlookup rid (ts_reqmap s)); [|cbn in H; contradiction].
    destruct (pop_ans orc) as [a rest]. cbn in H. destruct H as [<-|H]; [cbn; auto|].
    destruct (ha_ret a); cbn in H; contradiction.
  - destruct onwire; cbn [negb] in H; [|cbn in H; contradiction].
    destruct (rlookup rid (ts_reqmap s)); [|cbn in H; contradiction].
    destruct (pop_ans orc) as [a rest]. cbn in H. destruct H as [<-|H]; [cbn; auto|].
    destruct (ha_ret a); cbn in H; try contradiction; destruct (ha_msg a); cbn in H; contradiction.
  - destruct onwire; cbn [negb] in H; [|cbn in H; contradiction].
    destruct (rlookup rid (ts_reqmap s)); cbn in H; [destruct H as [<-|[]]; cbn; auto|contradiction].
  - destruct (rlookup rid (ts_reqmap s)); [|cbn in H; contradiction].
    destruct st; cbn in H; try contradiction; destruct H as [<-|[]]; cbn; auto.
  - (* GRequestUpdated *)
    destruct (rlookup rid (ts_reqmap s)) as [k|]; [|cbn in H; contradiction].
    destruct om as [m|]; [|cbn in H; contradiction].
    destruct (pop_ans orc) as [a rest].
    destruct (process_extension s k p m a) as [[[outs resp] v] used] eqn:E.
    cbn [snd] in H. rewrite !calls_app in H. apply in_app_or in H. destruct H as [H|H].
    + pose proof (process_extension_names s k p m a h) as P. rewrite E in P. cbn in P. apply P. exact H.
    + apply in_app_or in H. destruct H as [H|H]; [destruct resp|destruct v]; cbn in H; contradiction.
  - (* GIncomingResponse *)
    destruct (rlookup rid (ts_reqmap s)) as [k|]; [|cbn in H; contradiction].
    destruct (pop_ans orc) as [a1 rest].
    assert (G : forall m a h0 outs resp v used,
               process_extension s k p m a = (outs, resp, v, used) ->
               In h0 (calls outs) -> names_channel (ts_self s) h0 /\ from_peer p h0).
    { intros m a h0 outs resp v used E H0.
      pose proof (process_extension_names s k p m a h0) as P. rewrite E in P. cbn in P. apply P. exact H0. }
    destruct om1 as [m1|].
    + destruct (process_extension s k p m1 a1) as [[[outs1 resp1] v1] used1] eqn:E1.
      destruct om2 as [m2|].
      * destruct (process_extension s k p m2 (if used1 then fst (pop_ans rest) else a1)) as [[[outs2 resp2] v2] used2] eqn:E2.
        cbn [snd] in H. rewrite !calls_app in H.
        repeat (apply in_app_or in H; destruct H as [H|H]);
          try (first [exact (G _ _ _ _ _ _ _ E1 H) | exact (G _ _ _ _ _ _ _ E2 H)]);
          try (destruct resp1; cbn in H; contradiction);
          try (destruct v1; cbn in H; contradiction);
          try (destruct v2; cbn in H; contradiction).
      * cbn [snd] in H. rewrite !calls_app in H.
        repeat (apply in_app_or in H; destruct H as [H|H]);
          try (exact (G _ _ _ _ _ _ _ E1 H));
          try (destruct resp1; cbn in H; contradiction);
          try (destruct v1; cbn in H; contradiction); try (cbn in H; contradiction).
    + destruct om2 as [m2|].
      * destruct (process_extension s k p m2 a1) as [[[outs2 resp2] v2] used2] eqn:E2.
        cbn [snd] in H. rewrite !calls_app in H.
        repeat (apply in_app_or in H; destruct H as [H|H]);
          try (exact (G _ _ _ _ _ _ _ E2 H));
          try (destruct v2; cbn in H; contradiction); try (cbn in H; contradiction).
      * cbn in H. contradiction.
  - destruct (rlookup rid (ts_reqmap s)) as [k|]; [|cbn in H; contradiction].
    destruct (tlookup k (ts_chans s)); cbn in H; contradiction.
  - destruct (rlookup rid (ts_reqmap s)); cbn in H; [destruct H as [<-|[]]; cbn; auto|contradiction].
  - (* GNetRecvError *)
    cbn [snd] in H. induction (ts_reqmap s) as [|e l IH]; [cbn in H; contradiction|].
    cbn [flat_map] in H. rewrite calls_app in H. apply in_app_or in H. destruct H as [H|H]; [|exact (IH H)].
    destruct (N.eqb (k_init (snd (snd e))) p || N.eqb (k_resp (snd (snd e))) p); cbn in H;
      [destruct H as [<-|[]]; cbn; auto|contradiction].
  - (* GRequestDone *)
    destruct (find (fun p => N.eqb (fst p) rid) (ts_out s)) as [[r k]|]; [|cbn in H; contradiction].
    destruct d; cbn in H; try contradiction; destruct H as [<-|[]]; cbn; auto.
Qed.

(* ---- a graphsync request the transport refused belongs to no channel ---- *)
Definition refused (om : option msg) (orc : list hans) : Prop :=
  match om with
  | None => True
  | Some m => (g_isreq m && is_cancel m = true) \/ ha_ret (fst (pop_ans orc)) = HErr
  end.

Theorem refused_request_is_not_bound :
  forall s p rid om orc,
    refused om orc ->
    ts_reqmap (fst (tstep s (GIncomingRequest p rid om) orc)) = ts_reqmap s /\
    In (OAct ATerminate) (snd (tstep s (GIncomingRequest p rid om) orc)) \/ om = None.
Proof.
  intros s p rid om orc R. destruct om as [m|]; [left|right; reflexivity].
  unfold tstep. cbn in R.
  destruct (g_isreq m && is_cancel m) eqn:C.
  - cbn. split; [reflexivity|]. right; left; reflexivity.
  - destruct R as [R|R]; [discriminate|].
    destruct (pop_ans orc) as [a rest]. cbn [fst] in R. rewrite R. cbn [fst snd].
    split; [reflexivity|]. apply in_or_app. right. rewrite map_app. apply in_or_app. right. left. reflexivity.
Qed.

(* hence, if the refused request's id was not known before, every later callback keyed by it
   (blocks, completion, updates, errors) is dropped without any effect *)
Theorem refused_request_stays_silent :
  forall s p rid om orc i orc',
    refused om orc -> om <> None ->
    rlookup rid (ts_reqmap s) = None ->
    request_keyed i = Some rid ->
    let s1 := fst (tstep s (GIncomingRequest p rid om) orc) in
    tstep s1 i orc' = (s1, []).
Proof.
  intros s p rid om orc i orc' R Hn L K s1.
  destruct (refused_request_is_not_bound s p rid om orc R) as [[E _]|E]; [|contradiction].
  pose proof (event_channel_is_request_owner s1 i rid orc' K) as H.
  unfold s1 in *. rewrite E, L in H. exact H.
Qed.
