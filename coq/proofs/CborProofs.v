(* Round trip of the DAG-CBOR model: decoding what was encoded yields the value back, for every
   well-formed IPLD value, with any order of map entries on the wire. *)
From Coq Require Import List NArith ZArith String Ascii Bool Arith Lia ZifyN ZifyNat ZifyBool.
From DT Require Import Cbor.
Import ListNotations.
Local Open Scope N_scope.
Ltac Zify.zify_post_hook ::= Z.div_mod_to_equations.

Lemma byte_roundtrip n : N_of_byte (byte_of n) = n mod 256.
Proof.
  unfold N_of_byte, byte_of. apply N_ascii_embedding. apply N.mod_upper_bound. discriminate.
Qed.

Lemma byte_small n : n < 256 -> N_of_byte (byte_of n) = n.
Proof. intros H. rewrite byte_roundtrip. apply N.mod_small. exact H. Qed.

Lemma append_assoc (a b c : string) : ((a ++ b) ++ c = a ++ (b ++ c))%string.
Proof. induction a as [|x a IH]; cbn; [reflexivity|]. rewrite IH. reflexivity. Qed.

Lemma append_nil_r (a : string) : (a ++ "" = a)%string.
Proof. induction a as [|x a IH]; cbn; [reflexivity|]. rewrite IH. reflexivity. Qed.

Lemma length_append (a b : string) : String.length (a ++ b) = (String.length a + String.length b)%nat.
Proof. induction a as [|x a IH]; cbn; [reflexivity|]. rewrite IH. reflexivity. Qed.

(* ---------- big-endian ---------- *)
Lemma pow256_pos k : 0 < 256 ^ N.of_nat k.
Proof. apply N.neq_0_lt_0. apply N.pow_nonzero. discriminate. Qed.

Lemma from_be_be k : forall a acc rest,
  from_be k (be k a ++ rest) acc = Some (acc * 256 ^ N.of_nat k + a mod 256 ^ N.of_nat k, rest).
Proof.
  induction k as [|k IH]; intros a acc rest.
  - cbn. rewrite N.mod_1_r. f_equal. f_equal. lia.
  - cbn [be from_be append]. rewrite IH, byte_roundtrip. f_equal. f_equal.
    replace (N.of_nat (S k)) with (N.succ (N.of_nat k)) by lia. rewrite N.pow_succ_r'.
    set (p := 256 ^ N.of_nat k). assert (Hp : 0 < p) by apply pow256_pos.
    rewrite (N.mul_comm 256 p), (N.mod_mul_r a p 256) by lia. lia.
Qed.

Lemma from_be_small k a rest : a < 256 ^ N.of_nat k -> from_be k (be k a ++ rest) 0 = Some (a, rest).
Proof. intros H. rewrite from_be_be, N.mod_small by exact H. reflexivity. Qed.

Lemma length_be k a : String.length (be k a) = k.
Proof. induction k as [|k IH]; cbn; [reflexivity|]. rewrite IH. reflexivity. Qed.

(* ---------- heads ---------- *)
Lemma first_byte m ai : m < 8 -> ai < 32 ->
  N_of_byte (byte_of (m * 32 + ai)) / 32 = m /\ N_of_byte (byte_of (m * 32 + ai)) mod 32 = ai.
Proof. intros Hm Ha. rewrite byte_small by lia. split; lia. Qed.

Lemma dec_head_head m a rest : m < 8 -> a < two64 ->
  dec_head (head m a ++ rest) = Some (m, a, rest).
Proof.
  intros Hm Ha. unfold head, two64 in *.
  destruct (N.ltb_spec a 24) as [H1|H1].
  - cbn [append dec_head]. destruct (first_byte m a Hm ltac:(lia)) as [A B]. rewrite A, B.
    destruct (N.ltb_spec a 24); [reflexivity|lia].
  - destruct (N.ltb_spec a 256) as [H2|H2]; [|destruct (N.ltb_spec a 65536) as [H3|H3]; [|destruct (N.ltb_spec a 4294967296) as [H4|H4]]];
      cbn [append dec_head];
      match goal with |- context [byte_of (m * 32 + ?ai)] => destruct (first_byte m ai Hm ltac:(lia)) as [A B]; rewrite A, B end;
      cbn [N.ltb N.eqb N.compare Pos.compare Pos.compare_cont Pos.eqb].
    + rewrite from_be_small by (cbn; lia). reflexivity.
    + rewrite from_be_small by (cbn; lia). reflexivity.
    + rewrite from_be_small by (cbn; lia). reflexivity.
    + rewrite from_be_small by (cbn; lia). reflexivity.
Qed.

Lemma head_nonempty m a : (1 <= String.length (head m a))%nat.
Proof. unfold head. repeat match goal with |- context [if ?b then _ else _] => destruct b end; cbn; lia. Qed.

(* ---------- take ---------- *)
Lemma take_app s rest : take (String.length s) (s ++ rest) = Some (s, rest).
Proof. induction s as [|c s IH]; cbn; [reflexivity|]. rewrite IH. reflexivity. Qed.

(* ---------- children of well-formed, bounded-depth nodes ---------- *)
Fixpoint wf_all (l : list node) : Prop := match l with [] => True | x :: r => wf x /\ wf_all r end.
Fixpoint wf_ents (l : list (string * node)) : Prop :=
  match l with [] => True | p :: r => (N.of_nat (String.length (fst p)) < two64 /\ wf (snd p)) /\ wf_ents r end.

Lemma wf_list l : wf (NList l) <-> N.of_nat (List.length l) < two64 /\ wf_all l.
Proof. cbn. split; intros [A B]; split; auto; clear A; induction l; cbn in *; tauto. Qed.
Lemma wf_map l : wf (NMap l) <-> N.of_nat (List.length l) < two64 /\ wf_ents l.
Proof. cbn. split; intros [A B]; split; auto; clear A; induction l; cbn in *; tauto. Qed.

Definition depth_list (l : list node) : nat := fold_right (fun x acc => Nat.max (depth x) acc) 0%nat l.
Definition depth_ents (l : list (string * node)) : nat := fold_right (fun p acc => Nat.max (depth (snd p)) acc) 0%nat l.

Definition enc_list (l : list node) : string := fold_right (fun x acc => enc x ++ acc)%string EmptyString l.
Definition enc_ents (l : list (string * node)) : string :=
  fold_right (fun p acc => (head 3 (N.of_nat (String.length (fst p))) ++ fst p) ++ enc (snd p) ++ acc)%string EmptyString l.

Lemma items_spec d : forall l rest,
  (forall x r, In x l -> d (enc x ++ r)%string = Some (x, r)) ->
  items d (List.length l) (enc_list l ++ rest) = Some (l, rest).
Proof.
  induction l as [|x l IH]; intros rest H; cbn [List.length items enc_list fold_right]; [reflexivity|].
  fold (enc_list l). rewrite append_assoc, (H x _ (or_introl eq_refl)), IH; [reflexivity|].
  intros y r Hy. apply H. right. exact Hy.
Qed.

Lemma entries_spec d : forall l rest,
  wf_ents l ->
  (forall p r, In p l -> d (enc (snd p) ++ r)%string = Some (snd p, r)) ->
  entries d (List.length l) (enc_ents l ++ rest) = Some (l, rest).
Proof.
  induction l as [|[k v] l IH]; intros rest Hw H; cbn [List.length entries enc_ents fold_right fst snd]; [reflexivity|].
  fold (enc_ents l). destruct Hw as [[Hk Hv] Hw].
  rewrite !append_assoc, dec_head_head by (cbn in *; unfold two64 in *; lia).
  cbn [N.eqb Pos.eqb]. rewrite Nat2N.id, take_app.
  rewrite (H (k, v) _ (or_introl eq_refl)). cbn [snd]. rewrite IH; [reflexivity|exact Hw|].
  intros p r Hp. apply H. right. exact Hp.
Qed.

(* ---------- the round trip, entries in wire order ---------- *)
Theorem dec_enc : forall fuel n rest,
  wf n -> (depth n <= fuel)%nat -> dec fuel (enc n ++ rest) = Some (n, rest).
Proof.
  induction fuel as [|f IH]; intros n rest Hw Hd; [destruct n; cbn in Hd; lia|].
  destruct n as [| b | neg a | bits | s | s | l | l | c]; cbn [dec enc].
  - (* null *) cbn. reflexivity.
  - destruct b; cbn; reflexivity.
  - (* int *) cbn in Hw. rewrite dec_head_head by (destruct neg; unfold two64 in *; lia).
    destruct neg; reflexivity.
  - (* float *) cbn in Hw.
    assert (Hb : N_of_byte (byte_of 251) = 251) by (apply byte_small; lia).
    cbn [append dec_head]. rewrite !Hb.
    change (251 / 32) with 7. change (251 mod 32) with 27.
    cbn [N.ltb N.eqb N.compare Pos.compare Pos.compare_cont Pos.eqb].
    rewrite from_be_small by (unfold two64 in Hw; cbn; lia).
    cbn [N.eqb Pos.eqb]. rewrite ?Hb. cbn [N.eqb Pos.eqb].
    rewrite ?from_be_small by (unfold two64 in Hw; cbn; lia). reflexivity.
  - (* string *) cbn in Hw. rewrite append_assoc, dec_head_head by (unfold two64 in *; lia).
    cbn [N.eqb Pos.eqb]. rewrite Nat2N.id, take_app. reflexivity.
  - (* bytes *) cbn in Hw. rewrite append_assoc, dec_head_head by (unfold two64 in *; lia).
    cbn [N.eqb Pos.eqb]. rewrite Nat2N.id, take_app. reflexivity.
  - (* list *) apply wf_list in Hw. destruct Hw as [Hl Hw].
    fold (enc_list l). rewrite append_assoc, dec_head_head by (unfold two64 in *; lia).
    cbn [N.eqb Pos.eqb]. rewrite Nat2N.id, items_spec; [reflexivity|].
    intros x r Hx. apply IH.
    + clear -Hw Hx. induction l as [|y l IHl]; [contradiction|]. destruct Hw as [A B]. destruct Hx as [->|Hx]; auto.
    + cbn in Hd. fold (depth_list l) in Hd. assert (depth x <= depth_list l)%nat; [|lia].
      clear -Hx. induction l as [|y l IHl]; [contradiction|]. unfold depth_list in *. cbn [fold_right]. destruct Hx as [->|Hx]; [lia|]. specialize (IHl Hx). lia.
  - (* map *) apply wf_map in Hw. destruct Hw as [Hl Hw].
    fold (enc_ents l). rewrite append_assoc, dec_head_head by (unfold two64 in *; lia).
    cbn [N.eqb Pos.eqb]. rewrite Nat2N.id, entries_spec; [reflexivity|exact Hw|].
    intros p r Hp. apply IH.
    + clear -Hw Hp. induction l as [|y l IHl]; [contradiction|]. destruct Hw as [[_ A] B]. destruct Hp as [->|Hp]; auto.
    + cbn in Hd. fold (depth_ents l) in Hd. assert (depth (snd p) <= depth_ents l)%nat; [|lia].
      clear -Hp. induction l as [|y l IHl]; [contradiction|]. unfold depth_ents in *. cbn [fold_right]. destruct Hp as [->|Hp]; [lia|]. specialize (IHl Hp). lia.
  - (* link *) cbn in Hw. rewrite !append_assoc, dec_head_head by (unfold two64; lia).
    cbn [N.eqb Pos.eqb]. rewrite dec_head_head by (unfold two64 in *; lia).
    cbn [N.eqb Pos.eqb]. rewrite Nat2N.id.
    change (String (byte_of 0) c ++ rest)%string with (String (byte_of 0) (c ++ rest)).
    cbn [take]. rewrite take_app. rewrite byte_small by lia. reflexivity.
Qed.

(* ---------- enough fuel: an encoding is at least as long as the value is deep ---------- *)
Lemma depth_list_le l :
  (forall x, In x l -> (depth x <= String.length (enc x))%nat) -> (depth_list l <= String.length (enc_list l))%nat.
Proof.
  unfold depth_list, enc_list. induction l as [|x l IH]; intros H; cbn [fold_right]; [cbn; lia|].
  rewrite length_append. specialize (H x (or_introl eq_refl)) as Hx.
  specialize (IH (fun y Hy => H y (or_intror Hy))). lia.
Qed.
Lemma depth_ents_le l :
  (forall p, In p l -> (depth (snd p) <= String.length (enc (snd p)))%nat) -> (depth_ents l <= String.length (enc_ents l))%nat.
Proof.
  unfold depth_ents, enc_ents. induction l as [|x l IH]; intros H; cbn [fold_right]; [cbn; lia|].
  rewrite !length_append. specialize (H x (or_introl eq_refl)) as Hx.
  specialize (IH (fun y Hy => H y (or_intror Hy))). lia.
Qed.
Lemma in_depth_list x l : In x l -> (depth x <= depth_list l)%nat.
Proof.
  unfold depth_list. induction l as [|y l IH]; [contradiction|]. cbn [fold_right]. intros [->|H]; [lia|]. specialize (IH H). lia.
Qed.
Lemma in_depth_ents p l : In p l -> (depth (snd p) <= depth_ents l)%nat.
Proof.
  unfold depth_ents. induction l as [|y l IH]; [contradiction|]. cbn [fold_right]. intros [->|H]; [lia|]. specialize (IH H). lia.
Qed.

Lemma depth_le_length : forall d n, (depth n <= d)%nat -> (depth n <= String.length (enc n))%nat.
Proof.
  induction d as [|d IH]; intros n Hd; [destruct n; cbn in Hd; lia|].
  destruct n as [| b | neg a | bits | s | s | l | l | c]; cbn [depth enc].
  - cbn; lia.
  - cbn; lia.
  - pose proof (head_nonempty (if neg then 1 else 0) a). lia.
  - cbn [String.length]. lia.
  - rewrite length_append. pose proof (head_nonempty 3 (N.of_nat (String.length s))). lia.
  - rewrite length_append. pose proof (head_nonempty 2 (N.of_nat (String.length s))). lia.
  - fold (enc_list l) (depth_list l). rewrite length_append.
    pose proof (head_nonempty 4 (N.of_nat (List.length l))).
    assert (depth_list l <= String.length (enc_list l))%nat; [|lia].
    apply depth_list_le. intros x Hx. apply IH. cbn [depth] in Hd. fold (depth_list l) in Hd.
    pose proof (in_depth_list x l Hx). lia.
  - fold (enc_ents l) (depth_ents l). rewrite length_append.
    pose proof (head_nonempty 5 (N.of_nat (List.length l))).
    assert (depth_ents l <= String.length (enc_ents l))%nat; [|lia].
    apply depth_ents_le. intros p Hp. apply IH. cbn [depth] in Hd. fold (depth_ents l) in Hd.
    pose proof (in_depth_ents p l Hp). lia.
  - rewrite length_append. pose proof (head_nonempty 6 42). lia.
Qed.

Theorem decode_enc : forall n, wf n -> decode (enc n) = Some n.
Proof.
  intros n Hw. unfold decode.
  pose proof (dec_enc (String.length (enc n) + 1) n EmptyString Hw) as H.
  rewrite append_nil_r in H. rewrite H; [reflexivity|].
  pose proof (depth_le_length (depth n) n (le_n _)). lia.
Qed.

(* ---------- canonical form ---------- *)
Lemma insert_entry_length {A} (e : string * A) l : List.length (insert_entry e l) = S (List.length l).
Proof. induction l as [|x l IH]; cbn; [reflexivity|]. destruct (key_leb (fst e) (fst x)); cbn; [reflexivity|]. rewrite IH. reflexivity. Qed.
Lemma sort_entries_length {A} (l : list (string * A)) : List.length (sort_entries l) = List.length l.
Proof. induction l as [|x l IH]; cbn; [reflexivity|]. rewrite insert_entry_length. unfold sort_entries in IH. rewrite IH. reflexivity. Qed.

Lemma wf_ents_insert e l : wf_ents (e :: l) -> wf_ents (insert_entry e l).
Proof.
  induction l as [|x l IH]; cbn; [tauto|]. intros [He [Hx Hl]].
  destruct (key_leb (fst e) (fst x)); cbn; [tauto|]. split; [exact Hx|]. apply IH. cbn. tauto.
Qed.
Lemma wf_ents_sort l : wf_ents l -> wf_ents (sort_entries l).
Proof.
  induction l as [|x l IH]; cbn; [tauto|]. intros [Hx Hl]. apply wf_ents_insert. cbn. split; [exact Hx|].
  apply IH. exact Hl.
Qed.

Lemma wf_canon : forall d n, (depth n <= d)%nat -> wf n -> wf (canon n).
Proof.
  induction d as [|d IH]; intros n Hd Hw; [destruct n; cbn in Hd; lia|].
  destruct n as [| b | neg a | bits | s | s | l | l | c]; cbn [canon]; try exact Hw.
  - apply wf_list in Hw. destruct Hw as [Hl Hw]. apply wf_list. rewrite map_length. split; [exact Hl|].
    cbn [depth] in Hd. fold (depth_list l) in Hd.
    assert (Hc : forall x, In x l -> wf (canon x)).
    { intros x Hx. apply IH; [pose proof (in_depth_list x l Hx); lia|].
      clear -Hw Hx. induction l as [|y l IHl]; [contradiction|]. destruct Hw as [A B]. destruct Hx as [->|Hx]; auto. }
    clear -Hc. induction l as [|x l IHl]; cbn [map wf_all]; [exact I|]. split.
    + apply Hc. left. reflexivity.
    + apply IHl. intros y Hy. apply Hc. right. exact Hy.
  - apply wf_map in Hw. destruct Hw as [Hl Hw]. apply wf_map. rewrite sort_entries_length, map_length. split; [exact Hl|].
    apply wf_ents_sort.
    cbn [depth] in Hd. fold (depth_ents l) in Hd.
    assert (Hc : forall p, In p l -> wf (canon (snd p))).
    { intros p Hp. apply IH; [pose proof (in_depth_ents p l Hp); lia|].
      clear -Hw Hp. induction l as [|y l IHl]; [contradiction|]. destruct Hw as [[_ A] B]. destruct Hp as [->|Hp]; auto. }
    clear Hd Hl. induction l as [|[k v] l IHl]; cbn [map wf_ents fst snd]; [exact I|]. destruct Hw as [[A A'] B]. split.
    + split; [exact A|]. apply (Hc (k, v)). left. reflexivity.
    + apply IHl; [exact B|]. intros y Hy. apply Hc. right. exact Hy.
Qed.

(* what dagcbor.Encode writes decodes to the canonical form of the value *)
Theorem decode_encode : forall n, wf n -> decode (encode n) = Some (canon n).
Proof. intros n Hw. unfold encode. apply decode_enc. apply (wf_canon (depth n) n (le_n _) Hw). Qed.

Example cbor_example :
  decode (encode (NMap [("bb"%string, NInt false 1); ("a"%string, NList [NString "x"; NNull; NInt true 300])])) =
  Some (NMap [("a"%string, NList [NString "x"; NNull; NInt true 300]); ("bb"%string, NInt false 1)]).
Proof. vm_compute. reflexivity. Qed.
