(* C07, concurrent clause: under ANY interleaving of the micro-steps of concurrent reporters each
   position is counted at most once, the byte total is the sum of the reports that advanced the
   high-water mark, and the mark ends at the highest unique position reported. *)
From Coq Require Import List NArith ZArith Bool Arith Lia.
From DT Require Import Conc.
Import ListNotations.

Section ConcProofs.
  Variable n : nat.
  Variable reps : nat -> rep.
  Variable seed : Z.
  Variable base : N.
  Variable warm : option Z.
  Hypothesis base_small : (base < two64)%N.

  Notation idx i := (p_idx (reps i)).
  Notation uniq i := (p_unique (reps i)).
  Notation step := (cstep n reps).
  Notation run := (crun n reps).

  (* the mark every advancing report must exceed: the cached mark if the cache is warm, else the
     durable index that will be seeded *)
  Definition m0 : Z := match warm with Some w => w | None => seed end.

  Definition covered (s : cst) (i : nat) : Prop := exists m, c_mark s = Some m /\ (idx i <= m)%Z.

  Definition good (s : cst) (i : nat) : Prop :=
    match c_pcs s i with
    | PStart => True
    | PWLock | PLoad => uniq i = true /\ i < n
    | PCas cur => uniq i = true /\ i < n /\ (cur < idx i)%Z
    | PAdd | PIdx true | PDone true => uniq i = true /\ i < n /\ (m0 < idx i)%Z /\ covered s i
    | PIdx false | PDone false => uniq i = true -> covered s i
    end.

  Record Inv (s : cst) : Prop := mkInv {
    inv_good : forall i, good s i;
    inv_distinct : forall i j, i <> j -> advanced (c_pcs s i) = true -> advanced (c_pcs s j) = true -> idx i <> idx j;
    inv_mark_ge : forall m, c_mark s = Some m -> (m0 <= m)%Z;
    inv_warm : c_mark s = None -> warm = None;
    inv_tot : c_tot s = ((base + sum_if reps (fun i => counted (c_pcs s i)) n) mod two64)%N;
    inv_dur_ge : (seed <= c_dur s)%Z;
    inv_dur_done : forall i, is_done (c_pcs s i) = true -> (idx i <= c_dur s)%Z;
    inv_dur_from : c_dur s = seed \/ exists j, j < n /\ idx j = c_dur s
  }.

  Lemma sum_if_ext f g k : (forall i, i < k -> f i = g i) -> sum_if reps f k = sum_if reps g k.
  Proof.
    induction k as [|k IH]; intros H; cbn; [reflexivity|].
    rewrite (H k) by lia. rewrite IH; [reflexivity|]. intros i Hi. apply H. lia.
  Qed.

  Lemma sum_if_false k : sum_if reps (fun _ => false) k = 0%N.
  Proof. induction k as [|k IH]; cbn; [reflexivity|]. rewrite IH. reflexivity. Qed.

  (* flipping one thread from "not counted" to "counted" adds its size *)
  Lemma sum_if_flip f g k i :
    i < k -> f i = false -> g i = true -> (forall j, j <> i -> g j = f j) ->
    sum_if reps g k = (p_size (reps i) + sum_if reps f k)%N.
  Proof.
    induction k as [|k IH]; intros Hi Hf Hg Hs; [lia|]. cbn.
    destruct (Nat.eq_dec i k) as [->|Hne].
    - rewrite Hf, Hg. rewrite (sum_if_ext g f k); [lia|]. intros j Hj. apply Hs. lia.
    - rewrite (Hs k) by congruence. rewrite IH by (auto; lia). lia.
  Qed.

  Lemma upd_same f i v : upd f i v i = v.
  Proof. unfold upd. rewrite Nat.eqb_refl. reflexivity. Qed.
  Lemma upd_other f i v j : j <> i -> upd f i v j = f j.
  Proof. intros H. unfold upd. destruct (Nat.eqb_spec j i); [contradiction|reflexivity]. Qed.

  Lemma init_inv : Inv (cinit seed base warm).
  Proof.
    constructor; cbn.
    - intros i. unfold good. cbn. exact I.
    - intros i j _ H. discriminate H.
    - intros m H. unfold m0. rewrite H. lia.
    - intros H. exact H.
    - rewrite sum_if_false, N.add_0_r, N.mod_small by exact base_small. reflexivity.
    - lia.
    - intros i H. discriminate H.
    - left. reflexivity.
  Qed.

  (* covered is monotone in the mark *)
  Lemma covered_mono s s' i :
    (forall m, c_mark s = Some m -> exists m', c_mark s' = Some m' /\ (m <= m')%Z) ->
    covered s i -> covered s' i.
  Proof.
    intros H [m [Hm Hle]]. destruct (H m Hm) as [m' [Hm' Hle']]. exists m'. split; [exact Hm'|lia].
  Qed.

  Lemma good_mono s s' i :
    c_pcs s' i = c_pcs s i ->
    (forall m, c_mark s = Some m -> exists m', c_mark s' = Some m' /\ (m <= m')%Z) ->
    good s i -> good s' i.
  Proof.
    intros Hp Hm. unfold good. rewrite Hp. destruct (c_pcs s i) as [| | | cur | |[|]|[|]]; try tauto.
    - intros [A [B [C D]]]. repeat split; auto. eapply covered_mono; eauto.
    - intros [A [B [C D]]]. repeat split; auto. eapply covered_mono; eauto.
    - intros H U. eapply covered_mono; eauto.
    - intros [A [B [C D]]]. repeat split; auto. eapply covered_mono; eauto.
    - intros H U. eapply covered_mono; eauto.
  Qed.

  Lemma same_mark s s' : c_mark s' = c_mark s ->
    forall m, c_mark s = Some m -> exists m', c_mark s' = Some m' /\ (m <= m')%Z.
  Proof. intros H m Hm. exists m. rewrite H. split; [exact Hm|lia]. Qed.

  (* a step that moves thread i between pcs that are neither advanced nor counted nor done, and
     keeps mark, total and durable index *)
  Lemma move_inv s i p :
    Inv s -> advanced p = false -> advanced (c_pcs s i) = false -> is_done p = false ->
    (let s' := mkC (c_mark s) (c_tot s) (c_dur s) (upd (c_pcs s) i p) in good s' i) ->
    Inv (mkC (c_mark s) (c_tot s) (c_dur s) (upd (c_pcs s) i p)).
  Proof.
    intros [G D Ge W T Dg Dd Df] Hp Hold Hnd Hgood. constructor; cbn.
    - intros j. destruct (Nat.eq_dec j i) as [->|Hne]; [exact Hgood|].
      apply (good_mono s); cbn; [apply upd_other; exact Hne| |apply G]. apply same_mark. reflexivity.
    - intros a b Hab Ha Hb.
      destruct (Nat.eq_dec a i) as [->|Ha']; [rewrite upd_same in Ha; congruence|].
      destruct (Nat.eq_dec b i) as [->|Hb']; [rewrite upd_same in Hb; congruence|].
      rewrite upd_other in Ha, Hb by assumption. apply D; assumption.
    - exact Ge.
    - exact W.
    - rewrite T. f_equal. f_equal. apply sum_if_ext. intros j _.
      destruct (Nat.eq_dec j i) as [->|Hne].
      + rewrite upd_same.
        assert (counted p = false) by (destruct p as [| | | | |[|]|[|]]; try reflexivity; discriminate).
        assert (counted (c_pcs s i) = false) by (destruct (c_pcs s i) as [| | | | |[|]|[|]]; try reflexivity; discriminate).
        congruence.
      + rewrite upd_other by assumption. reflexivity.
    - exact Dg.
    - intros j Hj. destruct (Nat.eq_dec j i) as [->|Hne]; [rewrite upd_same in Hj; congruence|].
      rewrite upd_other in Hj by assumption. apply Dd. exact Hj.
    - exact Df.
  Qed.

  Lemma step_inv s i : Inv s -> Inv (step s i).
  Proof.
    intros HI. unfold cstep. destruct (Nat.ltb_spec i n) as [Hin|Hin]; cbn [negb]; [|exact HI].
    pose proof (inv_good s HI i) as Gi. unfold good in Gi.
    destruct (c_pcs s i) as [| | | cur | |adv|adv] eqn:P.
    - (* PStart *)
      destruct (uniq i) eqn:U; cbn [negb].
      + destruct (c_mark s) as [m|] eqn:M.
        * rewrite <- M. apply move_inv; auto; [rewrite P; reflexivity|]. cbn. unfold good. cbn. rewrite upd_same. auto.
        * rewrite <- M. apply move_inv; auto; [rewrite P; reflexivity|]. cbn. unfold good. cbn. rewrite upd_same. auto.
      + apply move_inv; auto; [rewrite P; reflexivity|]. cbn. unfold good. cbn. rewrite upd_same. congruence.
    - (* PWLock: seed if absent *)
      destruct Gi as [U _].
      destruct (c_mark s) as [m|] eqn:M.
      + rewrite <- M. apply move_inv; auto; [rewrite P; reflexivity|]. cbn. unfold good. cbn. rewrite upd_same. auto.
      + destruct HI as [G D Ge W T Dg Dd Df]. constructor; cbn.
        * intros j. destruct (Nat.eq_dec j i) as [->|Hne].
          -- unfold good. cbn. rewrite upd_same. auto.
          -- apply (good_mono s); cbn; [apply upd_other; exact Hne| |apply G].
             intros m Hm. congruence.
        * intros a b Hab Ha Hb.
          destruct (Nat.eq_dec a i) as [->|Ha']; [rewrite upd_same in Ha; discriminate|].
          destruct (Nat.eq_dec b i) as [->|Hb']; [rewrite upd_same in Hb; discriminate|].
          rewrite upd_other in Ha, Hb by assumption. apply D; assumption.
        * intros m Hm. inversion Hm; subst. unfold m0. rewrite (W M). exact Dg.
        * discriminate.
        * rewrite T. f_equal. f_equal. apply sum_if_ext. intros j _.
          destruct (Nat.eq_dec j i) as [->|Hne]; [rewrite upd_same, P; reflexivity|rewrite upd_other by assumption; reflexivity].
        * exact Dg.
        * intros j Hj. destruct (Nat.eq_dec j i) as [->|Hne]; [rewrite upd_same in Hj; discriminate|].
          rewrite upd_other in Hj by assumption. apply Dd. exact Hj.
        * exact Df.
    - (* PLoad *)
      destruct Gi as [U _].
      destruct (c_mark s) as [m|] eqn:M; [|exact HI].
      destruct (Z.leb_spec (idx i) m) as [Hle|Hgt].
      + rewrite <- M. apply move_inv; auto; [rewrite P; reflexivity|]. cbn. unfold good. cbn. rewrite upd_same.
        intros _. exists m. split; [exact M|exact Hle].
      + rewrite <- M. apply move_inv; auto; [rewrite P; reflexivity|]. cbn. unfold good. cbn. rewrite upd_same. auto.
    - (* PCas *)
      destruct Gi as [U [_ Hcur]].
      destruct (c_mark s) as [m|] eqn:M; [|exact HI].
      destruct (Z.eqb_spec m cur) as [->|Hne].
      + (* success: the mark moves from cur to idx i *)
        destruct HI as [G D Ge W T Dg Dd Df]. constructor; cbn.
        * intros j. destruct (Nat.eq_dec j i) as [->|Hne].
          -- unfold good. cbn. rewrite upd_same. repeat split; auto.
             ++ specialize (Ge cur M). lia.
             ++ exists (idx i). split; [reflexivity|lia].
          -- apply (good_mono s); cbn; [apply upd_other; exact Hne| |apply G].
             intros m Hm. rewrite M in Hm. inversion Hm; subst. exists (idx i). split; [reflexivity|lia].
        * (* every other advanced report is at or below the old mark, hence below idx i *)
          assert (Hbelow : forall j, j <> i -> advanced (c_pcs s j) = true -> (idx j <= cur)%Z).
          { intros j Hj Hadv. pose proof (G j) as Gj. unfold good in Gj.
            destruct (c_pcs s j) as [| | | | |[|]|[|]]; try discriminate Hadv;
              destruct Gj as [_ [_ [_ [mm [Hmm Hle]]]]]; rewrite M in Hmm; inversion Hmm; subst; exact Hle. }
          intros a b Hab Ha Hb.
          destruct (Nat.eq_dec a i) as [->|Ha'].
          -- rewrite upd_other in Hb by congruence. specialize (Hbelow b (not_eq_sym Hab) Hb). lia.
          -- rewrite upd_other in Ha by assumption.
             destruct (Nat.eq_dec b i) as [->|Hb'].
             ++ specialize (Hbelow a Ha' Ha). lia.
             ++ rewrite upd_other in Hb by assumption. apply D; assumption.
        * intros m Hm. inversion Hm; subst. specialize (Ge cur M). lia.
        * discriminate.
        * rewrite T. f_equal. f_equal. apply sum_if_ext. intros j _.
          destruct (Nat.eq_dec j i) as [->|Hne]; [rewrite upd_same, P; reflexivity|rewrite upd_other by assumption; reflexivity].
        * exact Dg.
        * intros j Hj. destruct (Nat.eq_dec j i) as [->|Hne]; [rewrite upd_same in Hj; discriminate|].
          rewrite upd_other in Hj by assumption. apply Dd. exact Hj.
        * exact Df.
      + rewrite <- M. apply move_inv; auto; [rewrite P; reflexivity|]. cbn. unfold good. cbn. rewrite upd_same. auto.
    - (* PAdd: the FSM applies the progress event *)
      destruct Gi as [U [_ [Hm0 Hcov]]].
      destruct HI as [G D Ge W T Dg Dd Df]. constructor; cbn.
      + intros j. destruct (Nat.eq_dec j i) as [->|Hne].
        * unfold good. cbn. rewrite upd_same. repeat split; auto.
        * apply (good_mono s); cbn; [apply upd_other; exact Hne| |apply G]. apply same_mark. reflexivity.
      + intros a b Hab Ha Hb. apply D; [exact Hab| |].
        * destruct (Nat.eq_dec a i) as [->|Ha']; [rewrite P; reflexivity|rewrite upd_other in Ha by assumption; exact Ha].
        * destruct (Nat.eq_dec b i) as [->|Hb']; [rewrite P; reflexivity|rewrite upd_other in Hb by assumption; exact Hb].
      + exact Ge.
      + exact W.
      + rewrite T.
        rewrite (sum_if_flip (fun j => counted (c_pcs s j)) (fun j => counted (upd (c_pcs s) i (PIdx true) j)) n i);
          [ | exact Hin | rewrite P; reflexivity | rewrite upd_same; reflexivity
            | intros j Hj; rewrite upd_other by assumption; reflexivity ].
        rewrite N.add_mod_idemp_l by (unfold two64; lia). f_equal. lia.
      + exact Dg.
      + intros j Hj. destruct (Nat.eq_dec j i) as [->|Hne]; [rewrite upd_same in Hj; discriminate|].
        rewrite upd_other in Hj by assumption. apply Dd. exact Hj.
      + exact Df.
    - (* PIdx: the FSM applies the index event: the durable index rises to the position *)
      destruct HI as [G D Ge W T Dg Dd Df]. constructor; cbn.
      + intros j. destruct (Nat.eq_dec j i) as [->|Hne].
        * unfold good. cbn. rewrite upd_same. destruct adv; exact Gi.
        * apply (good_mono s); cbn; [apply upd_other; exact Hne| |apply G]. apply same_mark. reflexivity.
      + intros a b Hab Ha Hb. apply D; [exact Hab| |].
        * destruct (Nat.eq_dec a i) as [->|Ha']; [rewrite upd_same in Ha; rewrite P; destruct adv; exact Ha|rewrite upd_other in Ha by assumption; exact Ha].
        * destruct (Nat.eq_dec b i) as [->|Hb']; [rewrite upd_same in Hb; rewrite P; destruct adv; exact Hb|rewrite upd_other in Hb by assumption; exact Hb].
      + exact Ge.
      + exact W.
      + rewrite T. f_equal. f_equal. apply sum_if_ext. intros j _.
        destruct (Nat.eq_dec j i) as [->|Hne]; [rewrite upd_same, P; destruct adv; reflexivity|rewrite upd_other by assumption; reflexivity].
      + lia.
      + intros j Hj. destruct (Nat.eq_dec j i) as [->|Hne]; [lia|].
        rewrite upd_other in Hj by assumption. specialize (Dd j Hj). lia.
      + destruct (Z.max_spec (c_dur s) (idx i)) as [[_ ->]|[_ ->]].
        * right. exists i. auto.
        * exact Df.
    - exact HI.
  Qed.

  Lemma run_inv sched : forall s, Inv s -> Inv (run s sched).
  Proof.
    induction sched as [|i sched IH]; intros s H; cbn; [exact H|]. apply IH. apply step_inv. exact H.
  Qed.

  (* ---------- the concurrent clause of C07 ---------- *)
  Theorem concurrent_reports_counted_once :
    forall sched, let s := run (cinit seed base warm) sched in
      (forall i, i < n -> is_done (c_pcs s i) = true) ->
      (* the byte total is the sum of the reports that advanced the mark (mod 2^64) *)
      c_tot s = ((base + sum_if reps (fun i => done_adv (c_pcs s i)) n) mod two64)%N /\
      (* reports that advanced it are unique blocks at pairwise distinct positions above the
         cached mark (warm cache) or the durable index (cold cache) they started from *)
      (forall i, done_adv (c_pcs s i) = true -> uniq i = true /\ i < n /\ (m0 < idx i)%Z) /\
      (forall i j, i <> j -> done_adv (c_pcs s i) = true -> done_adv (c_pcs s j) = true -> idx i <> idx j) /\
      (* the mark never falls and ends at or above every unique position reported *)
      (forall m, c_mark s = Some m -> (m0 <= m)%Z /\ (forall i, i < n -> uniq i = true -> (idx i <= m)%Z)) /\
      (* the durable index ends at the highest position reported, unique or not *)
      (forall i, i < n -> (idx i <= c_dur s)%Z) /\ (seed <= c_dur s)%Z /\
      (c_dur s = seed \/ exists j, j < n /\ idx j = c_dur s).
  Proof.
    intros sched s Hdone. pose proof (run_inv sched _ init_inv) as HI. fold s in HI.
    destruct HI as [G D Ge W T Dg Dd Df].
    assert (Hadv : forall i, done_adv (c_pcs s i) = true -> advanced (c_pcs s i) = true).
    { intros i H. destruct (c_pcs s i) as [| | | | |[|]|[|]]; try discriminate; reflexivity. }
    split; [|split; [|split; [|split; [|split; [|split]]]]].
    - rewrite T. f_equal. f_equal. apply sum_if_ext. intros i Hi. specialize (Hdone i Hi).
      destruct (c_pcs s i) as [| | | | |[|]|[|]]; try discriminate Hdone; reflexivity.
    - intros i H. pose proof (G i) as Gi. unfold good in Gi.
      destruct (c_pcs s i) as [| | | | |[|]|[|]]; try discriminate H. tauto.
    - intros i j Hij Hi Hj. apply D; auto.
    - intros m Hm. split; [exact (Ge m Hm)|].
      intros i Hi U. specialize (Hdone i Hi). pose proof (G i) as Gi. unfold good in Gi.
      destruct (c_pcs s i) as [| | | | |[|]|[|]]; try discriminate Hdone.
      + destruct Gi as [_ [_ [_ [mm [Hmm Hle]]]]]. rewrite Hm in Hmm. inversion Hmm; subst. exact Hle.
      + destruct (Gi U) as [mm [Hmm Hle]]. rewrite Hm in Hmm. inversion Hmm; subst. exact Hle.
    - intros i Hi. apply Dd. apply Hdone. exact Hi.
    - exact Dg.
    - exact Df.
  Qed.
End ConcProofs.

(* non-vacuity: two reporters of the same position on a cold cache, interleaved so that both miss
   the read-locked lookup; the write-locked re-check makes the second one see the first seed *)
Example cold_race :
  let reps := fun i => match i with 0 => mkRep 1 10 true | _ => mkRep 1 20 true end in
  let s := crun 2 reps (cinit 0%Z 5%N None) [0; 1; 0; 1; 0; 1; 0; 1; 0; 1; 0; 1] in
  c_pcs s 0 = PDone true /\ c_pcs s 1 = PDone false /\ c_tot s = 15%N /\ c_mark s = Some 1%Z /\ c_dur s = 1%Z.
Proof. vm_compute. repeat split. Qed.
