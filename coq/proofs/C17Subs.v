(* C17, subscriber windows: what each subscriber is called with, for every history of
   subscription changes and notifications (Subs.srun). *)
From Coq Require Import List NArith ZArith Bool Lia.
From DT Require Import Msg Subs.
Import ListNotations.

Lemma chid_eqb_eq a b : chid_eqb a b = true <-> a = b.
Proof.
  destruct a as [[a1 a2] a3], b as [[b1 b2] b3]. cbn. rewrite !andb_true_iff, !N.eqb_eq.
  split; [intros [[-> ->] ->]; reflexivity|intros H; inversion H; auto].
Qed.
Lemma chid_eqb_refl a : chid_eqb a a = true.
Proof. apply chid_eqb_eq. reflexivity. Qed.

Lemma srun_app s l1 l2 :
  srun s (l1 ++ l2) = let '(s1, c1) := srun s l1 in let '(s2, c2) := srun s1 l2 in (s2, c1 ++ c2).
Proof.
  revert s. induction l1 as [|o l1 IH]; intros s; cbn.
  - destruct (srun s l2). reflexivity.
  - destruct (sstep s o) as [s1 c1]. rewrite IH. destruct (srun s1 l1) as [s2 c2].
    destruct (srun s2 l2) as [s3 c3]. rewrite app_assoc. reflexivity.
Qed.

(* ---------- a per-transfer subscriber receives only its own channel's events ---------- *)
Lemma step_calls_own s o s' c i k e :
  sstep s o = (s', c) -> In (ST i k, e) c -> fst e = i.
Proof.
  destruct o as [n|n|j n|j code term]; cbn; intros H; inversion H; subst; cbn; try contradiction.
  rewrite in_app_iff, !in_map_iff. intros [[x [Hx _]]|[x [Hx _]]]; inversion Hx; subst; reflexivity.
Qed.

Theorem per_transfer_only_own_channel :
  forall ops s s' calls i n e, srun s ops = (s', calls) -> In (ST i n, e) calls -> fst e = i.
Proof.
  induction ops as [|o ops IH]; intros s s' calls i n e H Hin; cbn in H.
  - inversion H; subst. contradiction.
  - destruct (sstep s o) as [s1 c1] eqn:E1. destruct (srun s1 ops) as [s2 c2] eqn:E2.
    inversion H; subst. apply in_app_iff in Hin. destruct Hin as [Hin|Hin].
    + eapply step_calls_own; eauto.
    + eapply IH; eauto.
Qed.

(* ---------- ... and is released when the channel terminates ---------- *)
Lemma per_of_drop k j l : per_of k (per_drop j l) = if chid_eqb j k then [] else per_of k l.
Proof.
  unfold per_drop. induction l as [|[x sx] l IH]; cbn [filter per_of fst].
  - destruct (chid_eqb j k); reflexivity.
  - destruct (chid_eqb x j) eqn:Exj; cbn [negb].
    + apply chid_eqb_eq in Exj. subst x. rewrite IH. destruct (chid_eqb j k); reflexivity.
    + cbn [per_of]. destruct (chid_eqb x k) eqn:Exk; [|exact IH].
      apply chid_eqb_eq in Exk. subst x.
      destruct (chid_eqb j k) eqn:Ejk; [|reflexivity].
      apply chid_eqb_eq in Ejk. subst j. rewrite chid_eqb_refl in Exj. discriminate.
Qed.

Definition no_resub (k : chid) (o : sop) : bool :=
  match o with OSubTransfer j _ => negb (chid_eqb j k) | _ => true end.

Lemma per_of_add_other k j n l : chid_eqb j k = false -> per_of k (per_add j n l) = per_of k l.
Proof.
  intros H. induction l as [|[x sx] l IH]; cbn.
  - rewrite H. reflexivity.
  - destruct (chid_eqb x j) eqn:Exj; cbn.
    + apply chid_eqb_eq in Exj. subst x. rewrite H. reflexivity.
    + destruct (chid_eqb x k); [reflexivity|exact IH].
Qed.

Lemma released_stays k : forall ops s s' calls,
  per_of k (ss_per s) = [] -> forallb (no_resub k) ops = true ->
  srun s ops = (s', calls) -> forall n e, ~ In (ST k n, e) calls.
Proof.
  induction ops as [|o ops IH]; intros s s' calls Hp Hn H n e; cbn in H.
  - inversion H; subst. intros [].
  - cbn in Hn. apply andb_prop in Hn. destruct Hn as [Ho Hn].
    destruct (sstep s o) as [s1 c1] eqn:E1. destruct (srun s1 ops) as [s2 c2] eqn:E2.
    inversion H; subst. rewrite in_app_iff. intros [Hin|Hin].
    + destruct o as [m|m|j m|j code term]; cbn in E1; inversion E1; subst; cbn in Hin; try contradiction.
      rewrite in_app_iff, !in_map_iff in Hin. destruct Hin as [[x [Hx Hx']]|[x [Hx _]]]; [|discriminate].
      inversion Hx; subst. rewrite Hp in Hx'. contradiction.
    + revert Hin. eapply IH; [|exact Hn|exact E2].
      destruct o as [m|m|j m|j code term]; cbn in E1; inversion E1; subst; cbn; auto.
      * cbn in Ho. apply negb_true_iff in Ho. rewrite per_of_add_other; auto.
      * destruct term; [|exact Hp]. rewrite per_of_drop. destruct (chid_eqb j k); auto.
Qed.

(* after the terminal notification of channel k its per-transfer subscribers are never called
   again (unless a new transfer with that id is opened with a subscriber) *)
Theorem per_transfer_released_at_termination :
  forall s k code ops s1 c1 s2 c2,
    sstep s (ONotify k code true) = (s1, c1) ->
    forallb (no_resub k) ops = true ->
    srun s1 ops = (s2, c2) ->
    forall n e, ~ In (ST k n, e) c2.
Proof.
  intros s k code ops s1 c1 s2 c2 H Hn Hr. eapply released_stays; [|exact Hn|exact Hr].
  cbn in H. inversion H; subst. cbn. rewrite per_of_drop, chid_eqb_refl. reflexivity.
Qed.

(* ---------- global subscribers: exactly once per notification, in order, inside the window ---------- *)
Definition notifs (ops : list sop) : list (chid * N) :=
  flat_map (fun o => match o with ONotify k c _ => [(k, c)] | _ => [] end) ops.
Definition touches (n : N) (o : sop) : bool :=
  match o with OSubGlobal m | OUnsub m => N.eqb m n | _ => false end.

Lemma log_of_app i a b : log_of i (a ++ b) = log_of i a ++ log_of i b.
Proof. unfold log_of. rewrite filter_app, map_app. reflexivity. Qed.

Lemma log_per_none n k c l :
  log_of (SG n) (map (fun m => (ST k m, (k, c))) l) = [].
Proof. induction l as [|x l IH]; cbn; [reflexivity|exact IH]. Qed.

Lemma log_global n k c l :
  log_of (SG n) (map (fun m => (SG m, (k, c))) l) = repeat (k, c) (count_occ N.eq_dec l n).
Proof.
  induction l as [|x l IH]; cbn; [reflexivity|].
  destruct (N.eq_dec x n) as [->|Hne].
  - rewrite N.eqb_refl. cbn. f_equal. exact IH.
  - destruct (N.eqb_spec x n); [contradiction|]. exact IH.
Qed.

Lemma count_filter_other m n l : m <> n ->
  count_occ N.eq_dec (filter (fun x => negb (N.eqb x m)) l) n = count_occ N.eq_dec l n.
Proof.
  intros Hmn. induction l as [|x l IHl]; cbn; [reflexivity|].
  destruct (N.eqb_spec x m) as [->|Hxm]; cbn.
  - destruct (N.eq_dec m n); [contradiction|exact IHl].
  - destruct (N.eq_dec x n); rewrite IHl; reflexivity.
Qed.

(* while nothing subscribes or unsubscribes n, its registration count is constant and it is
   called that many times for every notification, in order *)
Lemma window n : forall ops s s' calls,
  forallb (fun o => negb (touches n o)) ops = true ->
  srun s ops = (s', calls) ->
  count_occ N.eq_dec (ss_global s') n = count_occ N.eq_dec (ss_global s) n /\
  log_of (SG n) calls = flat_map (fun e => repeat e (count_occ N.eq_dec (ss_global s) n)) (notifs ops).
Proof.
  induction ops as [|o ops IH]; intros s s' calls Ht H; cbn in H.
  - inversion H; subst. split; reflexivity.
  - cbn in Ht. apply andb_prop in Ht. destruct Ht as [Ho Ht].
    destruct (sstep s o) as [s1 c1] eqn:E1. destruct (srun s1 ops) as [s2 c2] eqn:E2.
    inversion H; subst. destruct (IH _ _ _ Ht E2) as [A B].
    assert (Hc : count_occ N.eq_dec (ss_global s1) n = count_occ N.eq_dec (ss_global s) n).
    { destruct o as [m|m|j m|j code term]; cbn in E1; inversion E1; subst; cbn; try reflexivity.
      - cbn in Ho. apply negb_true_iff in Ho. apply N.eqb_neq in Ho.
        rewrite count_occ_app. cbn. destruct (N.eq_dec m n); [contradiction|lia].
      - cbn in Ho. apply negb_true_iff in Ho. apply N.eqb_neq in Ho.
        apply count_filter_other. exact Ho. }
    split; [congruence|]. rewrite log_of_app, B, Hc.
    destruct o as [m|m|j m|j code term]; cbn in E1; inversion E1; subst; cbn; try reflexivity.
    rewrite log_of_app, log_per_none, log_global. reflexivity.
Qed.

(* subscribed once and not touched: called exactly once per notification, in order *)
Theorem global_subscriber_sees_every_event_once :
  forall n ops s s' calls,
    count_occ N.eq_dec (ss_global s) n = 1 ->
    forallb (fun o => negb (touches n o)) ops = true ->
    srun s ops = (s', calls) ->
    log_of (SG n) calls = notifs ops.
Proof.
  intros n ops s s' calls H1 Ht H. destruct (window n ops s s' calls Ht H) as [_ B].
  rewrite B, H1. clear. induction (notifs ops) as [|e l IH]; cbn; [reflexivity|]. f_equal. exact IH.
Qed.

(* not subscribed (never was, or its unsubscribe returned): not called *)
Theorem unsubscribed_not_called :
  forall n ops s s' calls,
    count_occ N.eq_dec (ss_global s) n = 0 ->
    forallb (fun o => negb (touches n o)) ops = true ->
    srun s ops = (s', calls) ->
    log_of (SG n) calls = [].
Proof.
  intros n ops s s' calls H0 Ht H. destruct (window n ops s s' calls Ht H) as [_ B].
  rewrite B, H0. clear. induction (notifs ops) as [|e l IH]; cbn; [reflexivity|exact IH].
Qed.

Lemma unsub_removes n s : count_occ N.eq_dec (ss_global (fst (sstep s (OUnsub n)))) n = 0.
Proof.
  cbn. induction (ss_global s) as [|x l IH]; cbn; [reflexivity|].
  destruct (N.eqb_spec x n) as [->|Hne]; cbn; [exact IH|].
  destruct (N.eq_dec x n); [contradiction|exact IH].
Qed.

Theorem not_called_after_unsubscribe :
  forall n s ops s' calls,
    forallb (fun o => negb (touches n o)) ops = true ->
    srun (fst (sstep s (OUnsub n))) ops = (s', calls) ->
    log_of (SG n) calls = [].
Proof. intros n s ops s' calls Ht H. eapply unsubscribed_not_called; [apply unsub_removes|exact Ht|exact H]. Qed.

(* per-transfer subscribers of channel k see every notification of k while registered *)
Theorem per_transfer_sees_own_events :
  forall s k c term, exists s',
    sstep s (ONotify k c term) = (s', map (fun n => (ST k n, (k, c))) (per_of k (ss_per s)) ++
                                       map (fun n => (SG n, (k, c))) (ss_global s)).
Proof. intros. eexists. reflexivity. Qed.

Example subs_example :
  let k1 := (1, 2, 7)%N in let k2 := (2, 1, 7)%N in
  let calls := snd (srun subs_init [OSubGlobal 1; OSubTransfer k1 5; ONotify k1 0 false; ONotify k2 0 false;
                                    ONotify k2 5 true; OUnsub 1; ONotify k1 19 true; ONotify k1 3 false]) in
  log_of (ST k1 5) calls = [(k1, 0%N); (k1, 19%N)] /\ log_of (SG 1) calls = [(k1, 0%N); (k2, 0%N); (k2, 5%N)].
Proof. vm_compute. split; reflexivity. Qed.
