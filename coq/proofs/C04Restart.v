(* C04 for restart requests: the manager reports a restart request as accepted only after its own
   check passed and the validator registered for the opening voucher's type was consulted about the
   restart and accepted without error. *)
From Coq Require Import List NArith ZArith String Bool.
From RecordUpdate Require Import RecordSet.
From DT Require Import GenStatus GenEvent GenMsgType FsmTypes GenFsm Fsm Machine View Caches Msg Node C04Proofs.
Import ListNotations RecordSetNotations.

(* what follows the validator's answer *)
Definition restart_tail (k : chid) (c : chan) (vr : valres) (err : bool) : prog (bool * valres * bool) :=
  let stay := leave_paused vr c in
  if err then Ret (stay, vr, true)
  else if negb (vr_accepted vr) then
    r <- record_rejected k vr ;; Ret (stay, vr, negb (ret_ok r))
  else
    r <- send0 k Restart ;;
    if negb (ret_ok r) then Ret (stay, vr, true)
    else
      r2 <- record_accepted c vr ;;
      if negb (ret_ok r2) then Ret (stay, vr, true)
      else exec (IProtect (k_init k) k) ;;; Ret (stay, vr, false).

Lemma restart_tail_returns k c vr err :
  all_returns (fun x => snd (fst x) = vr /\ (snd x = false -> err = false)) (restart_tail k c vr err).
Proof.
  unfold restart_tail, record_rejected, record_accepted.
  destruct err; [cbn; split; [reflexivity|intros; discriminate]|].
  returns; cbn; split; auto.
Qed.

Theorem restart_requires_validation :
  forall k m s,
    let '(x, s') := run (restart_request k m) s in
    snd x = false -> vr_accepted (snd (fst x)) = true ->
      fst (run (validate_restart_request (k_init k) k m) s) = true /\
      vr_err (snd (fst x)) = false /\
      exists c, In (NValidate VRestart (chid_of c)) (s_out s') /\
                existsb (String.eqb (v_type (first_voucher c))) (n_registry (s_node s)) = true.
Proof.
  intros k m s. unfold restart_request.
  rewrite run_bind, run_exec. cbn [run_instr].
  destruct (N.eqb (n_self (s_node s)) (k_init k)); [cbn; intros; discriminate|].
  rewrite run_bind.
  destruct (run (validate_restart_request (k_init k) k m) s) as [okv s1] eqn:E1.
  assert (R1 : n_registry (s_node s1) = n_registry (s_node s)).
  { revert E1. unfold validate_restart_request. rewrite run_bind, run_exec. cbn [run_instr].
    destruct (lookup k (n_chans (s_node s))) as [cs|]; cbn [run]; intros E; inversion E; subst; reflexivity. }
  destruct okv; cbn [negb fst]; [|cbn; intros; discriminate].
  rewrite run_bind, run_exec. cbn [run_instr].
  destruct (lookup k (n_chans (s_node s1))) as [cs|] eqn:L; [|cbn; intros; discriminate].
  set (c := m_chan (msync (cs_m cs))).
  set (s2 := set_chan s1 k (cs <| cs_m := msync (cs_m cs) |>)).
  assert (R2 : n_registry (s_node s2) = n_registry (s_node s)) by (rewrite <- R1; reflexivity).
  rewrite run_bind. unfold validate_restart. rewrite run_bind, run_exec. cbn [run_instr].
  rewrite R2.
  destruct (existsb (String.eqb (v_type (first_voucher c))) (n_registry (s_node s))) eqn:Hreg; cbn [negb].
  - rewrite run_bind, run_exec. cbn [run_instr].
    destruct (pop_val (s_vals s2)) as [vr rest] eqn:Hp. cbn [run].
    fold (restart_tail k c vr (vr_err vr)).
    set (s3 := emit (s2 <| s_vals := rest |>) [NValidate VRestart (chid_of c)]).
    pose proof (run_returns _ _ _ (restart_tail_returns k c vr (vr_err vr)) s3) as HR.
    destruct (outs_grow _ (restart_tail k c vr (vr_err vr)) s3) as [l HO].
    destruct (run (restart_tail k c vr (vr_err vr)) s3) as [x s'] eqn:E.
    cbn [fst snd] in *. destruct HR as [Hv He]. intros Hx Hacc. rewrite Hv in *.
    split; [reflexivity|]. split; [apply He; exact Hx|].
    exists c. split; [|exact Hreg].
    rewrite HO. apply in_or_app. left. subst s3. cbn. apply in_or_app. right. left. reflexivity.
  - cbn [run]. fold (restart_tail k c zero_valres true).
    pose proof (run_returns _ _ _ (restart_tail_returns k c zero_valres true) s2) as HR.
    destruct (run (restart_tail k c zero_valres true) s2) as [x s'] eqn:E.
    cbn [fst snd] in *. destruct HR as [Hv He]. intros Hx. first [discriminate Hx | (specialize (He Hx); discriminate)].
Qed.
