(* Lifting a record relation through one node step when the events the step's handler may send
   are restricted to a set S (plus the events the library raises itself: block reports, limit
   changes, CleanupComplete from the cleanup entry function).  Needs machines to be quiescent
   (empty queue, no handler running) at step boundaries, which the model guarantees. *)
From Coq Require Import List NArith ZArith String Bool Arith Lia.
From RecordUpdate Require Import RecordSet.
From DT Require Import GenStatus GenEvent GenMsgType FsmTypes GenFsm Fsm Machine View Caches Msg Node
     FsmFacts MachineFacts NodeFacts.
Import ListNotations RecordSetNotations.

(* ---------- programs whose instructions all satisfy Q (results of ISelf restricted to self) ---------- *)
Inductive all_instr (self : N) (Q : forall X, instr X -> Prop) : forall A, prog A -> Prop :=
| ai_ret : forall A (a : A), all_instr self Q A (Ret a)
| ai_do : forall A X (i : instr X) (k : X -> prog A),
    Q X i ->
    (forall x, match i in instr X return X -> Prop with ISelf => fun x => x = self | _ => fun _ => True end x -> all_instr self Q A (k x)) ->
    all_instr self Q A (Do i k).

Lemma all_instr_bind self Q A B (p : prog A) (f : A -> prog B) :
  all_instr self Q A p -> (forall a, all_instr self Q B (f a)) -> all_instr self Q B (bind p f).
Proof.
  intros Hp Hf. induction Hp as [A a|A X i k HQ Hk IH]; cbn [bind]; [apply Hf|].
  apply ai_do; [exact HQ|]. intros x Hx. apply IH; [exact Hx|exact Hf].
Qed.

Definition sendsQ (S : chid -> EventCode -> bool) : forall X, instr X -> Prop :=
  fun X i => match i with ISend k e => S k (fst e) = true | _ => True end.

(* events the library raises by itself *)
Definition internal (e : EventCode) : bool :=
  match e with
  | CleanupComplete | DataQueued | DataSent | DataReceived | DataQueuedProgress | DataSentProgress
  | DataReceivedProgress | DataLimitExceeded | SetDataLimit => true
  | _ => false
  end.

Definition quiet (m : mstate) : Prop := m_queue m = [] /\ m_handler m = false.

(* CleanupComplete never starts the entry function on a non-final result *)
Definition cc_no_handler (s : Status) : bool :=
  match dest_of CleanupComplete s with
  | Some (DTo s') => is_final s' || negb (has_entry s')
  | Some DNoChange => negb (has_entry s)
  | _ => true
  end.
Lemma cc_no_handler_all : forall s, cc_no_handler s = true.
Proof. apply forall_status. vm_compute. reflexivity. Qed.

Local Arguments is_final : simpl never.
Local Arguments apply : simpl never.
Local Arguments run_entry : simpl never.
Local Arguments entry_prog : simpl never.
Local Arguments settle : simpl never.

Lemma settle_unfold f m acc :
  settle (S f) m acc =
  if m_dead m then (m, acc)
  else if m_handler m then let '(m', o) := m_step m LHandlerDone in settle f m' (acc ++ o)
  else match m_queue m with [] => (m, acc) | _ => let '(m', o) := m_step m LPlan in settle f m' (acc ++ o) end.
Proof. reflexivity. Qed.

Lemma settle_quiet f m acc : quiet m -> settle f m acc = (m, acc).
Proof.
  intros [Q H]. destruct f; [reflexivity|]. rewrite settle_unfold, H, Q. destruct (m_dead m); reflexivity.
Qed.

Section LiftS.
  Variable S : chid -> EventCode -> bool.
  Definition allowed (k : chid) (e : EventCode) : bool := S k e || internal e.
  Variable R : chan -> chan -> Prop.
  Hypothesis R_refl : forall c, R c c.
  Hypothesis R_trans : forall a b c, R a b -> R b c -> R a c.
  Hypothesis R_plan : forall c e c' h, is_final (c_status c) = false -> allowed (chan_id c) (fst e) = true ->
                                       apply c e = Applied c' h -> R c c'.

  Lemma apply_handler_flag c e c' h :
    apply c e = Applied c' h ->
    h = match dest_of (fst e) (c_status c) with
        | Some (DTo s') => has_entry s'
        | Some DNoChange => has_entry (c_status c')
        | _ => false
        end /\
    (forall s', dest_of (fst e) (c_status c) = Some (DTo s') -> c_status c' = s') /\
    (dest_of (fst e) (c_status c) = Some DNoChange -> c_status c' = c_status c).
  Proof.
    unfold apply. destruct (dest_of (fst e) (c_status c)) as [[s'| |]|] eqn:D; intros H; inversion H; subst.
    - split; [reflexivity|]. split; [intros s2 H2; inversion H2; reflexivity|discriminate].
    - split; [reflexivity|]. split; [discriminate|]. intros _. apply run_acts_status.
    - split; [reflexivity|]. split; discriminate.
  Qed.

  (* planning CleanupComplete on a quiet-but-for-it machine leaves it quiet *)
  Lemma plan_cc_quiet c a :
    let m := mkM c [(CleanupComplete, a)] false false in
    quiet (fst (m_step m LPlan)) /\ R c (m_chan (fst (m_step m LPlan))).
  Proof.
    cbn [m_step m_dead m_handler m_queue orb m_chan].
    destruct (is_final (c_status c)) eqn:F; [cbn; split; [split; reflexivity|apply R_refl]|].
    destruct (apply c (CleanupComplete, a)) as [|c' h] eqn:A; [cbn; split; [split; reflexivity|apply R_refl]|].
    assert (HR : R c c') by (eapply R_plan; [exact F| |exact A]; unfold allowed; cbn [fst internal]; apply orb_true_r).
    destruct (is_final (c_status c')) eqn:F'; [cbn; split; [split; reflexivity|exact HR]|].
    cbn. split; [|exact HR]. split; [reflexivity|].
    destruct (apply_handler_flag _ _ _ _ A) as [Hh [H1 H2]]. cbn [fst] in *.
    pose proof (cc_no_handler_all (c_status c)) as T. unfold cc_no_handler in T.
    destruct (dest_of CleanupComplete (c_status c)) as [[s'| |]|]; subst h; try reflexivity.
    - rewrite (H1 s' eq_refl) in F'. rewrite F' in T. cbn in T. apply negb_true_iff in T. exact T.
    - rewrite (H2 eq_refl). apply negb_true_iff in T. exact T.
  Qed.

  (* delivering an allowed event to a quiet machine: related record, quiet again *)
  Lemma deliver_RS m e :
    quiet m -> allowed (chan_id (m_chan m)) (fst e) = true ->
    R (m_chan m) (m_chan (fst (deliver m e))) /\ quiet (fst (deliver m e)).
  Proof.
    intros [Q H] Ha. destruct m as [c q h d]. cbn in Q, H. subst q h. unfold deliver. cbn [m_step m_dead].
    destruct d.
    - rewrite settle_quiet by (split; reflexivity). cbn. split; [apply R_refl|split; reflexivity].
    - unfold set; cbn [m_chan m_queue m_handler m_dead app].
      change (settle_fuel _) with 20.
      rewrite (settle_unfold 19). cbn [m_dead m_handler m_queue m_step orb m_chan].
      destruct (is_final (c_status c)) eqn:F; cbn iota beta.
      + rewrite settle_quiet by (split; reflexivity). cbn. split; [apply R_refl|split; reflexivity].
      + destruct (apply c e) as [|c' hh] eqn:A; cbn iota beta.
        * rewrite settle_quiet by (split; reflexivity). cbn. split; [apply R_refl|split; reflexivity].
        * assert (HR : R c c') by (eapply R_plan; eassumption).
          assert (Hid : chan_id c' = chan_id c).
          { pose proof (apply_chan_identity c e) as I. unfold apply_chan in I. rewrite A in I.
            unfold identity_of in I. inversion I. unfold chan_id. congruence. }
          destruct (is_final (c_status c')) eqn:F'; cbn iota beta.
          -- rewrite settle_quiet by (split; reflexivity). cbn. split; [exact HR|split; reflexivity].
          -- destruct hh.
             ++ (* the cleanup entry function runs and triggers CleanupComplete *)
                rewrite (settle_unfold 18). cbn [m_dead m_handler m_step andb negb m_chan].
                destruct (run_entry c' entry_prog) as [oe te] eqn:He.
                destruct (entry_outputs c') as [_ [_ [_ E4]]]. rewrite He in E4. cbn [snd] in E4.
                destruct te as [|[ce ae] [|? ?]]; try discriminate E4. cbn in E4. inversion E4; subst ce.
                unfold set; cbn [m_chan m_queue m_handler m_dead app]. cbn iota beta.
                rewrite (settle_unfold 17). cbn [m_dead m_handler m_queue].
                pose proof (plan_cc_quiet c' ae) as [PQ PR]. cbv zeta in PQ, PR.
                destruct (m_step (mkM c' [(CleanupComplete, ae)] false false) LPlan) as [m2 o2] eqn:E2.
                cbn [fst] in PQ, PR. rewrite settle_quiet by exact PQ. cbn [fst].
                split; [eapply R_trans; eassumption|exact PQ].
             ++ rewrite settle_quiet by (split; reflexivity). cbn. split; [exact HR|split; reflexivity].
  Qed.

  Lemma msync_quiet m : quiet m -> quiet (msync m).
  Proof. intros [Q H]. unfold msync. destruct (is_final _); cbn; split; auto. Qed.

  (* every channel that existed in n0 still exists, with a related record; all machines quiet *)
  Definition InvS (n0 n : node) : Prop :=
    (forall k cs0, lookup k (n_chans n0) = Some cs0 ->
       exists cs, lookup k (n_chans n) = Some cs /\ R (m_chan (cs_m cs0)) (m_chan (cs_m cs))) /\
    (forall k cs, lookup k (n_chans n) = Some cs -> quiet (cs_m cs) /\ chan_id (m_chan (cs_m cs)) = k).

  Lemma InvS_set n0 s k cs cs' :
    InvS n0 (s_node s) -> lookup k (n_chans (s_node s)) = Some cs ->
    R (m_chan (cs_m cs)) (m_chan (cs_m cs')) -> quiet (cs_m cs') -> chan_id (m_chan (cs_m cs')) = k ->
    InvS n0 (s_node (set_chan s k cs')).
  Proof.
    intros [HI HQ] Hl HR Hq0 Hid. assert (Hq : quiet (cs_m cs') /\ chan_id (m_chan (cs_m cs')) = k) by (split; assumption). split.
    - intros k0 c0 H0. destruct (HI k0 c0 H0) as [c1 [L1 R1]].
      unfold set_chan. cbn.
      destruct (triple_eqb k0 k) eqn:E.
      + apply triple_eqb_eq in E. subst k0. exists cs'. split.
        * eapply lookup_update_same. exact Hl.
        * rewrite Hl in L1. inversion L1; subst. eapply R_trans; eassumption.
      + exists c1. split; [|exact R1]. rewrite lookup_update_other; [exact L1|].
        intros ->. rewrite (proj2 (triple_eqb_eq k k) eq_refl) in E. discriminate.
    - intros k0 c0 H0. unfold set_chan in H0. cbn in H0.
      destruct (triple_eqb k0 k) eqn:E.
      + apply triple_eqb_eq in E. subst k0. rewrite (lookup_update_same _ _ _ _ Hl) in H0. inversion H0; subst. exact Hq.
      + rewrite lookup_update_other in H0; [eapply HQ; exact H0|].
        intros ->. rewrite (proj2 (triple_eqb_eq k k) eq_refl) in E. discriminate.
  Qed.

  Lemma deliver_chan_id m e : chan_id (m_chan (fst (deliver m e))) = chan_id (m_chan m).
  Proof.
    apply (deliver_R (fun c c' => chan_id c' = chan_id c)).
    - reflexivity.
    - intros a b c H1 H2. congruence.
    - intros c e0 c' h _ A. pose proof (apply_chan_identity c e0) as I. unfold apply_chan in I. rewrite A in I.
      unfold identity_of in I. inversion I. unfold chan_id. congruence.
  Qed.

  Lemma send_chan_InvS n0 s k cs e :
    InvS n0 (s_node s) -> lookup k (n_chans (s_node s)) = Some cs -> allowed k (fst e) = true ->
    InvS n0 (s_node (snd (send_chan s k cs e))).
  Proof.
    intros HI Hl Ha. unfold send_chan. destruct (m_dead (cs_m cs)); [exact HI|].
    destruct (proj2 HI k cs Hl) as [Hq Hid].
    pose proof (deliver_chan_id (cs_m cs) e) as Hc.
    rewrite <- Hid in Ha.
    pose proof (deliver_RS (cs_m cs) e Hq Ha) as [H1 H2].
    destruct (deliver (cs_m cs) e) as [m' o] eqn:E. cbn [snd fst] in *. rewrite emit_node.
    eapply InvS_set; [exact HI|exact Hl|exact H1|exact H2|]. cbn. congruence.
  Qed.

  Lemma send_all_InvS n0 evs : forall s k,
    forallb (fun e => allowed k (fst e)) evs = true ->
    InvS n0 (s_node s) -> InvS n0 (s_node (snd (send_all s k evs))).
  Proof.
    induction evs as [|e r IH]; intros s k Ha HI; cbn [send_all]; [exact HI|].
    cbn in Ha. apply andb_prop in Ha. destruct Ha as [Ha Hr].
    destruct (lookup k (n_chans (s_node s))) as [cs|] eqn:L; [|exact HI].
    destruct (send_chan s k cs e) as [res s'] eqn:E.
    pose proof (send_chan_InvS n0 s k cs e HI L Ha) as H. rewrite E in H. cbn [snd] in H.
    destruct res; try exact H. apply IH; assumption.
  Qed.

  Lemma fire_events_internal c cc r : forallb (fun e => internal (fst e)) (snd (fst (fire c cc r))) = true.
  Proof.
    unfold fire. destruct (r_kind r), (r_unique r); cbn; try reflexivity;
      repeat match goal with |- context [if ?b then _ else _] => destruct b; cbn; try reflexivity end;
      repeat match goal with |- context [match ?x with _ => _ end] => destruct x; cbn; try reflexivity end.
  Qed.

  Lemma internal_allowed k l : forallb (fun e : ev => internal (fst e)) l = true -> forallb (fun e : ev => allowed k (fst e)) l = true.
  Proof.
    induction l as [|e l IH]; cbn; [reflexivity|]. intros H. apply andb_prop in H. destruct H as [H1 H2].
    unfold allowed at 1. rewrite H1, orb_true_r. cbn. apply IH. exact H2.
  Qed.

  (* instructions: ISend must carry an event allowed for its channel, ICreate a record in Requested *)
  Definition stepQ : forall X, instr X -> Prop :=
    fun X i => match i with
               | ISend k e => S k (fst e) = true
               | _ => True
               end.

  Lemma instr_InvS n0 : forall X (i : instr X) s,
    stepQ X i -> InvS n0 (s_node s) -> InvS n0 (s_node (snd (run_instr s i))).
  Proof.
    intros X i s HQ HI. destruct i; cbn [run_instr].
    - (* IGet *) destruct (lookup k (n_chans (s_node s))) as [cs|] eqn:L; [|exact HI]. cbn [snd].
      destruct (proj2 HI k cs L) as [Hq Hid].
      eapply InvS_set; [exact HI|exact L| | |]; cbn.
      + rewrite msync_chan. apply R_refl.
      + apply msync_quiet. exact Hq.
      + rewrite msync_chan. exact Hid.
    - exact HI.
    - (* ISend *) destruct (lookup k (n_chans (s_node s))) as [cs|] eqn:L; [|exact HI].
      apply send_chan_InvS; [assumption|assumption|]. cbn in HQ. unfold allowed. rewrite HQ. reflexivity.
    - (* ICreate *) destruct (lookup (chan_id c) (n_chans (s_node s))) as [cs|] eqn:L; [exact HI|]. cbn.
      destruct HI as [HI HQ']. split.
      + intros k0 c0 H0. destruct (HI k0 c0 H0) as [c1 [L1 R1]]. exists c1. split; [|exact R1].
        change (lookup k0 (n_chans (s_node s) ++ [(chan_id c, mkCS (m_init c) empty_cache)]) = Some c1).
        rewrite lookup_app_new by exact L. rewrite L1. reflexivity.
      + intros k0 c0 H0.
        change (lookup k0 (n_chans (s_node s) ++ [(chan_id c, mkCS (m_init c) empty_cache)]) = Some c0) in H0.
        destruct (lookup k0 (n_chans (s_node s))) as [c1|] eqn:L1.
        * rewrite lookup_app_new in H0 by exact L. rewrite L1 in H0. inversion H0; subst. eapply HQ'. exact L1.
        * assert (Hk : lookup k0 (n_chans (s_node s) ++ [(chan_id c, mkCS (m_init c) empty_cache)]) =
                       if chid_eqb (chan_id c) k0 then Some (mkCS (m_init c) empty_cache) else None).
          { clear -L1. induction (n_chans (s_node s)) as [|[k1 c1] r IH]; cbn in *; [reflexivity|].
            destruct (chid_eqb k1 k0); [discriminate|apply IH; exact L1]. }
          rewrite Hk in H0. destruct (chid_eqb (chan_id c) k0) eqn:Ek; [|discriminate]. inversion H0; subst.
          split; [split; reflexivity|]. cbn. apply triple_eqb_eq. exact Ek.
    - (* IReport *) destruct (lookup k (n_chans (s_node s))) as [cs|] eqn:L; [|exact HI].
      destruct (proj2 HI k cs L) as [Hq Hid].
      pose proof (fire_events_internal (m_chan (cs_m cs)) (cs_cache cs) r) as FI.
      destruct (fire (m_chan (cs_m cs)) (cs_cache cs) r) as [[cc' evs] pause]. cbn [fst snd] in FI.
      match goal with |- context [set_chan s k (mkCS ?m cc')] => set (m1 := m) end.
      assert (HI1 : InvS n0 (s_node (set_chan s k (mkCS m1 cc')))).
      { eapply InvS_set; [exact HI|exact L| | |]; cbn; subst m1.
        - destruct (_ || _); [rewrite msync_chan|]; apply R_refl.
        - destruct (_ || _); [apply msync_quiet|]; exact Hq.
        - destruct (_ || _); [rewrite msync_chan|]; exact Hid. }
      destruct (send_all (set_chan s k (mkCS m1 cc')) k evs) as [res s2] eqn:E. cbn [snd].
      pose proof (send_all_InvS n0 evs _ k (internal_allowed k _ FI) HI1) as H. rewrite E in H. exact H.
    - (* ISetLimit *) destruct (lookup k (n_chans (s_node s))) as [cs|] eqn:L; [|exact HI].
      destruct (proj2 HI k cs L) as [Hq Hid].
      destruct (set_limit (cs_cache cs) l) as [cc' evs] eqn:SL.
      assert (FI : forallb (fun e : ev => internal (fst e)) evs = true).
      { unfold set_limit in SL. inversion SL; subst. reflexivity. }
      apply send_all_InvS; [apply internal_allowed; exact FI|].
      eapply InvS_set; [exact HI|exact L| | |]; cbn; [apply R_refl|exact Hq|exact Hid].
    - destruct (pop_val (s_vals s)). exact HI.
    - exact HI.
    - destruct (pop_bool (s_sendf s)). exact HI.
    - destruct c; try (destruct (pop_bool (s_trf s))); exact HI.
    - exact HI.
    - exact HI.
    - exact HI.
  Qed.

  (* ---------- the node's own peer id never changes ---------- *)
  Lemma self_send_chan s k cs e : n_self (s_node (snd (send_chan s k cs e))) = n_self (s_node s).
  Proof.
    unfold send_chan. destruct (m_dead (cs_m cs)); [reflexivity|]. destruct (deliver (cs_m cs) e). reflexivity.
  Qed.

  Lemma self_send_all k evs : forall s, n_self (s_node (snd (send_all s k evs))) = n_self (s_node s).
  Proof.
    induction evs as [|e r IH]; intros s; cbn [send_all]; [reflexivity|].
    destruct (lookup k (n_chans (s_node s))) as [cs|]; [|reflexivity].
    pose proof (self_send_chan s k cs e) as H. destruct (send_chan s k cs e) as [res s'] eqn:E. cbn [snd] in H.
    destruct res; cbn [snd]; try exact H. rewrite IH. exact H.
  Qed.

  Lemma instr_keeps_self : forall X (i : instr X) s, n_self (s_node (snd (run_instr s i))) = n_self (s_node s).
  Proof.
    intros X i s. destruct i; cbn [run_instr]; try reflexivity.
    - destruct (lookup k (n_chans (s_node s))); reflexivity.
    - destruct (lookup k (n_chans (s_node s))) as [cs|]; [|reflexivity]. apply self_send_chan.
    - destruct (lookup (chan_id c) (n_chans (s_node s))); reflexivity.
    - destruct (lookup k (n_chans (s_node s))) as [cs|]; [|reflexivity].
      destruct (fire _ _ _) as [[cc' evs] pause].
      match goal with |- context [send_all ?s0 k evs] => pose proof (self_send_all k evs s0) as H; destruct (send_all s0 k evs) as [res s2] end.
      cbn [snd] in *. exact H.
    - destruct (lookup k (n_chans (s_node s))) as [cs|]; [|reflexivity].
      destruct (set_limit (cs_cache cs) l) as [cc' evs].
      match goal with |- context [send_all ?s0 k evs] => pose proof (self_send_all k evs s0) as H end. exact H.
    - destruct (pop_val (s_vals s)). reflexivity.
    - destruct (pop_bool (s_sendf s)). reflexivity.
    - destruct c; try (destruct (pop_bool (s_trf s))); reflexivity.
  Qed.

  (* ---------- programs ---------- *)
  Variable self : N.

  Lemma prog_InvS n0 A (p : prog A) : all_instr self stepQ A p ->
    forall s, n_self (s_node s) = self -> InvS n0 (s_node s) ->
    InvS n0 (s_node (snd (run p s))) /\ n_self (s_node (snd (run p s))) = self.
  Proof.
    induction 1 as [A a|A X i k HQ Hk IH]; intros s Hs HI; cbn [run]; [auto|].
    destruct (run_instr s i) as [x s'] eqn:E.
    assert (Hs' : n_self (s_node s') = self).
    { pose proof (instr_keeps_self X i s) as H. rewrite E in H. cbn [snd] in H. congruence. }
    assert (HI' : InvS n0 (s_node s')).
    { pose proof (instr_InvS n0 X i s HQ HI) as H. rewrite E in H. exact H. }
    apply IH; [|exact Hs'|exact HI'].
    destruct i; try exact I. cbn in E. inversion E; subst. reflexivity.
  Qed.

  Lemma keyed_InvS n0 A k (p : prog A) : all_instr self stepQ A p ->
    forall s, n_self (s_node s) = self -> InvS n0 (s_node s) ->
    InvS n0 (s_node (snd (run_keyed k p s))) /\ n_self (s_node (snd (run_keyed k p s))) = self.
  Proof.
    induction 1 as [A a|A X i cont HQ Hk IH]; intros s Hs HI; cbn [run_keyed]; [auto|].
    destruct (key_ok k i); [|auto].
    destruct (run_instr s i) as [x s'] eqn:E.
    assert (Hs' : n_self (s_node s') = self).
    { pose proof (instr_keeps_self X i s) as H. rewrite E in H. cbn [snd] in H. congruence. }
    assert (HI' : InvS n0 (s_node s')).
    { pose proof (instr_InvS n0 X i s HQ HI) as H. rewrite E in H. exact H. }
    apply IH; [|exact Hs'|exact HI'].
    destruct i; try exact I. cbn in E. inversion E; subst. reflexivity.
  Qed.
  (* maps over the channel table that keep records (up to R), quietness and ids *)
  Lemma InvS_map n0 n f :
    (forall cs, R (m_chan (cs_m cs)) (m_chan (cs_m (f cs)))) ->
    (forall cs, quiet (cs_m cs) -> quiet (cs_m (f cs))) ->
    (forall cs, chan_id (m_chan (cs_m (f cs))) = chan_id (m_chan (cs_m cs))) ->
    InvS n0 n -> InvS n0 (n <| n_chans := map (fun p => (fst p, f (snd p))) (n_chans n) |>).
  Proof.
    intros HR Hq Hid [HI HQ].
    assert (L : forall l k, lookup k (map (fun p : chid * cstate => (fst p, f (snd p))) l) = option_map f (lookup k l)).
    { clear. intros l k. induction l as [|[k0 c0] r IH]; cbn; [reflexivity|]. destruct (chid_eqb k0 k); [reflexivity|exact IH]. }
    specialize (L (n_chans n)).
    split.
    - intros k c0 H0. destruct (HI k c0 H0) as [c1 [L1 R1]]. exists (f c1). cbn. rewrite L, L1. split; [reflexivity|].
      eapply R_trans; [exact R1|apply HR].
    - intros k c0 H0. cbn in H0. rewrite L in H0. destruct (lookup k (n_chans n)) as [c1|] eqn:L1; [|discriminate].
      inversion H0; subst. destruct (HQ k c1 L1) as [A B]. split; [apply Hq; exact A|rewrite Hid; exact B].
  Qed.

  (* one step of the node whose handler only sends allowed events *)
  Theorem step_InvS n0 n st :
    n_self n = self -> InvS n0 n -> all_instr self stepQ _ (handler (st_in st)) ->
    InvS n0 (fst (fst (step n st))) /\ n_self (fst (fst (step n st))) = self.
  Proof.
    intros Hs HI HA. unfold step.
    set (s0 := mkNS (pre_step n (st_in st)) (st_sendf st) (st_trf st) (st_vals st) []).
    assert (H0 : InvS n0 (s_node s0) /\ n_self (s_node s0) = self).
    { subst s0. cbn [s_node]. unfold pre_step. destruct (st_in st); try (split; assumption).
      - destruct (existsb _ _); split; assumption.
      - split; [|exact Hs].
        pose proof (InvS_map n0 n (fun cs => mkCS (m_init (m_chan (cs_m cs))) empty_cache)) as M.
        cbn in M. specialize (M (fun cs => R_refl _) (fun cs _ => conj eq_refl eq_refl) (fun cs => eq_refl) HI).
        destruct M as [M1 M2]. split; [exact M1|exact M2]. }
    destruct H0 as [H0 Hs0].
    assert (Hsync : forall s1, InvS n0 (s_node s1) -> InvS n0 (sync_all (s_node s1))).
    { intros s1 H1. unfold sync_all.
      apply (InvS_map n0 (s_node s1) (fun cs => cs <| cs_m := msync (cs_m cs) |>)); [| | |exact H1]; intros cs; cbn.
      - rewrite msync_chan. apply R_refl.
      - apply msync_quiet.
      - rewrite msync_chan. reflexivity. }
    rewrite Hs.
    destruct (input_key self (st_in st)) as [k|].
    - pose proof (keyed_InvS n0 _ k (handler (st_in st)) HA s0 Hs0 H0) as [H1 H2].
      destruct (run_keyed k (handler (st_in st)) s0) as [r s1] eqn:E. cbn [fst snd] in *.
      split; [apply Hsync; exact H1|exact H2].
    - pose proof (prog_InvS n0 _ (handler (st_in st)) HA s0 Hs0 H0) as [H1 H2].
      destruct (run (handler (st_in st)) s0) as [r s1] eqn:E. cbn [fst snd] in *.
      split; [apply Hsync; exact H1|exact H2].
  Qed.
End LiftS.

(* ---------- a unary invariant of every stored record (covers channels created on the way) ---------- *)
Section LiftU.
  Variable S : chid -> EventCode -> bool.
  Variable U : chan -> Prop.
  Hypothesis U_plan : forall c e c' h, is_final (c_status c) = false -> allowed S (chan_id c) (fst e) = true ->
                                       apply c e = Applied c' h -> U c -> U c'.
  Variable self : N.

  Definition RU (c c' : chan) : Prop := U c -> U c'.

  Definition UInv (n : node) : Prop :=
    forall k cs, lookup k (n_chans n) = Some cs ->
      quiet (cs_m cs) /\ chan_id (m_chan (cs_m cs)) = k /\ U (m_chan (cs_m cs)).

  (* ISend must carry an allowed event, ICreate a record that satisfies U *)
  Definition stepQU : forall X, instr X -> Prop :=
    fun X i => match i with
               | ISend k e => S k (fst e) = true
               | ICreate c => U c
               | _ => True
               end.

  Lemma UInv_set s k cs cs' :
    UInv (s_node s) -> lookup k (n_chans (s_node s)) = Some cs ->
    quiet (cs_m cs') -> chan_id (m_chan (cs_m cs')) = k -> U (m_chan (cs_m cs')) ->
    UInv (s_node (set_chan s k cs')).
  Proof.
    intros HI Hl Hq Hid HU k0 c0 H0. unfold set_chan in H0. cbn in H0.
    destruct (triple_eqb k0 k) eqn:E.
    - apply triple_eqb_eq in E. subst k0. rewrite (lookup_update_same _ _ _ _ Hl) in H0. inversion H0; subst. auto.
    - rewrite lookup_update_other in H0; [apply HI; exact H0|].
      intros ->. rewrite (proj2 (triple_eqb_eq k k) eq_refl) in E. discriminate.
  Qed.

  Lemma send_chan_U s k cs e :
    UInv (s_node s) -> lookup k (n_chans (s_node s)) = Some cs -> allowed S k (fst e) = true ->
    UInv (s_node (snd (send_chan s k cs e))).
  Proof.
    intros HI Hl Ha. unfold send_chan. destruct (m_dead (cs_m cs)); [exact HI|].
    destruct (HI k cs Hl) as [Hq [Hid HU]].
    pose proof (deliver_chan_id (cs_m cs) e) as Hc.
    rewrite <- Hid in Ha.
    pose proof (deliver_RS S RU (fun c H => H) (fun a b c H1 H2 H => H2 (H1 H)) U_plan (cs_m cs) e Hq Ha) as [H1 H2].
    destruct (deliver (cs_m cs) e) as [m' o] eqn:E. cbn [snd fst] in *. rewrite emit_node.
    eapply UInv_set; [exact HI|exact Hl|exact H2| |apply H1; exact HU]. cbn. congruence.
  Qed.

  Lemma send_all_U evs : forall s k,
    forallb (fun e => allowed S k (fst e)) evs = true ->
    UInv (s_node s) -> UInv (s_node (snd (send_all s k evs))).
  Proof.
    induction evs as [|e r IH]; intros s k Ha HI; cbn [send_all]; [exact HI|].
    cbn in Ha. apply andb_prop in Ha. destruct Ha as [Ha Hr].
    destruct (lookup k (n_chans (s_node s))) as [cs|] eqn:L; [|exact HI].
    destruct (send_chan s k cs e) as [res s'] eqn:E.
    pose proof (send_chan_U s k cs e HI L Ha) as H. rewrite E in H. cbn [snd] in H.
    destruct res; try exact H. apply IH; assumption.
  Qed.

  Lemma instr_U : forall X (i : instr X) s,
    stepQU X i -> UInv (s_node s) -> UInv (s_node (snd (run_instr s i))).
  Proof.
    intros X i s HQ HI. destruct i; cbn [run_instr].
    - (* IGet *) destruct (lookup k (n_chans (s_node s))) as [cs|] eqn:L; [|exact HI]. cbn [snd].
      destruct (HI k cs L) as [Hq [Hid HU]].
      eapply UInv_set; [exact HI|exact L| | |]; cbn.
      + apply msync_quiet. exact Hq.
      + rewrite msync_chan. exact Hid.
      + rewrite msync_chan. exact HU.
    - exact HI.
    - (* ISend *) destruct (lookup k (n_chans (s_node s))) as [cs|] eqn:L; [|exact HI].
      apply send_chan_U; [assumption|assumption|]. cbn in HQ. unfold allowed. rewrite HQ. reflexivity.
    - (* ICreate *) destruct (lookup (chan_id c) (n_chans (s_node s))) as [cs|] eqn:L; [exact HI|]. cbn.
      intros k0 c0 H0.
      change (lookup k0 (n_chans (s_node s) ++ [(chan_id c, mkCS (m_init c) empty_cache)]) = Some c0) in H0.
      rewrite lookup_app_new in H0 by exact L.
      destruct (lookup k0 (n_chans (s_node s))) as [c1|] eqn:L1.
      + inversion H0; subst. apply HI. exact L1.
      + destruct (chid_eqb (chan_id c) k0) eqn:Ek; [|discriminate]. inversion H0; subst.
        split; [split; reflexivity|]. cbn. split; [apply triple_eqb_eq; exact Ek|exact HQ].
    - (* IReport *) destruct (lookup k (n_chans (s_node s))) as [cs|] eqn:L; [|exact HI].
      destruct (HI k cs L) as [Hq [Hid HU]].
      pose proof (fire_events_internal (m_chan (cs_m cs)) (cs_cache cs) r) as FI.
      destruct (fire (m_chan (cs_m cs)) (cs_cache cs) r) as [[cc' evs] pause]. cbn [fst snd] in FI.
      match goal with |- context [set_chan s k (mkCS ?m cc')] => set (m1 := m) end.
      assert (HI1 : UInv (s_node (set_chan s k (mkCS m1 cc')))).
      { eapply UInv_set; [exact HI|exact L| | |]; cbn; subst m1.
        - destruct (_ || _); [apply msync_quiet|]; exact Hq.
        - destruct (_ || _); [rewrite msync_chan|]; exact Hid.
        - destruct (_ || _); [rewrite msync_chan|]; exact HU. }
      destruct (send_all (set_chan s k (mkCS m1 cc')) k evs) as [res s2] eqn:E. cbn [snd].
      pose proof (send_all_U evs _ k (internal_allowed S k _ FI) HI1) as H. rewrite E in H. exact H.
    - (* ISetLimit *) destruct (lookup k (n_chans (s_node s))) as [cs|] eqn:L; [|exact HI].
      destruct (HI k cs L) as [Hq [Hid HU]].
      destruct (set_limit (cs_cache cs) l) as [cc' evs] eqn:SL.
      assert (FI : forallb (fun e : ev => internal (fst e)) evs = true).
      { unfold set_limit in SL. inversion SL; subst. reflexivity. }
      apply send_all_U; [apply internal_allowed; exact FI|].
      eapply UInv_set; [exact HI|exact L| | |]; cbn; [exact Hq|exact Hid|exact HU].
    - destruct (pop_val (s_vals s)). exact HI.
    - exact HI.
    - destruct (pop_bool (s_sendf s)). exact HI.
    - destruct c; try (destruct (pop_bool (s_trf s))); exact HI.
    - exact HI.
    - exact HI.
    - exact HI.
  Qed.

  Lemma prog_U A (p : prog A) : all_instr self stepQU A p ->
    forall s, n_self (s_node s) = self -> UInv (s_node s) ->
    UInv (s_node (snd (run p s))) /\ n_self (s_node (snd (run p s))) = self.
  Proof.
    induction 1 as [A a|A X i k HQ Hk IH]; intros s Hs HI; cbn [run]; [auto|].
    destruct (run_instr s i) as [x s'] eqn:E.
    assert (Hs' : n_self (s_node s') = self).
    { pose proof (instr_keeps_self X i s) as H. rewrite E in H. cbn [snd] in H. congruence. }
    assert (HI' : UInv (s_node s')).
    { pose proof (instr_U X i s HQ HI) as H. rewrite E in H. exact H. }
    apply IH; [|exact Hs'|exact HI'].
    destruct i; try exact I. cbn in E. inversion E; subst. reflexivity.
  Qed.

  Lemma keyed_U A k (p : prog A) : all_instr self stepQU A p ->
    forall s, n_self (s_node s) = self -> UInv (s_node s) ->
    UInv (s_node (snd (run_keyed k p s))) /\ n_self (s_node (snd (run_keyed k p s))) = self.
  Proof.
    induction 1 as [A a|A X i cont HQ Hk IH]; intros s Hs HI; cbn [run_keyed]; [auto|].
    destruct (key_ok k i); [|auto].
    destruct (run_instr s i) as [x s'] eqn:E.
    assert (Hs' : n_self (s_node s') = self).
    { pose proof (instr_keeps_self X i s) as H. rewrite E in H. cbn [snd] in H. congruence. }
    assert (HI' : UInv (s_node s')).
    { pose proof (instr_U X i s HQ HI) as H. rewrite E in H. exact H. }
    apply IH; [|exact Hs'|exact HI'].
    destruct i; try exact I. cbn in E. inversion E; subst. reflexivity.
  Qed.

  Lemma UInv_map n f :
    (forall cs, U (m_chan (cs_m cs)) -> U (m_chan (cs_m (f cs)))) ->
    (forall cs, quiet (cs_m cs) -> quiet (cs_m (f cs))) ->
    (forall cs, chan_id (m_chan (cs_m (f cs))) = chan_id (m_chan (cs_m cs))) ->
    UInv n -> UInv (n <| n_chans := map (fun p => (fst p, f (snd p))) (n_chans n) |>).
  Proof.
    intros HU Hq Hid HI.
    assert (L : forall l k, lookup k (map (fun p : chid * cstate => (fst p, f (snd p))) l) = option_map f (lookup k l)).
    { clear. intros l k. induction l as [|[k0 c0] r IH]; cbn; [reflexivity|]. destruct (chid_eqb k0 k); [reflexivity|exact IH]. }
    intros k c0 H0. cbn in H0. rewrite L in H0. destruct (lookup k (n_chans n)) as [c1|] eqn:L1; [|discriminate].
    inversion H0; subst. destruct (HI k c1 L1) as [A [B C]]. split; [apply Hq; exact A|]. split; [rewrite Hid; exact B|apply HU; exact C].
  Qed.

  Theorem step_U n st :
    n_self n = self -> UInv n -> all_instr self stepQU _ (handler (st_in st)) ->
    UInv (fst (fst (step n st))) /\ n_self (fst (fst (step n st))) = self.
  Proof.
    intros Hs HI HA. unfold step.
    set (s0 := mkNS (pre_step n (st_in st)) (st_sendf st) (st_trf st) (st_vals st) []).
    assert (H0 : UInv (s_node s0) /\ n_self (s_node s0) = self).
    { subst s0. cbn [s_node]. unfold pre_step. destruct (st_in st); try (split; assumption).
      - destruct (existsb _ _); split; assumption.
      - split; [|exact Hs].
        pose proof (UInv_map n (fun cs => mkCS (m_init (m_chan (cs_m cs))) empty_cache)) as M.
        cbn in M. specialize (M (fun cs H => H) (fun cs _ => conj eq_refl eq_refl) (fun cs => eq_refl) HI).
        exact M. }
    destruct H0 as [H0 Hs0].
    assert (Hsync : forall s1, UInv (s_node s1) -> UInv (sync_all (s_node s1))).
    { intros s1 H1. unfold sync_all.
      apply (UInv_map (s_node s1) (fun cs => cs <| cs_m := msync (cs_m cs) |>)); [| | |exact H1]; intros cs; cbn.
      - rewrite msync_chan. auto.
      - apply msync_quiet.
      - rewrite msync_chan. reflexivity. }
    rewrite Hs.
    destruct (input_key self (st_in st)) as [k|].
    - pose proof (keyed_U _ k (handler (st_in st)) HA s0 Hs0 H0) as [H1 H2].
      destruct (run_keyed k (handler (st_in st)) s0) as [r s1] eqn:E. cbn [fst snd] in *.
      split; [apply Hsync; exact H1|exact H2].
    - pose proof (prog_U _ (handler (st_in st)) HA s0 Hs0 H0) as [H1 H2].
      destruct (run (handler (st_in st)) s0) as [r s1] eqn:E. cbn [fst snd] in *.
      split; [apply Hsync; exact H1|exact H2].
  Qed.
End LiftU.
