(* The handler programs the node model and its theorems are written with are the ones in the source.
   gen/GenHandlers.v is regenerated on every run from impl/utils.go, impl/restart.go, impl/impl.go and
   impl/events.go (tools/dt2coq/handlers.go: the body of each Go function, statement by statement, as a
   program over the instruction set of Node.v).  Here each generated program is proved to behave like the
   hand-written program of Node.v for EVERY interpreter state (channels, caches, oracle answers still to
   come, outputs so far): same final state, same outputs, and the same returned error class as far as any
   caller or the correspondence can tell (nret_code: ok / pause / rejected / other).  A change to one of
   these Go functions therefore breaks one of these proofs unless it is behaviour-preserving. *)
From Coq Require Import List NArith ZArith String Bool.
From RecordUpdate Require Import RecordSet.
From DT Require Import GenStatus GenEvent GenMsgType FsmTypes GenFsm Fsm Machine View Caches Msg Node NodeCorr GenHandlers.
From DT Require C04Proofs.
Import ListNotations.

(* what a caller can tell from a returned error *)
Definition same_class (a b : nret) : Prop := nret_code a = nret_code b.

Definition same_run (x y : nret * nstate) : Prop := same_class (fst x) (fst y) /\ snd x = snd y.

Lemma same_run_refl x : same_run x x.
Proof. split; reflexivity. Qed.

(* the tactic: run both programs instruction by instruction on the same state, splitting on every answer
   and every test, until both sides are values *)
(* asking for the node's own peer id changes nothing *)
Lemma run_instr_self s : run_instr s ISelf = (n_self (s_node s), s).
Proof. reflexivity. Qed.

Ltac split_bool b :=
  lazymatch b with
  | negb ?x => split_bool x
  | andb ?x _ => split_bool x
  | orb ?x _ => split_bool x
  | context [if ?c then _ else _] => split_bool c
  | _ => destruct b eqn:?
  end.

Ltac split_val x :=
  lazymatch type of x with
  | bool => destruct x
  | sendres => destruct x
  | option _ => destruct x
  | (_ * _)%type => let a := fresh "a" in let b := fresh "b" in destruct x as [a b]; try split_val a; try split_val b
  | _ => idtac
  end.

Ltac step_both :=
  cbn [run bind exec fst snd andthen negb andb orb send send0 ret_ok ret_of_send swallow_terminated report_ret nret_is v_type v_node];
  rewrite ?run_instr_self;
  match goal with
  | |- context [if ?b then _ else _] => split_bool b
  | |- context [match ?r with ManagerPeerCreatePull => _ | _ => _ end] => destruct r
  | |- context [run_instr ?s ?i] =>
      let x := fresh "x" in let s' := fresh "s" in destruct (run_instr s i) as [x s']; split_val x
  | |- context [match ?o with Some _ => _ | None => _ end] => destruct o
  | |- context [match ?r with SOk => _ | SNotFound => _ | STerminated => _ end] => destruct r
  | |- context [let '(_, _) := ?p in _] => destruct p
  end.

Ltac finish := cbn; try (split; reflexivity); try reflexivity; try congruence.

Ltac both := repeat step_both; finish.

(* ---------- impl/utils.go ---------- *)
Theorem resume_message_is_source : forall self k, gen_resumeMessage self k = pause_message self k false.
Proof. reflexivity. Qed.
Theorem pause_message_is_source : forall self k, gen_pauseMessage self k = pause_message self k true.
Proof. reflexivity. Qed.
Theorem cancel_message_is_source : forall self k, gen_cancelMessage self k = cancel_message self k.
Proof. reflexivity. Qed.
Theorem pause_other_is_source : forall self k, gen_pauseOther self k = pause_other self k.
Proof. reflexivity. Qed.
Theorem resume_other_is_source : forall self k, gen_resumeOther self k = resume_other self k.
Proof. reflexivity. Qed.
Theorem pause_is_source : forall self k,
  gen_pause self k = if N.eqb (k_init k) self then send0 k PauseInitiator else send0 k PauseResponder.
Proof. reflexivity. Qed.
Theorem resume_is_source : forall self k,
  gen_resume self k = if N.eqb (k_init k) self then send0 k ResumeInitiator else send0 k ResumeResponder.
Proof. reflexivity. Qed.

(* ---------- impl/restart.go ---------- *)
Theorem restart_received_push_is_source : forall c s,
  same_run (run (gen_restartManagerPeerReceivePush c) s) (run (restart_received c) s).
Proof.
  intros c s. unfold gen_restartManagerPeerReceivePush, gen_validateRestart, restart_received, validate_restart. both.
Qed.

Theorem restart_received_pull_is_source : forall c s,
  same_run (run (gen_restartManagerPeerReceivePull c) s) (run (restart_received c) s).
Proof.
  intros c s. unfold gen_restartManagerPeerReceivePull, gen_validateRestart, restart_received, validate_restart. both.
Qed.

Theorem open_push_restart_is_source : forall c s,
  same_run (run (gen_openPushRestartChannel c) s) (run (open_push_restart c) s).
Proof. intros c s. unfold gen_openPushRestartChannel, open_push_restart. both. Qed.

Theorem open_pull_restart_is_source : forall c s,
  same_run (run (gen_openPullRestartChannel c) s) (run (open_pull_restart c) s).
Proof. intros c s. unfold gen_openPullRestartChannel, open_pull_restart. both. Qed.

(* validateRestartRequest returns an error exactly when the model's check says "not ok" *)
Theorem validate_restart_request_is_source : forall from k m s,
  ret_ok (fst (run (gen_validateRestartRequest from k m) s)) = fst (run (validate_restart_request from k m) s) /\
  snd (run (gen_validateRestartRequest from k m) s) = snd (run (validate_restart_request from k m) s).
Proof.
  intros from k m s. unfold gen_validateRestartRequest, validate_restart_request.
  cbn [run bind exec]. destruct (run_instr s (IGet k)) as [oc s1]. destruct oc as [c|]; [|split; reflexivity].
  cbn [run fst snd].
  destruct (is_final (c_status c)); [split; reflexivity|].
  destruct (N.eqb (k_init (chid_of c)) from); [|split; reflexivity].
  destruct (N.eqb (g_basecid m) (c_basecid c)); [|split; reflexivity].
  destruct (N.eqb (g_vnode m) 0); [split; reflexivity|].
  destruct (String.eqb (g_vtype m) (v_type (first_voucher c))); [|split; reflexivity].
  destruct (N.eqb (g_vnode m) (v_node (first_voucher c))); split; reflexivity.
Qed.

(* ---------- impl/impl.go: the manager's API ---------- *)
Definition with_self (f : N -> prog nret) : prog nret := self <- exec ISelf ;; f self.

Theorem send_voucher_is_source : forall k v s,
  same_run (run (with_self (fun self => gen_SendVoucher self k v)) s) (run (send_voucher k v) s).
Proof. intros k v s. unfold with_self, gen_SendVoucher, send_voucher, send, send0. both. Qed.

Theorem send_voucher_result_is_source : forall k v s,
  same_run (run (with_self (fun self => gen_SendVoucherResult self k v)) s) (run (send_voucher_result k v) s).
Proof. intros k v s. unfold with_self, gen_SendVoucherResult, send_voucher_result, send, send0. both. Qed.

Theorem close_channel_is_source : forall k s,
  same_run (run (with_self (fun self => gen_CloseDataTransferChannel self k)) s) (run (close_channel k) s).
Proof.
  intros k s. unfold with_self, gen_CloseDataTransferChannel, close_channel, gen_cancelMessage, cancel_message, send, send0. both.
Qed.

Theorem close_with_error_is_source : forall k s,
  same_run (run (with_self (fun self => gen_CloseDataTransferChannelWithError self k)) s) (run (close_with_error k) s).
Proof.
  intros k s. unfold with_self, gen_CloseDataTransferChannelWithError, close_with_error, gen_cancelMessage, cancel_message, send, send0. both.
Qed.

Theorem pause_channel_is_source : forall k s,
  same_run (run (with_self (fun self => gen_PauseDataTransferChannel self k)) s) (run (pause_channel k) s).
Proof.
  intros k s. unfold with_self, gen_PauseDataTransferChannel, pause_channel, gen_pauseMessage, pause_message, gen_pause, send, send0. both.
Qed.

Theorem resume_channel_is_source : forall k s,
  same_run (run (with_self (fun self => gen_ResumeDataTransferChannel self k)) s) (run (resume_channel k) s).
Proof.
  intros k s. unfold with_self, gen_ResumeDataTransferChannel, resume_channel, gen_resumeMessage, pause_message, gen_resume, send, send0. both.
Qed.

Theorem restart_channel_is_source : forall k s,
  same_run (run (with_self (fun self => gen_RestartDataTransferChannel self k)) s) (run (restart_channel k) s).
Proof.
  intros k s. unfold with_self, gen_RestartDataTransferChannel, restart_channel, gen_channelDataTransferType,
    gen_restartManagerPeerReceivePush, gen_restartManagerPeerReceivePull, gen_openPullRestartChannel, gen_openPushRestartChannel,
    restart_received, open_pull_restart, open_push_restart, validate_restart, gen_validateRestart, send, send0.
  both.
Qed.

(* ---------- impl/events.go ---------- *)
Theorem on_channel_opened_is_source : forall k s,
  same_run (run (gen_OnChannelOpened k) s) (run (on_channel_opened k) s).
Proof. intros k s. unfold gen_OnChannelOpened, on_channel_opened, send, send0. both. Qed.

Theorem on_channel_completed_is_source : forall k failed s,
  same_run (run (with_self (fun self => gen_OnChannelCompleted self k failed)) s) (run (on_channel_completed k failed) s).
Proof.
  intros k failed s. unfold with_self, gen_OnChannelCompleted, on_channel_completed, send, send0. both.
Qed.

(* ---------- impl/events.go: the remaining transport callbacks ---------- *)
Definition same_run2 (x y : (option msg * nret) * nstate) : Prop :=
  fst (fst x) = fst (fst y) /\ same_class (snd (fst x)) (snd (fst y)) /\ snd x = snd y.

Ltac finish2 := cbn; try (split; [reflexivity | split; reflexivity]); try reflexivity; try congruence.
Ltac both2 := repeat step_both; finish2.

Theorem on_response_received_is_source : forall k m s,
  same_run (run (with_self (fun self => gen_OnResponseReceived self k m)) s) (run (on_response_received k m) s).
Proof.
  intros k m s. unfold with_self, gen_OnResponseReceived, on_response_received, gen_pauseOther, gen_resumeOther, pause_other, resume_other, send, send0.
  both.
Qed.

Theorem on_data_received_is_source : forall k size index unique s,
  same_run (run (gen_OnDataReceived k size index unique) s)
           (snd (fst (run (on_data KReceived k size index unique) s)), snd (run (on_data KReceived k size index unique) s)) /\
  fst (fst (run (on_data KReceived k size index unique) s)) = None.
Proof.
  intros k size index unique s. unfold gen_OnDataReceived, on_data. repeat step_both; cbn; repeat split; reflexivity.
Qed.

Theorem on_data_queued_is_source : forall k size index unique s,
  same_run2 (run (gen_OnDataQueued k size index unique) s) (run (on_data KQueued k size index unique) s).
Proof. intros k size index unique s. unfold gen_OnDataQueued, on_data. both2. Qed.

Theorem on_data_sent_is_source : forall k size index unique s,
  same_run (run (gen_OnDataSent k size index unique) s)
           (snd (fst (run (on_data KSent k size index unique) s)), snd (run (on_data KSent k size index unique) s)) /\
  fst (fst (run (on_data KSent k size index unique) s)) = None.
Proof.
  intros k size index unique s. unfold gen_OnDataSent, on_data. repeat step_both; cbn; repeat split; reflexivity.
Qed.

Theorem error_notices_are_source : forall k,
  gen_OnRequestCancelled k = send k RequestCancelled (err_arg E) /\
  gen_OnRequestDisconnected k = send k Disconnected (err_arg E) /\
  gen_OnSendDataError k = send k SendDataError (err_arg E) /\
  gen_OnReceiveDataError k = send k ReceiveDataError (err_arg E).
Proof. intros k. repeat split. Qed.

(* ---------- impl/receiving_requests.go ---------- *)
Theorem receive_update_request_is_source : forall k m s,
  same_run2 (run (self <- exec ISelf ;; gen_receiveUpdateRequest self k m) s) (run (receive_update_request k m) s).
Proof.
  intros k m s. unfold gen_receiveUpdateRequest, receive_update_request, gen_pauseOther, gen_resumeOther, pause_other, resume_other, send, send0.
  both2.
Qed.

Theorem process_update_voucher_is_source : forall k m,
  gen_processUpdateVoucher k m =
  if N.eqb (g_vnode m) 0 then Ret (None, ROther)
  else r <- send k NewVoucher (voucher_arg {| v_type := g_vtype m; v_node := g_vnode m |}) ;; Ret (None, r).
Proof. intros k m. unfold gen_processUpdateVoucher. destruct (N.eqb (g_vnode m) 0); reflexivity. Qed.

(* ---------- impl/receiving_requests.go: validation, new requests, restart requests ---------- *)
(* an error value of the source against the model's "an error occurred" flag *)
Definition err_rel (r : nret) (b : bool) : Prop := negb (ret_ok r) = b.

Definition same_val (x : (valres * nret) * nstate) (y : (valres * bool) * nstate) : Prop :=
  fst (fst x) = fst (fst y) /\ err_rel (snd (fst x)) (snd (fst y)) /\ snd x = snd y.

Definition same_val3 (x : (bool * valres * nret) * nstate) (y : (bool * valres * bool) * nstate) : Prop :=
  fst (fst (fst x)) = fst (fst (fst y)) /\ snd (fst (fst x)) = snd (fst (fst y)) /\
  err_rel (snd (fst x)) (snd (fst y)) /\ snd x = snd y.

Ltac finish3 := cbn; unfold same_val, same_val3, same_run2, same_run, same_class, err_rel; cbn; repeat split; try reflexivity; try congruence.
Ltac both3 := repeat step_both; finish3.

Theorem validate_restart_is_source : forall c s,
  same_val (run (gen_validateRestart c) s) (run (validate_restart c) s).
Proof. intros c s. unfold gen_validateRestart, validate_restart. both3. Qed.

Theorem record_rejected_is_source : forall k vr s,
  same_run (run (gen_recordRejectedValidationEvents k vr) s) (run (record_rejected k vr) s).
Proof. intros k vr s. unfold gen_recordRejectedValidationEvents, record_rejected, send, send0. both. Qed.

Theorem record_accepted_is_source : forall c vr s,
  same_run (run (gen_recordAcceptedValidationEvents c vr) s) (run (record_accepted c vr) s).
Proof. intros c vr s. unfold gen_recordAcceptedValidationEvents, record_accepted, send, send0. both. Qed.

Theorem accept_request_is_source : forall k m s,
  same_val (run (self <- exec ISelf ;; gen_acceptRequest self k m) s) (run (accept_request k m) s).
Proof.
  intros k m s. unfold gen_acceptRequest, accept_request, gen_recordAcceptedValidationEvents, record_accepted, send, send0. both3.
Qed.

Theorem restart_request_is_source : forall k m s,
  same_val3 (run (self <- exec ISelf ;; gen_restartRequest self k m) s) (run (restart_request k m) s).
Proof.
  intros k m s. unfold gen_restartRequest, restart_request, gen_validateRestartRequest, validate_restart_request,
    gen_validateRestart, validate_restart, gen_recordRejectedValidationEvents, record_rejected,
    gen_recordAcceptedValidationEvents, record_accepted, send, send0.
  both3.
Qed.

Theorem receive_new_request_is_source : forall k m s,
  same_run2 (run (self <- exec ISelf ;; gen_receiveNewRequest self k m) s) (run (receive_new_request k m) s).
Proof.
  intros k m s. unfold gen_receiveNewRequest, receive_new_request, request_error_ret, request_error,
    gen_acceptRequest, accept_request, gen_recordAcceptedValidationEvents, record_accepted, send, send0. both3.
Qed.

Theorem receive_restart_request_is_source : forall k m s,
  same_run2 (run (self <- exec ISelf ;; gen_receiveRestartRequest self k m) s) (run (receive_restart_request k m) s).
Proof.
  intros k m s. unfold gen_receiveRestartRequest, receive_restart_request, request_error_ret, request_error,
    gen_restartRequest, restart_request, gen_validateRestartRequest, validate_restart_request,
    gen_validateRestart, validate_restart, gen_recordRejectedValidationEvents, record_rejected,
    gen_recordAcceptedValidationEvents, record_accepted, send, send0.
  both3.
Qed.

Theorem on_request_received_is_source : forall k m s,
  same_run2 (run (gen_OnRequestReceived (n_self (s_node s)) k m) s) (run (on_request_received k m) s).
Proof.
  intros k m s.
  unfold gen_OnRequestReceived, on_request_received, request_kind,
    gen_receiveRestartRequest, receive_restart_request, gen_receiveNewRequest, receive_new_request,
    gen_receiveUpdateRequest, receive_update_request, gen_processUpdateVoucher, request_error_ret, request_error,
    gen_restartRequest, restart_request, gen_acceptRequest, accept_request,
    gen_validateRestartRequest, validate_restart_request, gen_validateRestart, validate_restart,
    gen_recordRejectedValidationEvents, record_rejected, gen_recordAcceptedValidationEvents, record_accepted,
    gen_pauseOther, gen_resumeOther, pause_other, resume_other, send, send0.
  both3.
Qed.

(* ---------- impl/receiver.go: what arrives over the network ---------- *)
Lemma with_self_run (f : N -> prog nret) s : run (with_self f) s = run (f (n_self (s_node s))) s.
Proof. unfold with_self. cbn [run bind exec]. rewrite run_instr_self. cbn [run bind]. destruct (f (n_self (s_node s))); reflexivity. Qed.

Theorem recv_request_is_source : forall from m s,
  same_run (run (gen_receiveRequest (n_self (s_node s)) from m) s) (run (recv_request from m) s).
Proof.
  intros from m s. unfold gen_receiveRequest, recv_request.
  cbn [run bind exec]. rewrite run_instr_self. cbn [run bind].
  rewrite !C04Proofs.run_bind.
  pose proof (on_request_received_is_source (from, n_self (s_node s), g_tid m) m s) as H.
  destruct (run (gen_OnRequestReceived (n_self (s_node s)) (from, n_self (s_node s), g_tid m) m) s) as [[o r] s1].
  destruct (run (on_request_received (from, n_self (s_node s), g_tid m) m) s) as [[o' r'] s1'].
  destruct H as (Ho & Hr & Hs). cbn [fst snd] in Ho, Hr, Hs. subst o' s1'.
  unfold same_class in Hr.
  destruct r, r'; try discriminate Hr; (destruct o; both).
Qed.

Theorem recv_response_is_source : forall from m s,
  same_run (run (gen_receiveResponse (n_self (s_node s)) from m) s) (run (recv_response from m) s).
Proof.
  intros from m s. unfold gen_receiveResponse, recv_response.
  cbn [run bind exec]. rewrite run_instr_self. cbn [run bind].
  rewrite !C04Proofs.run_bind.
  pose proof (on_response_received_is_source (n_self (s_node s), from, g_tid m) m s) as H.
  rewrite with_self_run in H.
  destruct (run (gen_OnResponseReceived (n_self (s_node s)) (n_self (s_node s), from, g_tid m) m) s) as [r s1].
  destruct (run (on_response_received (n_self (s_node s), from, g_tid m) m) s) as [r' s1'].
  destruct H as (Hr & Hs). cbn [fst snd] in Hr, Hs. subst s1'.
  unfold same_class in Hr.
  destruct r, r'; try discriminate Hr; both.
Qed.

Theorem recv_restart_existing_is_source : forall from m s,
  snd (run (gen_ReceiveRestartExistingChannelRequest (n_self (s_node s)) from m) s) = snd (run (recv_restart_existing from m) s).
Proof.
  intros from m s. unfold gen_ReceiveRestartExistingChannelRequest, recv_restart_existing, gen_channelDataTransferType,
    gen_openPushRestartChannel, gen_openPullRestartChannel, open_push_restart, open_pull_restart.
  repeat step_both; cbn; try reflexivity; try congruence.
Qed.

(* ---------- impl/impl.go: UpdateValidationStatus ---------- *)
Theorem update_validation_is_source : forall k vr s,
  same_run (run (with_self (fun self => gen_UpdateValidationStatus self k vr)) s) (run (update_validation k vr) s).
Proof.
  intros k vr s. unfold with_self, gen_UpdateValidationStatus, gen_updateValidationStatus, gen_processValidationUpdate,
    gen_handleTransportUpdate, gen_recordRejectedValidationEvents, gen_recordAcceptedValidationEvents,
    update_validation, record_rejected, record_accepted, validation_result_response, send, send0.
  both.
Qed.

(* ---------- impl/impl.go: opening a channel ---------- *)
Definition same_open (x : (chid * nret) * nstate) (y : (nret * option chid) * nstate) : Prop :=
  same_class (snd (fst x)) (fst (fst y)) /\ snd x = snd y /\ (forall k, snd (fst y) = Some k -> fst (fst x) = k).

Ltac finish_open := cbn; unfold same_open, same_class; cbn; repeat split; try reflexivity; try congruence;
  try (intros ? Hk; inversion Hk; reflexivity).

Theorem open_push_is_source : forall to v b sel s,
  same_open (run (self <- exec ISelf ;; gen_OpenPushDataChannel self to v b sel) s) (run (open_channel DPush to v b sel) s).
Proof.
  intros to v b sel s. unfold gen_OpenPushDataChannel, open_channel, new_request, send, send0.
  destruct (N.eqb b 0); cbn [g_tid]; repeat step_both; finish_open.
Qed.

Theorem open_pull_is_source : forall to v b sel s,
  same_open (run (self <- exec ISelf ;; gen_OpenPullDataChannel self to v b sel) s) (run (open_channel DPull to v b sel) s).
Proof.
  intros to v b sel s. unfold gen_OpenPullDataChannel, open_channel, new_request, send, send0.
  destruct (N.eqb b 0); cbn [g_tid]; repeat step_both; finish_open.
Qed.

(* ---------- the statements the property files restate ---------- *)
Definition runs_like (g m : prog nret) : Prop := forall s, same_run (run g s) (run m s).

(* closing a channel, by the user or with an error (C09) *)
Theorem close_handlers_are_source : forall k,
  runs_like (with_self (fun self => gen_CloseDataTransferChannel self k)) (close_channel k) /\
  runs_like (with_self (fun self => gen_CloseDataTransferChannelWithError self k)) (close_with_error k) /\
  (forall self, gen_cancelMessage self k = cancel_message self k).
Proof.
  intros k. split; [|split].
  - intros s. apply close_channel_is_source.
  - intros s. apply close_with_error_is_source.
  - reflexivity.
Qed.

(* every restart path (C02, C04, C10) *)
Theorem restart_handlers_are_source : forall k c,
  runs_like (with_self (fun self => gen_RestartDataTransferChannel self k)) (restart_channel k) /\
  runs_like (gen_openPushRestartChannel c) (open_push_restart c) /\
  runs_like (gen_openPullRestartChannel c) (open_pull_restart c) /\
  runs_like (gen_restartManagerPeerReceivePush c) (restart_received c) /\
  runs_like (gen_restartManagerPeerReceivePull c) (restart_received c).
Proof.
  intros k c. split; [|split; [|split; [|split]]]; intros s.
  - apply restart_channel_is_source.
  - apply open_push_restart_is_source.
  - apply open_pull_restart_is_source.
  - apply restart_received_push_is_source.
  - apply restart_received_pull_is_source.
Qed.

(* pausing and resuming, and the messages that announce them (C11) *)
Theorem pause_handlers_are_source : forall k,
  runs_like (with_self (fun self => gen_PauseDataTransferChannel self k)) (pause_channel k) /\
  runs_like (with_self (fun self => gen_ResumeDataTransferChannel self k)) (resume_channel k) /\
  (forall self, gen_pauseMessage self k = pause_message self k true /\ gen_resumeMessage self k = pause_message self k false /\
                gen_pauseOther self k = pause_other self k /\ gen_resumeOther self k = resume_other self k).
Proof.
  intros k. split; [|split].
  - intros s. apply pause_channel_is_source.
  - intros s. apply resume_channel_is_source.
  - intros self. repeat split.
Qed.

(* vouchers and voucher results: who may send them, and recording after sending (C05, C19) *)
Theorem voucher_handlers_are_source : forall k v,
  runs_like (with_self (fun self => gen_SendVoucher self k v)) (send_voucher k v) /\
  runs_like (with_self (fun self => gen_SendVoucherResult self k v)) (send_voucher_result k v).
Proof.
  intros k v. split; intros s; [apply send_voucher_is_source | apply send_voucher_result_is_source].
Qed.

(* the end of the transport's part of a transfer (C01, C03) *)
Theorem completion_handlers_are_source : forall k failed,
  runs_like (with_self (fun self => gen_OnChannelCompleted self k failed)) (on_channel_completed k failed) /\
  runs_like (gen_OnChannelOpened k) (on_channel_opened k).
Proof.
  intros k failed. split; intros s; [apply on_channel_completed_is_source | apply on_channel_opened_is_source].
Qed.

(* requests and their validation (C04, C05, C18) *)
Theorem request_handlers_are_source : forall k m c vr s,
  same_val (run (self <- exec ISelf ;; gen_acceptRequest self k m) s) (run (accept_request k m) s) /\
  same_val3 (run (self <- exec ISelf ;; gen_restartRequest self k m) s) (run (restart_request k m) s) /\
  same_run2 (run (gen_OnRequestReceived (n_self (s_node s)) k m) s) (run (on_request_received k m) s) /\
  same_val (run (gen_validateRestart c) s) (run (validate_restart c) s) /\
  same_run (run (gen_recordRejectedValidationEvents k vr) s) (run (record_rejected k vr) s) /\
  same_run (run (gen_recordAcceptedValidationEvents c vr) s) (run (record_accepted c vr) s).
Proof.
  intros k m c vr s. split; [|split; [|split; [|split; [|split]]]].
  - apply accept_request_is_source.
  - apply restart_request_is_source.
  - apply on_request_received_is_source.
  - apply validate_restart_is_source.
  - apply record_rejected_is_source.
  - apply record_accepted_is_source.
Qed.

(* responses, and the counterparty's pause / resume (C03, C05, C11, C19) *)
Theorem response_handlers_are_source : forall k m s,
  same_run (run (with_self (fun self => gen_OnResponseReceived self k m)) s) (run (on_response_received k m) s) /\
  same_run2 (run (self <- exec ISelf ;; gen_receiveUpdateRequest self k m) s) (run (receive_update_request k m) s).
Proof. intros k m s. split; [apply on_response_received_is_source | apply receive_update_request_is_source]. Qed.

(* block reports: the pause signal and who is told (C07, C08) *)
Theorem report_handlers_are_source : forall k size index unique s,
  (same_run (run (gen_OnDataReceived k size index unique) s)
            (snd (fst (run (on_data KReceived k size index unique) s)), snd (run (on_data KReceived k size index unique) s)) /\
   fst (fst (run (on_data KReceived k size index unique) s)) = None) /\
  same_run2 (run (gen_OnDataQueued k size index unique) s) (run (on_data KQueued k size index unique) s) /\
  (same_run (run (gen_OnDataSent k size index unique) s)
            (snd (fst (run (on_data KSent k size index unique) s)), snd (run (on_data KSent k size index unique) s)) /\
   fst (fst (run (on_data KSent k size index unique) s)) = None).
Proof.
  intros k size index unique s. split; [|split].
  - apply on_data_received_is_source.
  - apply on_data_queued_is_source.
  - apply on_data_sent_is_source.
Qed.

(* what arrives over the network: requests, responses, restart-existing-channel requests (C04, C05, C09, C10, C11) *)
Theorem receiver_handlers_are_source : forall from m s,
  same_run (run (gen_receiveRequest (n_self (s_node s)) from m) s) (run (recv_request from m) s) /\
  same_run (run (gen_receiveResponse (n_self (s_node s)) from m) s) (run (recv_response from m) s) /\
  snd (run (gen_ReceiveRestartExistingChannelRequest (n_self (s_node s)) from m) s) = snd (run (recv_restart_existing from m) s).
Proof.
  intros from m s. split; [|split].
  - apply recv_request_is_source.
  - apply recv_response_is_source.
  - apply recv_restart_existing_is_source.
Qed.

(* opening a channel: the id drawn from the counter, the record created before anything is sent, the request
   over the network (push) or the transport (pull), a failed send failing the channel (C18, C19, C10) *)
Theorem opening_calls_are_source : forall to v b sel s,
  same_open (run (self <- exec ISelf ;; gen_OpenPushDataChannel self to v b sel) s) (run (open_channel DPush to v b sel) s) /\
  same_open (run (self <- exec ISelf ;; gen_OpenPullDataChannel self to v b sel) s) (run (open_channel DPull to v b sel) s).
Proof. intros to v b sel s. split; [apply open_push_is_source | apply open_pull_is_source]. Qed.
