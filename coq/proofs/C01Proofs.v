(* C01 (control part): an initiator's channel is Completed only after it has received the
   responder's final (un-paused) Complete and its own transport has finished -- or it finished
   while still awaiting acceptance; a responder sends its final Complete only from a successful
   transport completion or from its application's release of the finalization hold. *)
From Coq Require Import List NArith ZArith String Bool Arith Lia.
From RecordUpdate Require Import RecordSet.
From DT Require Import GenStatus GenEvent GenMsgType FsmTypes GenFsm Fsm Machine View Caches Msg Node
     FsmFacts MachineFacts NodeFacts NodeLiftS.
Import ListNotations RecordSetNotations.

(* ---------- which inputs may raise which completion events on channel k0 ---------- *)
Section Classes.
  Variable self : N.
  Variable k0 : chid.

  Definition complete_unpaused (m : msg) : bool := is_complete m && negb (g_pause m) && negb (is_cancel m).

  (* the responder's final Complete arrives (from the authenticated responder of k0) *)
  Definition in_rc (i : ninput) : bool :=
    match i with
    | MResponse from m => chid_eqb (self, from, g_tid m) k0 && complete_unpaused m
    | TResponseReceived k m => chid_eqb k k0 && complete_unpaused m
    | _ => false
    end.
  (* the local transport reports that the transfer finished without error *)
  Definition in_ft (i : ninput) : bool :=
    match i with
    | TChannelCompleted k false => chid_eqb k k0 && N.eqb (k_init k0) self
    | _ => false
    end.
  (* local completion of a channel this node responds to *)
  Definition in_c (i : ninput) : bool := negb (N.eqb (k_init k0) self).

  (* a transport-completion input raises nothing but these (and the completion events above) *)
  Definition is_tc (i : ninput) : bool := match i with TChannelCompleted _ _ => true | _ => false end.

  Definition S_step (i : ninput) (k : chid) (e : EventCode) : bool :=
    if chid_eqb k k0 then
      match e with
      | ResponderCompletes => in_rc i
      | FinishTransfer => in_ft i
      | Complete | BeginFinalizing => in_c i
      | Error | Disconnected => true
      | _ => negb (is_tc i)
      end
    else true.
End Classes.

Lemma teqb_refl k : chid_eqb k k = true.
Proof. destruct k as [[a b] c]. unfold chid_eqb. cbn. rewrite !N.eqb_refl. reflexivity. Qed.

Ltac so_q :=
  cbn [stepQ stepQU fst snd]; try exact I;
  subst;
  repeat match goal with
         | H : chid_eqb ?a ?b = true |- _ => apply triple_eqb_eq in H; subst
         | H : triple_eqb ?a ?b = true |- _ => apply triple_eqb_eq in H; subst
         end;
  unfold S_step, in_rc, in_ft, in_c, is_tc, complete_unpaused; cbn [fst snd k_init k_resp k_tid];
  rewrite ?teqb_refl;
  repeat match goal with
         | H : ?x = true |- context [?x] => rewrite H
         | H : ?x = false |- context [?x] => rewrite H
         end;
  cbn [andb orb negb];
  repeat match goal with |- context [if ?b then _ else _] => destruct b eqn:?; cbn [andb orb negb]; try reflexivity end;
  try reflexivity;
  repeat match goal with
         | H : chid_eqb ?a ?b = true |- _ => apply triple_eqb_eq in H; subst
         end;
  repeat match goal with
         | H : ?x = true |- context [?x] => rewrite H
         | H : ?x = false |- context [?x] => rewrite H
         end;
  cbn [andb orb negb]; try reflexivity; try congruence.

Ltac so_step :=
  match goal with
  | |- all_instr _ _ _ (Ret _) => apply ai_ret
  | |- all_instr _ _ _ (Do _ _) => apply ai_do; [try so_q|intros ? ?]
  | |- all_instr _ _ _ (match ?x with _ => _ end) => destruct x eqn:?
  | |- all_instr _ _ _ (if ?b then _ else _) => destruct b eqn:?
  | |- all_instr _ _ _ (bind (match ?x with _ => _ end) _) => destruct x eqn:?
  | |- all_instr _ _ _ (bind (if ?b then _ else _) _) => destruct b eqn:?
  | |- all_instr _ _ _ (bind _ _) => apply all_instr_bind; [|intros ?]
  end.

Ltac head t := match t with ?f _ => head f | _ => t end.
Ltac so_unfold :=
  match goal with
  | |- all_instr _ _ _ ?p => let h := head p in progress (unfold h)
  end.

Ltac so := repeat (cbn [bind exec send send0 andthen ret_of_send ret_ok]; first [so_step | so_unfold]).

(* ---------- what the initiator's history must contain for each status ---------- *)
Record flags := mkF { f_rc : bool; f_ft : bool; f_un : bool }.
(* f_rc: the responder's final Complete has arrived; f_ft: the local transport has finished;
   f_un: the transport finished while the channel was still awaiting acceptance *)

Definition P (f : flags) (s : Status) : bool :=
  match s with
  | ResponderCompleted => f_rc f
  | TransferFinished | ResponderFinalizingTransferFinished => f_ft f
  | Completing | Completed => (f_rc f && f_ft f) || f_un f
  | Finalizing => false        (* the responder's hold: never the status of a channel this node initiated *)
  | _ => true
  end.

Definition Pre (f : flags) (ftaw : bool) (s : Status) : bool :=
  P f s && (negb ftaw || negb (status_eqb s AwaitingAcceptance) || f_un f).

(* the abstraction of S_step for a channel this node initiated *)
Definition S_abs (aRC aFT aT : bool) (e : EventCode) : bool :=
  match e with
  | ResponderCompletes => aRC
  | FinishTransfer => aFT
  | Complete | BeginFinalizing => false
  | Error | Disconnected => true
  | _ => negb aT
  end.

Definition plan_ok (aRC aFT aT : bool) (f : flags) (e : EventCode) (s : Status) : bool :=
  implb ((S_abs aRC aFT aT e || internal e) && implb aRC (f_rc f) && implb aFT (f_ft f) && implb aFT aT &&
         Pre f aFT s && negb (is_final s))
        (Pre f aFT (next_status e s)).

Lemma plan_ok_all : forall aRC aFT aT rc ft un e s, plan_ok aRC aFT aT (mkF rc ft un) e s = true.
Proof.
  intros aRC aFT aT rc ft un. apply forall_event_status.
  destruct aRC, aFT, aT, rc, ft, un; vm_compute; reflexivity.
Qed.

Lemma P_mono : forall f g s, implb (f_rc f) (f_rc g) = true -> implb (f_ft f) (f_ft g) = true ->
  implb (f_un f) (f_un g) = true -> P f s = true -> P g s = true.
Proof.
  intros [a b c] [a' b' c'] s. cbn. destruct a, b, c, a', b', c', s; cbn; intros; try reflexivity; try discriminate.
Qed.

(* every handler, for every input: on channel k0 it raises ResponderCompletes / FinishTransfer /
   Complete / BeginFinalizing only under the conditions of in_rc / in_ft / in_c, a transport
   completion raises nothing else but Error / Disconnected, and created records are Requested *)
Definition UQ self k0 i (U : chan -> Prop) : forall X, instr X -> Prop := stepQU (S_step self k0 i) U.

Lemma handlers_send_only self k0 i f ftaw :
  all_instr self (stepQU (S_step self k0 i) (fun c => chan_id c = k0 -> Pre f ftaw (c_status c) = true)) _ (handler i).
Proof.
  destruct i; unfold handler.
  all: so.
  all: try so_q.
  all: try (cbn [stepQU]; intros _; unfold Pre; cbn; rewrite ?orb_true_r; reflexivity).
Qed.

(* ---------- one step, then every history ---------- *)
Section Hist.
  Variable self : N.
  Variable k0 : chid.
  Hypothesis Hinit : k_init k0 = self.     (* this node initiated k0 *)

  Definition status_of (n : node) : option Status :=
    match lookup k0 (n_chans n) with Some cs => Some (c_status (m_chan (cs_m cs))) | None => None end.

  Definition awaiting (n : node) : bool :=
    match status_of n with Some AwaitingAcceptance => true | _ => false end.

  (* how one input (handled in node state n) extends what the history contains *)
  Definition upd (f : flags) (n : node) (i : ninput) : flags :=
    mkF (f_rc f || in_rc self k0 i) (f_ft f || in_ft self k0 i) (f_un f || (in_ft self k0 i && awaiting n)).

  Definition J (f : flags) (n : node) : Prop :=
    forall k cs, lookup k (n_chans n) = Some cs ->
      quiet (cs_m cs) /\ chan_id (m_chan (cs_m cs)) = k /\ (k = k0 -> P f (c_status (m_chan (cs_m cs))) = true).

  Lemma in_c_false i : in_c self k0 i = false.
  Proof. unfold in_c. rewrite Hinit, N.eqb_refl. reflexivity. Qed.

  Lemma in_ft_tc i : in_ft self k0 i = true -> is_tc i = true.
  Proof. destruct i; cbn; try discriminate. reflexivity. Qed.

  Theorem step_J n st f :
    n_self n = self -> J f n ->
    J (upd f n (st_in st)) (fst (fst (step n st))) /\ n_self (fst (fst (step n st))) = self.
  Proof.
    intros Hs HJ. set (i := st_in st). set (fa := upd f n i). set (aFT := in_ft self k0 i).
    set (U := fun c : chan => chan_id c = k0 -> Pre fa aFT (c_status c) = true).
    assert (HU : UInv U n).
    { intros k cs L. destruct (HJ k cs L) as [Hq [Hid HP]]. split; [exact Hq|]. split; [exact Hid|].
      intros Hk. rewrite Hid in Hk. specialize (HP Hk). unfold Pre. apply andb_true_intro. split.
      - eapply P_mono; [| | |exact HP]; subst fa; unfold upd; cbn; destruct (f_rc f), (f_ft f), (f_un f); reflexivity.
      - destruct aFT eqn:EA; [|reflexivity]. cbn [negb orb].
        destruct (status_eqb (c_status (m_chan (cs_m cs))) AwaitingAcceptance) eqn:ES; [|reflexivity]. cbn [negb orb].
        subst fa. unfold upd. cbn [f_un]. fold aFT. rewrite EA. cbn [andb].
        unfold awaiting, status_of. rewrite Hk in L. rewrite L.
        destruct (c_status (m_chan (cs_m cs))); try discriminate ES. apply orb_true_r. }
    assert (UP : forall c e c' h, is_final (c_status c) = false -> allowed (S_step self k0 i) (chan_id c) (fst e) = true ->
                                  apply c e = Applied c' h -> U c -> U c').
    { intros c e c' h Hf Ha A HUc Hk.
      assert (Hid : chan_id c' = chan_id c).
      { pose proof (apply_chan_identity c e) as I0. unfold apply_chan in I0. rewrite A in I0.
        unfold identity_of in I0. inversion I0. unfold chan_id. congruence. }
      rewrite Hid in Hk. specialize (HUc Hk).
      assert (Hst : c_status c' = next_status (fst e) (c_status c)).
      { pose proof (apply_chan_status c e) as H1. unfold apply_chan in H1. rewrite A in H1. exact H1. }
      rewrite Hst.
      pose proof (plan_ok_all (in_rc self k0 i) aFT (is_tc i) (f_rc fa) (f_ft fa) (f_un fa) (fst e) (c_status c)) as PK.
      unfold plan_ok in PK. change (mkF (f_rc fa) (f_ft fa) (f_un fa)) with fa in PK.
      assert (HS : S_abs (in_rc self k0 i) aFT (is_tc i) (fst e) || internal (fst e) = true).
      { unfold allowed, S_step in Ha. rewrite Hk, teqb_refl, in_c_false in Ha. exact Ha. }
      rewrite HS, HUc, Hf in PK. cbn [andb negb] in PK.
      assert (H1 : implb (in_rc self k0 i) (f_rc fa) = true) by (subst fa; unfold upd; cbn; destruct (in_rc self k0 i), (f_rc f); reflexivity).
      assert (H2 : implb aFT (f_ft fa) = true) by (subst fa aFT; unfold upd; cbn; destruct (in_ft self k0 i), (f_ft f); reflexivity).
      assert (H3 : implb aFT (is_tc i) = true).
      { subst aFT. destruct (in_ft self k0 i) eqn:E; [|reflexivity]. rewrite (in_ft_tc i E). reflexivity. }
      rewrite H1, H2, H3 in PK. cbn [andb implb] in PK.
      exact PK. }
    pose proof (step_U (S_step self k0 i) U UP self n st Hs HU (handlers_send_only self k0 i fa aFT)) as [H1 H2].
    split; [|exact H2].
    intros k cs L. destruct (H1 k cs L) as [Hq [Hid HUc]]. split; [exact Hq|]. split; [exact Hid|].
    intros Hk. rewrite Hk in Hid. specialize (HUc Hid). unfold Pre in HUc. apply andb_prop in HUc. exact (proj1 HUc).
  Qed.

  Fixpoint runJ (n : node) (f : flags) (steps : list nstep) : node * flags :=
    match steps with
    | [] => (n, f)
    | st :: r => runJ (fst (fst (step n st))) (upd f n (st_in st)) r
    end.

  Lemma runJ_node : forall steps n f, fst (runJ n f steps) = run_history n steps.
  Proof. induction steps as [|st r IH]; intros n f; cbn; [reflexivity|]. apply IH. Qed.

  Theorem history_J : forall steps n f,
    n_self n = self -> J f n -> J (snd (runJ n f steps)) (fst (runJ n f steps)).
  Proof.
    induction steps as [|st r IH]; intros n f Hs HJ; cbn [runJ]; [exact HJ|].
    destruct (step_J n st f Hs HJ) as [H1 H2]. apply IH; assumption.
  Qed.

  (* the flags only record what the history contains *)
  Lemma flags_meaning : forall steps n f,
    f_rc (snd (runJ n f steps)) = f_rc f || existsb (in_rc self k0) (map st_in steps) /\
    f_ft (snd (runJ n f steps)) = f_ft f || existsb (in_ft self k0) (map st_in steps).
  Proof.
    induction steps as [|st r IH]; intros n f; cbn [runJ map existsb]; [rewrite !orb_false_r; auto|].
    destruct (IH (fst (fst (step n st))) (upd f n (st_in st))) as [A B]. rewrite A, B. unfold upd. cbn [f_rc f_ft].
    rewrite !orb_assoc. auto.
  Qed.

  (* f_un is only ever set by a successful transport completion handled while k0 awaits acceptance *)
  Lemma un_meaning : forall steps n f,
    f_un (snd (runJ n f steps)) = true -> f_un f = true \/
    exists pre st post, steps = pre ++ st :: post /\ in_ft self k0 (st_in st) = true /\
                        awaiting (run_history n pre) = true.
  Proof.
    induction steps as [|st r IH]; intros n f H; cbn [runJ] in H; [left; exact H|].
    destruct (IH _ _ H) as [H1|[pre [st' [post [E [F A]]]]]].
    - unfold upd in H1. cbn [f_un] in H1. apply orb_prop in H1. destruct H1 as [H1|H1]; [left; exact H1|].
      apply andb_prop in H1. right. exists [], st, r. cbn. tauto.
    - right. exists (st :: pre), st', post. subst r. split; [reflexivity|]. split; [exact F|exact A].
  Qed.

  (* C01, initiator side: whenever a channel this node initiated is Completing or Completed, the
     history contains the responder's final (un-paused) Complete, authenticated as coming from the
     channel's responder, AND a successful completion of the local transport -- unless the
     transport completed while the channel was still awaiting acceptance *)
  Theorem initiator_completed_needs_both :
    forall steps cs,
      let n := run_history (init_node self) steps in
      lookup k0 (n_chans n) = Some cs ->
      c_status (m_chan (cs_m cs)) = Completing \/ c_status (m_chan (cs_m cs)) = Completed ->
      (existsb (in_rc self k0) (map st_in steps) = true /\ existsb (in_ft self k0) (map st_in steps) = true) \/
      (exists pre st post, steps = pre ++ st :: post /\ in_ft self k0 (st_in st) = true /\
                           awaiting (run_history (init_node self) pre) = true).
  Proof.
    intros steps cs n L Hst.
    assert (J0 : J (mkF false false false) (init_node self)) by (intros k c H; discriminate H).
    pose proof (history_J steps (init_node self) (mkF false false false) eq_refl J0) as HJ.
    rewrite runJ_node in HJ. fold n in HJ. destruct (HJ k0 cs L) as [_ [_ HP]]. specialize (HP eq_refl).
    destruct (flags_meaning steps (init_node self) (mkF false false false)) as [A B]. cbn [f_rc f_ft orb] in A, B.
    set (f := snd (runJ (init_node self) (mkF false false false) steps)) in *.
    assert (HC : (f_rc f && f_ft f) || f_un f = true) by (destruct Hst as [E|E]; rewrite E in HP; exact HP).
    apply orb_prop in HC. destruct HC as [HC|HC].
    - apply andb_prop in HC. left. rewrite <- A, <- B. exact HC.
    - right. destruct (un_meaning steps (init_node self) (mkF false false false) HC) as [H|H]; [discriminate H|exact H].
  Qed.
End Hist.

(* ---------- responder side: where a final Complete can come from ---------- *)
Definition final_complete (m : msg) : bool := negb (g_isreq m) && is_complete m && negb (g_pause m).

(* instructions that put a final Complete on the wire *)
Definition emits_final_complete {X} (i : instr X) : bool :=
  match i with
  | INetSend _ m => final_complete m
  | ITransport (TResume _ m) => final_complete m
  | _ => false
  end.

Definition completion_input (i : ninput) : bool :=
  match i with
  | TChannelCompleted _ false => true     (* the transport reports the transfer finished without error *)
  | AUpdateValidation _ _ => true         (* the application releases a channel held for finalization *)
  | ASendVoucherResult _ _ => true        (* a voucher result sent on a channel that is already completing goes out as a Complete *)
  | _ => false
  end.

Definition noFC : forall X, instr X -> Prop := fun X i => emits_final_complete i = false.

(* all instructions satisfy Q and every value the program can return satisfies Post *)
Inductive air (self : N) (Q : forall X, instr X -> Prop) : forall A, (A -> Prop) -> prog A -> Prop :=
| air_ret : forall A (Post : A -> Prop) (a : A), Post a -> air self Q A Post (Ret a)
| air_do : forall A (Post : A -> Prop) X (i : instr X) (k : X -> prog A),
    Q X i ->
    (forall x, match i in instr X return X -> Prop with ISelf => fun x => x = self | _ => fun _ => True end x -> air self Q A Post (k x)) ->
    air self Q A Post (Do i k).

Lemma air_bind self Q A B (PA : A -> Prop) (PB : B -> Prop) (p : prog A) (f : A -> prog B) :
  air self Q A PA p -> (forall a, PA a -> air self Q B PB (f a)) -> air self Q B PB (bind p f).
Proof.
  intros Hp Hf. induction Hp as [A PA a Ha|A PA X i k HQ Hk IH]; cbn [bind]; [apply Hf; exact Ha|].
  apply air_do; [exact HQ|]. intros x Hx. apply IH; [exact Hx|exact Hf].
Qed.

Lemma air_all self Q A P (p : prog A) : air self Q A P p -> all_instr self Q A p.
Proof. induction 1; [apply ai_ret|apply ai_do; assumption]. Qed.

Lemma all_air self Q A (p : prog A) : all_instr self Q A p -> air self Q A (fun _ => True) p.
Proof. induction 1; [apply air_ret; exact I|apply air_do; assumption]. Qed.

Definition reply_ok (a : option msg * nret) : Prop := forall m, fst a = Some m -> final_complete m = false.

Ltac fc_q :=
  cbn [noFC emits_final_complete]; try reflexivity;
  unfold final_complete, is_complete, mt_eqb, cancel_message, pause_message, complete_response, response, validation_result_response,
         update_response, cancel_response, voucher_result_response, restart_existing_request, cancel_request, update_request, voucher_request, base_request;
  cbn;
  repeat match goal with
         | H : ?x = true |- context [?x] => rewrite H
         | H : ?x = false |- context [?x] => rewrite H
         end;
  cbn; try reflexivity;
  repeat match goal with
         | H : new_request _ _ _ _ _ _ = Some ?m |- context [?m] =>
             unfold new_request in H; destruct (N.eqb _ 0) in H; [discriminate H|]; inversion H; subst; cbn; try reflexivity
         end;
  repeat match goal with |- context [if ?b then _ else _] => destruct b eqn:?; cbn; try reflexivity end;
  repeat match goal with |- context [match ?x with _ => _ end] => destruct x eqn:?; cbn; try reflexivity end.

Ltac post_q :=
  try exact I;
  try (unfold reply_ok; cbn [fst snd]; intros ? Hm; try discriminate Hm; inversion Hm; subst; clear Hm; fc_q).

Ltac fc_step :=
  match goal with
  | |- air _ _ _ _ (Ret _) => apply air_ret; try post_q
  | |- air _ _ _ _ (Do _ _) => apply air_do; [try fc_q|intros ? ?]
  | |- air _ _ _ _ (exec _) => unfold exec
  | |- air _ _ _ _ (match ?x with _ => _ end) => destruct x eqn:?
  | |- air _ _ _ _ (if ?b then _ else _) => destruct b eqn:?
  | |- air _ _ _ _ (bind (Ret ?a) ?f) => change (bind (Ret a) f) with (f a); cbv beta
  | |- air _ _ _ _ (bind (Do ?i ?k) ?f) => change (bind (Do i k) f) with (Do i (fun x => bind (k x) f))
  | |- air _ _ _ _ (bind (exec ?i) ?f) => change (bind (exec i) f) with (Do i (fun x => f x))
  | |- air _ _ _ _ (bind (match ?x with _ => _ end) _) => destruct x eqn:?
  | |- air _ _ _ _ (bind (if ?b then _ else _) _) => destruct b eqn:?
  | |- air _ _ _ _ (bind (bind _ _) _) => eapply (air_bind _ _ _ _ (fun _ => True)); [|intros ? _]
  | |- air _ _ _ _ (bind ?p _) => let h := head p in progress (unfold h)
  | |- air _ _ _ _ ?p => let h := head p in progress (unfold h)
  end.
Ltac fc := repeat fc_step.

(* the replies to requests are never final Completes *)
Lemma on_request_received_reply self k m : air self noFC _ reply_ok (on_request_received k m).
Proof.
  unfold on_request_received.
  fc.
  all: try fc_q.
  all: try post_q.
Qed.

Ltac fc2_step :=
  match goal with
  | |- air _ _ _ _ (bind (on_request_received _ _) _) => eapply air_bind; [apply on_request_received_reply|intros ? ?]
  | _ => fc_step
  end.
Ltac fc2 := repeat fc2_step.

(* every other input -- messages of the counterparty, API calls, block reports, errors,
   disconnects, failed completions, restarts -- never puts a final Complete on the wire *)
Theorem final_complete_only_from_completion :
  forall self i, completion_input i = false -> all_instr self noFC _ (handler i).
Proof.
  intros self i H. apply (air_all self noFC _ (fun _ => True)).
  destruct i; try discriminate H; unfold handler.
  all: try match goal with Hc : completion_input (TChannelCompleted _ ?f) = false |- _ => destruct f; [|discriminate Hc] end.
  all: fc2.
  all: try fc_q.
  all: try post_q.
  all: try match goal with Hr : reply_ok (Some ?m, _) |- noFC _ (INetSend _ ?m) => exact (Hr m eq_refl) end.
Qed.

(* ---------- from instructions to what is observable on the wire ---------- *)
Definition out_ok (o : nout) : Prop :=
  match o with
  | NSent _ m _ => final_complete m = false
  | NTransport (TResume _ m) _ => final_complete m = false
  | _ => True
  end.

Lemma lift_mout_ok self l : Forall out_ok (flat_map (lift_mout self) l).
Proof.
  induction l as [|o l IH]; cbn; [constructor|]. apply Forall_app. split; [|exact IH].
  destruct o; cbn; repeat constructor.
Qed.

Lemma send_chan_out s k cs e : Forall out_ok (s_out s) -> Forall out_ok (s_out (snd (send_chan s k cs e))).
Proof.
  intros H. unfold send_chan. destruct (m_dead (cs_m cs)); [exact H|].
  destruct (deliver (cs_m cs) e) as [m' o]. cbn. apply Forall_app. split; [exact H|apply lift_mout_ok].
Qed.

Lemma send_all_out k evs : forall s, Forall out_ok (s_out s) -> Forall out_ok (s_out (snd (send_all s k evs))).
Proof.
  induction evs as [|e r IH]; intros s H; cbn [send_all]; [exact H|].
  destruct (lookup k (n_chans (s_node s))) as [cs|]; [|exact H].
  pose proof (send_chan_out s k cs e H) as H1. destruct (send_chan s k cs e) as [res s'] eqn:E. cbn [snd] in H1.
  destruct res; cbn [snd]; try exact H1. apply IH. exact H1.
Qed.

Lemma instr_out : forall X (i : instr X) s, noFC X i -> Forall out_ok (s_out s) -> Forall out_ok (s_out (snd (run_instr s i))).
Proof.
  intros X i s HQ H. destruct i; cbn [run_instr]; try exact H.
  - destruct (lookup k (n_chans (s_node s))); exact H.
  - destruct (lookup k (n_chans (s_node s))) as [cs|]; [|exact H]. apply send_chan_out. exact H.
  - destruct (lookup (chan_id c) (n_chans (s_node s))); exact H.
  - destruct (lookup k (n_chans (s_node s))) as [cs|]; [|exact H].
    destruct (fire _ _ _) as [[cc' evs] pause].
    match goal with |- context [send_all ?s0 k evs] => pose proof (send_all_out k evs s0 H) as H1; destruct (send_all s0 k evs) as [res s2] end.
    exact H1.
  - destruct (lookup k (n_chans (s_node s))) as [cs|]; [|exact H].
    destruct (set_limit (cs_cache cs) l) as [cc' evs]. apply send_all_out. exact H.
  - destruct (pop_val (s_vals s)). cbn. apply Forall_app. split; [exact H|repeat constructor].
  - destruct (pop_bool (s_sendf s)). cbn. apply Forall_app. split; [exact H|]. repeat constructor. exact HQ.
  - destruct c; try (destruct (pop_bool (s_trf s))); cbn; apply Forall_app; (split; [exact H|]); repeat constructor. exact HQ.
  - cbn. apply Forall_app. split; [exact H|repeat constructor].
Qed.

Lemma run_out self A (p : prog A) : all_instr self noFC A p ->
  forall s, n_self (s_node s) = self -> Forall out_ok (s_out s) -> Forall out_ok (s_out (snd (run p s))).
Proof.
  induction 1 as [A a|A X i k HQ Hk IH]; intros s Hs H; cbn [run]; [exact H|].
  destruct (run_instr s i) as [x s'] eqn:E.
  assert (Hs' : n_self (s_node s') = self).
  { pose proof (instr_keeps_self X i s) as H1. rewrite E in H1. cbn [snd] in H1. congruence. }
  assert (H' : Forall out_ok (s_out s')).
  { pose proof (instr_out X i s HQ H) as H1. rewrite E in H1. exact H1. }
  apply IH; [|exact Hs'|exact H'].
  destruct i; try exact I. cbn in E. inversion E; subst. reflexivity.
Qed.

Lemma keyed_out self A k (p : prog A) : all_instr self noFC A p ->
  forall s, n_self (s_node s) = self -> Forall out_ok (s_out s) -> Forall out_ok (s_out (snd (run_keyed k p s))).
Proof.
  induction 1 as [A a|A X i cont HQ Hk IH]; intros s Hs H; cbn [run_keyed]; [exact H|].
  destruct (key_ok k i); [|exact H].
  destruct (run_instr s i) as [x s'] eqn:E.
  assert (Hs' : n_self (s_node s') = self).
  { pose proof (instr_keeps_self X i s) as H1. rewrite E in H1. cbn [snd] in H1. congruence. }
  assert (H' : Forall out_ok (s_out s')).
  { pose proof (instr_out X i s HQ H) as H1. rewrite E in H1. exact H1. }
  apply IH; [|exact Hs'|exact H'].
  destruct i; try exact I. cbn in E. inversion E; subst. reflexivity.
Qed.

(* C01, responder side: a step puts a final (un-paused) Complete on the wire -- as a network
   message or attached to a transport resume -- only when its input is a successful completion of
   the local transport, a validation update of the application, or a voucher result on a channel
   that is already completing; never in reaction to anything the counterparty sends *)
Theorem final_complete_needs_local_completion :
  forall n st, completion_input (st_in st) = false -> Forall out_ok (snd (step n st)).
Proof.
  intros n st H. pose proof (final_complete_only_from_completion (n_self n) (st_in st) H) as HA.
  unfold step.
  set (s0 := mkNS (pre_step n (st_in st)) (st_sendf st) (st_trf st) (st_vals st) []).
  assert (Hs0 : n_self (s_node s0) = n_self n).
  { subst s0. cbn [s_node]. unfold pre_step. destruct (st_in st); try reflexivity. destruct (existsb _ _); reflexivity. }
  destruct (input_key (n_self n) (st_in st)) as [k|].
  - pose proof (keyed_out (n_self n) _ k (handler (st_in st)) HA s0 Hs0 (Forall_nil _)) as H1.
    destruct (run_keyed k (handler (st_in st)) s0) as [r s1]. exact H1.
  - pose proof (run_out (n_self n) _ (handler (st_in st)) HA s0 Hs0 (Forall_nil _)) as H1.
    destruct (run (handler (st_in st)) s0) as [r s1]. exact H1.
Qed.

(* ---------- both ends ---------- *)
(* the states and outputs along a history *)
Fixpoint trace (n : node) (steps : list nstep) : list (node * nstep * list nout) :=
  match steps with
  | [] => []
  | st :: r => (n, st, snd (step n st)) :: trace (fst (fst (step n st))) r
  end.

Definition carries (m : msg) (o : nout) : Prop :=
  match o with
  | NSent _ m' _ => m' = m
  | NTransport (TResume _ m') _ => m' = m
  | _ => False
  end.

(* the final Complete an input delivers, if it is one *)
Definition rc_message (self : N) (k0 : chid) (i : ninput) : option msg :=
  match i with
  | MResponse from m => if chid_eqb (self, from, g_tid m) k0 && complete_unpaused m then Some m else None
  | TResponseReceived k m => if chid_eqb k k0 && complete_unpaused m then Some m else None
  | _ => None
  end.

Lemma in_rc_message self k0 i : in_rc self k0 i = true -> exists m, rc_message self k0 i = Some m /\ complete_unpaused m = true.
Proof.
  destruct i; cbn; try discriminate; intros H; rewrite H; eexists; (split; [reflexivity|]);
    apply andb_prop in H; exact (proj2 H).
Qed.

(* Composition.  Node A (peer a) initiated channel k0 towards node B (peer b).  The only
   assumption about the network is authenticity: every final Complete that A is handed as coming
   from k0's responder is a response B put on the wire.  Then: if A's channel is Completing or
   Completed (and did not finish while still awaiting acceptance), B sent that final Complete in a
   step whose input was the successful completion of B's own transport (or B's application
   releasing / answering the completing channel), and A's own transport had finished. *)
Theorem completed_means_responder_finished :
  forall a b k0 stepsA stepsB csA,
    k_init k0 = a ->
    let nA := run_history (init_node a) stepsA in
    lookup k0 (n_chans nA) = Some csA ->
    c_status (m_chan (cs_m csA)) = Completing \/ c_status (m_chan (cs_m csA)) = Completed ->
    (* A did not finish while still awaiting acceptance *)
    (forall pre st post, stepsA = pre ++ st :: post -> in_ft a k0 (st_in st) = true ->
                         awaiting k0 (run_history (init_node a) pre) = false) ->
    (* authenticity of the network *)
    (forall st m, In st stepsA -> rc_message a k0 (st_in st) = Some m ->
       g_isreq m = false /\
       exists nB stB outs o, In (nB, stB, outs) (trace (init_node b) stepsB) /\ In o outs /\ carries m o) ->
    (* A's transport finished, and B sent the final Complete from a local completion *)
    existsb (in_ft a k0) (map st_in stepsA) = true /\
    exists nB stB outs, In (nB, stB, outs) (trace (init_node b) stepsB) /\ completion_input (st_in stB) = true.
Proof.
  intros a b k0 stepsA stepsB csA Hi nA L Hst Hna Hauth.
  destruct (initiator_completed_needs_both a k0 Hi stepsA csA L Hst) as [[Hrc Hft]|[pre [st [post [E [F A]]]]]].
  - split; [exact Hft|].
    apply existsb_exists in Hrc. destruct Hrc as [i [Hin Hi']]. apply in_map_iff in Hin. destruct Hin as [st [Est Hst']]. subst i.
    destruct (in_rc_message a k0 (st_in st) Hi') as [m [Hm Hcu]].
    destruct (Hauth st m Hst' Hm) as [Hreq [nB [stB [outs [o [Ht [Ho Hc]]]]]]].
    exists nB, stB, outs. split; [exact Ht|].
    destruct (completion_input (st_in stB)) eqn:Ec; [reflexivity|exfalso].
    assert (Hout : outs = snd (step nB stB)).
    { clear -Ht. revert Ht. generalize (init_node b). induction stepsB as [|s r IH]; intros n0 H; cbn in H; [contradiction|].
      destruct H as [H|H]; [inversion H; subst; reflexivity|eapply IH; exact H]. }
    pose proof (final_complete_needs_local_completion nB stB Ec) as G. rewrite <- Hout in G.
    rewrite Forall_forall in G. specialize (G o Ho).
    assert (Hfc : final_complete m = true).
    { unfold final_complete, complete_unpaused in *. rewrite Hreq. cbn.
      apply andb_prop in Hcu. destruct Hcu as [Hcu _]. exact Hcu. }
    destruct o as [| to m' ok | c ok | | |]; cbn in Hc; try contradiction.
    + subst m'. cbn in G. congruence.
    + destruct c; try contradiction. subst m0. cbn in G. congruence.
  - exfalso. rewrite (Hna pre st post E F) in A. discriminate.
Qed.

(* non-vacuity: an initiator that does reach Completed, with both witnesses in its history *)
Example initiator_completes :
  let mk := fun i => mkStep i [] [] [] in
  let k0 : chid := (1, 2, 1001)%N in
  let hist := [mk (ARegister "T1"%string); mk (AOpen DPush 2 {| v_type := "T1"%string; v_node := 3 |} 1 2);
               mk (MResponse 2 (response NewMessage 1001 true false no_voucher));
               mk (TChannelCompleted k0 false);
               mk (MResponse 2 (complete_response 1001 true false no_voucher))] in
  option_map (fun cs => c_status (m_chan (cs_m cs))) (lookup k0 (n_chans (run_history (init_node 1) hist))) = Some Completed /\
  existsb (in_rc 1 k0) (map st_in hist) = true /\ existsb (in_ft 1 k0) (map st_in hist) = true.
Proof. vm_compute. repeat split. Qed.
