(* C17 (machine level): every applied event is announced exactly once, in plan order,
   with the record resulting from it; invalid events are not announced. *)
From Coq Require Import List NArith ZArith String Bool Lia.
From RecordUpdate Require Import RecordSet.
From DT Require Import GenStatus GenEvent FsmTypes GenFsm Fsm Machine FsmFacts MachineFacts.
Import ListNotations RecordSetNotations.


Definition notifs (o : list mout) : list (EventCode * chan) :=
  flat_map (fun x => match x with ONotify e c => [(e, c)] | _ => [] end) o.
Definition puts (o : list mout) : list chan :=
  flat_map (fun x => match x with OPut c => [c] | _ => [] end) o.

Lemma notifs_app a b : notifs (a ++ b) = notifs a ++ notifs b.
Proof. apply flat_map_app. Qed.
Lemma puts_app a b : puts (a ++ b) = puts a ++ puts b.
Proof. apply flat_map_app. Qed.
Lemma notifs_dropped (q : list ev) : notifs (map (fun x => ODropped (fst x)) q) = [].
Proof. induction q; cbn; auto. Qed.
Lemma puts_dropped (q : list ev) : puts (map (fun x => ODropped (fst x)) q) = [].
Proof. induction q; cbn; auto. Qed.
Lemma notifs_entry c : notifs (fst (run_entry c entry_prog)) = [].
Proof.
  generalize entry_prog. induction l as [|s p IH]; cbn; [reflexivity|].
  destruct s; cbn; destruct (run_entry c p) as [o t]; cbn in *; exact IH.
Qed.
Lemma puts_entry c : puts (fst (run_entry c entry_prog)) = [].
Proof.
  generalize entry_prog. induction l as [|s p IH]; cbn; [reflexivity|].
  destruct s; cbn; destruct (run_entry c p) as [o t]; cbn in *; exact IH.
Qed.

Local Arguments is_final : simpl never.
Local Arguments apply : simpl never.
Local Arguments run_entry : simpl never.
Local Arguments entry_prog : simpl never.

(* a chain: each announced record is the previous record with that event applied *)
Fixpoint chain (c0 : chan) (l : list (EventCode * chan)) : Prop :=
  match l with
  | [] => True
  | (e, c1) :: r =>
      (exists a h, apply c0 (e, a) = Applied c1 h) /\ chain c1 r
  end.

Fixpoint last_chan (c0 : chan) (l : list (EventCode * chan)) : chan :=
  match l with [] => c0 | (_, c1) :: r => last_chan c1 r end.

Lemma chain_app c0 a b : chain c0 a -> chain (last_chan c0 a) b -> chain c0 (a ++ b).
Proof.
  revert c0. induction a as [|[e c1] a IH]; intros c0 Ha Hb; cbn in *; [exact Hb|].
  destruct Ha as [H1 H2]. split; [exact H1|]. apply IH; assumption.
Qed.
Lemma last_chan_app c0 a b : last_chan c0 (a ++ b) = last_chan (last_chan c0 a) b.
Proof. revert c0. induction a as [|[e c1] a IH]; intros c0; cbn; auto. Qed.

(* one step: announcements = planned events = datastore writes, and they chain from the
   current record *)
Lemma step_notifs m l m' o :
  m_step m l = (m', o) ->
  chain (m_chan m) (notifs o) /\ m_chan m' = last_chan (m_chan m) (notifs o) /\
  map fst (notifs o) = map (fun p => fst (fst p)) (planned o) /\
  puts o = map snd (notifs o).
Proof.
  destruct l as [e| |]; cbn.
  - destruct (m_dead m); intros H; inversion H; subst; cbn; auto.
  - destruct (m_dead m || m_handler m); [intros H; inversion H; subst; cbn; auto|].
    destruct (m_queue m) as [|e q]; [intros H; inversion H; subst; cbn; auto|].
    destruct (is_final (c_status (m_chan m))) eqn:Hf.
    { intros H; inversion H; subst.
      change (ODropped (fst e) :: map (fun x : EventCode * evarg => ODropped (fst x)) q)
        with (map (fun x : EventCode * evarg => ODropped (fst x)) (e :: q)).
      rewrite notifs_dropped, planned_dropped, puts_dropped. cbn. auto. }
    destruct (apply (m_chan m) e) as [|c' h] eqn:Ha; [intros H; inversion H; subst; cbn; auto|].
    destruct (is_final (c_status c')) eqn:Hf'; intros H; inversion H; subst.
    + change (notifs (OPlanned (fst e) (c_status (m_chan m)) false :: ONotify (fst e) c' :: OPut c' ::
                      map (fun x : EventCode * evarg => ODropped (fst x)) q))
        with ((fst e, c') :: notifs (map (fun x : EventCode * evarg => ODropped (fst x)) q)).
      change (planned (OPlanned (fst e) (c_status (m_chan m)) false :: ONotify (fst e) c' :: OPut c' ::
                      map (fun x : EventCode * evarg => ODropped (fst x)) q))
        with ((fst e, c_status (m_chan m), false) :: planned (map (fun x : EventCode * evarg => ODropped (fst x)) q)).
      change (puts (OPlanned (fst e) (c_status (m_chan m)) false :: ONotify (fst e) c' :: OPut c' ::
                      map (fun x : EventCode * evarg => ODropped (fst x)) q))
        with (c' :: puts (map (fun x : EventCode * evarg => ODropped (fst x)) q)).
      rewrite notifs_dropped, planned_dropped, puts_dropped. cbn.
      repeat split; auto. exists (snd e), h. destruct e; exact Ha.
    + cbn. repeat split; auto. exists (snd e), h. destruct e; exact Ha.
  - destruct (m_handler m && negb (m_dead m)); [|intros H; inversion H; subst; cbn; auto].
    destruct (run_entry (m_chan m) entry_prog) as [o' t] eqn:He.
    intros H; inversion H; subst.
    pose proof (notifs_entry (m_chan m)) as N. pose proof (planned_entry (m_chan m)) as P.
    pose proof (puts_entry (m_chan m)) as U.
    rewrite He in N, P, U. cbn [fst] in N, P, U. rewrite N, P, U. cbn. auto.
Qed.

(* C17 for every schedule *)
Theorem notifications_chain :
  forall ls c m' o,
    m_run (m_init c) ls = (m', o) ->
    chain c (notifs o) /\ m_chan m' = last_chan c (notifs o) /\
    map fst (notifs o) = map (fun p => fst (fst p)) (planned o) /\
    puts o = map snd (notifs o).
Proof.
  induction ls as [|l ls IH] using rev_ind; intros c m' o Hrun.
  - cbn in Hrun. inversion Hrun; subst. cbn. auto.
  - rewrite m_run_snoc in Hrun. destruct (m_run (m_init c) ls) as [m1 o1] eqn:H1.
    destruct (m_step m1 l) as [m2 o2] eqn:H2. inversion Hrun; subst.
    destruct (IH _ _ _ H1) as [A [B [C D]]].
    destruct (step_notifs _ _ _ _ H2) as [A' [B' [C' D']]].
    rewrite notifs_app, planned_app, puts_app, !map_app.
    repeat split.
    + apply chain_app; [exact A|]. rewrite <- B. exact A'.
    + rewrite last_chan_app, <- B. exact B'.
    + rewrite C, C'. reflexivity.
    + rewrite D, D'. reflexivity.
Qed.

(* invalid events are never announced: planning one produces no output at all *)
Theorem invalid_not_announced :
  forall m e q,
    m_dead m = false -> m_handler m = false -> m_queue m = e :: q ->
    is_final (c_status (m_chan m)) = false ->
    apply (m_chan m) e = Invalid ->
    m_step m LPlan = (m <| m_queue := q |>, []).
Proof. intros m e q Hd Hh Hq Hf Ha. cbn. rewrite Hd, Hh, Hq, Hf, Ha. reflexivity. Qed.
