(* per-channel stores over whole histories: registrations and un-registrations of a channel's store
   alternate, starting with a registration, and a store is registered exactly while the tracked
   channel has one *)
From Coq Require Import List NArith ZArith Bool Lia Arith.
From RecordUpdate Require Import RecordSet.
From DT Require Import GenStatus GenEvent GenMsgType FsmTypes GenFsm Fsm View Msg Transport C16Proofs.
Import ListNotations RecordSetNotations.

Definition is_reg (k : chid) (o : tout) : bool :=
  match o with OGs (GRegisterStore k') true => triple_eqb k' k | _ => false end.
Definition is_unreg (k : chid) (o : tout) : bool :=
  match o with OGs (GUnregisterStore k') _ => triple_eqb k' k | _ => false end.
Definition sop (o : tout) : bool :=
  match o with OGs (GRegisterStore _) _ | OGs (GUnregisterStore _) _ => true | _ => false end.
Definition cnt {A} (f : A -> bool) (l : list A) : nat := List.length (filter f l).
Definition b2n (b : bool) : nat := if b then 1 else 0.

Lemma cnt_app {A} (f : A -> bool) a b : cnt f (a ++ b) = cnt f a + cnt f b.
Proof. unfold cnt. rewrite filter_app, app_length. reflexivity. Qed.

Lemma cnt_nosop_reg k l : forallb (fun o => negb (sop o)) l = true -> cnt (is_reg k) l = 0.
Proof.
  induction l as [|o r IH]; cbn; [reflexivity|]. intros H. apply andb_prop in H. destruct H as [Ho Hr].
  unfold cnt in *. cbn. destruct o as [| [] [] | |]; cbn in *; try discriminate; apply IH; exact Hr.
Qed.
Lemma cnt_nosop_unreg k l : forallb (fun o => negb (sop o)) l = true -> cnt (is_unreg k) l = 0.
Proof.
  induction l as [|o r IH]; cbn; [reflexivity|]. intros H. apply andb_prop in H. destruct H as [Ho Hr].
  unfold cnt in *. cbn. destruct o as [| [] [] | |]; cbn in *; try discriminate; apply IH; exact Hr.
Qed.

Definition nosop (l : list tout) : bool := forallb (fun o => negb (sop o)) l.
Lemma nosop_app a b : nosop (a ++ b) = nosop a && nosop b.
Proof. apply forallb_app. Qed.
Lemma nosop_map_act l : nosop (map OAct l) = true.
Proof. induction l; cbn; auto. Qed.
Lemma nosop_done rid out : nosop (done_calls rid out) = true.
Proof. unfold done_calls. destruct (find _ out) as [[? ?]|]; reflexivity. Qed.
Lemma nosop_pe s k p m a : nosop (fst (fst (fst (process_extension s k p m a)))) = true.
Proof. unfold process_extension. destruct (g_isreq m); destruct (triple_eqb _ _); reflexivity. Qed.
Lemma nosop_flat (f : N * (bool * chid) -> list tout) l : (forall e, nosop (f e) = true) -> nosop (flat_map f l) = true.
Proof. intros H. induction l as [|e r IH]; cbn; [reflexivity|]. rewrite nosop_app, H, IH. reflexivity. Qed.

Definition store_input (i : tin) : bool := match i with XUseStore _ | XCleanup _ => true | _ => false end.

(* inputs other than UseStore and Cleanup never touch graphsync's store registry ... *)
Lemma other_inputs_no_store_op s i orc : store_input i = false -> nosop (snd (tstep s i orc)) = true.
Proof.
  intros Hi.
  destruct i as [to k0 rc m0|k0|k0 om|k0|k0|k0|p rid om|rid|rid size index onwire|rid size index onwire
                |rid size index onwire|rid st|p rid om|p rid om1 om2|rid|rid|p|rid d]; try discriminate Hi; unfold tstep.
  - destruct (tc_req (track k0 s)) as [old|]; [destruct (tc_rcancel (track k0 s))|];
      destruct (pop_ans orc) as [a rest]; destruct (ha_ret a); destruct (tc_store (track k0 s)); cbn [snd];
      rewrite ?nosop_app, ?nosop_done; reflexivity.
  - destruct (tlookup k0 (ts_chans s)) as [c|]; [destruct (tc_req c); [destruct (tc_rcancel c)|]|]; reflexivity.
  - destruct (tlookup k0 (ts_chans s)) as [c|]; [|reflexivity].
    destruct (tc_req c); [|reflexivity]. destruct (tc_rcancel c); reflexivity.
  - destruct (tlookup k0 (ts_chans s)) as [c|]; [|reflexivity].
    destruct (tc_req c); [|reflexivity]. destruct (tc_rcancel c); [reflexivity|].
    cbn [snd]. change ([OGs (GCancel n) true; ORet true] ++ done_calls n (ts_out s)) with (OGs (GCancel n) true :: ORet true :: done_calls n (ts_out s)).
    cbn. apply nosop_done.
  - destruct om as [m|]; [|reflexivity].
    destruct (g_isreq m && is_cancel m); [reflexivity|].
    destruct (pop_ans orc) as [a rest].
    destruct (ha_ret a); cbn [snd]; rewrite nosop_app, nosop_map_act; destruct (g_isreq m); reflexivity.
  - destruct (rlookup rid (ts_reqmap s)); reflexivity.
  - destruct (rlookup rid (ts_reqmap s)); [destruct (pop_ans orc) as [a ?]; destruct (ha_ret a)|]; reflexivity.
  - destruct onwire; cbn [negb]; [|reflexivity]. destruct (rlookup rid (ts_reqmap s)); [destruct (pop_ans orc) as [a ?]|]; [|reflexivity].
    destruct (ha_ret a); destruct (ha_msg a); reflexivity.
  - destruct onwire; cbn [negb]; [|reflexivity]. destruct (rlookup rid (ts_reqmap s)); reflexivity.
  - destruct (rlookup rid (ts_reqmap s)); [destruct st|]; reflexivity.
  - destruct (rlookup rid (ts_reqmap s)); [destruct om; [destruct (pop_ans orc)|]|]; try reflexivity.
    pose proof (nosop_pe s c p m h) as P. destruct (process_extension s c p m h) as [[[outs resp] v] u]. cbn [fst snd] in *.
    rewrite !nosop_app, P. destruct resp, v; reflexivity.
  - destruct (rlookup rid (ts_reqmap s)); [|reflexivity]. destruct (pop_ans orc) as [a1 rest].
    destruct om1 as [m1|].
    + pose proof (nosop_pe s c p m1 a1) as P. destruct (process_extension s c p m1 a1) as [[[outs resp] v] u]. cbn [fst snd] in *.
      destruct om2 as [m2|].
      * pose proof (nosop_pe s c p m2 (if u then fst (pop_ans rest) else a1)) as P2.
        destruct (process_extension s c p m2 _) as [[[outs2 resp2] v2] u2]. cbn [fst snd] in *.
        rewrite !nosop_app, P, P2. destruct resp, v, v2; reflexivity.
      * rewrite !nosop_app, P. destruct resp, v; reflexivity.
    + destruct om2 as [m2|]; [|reflexivity].
      pose proof (nosop_pe s c p m2 a1) as P2.
      destruct (process_extension s c p m2 a1) as [[[outs2 resp2] v2] u2]. cbn [fst snd] in *.
      rewrite !nosop_app, P2. destruct v2; reflexivity.
  - destruct (rlookup rid (ts_reqmap s)) as [k|]; [|reflexivity]. destruct (tlookup k (ts_chans s)); reflexivity.
  - destruct (rlookup rid (ts_reqmap s)); reflexivity.
  - cbn [snd]. apply nosop_flat. intros e. destruct (N.eqb _ _ || N.eqb _ _); reflexivity.
  - destruct (find _ (ts_out s)) as [[? k]|]; [destruct d|]; reflexivity.
Qed.

(* ... and never change whether a channel has a store *)
Lemma hs_chans s s' k : ts_chans s' = ts_chans s -> has_store k s' = has_store k s.
Proof. intros H. unfold has_store. rewrite H. reflexivity. Qed.

Lemma hs_tset s s' k k0 c : ts_chans s' = tset k0 c (ts_chans s) -> tc_store c = has_store k0 s -> has_store k s' = has_store k s.
Proof.
  intros H Hc. unfold has_store at 1. rewrite H.
  destruct (triple_eqb k0 k) eqn:E.
  - apply teq_eq in E. subst k0. rewrite tlookup_tset_same. exact Hc.
  - rewrite tlookup_tset_diff; [reflexivity|]. intros ->. rewrite teq_refl in E. discriminate.
Qed.

Lemma store_of_lookup s k c : tlookup k (ts_chans s) = Some c -> tc_store c = has_store k s.
Proof. intros L. unfold has_store. rewrite L. reflexivity. Qed.

Lemma other_inputs_keep_store s i orc k : store_input i = false -> has_store k (fst (tstep s i orc)) = has_store k s.
Proof.
  intros Hi.
  destruct i as [to k0 rc m0|k0|k0 om|k0|k0|k0|p rid om|rid|rid size index onwire|rid size index onwire
                |rid size index onwire|rid st|p rid om|p rid om1 om2|rid|rid|p|rid d]; try discriminate Hi; unfold tstep.
  - pose proof (has_store_track s k0) as T.
    destruct (tc_req (track k0 s)) as [old|]; [destruct (tc_rcancel (track k0 s))|];
      destruct (pop_ans orc) as [a rest]; destruct (ha_ret a); cbn [fst];
      try (apply hs_chans; reflexivity);
      (eapply hs_tset; [reflexivity|cbn; exact T]).
  - destruct (tlookup k0 (ts_chans s)) as [c|]; [destruct (tc_req c); [destruct (tc_rcancel c)|]|]; reflexivity.
  - destruct (tlookup k0 (ts_chans s)) as [c|] eqn:L; [|reflexivity].
    destruct (tc_req c); [|reflexivity].
    destruct (tc_rcancel c); cbn [fst]; (eapply hs_tset; [reflexivity|cbn; apply store_of_lookup; exact L]).
  - destruct (tlookup k0 (ts_chans s)) as [c|] eqn:L; [|reflexivity].
    destruct (tc_req c); [|reflexivity]. destruct (tc_rcancel c); [reflexivity|]. cbn [fst].
    eapply hs_tset; [reflexivity|cbn; apply store_of_lookup; exact L].
  - destruct om as [m|]; [|reflexivity].
    destruct (g_isreq m && is_cancel m); [reflexivity|].
    destruct (pop_ans orc) as [a rest].
    set (kk := if g_isreq m then (p, ts_self s, g_tid m) else (ts_self s, p, g_tid m)).
    pose proof (has_store_track s kk) as T.
    destruct (ha_ret a); cbn [fst];
      (eapply hs_tset; [reflexivity|]);
      repeat match goal with |- context [if ?b then _ else _] => destruct b end; cbn; exact T.
  - destruct (rlookup rid (ts_reqmap s)); reflexivity.
  - destruct (rlookup rid (ts_reqmap s)); [destruct (pop_ans orc)|]; reflexivity.
  - destruct onwire; cbn [negb]; [|reflexivity]. destruct (rlookup rid (ts_reqmap s)); [destruct (pop_ans orc)|]; reflexivity.
  - destruct onwire; cbn [negb]; [|reflexivity]. destruct (rlookup rid (ts_reqmap s)); reflexivity.
  - destruct (rlookup rid (ts_reqmap s)); [destruct st|]; reflexivity.
  - destruct (rlookup rid (ts_reqmap s)); [destruct om; [destruct (pop_ans orc); destruct (process_extension _ _ _ _ _) as [[[? ?] ?] ?]|]|]; reflexivity.
  - destruct (rlookup rid (ts_reqmap s)); [|reflexivity]. destruct (pop_ans orc).
    destruct om1; [destruct (process_extension _ _ _ _ _) as [[[? ?] ?] ?]|]; reflexivity.
  - destruct (rlookup rid (ts_reqmap s)) as [k1|]; [|reflexivity].
    destruct (tlookup k1 (ts_chans s)) as [c|] eqn:L; [|reflexivity]. cbn [fst].
    eapply hs_tset; [reflexivity|cbn; apply store_of_lookup; exact L].
  - destruct (rlookup rid (ts_reqmap s)); reflexivity.
  - reflexivity.
  - destruct (find _ (ts_out s)) as [[? ?]|]; [apply hs_chans|]; reflexivity.
Qed.

Lemma teq_neq a b : triple_eqb a b = false -> a <> b.
Proof. intros E ->. rewrite teq_refl in E. discriminate. Qed.

(* one input: what it registers, plus what was registered = what it un-registers, plus what is registered after *)
Lemma store_step_balance s i orc k :
  cnt (is_reg k) (snd (tstep s i orc)) + b2n (has_store k s) =
  cnt (is_unreg k) (snd (tstep s i orc)) + b2n (has_store k (fst (tstep s i orc))).
Proof.
  destruct (store_input i) eqn:Hi.
  - destruct i as [| | | |k0|k0| | | | | | | | | | | |]; try discriminate Hi.
    + (* cleanup *)
      destruct (store_registered_for_lifetime_only s k0 orc) as [_ [_ [C1 C2]]].
      destruct (triple_eqb k0 k) eqn:E.
      * apply teq_eq in E. subst k0. destruct (has_store k s) eqn:H.
        -- destruct (C1 eq_refl) as [O A]. rewrite O, A. cbn. rewrite teq_refl. reflexivity.
        -- rewrite (C2 eq_refl). cbn.
           unfold tstep. unfold has_store in H. destruct (tlookup k (ts_chans s)) as [c|] eqn:L.
           ++ cbn [fst]. unfold has_store. cbn. rewrite tlookup_tremove_same. reflexivity.
           ++ cbn [fst]. unfold has_store. rewrite L. reflexivity.
      * apply teq_neq in E.
        assert (A : has_store k (fst (tstep s (XCleanup k0) orc)) = has_store k s).
        { unfold tstep. destruct (tlookup k0 (ts_chans s)) as [c|]; [|reflexivity]. cbn [fst].
          unfold has_store. cbn. rewrite tlookup_tremove_other by (intros ->; apply E; reflexivity). reflexivity. }
        rewrite A. f_equal.
        unfold tstep. destruct (tlookup k0 (ts_chans s)) as [c|]; [|reflexivity]. cbn [snd].
        destruct (tc_store c); [|reflexivity]. cbn.
        destruct (triple_eqb k0 k) eqn:E'; [apply teq_eq in E'; congruence|reflexivity].
    + (* use store *)
      destruct (store_registered_for_lifetime_only s k0 orc) as [U1 [U2 _]].
      destruct (triple_eqb k0 k) eqn:E.
      * apply teq_eq in E. subst k0. destruct (has_store k s) eqn:H.
        -- destruct (U2 eq_refl) as [O A]. rewrite O, A. reflexivity.
        -- destruct (U1 eq_refl) as [O A]. rewrite O, A. cbn. rewrite teq_refl. reflexivity.
      * assert (Hne : k <> k0) by (intros ->; rewrite teq_refl in E; discriminate).
        assert (A : has_store k (fst (tstep s (XUseStore k0) orc)) = has_store k s).
        { unfold tstep. destruct (tc_store (track k0 s)); cbn [fst]; apply has_store_set_other; exact Hne. }
        rewrite A. f_equal.
        unfold tstep. destruct (tc_store (track k0 s)); cbn; [reflexivity|]. rewrite E. reflexivity.
  - rewrite (cnt_nosop_reg k _ (other_inputs_no_store_op s i orc Hi)).
    rewrite (cnt_nosop_unreg k _ (other_inputs_no_store_op s i orc Hi)).
    rewrite (other_inputs_keep_store s i orc k Hi). reflexivity.
Qed.

(* whole histories *)
Fixpoint touts (s : tstate) (l : list (tin * list hans)) : list tout :=
  match l with
  | [] => []
  | io :: r => snd (tstep s (fst io) (snd io)) ++ touts (fst (tstep s (fst io) (snd io))) r
  end.
Definition tfinal (s : tstate) (l : list (tin * list hans)) : tstate :=
  fold_left (fun s io => fst (tstep s (fst io) (snd io))) l s.

Lemma store_balance_from s l k :
  cnt (is_reg k) (touts s l) + b2n (has_store k s) = cnt (is_unreg k) (touts s l) + b2n (has_store k (tfinal s l)).
Proof.
  revert s. induction l as [|io r IH]; intros s; cbn [touts tfinal fold_left]; [reflexivity|].
  rewrite !cnt_app. pose proof (store_step_balance s (fst io) (snd io) k) as B.
  specialize (IH (fst (tstep s (fst io) (snd io)))). unfold tfinal in IH. lia.
Qed.

(* in every history of graphsync callbacks and transport calls, for every channel: the successful
   registrations of its store are one more than the un-registrations while the tracked channel has
   a store, and equal otherwise -- a store is never registered twice, never left behind by cleanup,
   and never dropped while the channel lives *)
Theorem store_balance :
  forall self l k,
    cnt (is_reg k) (touts (init_tstate self) l) =
    cnt (is_unreg k) (touts (init_tstate self) l) + b2n (has_store k (tfinal (init_tstate self) l)).
Proof.
  intros self l k. pose proof (store_balance_from (init_tstate self) l k) as B.
  assert (Z : has_store k (init_tstate self) = false) by reflexivity.
  rewrite Z in B. cbn [b2n] in B. lia.
Qed.

(* every request opened or answered for a channel that has a store is told to use it *)
Theorem requests_use_channel_store :
  forall s orc k,
    has_store k s = true ->
    (forall to rc m, ha_ret (fst (pop_ans orc)) = HNil ->
       In (OAct (AUseStore k)) (snd (tstep s (XOpenChannel to k rc m) orc))) /\
    (forall p rid m, (g_isreq m && is_cancel m) = false -> ha_ret (fst (pop_ans orc)) <> HErr ->
       k = (if g_isreq m then (p, ts_self s, g_tid m) else (ts_self s, p, g_tid m)) ->
       In (OAct (AUseStore k)) (snd (tstep s (GIncomingRequest p rid (Some m)) orc))).
Proof.
  intros s orc k H. rewrite <- has_store_track in H. split.
  - intros to rc m Hr. unfold tstep.
    destruct (tc_req (track k s)) as [old|]; [destruct (tc_rcancel (track k s))|];
      destruct (pop_ans orc) as [a rest]; cbn [fst] in Hr; rewrite Hr, H; cbn [snd];
      rewrite ?in_app_iff; cbn; tauto.
  - intros p rid m Hc Hr Hk. unfold tstep. rewrite Hc. rewrite <- Hk.
    destruct (pop_ans orc) as [a rest]. cbn [fst] in Hr.
    destruct (ha_ret a); try contradiction; cbn [snd]; rewrite H;
      apply in_or_app; right; apply in_map; rewrite !in_app_iff; cbn; tauto.
Qed.

Theorem only_usestore_and_cleanup_touch_the_registry :
  forall s i orc, store_input i = false ->
    nosop (snd (tstep s i orc)) = true /\ forall k, has_store k (fst (tstep s i orc)) = has_store k s.
Proof.
  intros s i orc H. split; [exact (other_inputs_no_store_op s i orc H)|].
  intros k. exact (other_inputs_keep_store s i orc k H).
Qed.
