(* C09 / C04: a request that was not accepted is signalled as rejected (or failed) to whoever carried it,
   whatever the pause-implying fields of the validator's answer say; the receiver then closes the
   transport channel. *)
From Coq Require Import List NArith ZArith String Bool Lia.
From RecordUpdate Require Import RecordSet.
From DT Require Import GenStatus GenEvent GenMsgType FsmTypes GenFsm Fsm Machine View Caches Msg Node
     FsmFacts NodeFacts C04Proofs.
Import ListNotations RecordSetNotations.

(* the signal handed to the transport / receiver *)
Lemma request_error_not_accepted vr err stay :
  err = true \/ vr_accepted vr = false ->
  request_error vr err stay = ROther \/ request_error vr err stay = RRejected.
Proof.
  unfold request_error. intros [H|H].
  - rewrite H. left; reflexivity.
  - destruct err; [left; reflexivity|]. rewrite H. right; reflexivity.
Qed.

Lemma request_error_serves_only_accepted vr err stay :
  request_error vr err stay = ROk \/ request_error vr err stay = RPause ->
  err = false /\ vr_accepted vr = true.
Proof.
  unfold request_error. destruct err; [intros [H|H]; discriminate|].
  destruct (vr_accepted vr); [auto|]. intros [H|H]; discriminate.
Qed.

Lemma reply_accepted t tid vr err paused :
  g_accepted (validation_result_response t tid vr err paused) = negb err && vr_accepted vr.
Proof. destruct (reply_accepted_iff t tid vr err paused) as [H _]. exact H. Qed.

(* a new request: the reply says "accepted" exactly when the signal lets the transport carry on *)
Theorem new_request_signal :
  forall k m s,
    let '(x, s') := run (receive_new_request k m) s in
    match fst x with
    | None => False
    | Some r =>
        (g_accepted r = false -> snd x = ROther \/ snd x = RRejected) /\
        (snd x = ROk \/ snd x = RPause -> g_accepted r = true)
    end.
Proof.
  intros k m s. unfold receive_new_request. rewrite run_bind.
  destruct (run (accept_request k m) s) as [[vr err] s'] eqn:E. cbn [run fst snd].
  rewrite reply_accepted. split.
  - intros H. apply request_error_not_accepted.
    destruct err; [left; reflexivity|right]. cbn in H. exact H.
  - intros H. apply request_error_serves_only_accepted in H. destruct H as [He Ha].
    rewrite He, Ha. reflexivity.
Qed.

(* a restart request: the same, for the re-validation *)
Theorem restart_request_signal :
  forall k m s,
    let '(x, s') := run (receive_restart_request k m) s in
    match fst x with
    | None => False
    | Some r =>
        (g_accepted r = false -> snd x = ROther \/ snd x = RRejected) /\
        (snd x = ROk \/ snd x = RPause -> g_accepted r = true)
    end.
Proof.
  intros k m s. unfold receive_restart_request. rewrite run_bind.
  destruct (run (restart_request k m) s) as [[[stay vr] err] s'] eqn:E. cbn [run fst snd].
  rewrite reply_accepted. split.
  - intros H. apply request_error_not_accepted.
    destruct err; [left; reflexivity|right]. cbn in H. exact H.
  - intros H. apply request_error_serves_only_accepted in H. destruct H as [He Ha].
    rewrite He, Ha. reflexivity.
Qed.

(* receiver.receiveRequest, after the reply went out: anything but "ok" / "pause" closes the
   transport channel and is handed back *)
Definition after_reply (k : chid) (err : nret) : prog nret :=
  match err with
  | RPause => ok <- exec (ITransport (TPause k)) ;; Ret (if ok then ROk else ROther)
  | ROk => Ret ROk
  | e => exec (ITransport (TClose k)) ;;; Ret e
  end.

Theorem rejected_request_closes_transport :
  forall k e, (e = RRejected \/ e = ROther) ->
    after_reply k e = (exec (ITransport (TClose k)) ;;; Ret e).
Proof. intros k e [H|H]; rewrite H; reflexivity. Qed.

Theorem recv_request_unfold :
  forall from m,
    recv_request from m =
    (self <- exec ISelf ;;
     let k : chid := (from, self, g_tid m) in
     x <- on_request_received k m ;;
     let '(resp, err) := x in
     r1 <- match resp with
           | None => Ret ROk
           | Some r =>
               if (is_new r || is_restart r) && g_accepted r && negb (g_pull m) then
                 if is_restart r then
                   oc <- exec (IGet k) ;;
                   match oc with
                   | None => Ret RNotFound
                   | Some _ => ok <- exec (ITransport (TOpen from k true r)) ;; Ret (if ok then ROk else ROther)
                   end
                 else ok <- exec (ITransport (TOpen from k false r)) ;; Ret (if ok then ROk else ROther)
               else ok <- exec (INetSend from r) ;; Ret (if ok then ROk else ROther)
           end ;;
     if negb (ret_ok r1) then Ret r1 else after_reply k err).
Proof. reflexivity. Qed.
