(* C09 (machine level): cleanup runs exactly once per entering, always settles,
   and a terminal status is only reached through a cleanup run.
   Statements quantify over every schedule of the go-statemachine model. *)
From Coq Require Import List NArith ZArith String Bool Lia Arith.
From RecordUpdate Require Import RecordSet.
From DT Require Import GenStatus GenEvent FsmTypes GenFsm Fsm Machine FsmFacts MachineFacts.
Import ListNotations RecordSetNotations.

Local Arguments is_final : simpl never.
Local Arguments apply : simpl never.
Local Arguments run_entry : simpl never.
Local Arguments entry_prog : simpl never.
Local Arguments count : simpl never.
Local Arguments dest_of : simpl never.
Local Arguments has_entry : simpl never.
Local Arguments is_cleanup : simpl never.

(* ---------- table facts ---------- *)
Definition cleanup_states_ok (s : Status) : bool :=
  negb (is_cleanup s) ||
  (negb (is_final s) && has_entry s &&
   match dest_of CleanupComplete s with
   | Some (DTo t) => is_final t
   | _ => false
   end).
Lemma cleanup_states_ok_all : forall s, cleanup_states_ok s = true.
Proof. apply forall_status. vm_compute. reflexivity. Qed.

(* the matching terminal status *)
Definition terminal_of (s : Status) : Status := next_status CleanupComplete s.

Lemma terminal_matching :
  terminal_of Cancelling = Cancelled /\ terminal_of Failing = Failed /\ terminal_of Completing = Completed.
Proof. repeat split; vm_compute; reflexivity. Qed.

(* a terminal status is entered only by CleanupComplete from a cleanup status *)
Definition final_entry_check (e : EventCode) (s : Status) : bool :=
  is_final s || negb (is_final (next_status e s)) ||
  (event_eqb e CleanupComplete && is_cleanup s).
Lemma final_entry_all : forall e s, final_entry_check e s = true.
Proof. apply forall_event_status. vm_compute. reflexivity. Qed.

(* entry functions exist exactly for the cleanup statuses *)
Definition entry_is_cleanup (s : Status) : bool := Bool.eqb (has_entry s) (is_cleanup s).
Lemma entry_is_cleanup_all : forall s, entry_is_cleanup s = true.
Proof. apply forall_status. vm_compute. reflexivity. Qed.

(* ---------- exactly once per entering ---------- *)
Theorem handler_started_only_by_entering_or_restart :
  forall ls c m' o e s,
    m_run (m_init c) ls = (m', o) ->
    In (e, s, true) (planned o) ->
    entering e s = true \/ (e = CompleteCleanupOnRestart /\ is_cleanup s = true).
Proof.
  intros ls c m' o e s Hrun Hin.
  destruct (run_planned_sound _ _ _ _ Hrun _ _ _ Hin) as [Hnf Hst].
  specialize (Hst eq_refl).
  pose proof (handler_cause_all e s) as H. unfold handler_cause_check in H.
  rewrite Hnf, Hst in H. cbn in H.
  apply orb_true_iff in H. destruct H as [H|H]; [left; exact H|right].
  apply andb_true_iff in H. destruct H as [H1 H2]. apply event_eqb_eq in H1. tauto.
Qed.

Theorem cleanup_once_per_entry :
  forall ls c m' o,
    m_run (m_init c) ls = (m', o) ->
    pending m' = 0 ->
    count is_cleanup_out o = List.length (filter (fun p => snd p) (planned o)) /\
    count is_unprotect_out o = List.length (filter (fun p => snd p) (planned o)).
Proof.
  intros ls c m' o Hrun Hp.
  destruct (run_balance _ _ _ _ Hrun) as [A B].
  rewrite Hp in A, B. unfold pending in A, B. cbn in A, B.
  rewrite <- count_start_planned. lia.
Qed.

(* ---------- a terminal status is never reached without a cleanup run ---------- *)
Definition is_cc (e : ev) : bool := event_eqb (fst e) CleanupComplete.
Definition cc_in_queue (m : mstate) : bool := existsb is_cc (m_queue m).

(* the schedule never injects CleanupComplete from outside (the Channels API has no
   method for it; only the entry function triggers it) *)
Definition ext_ok (l : mlabel) : bool :=
  match l with LEnq e => negb (is_cc e) | _ => true end.

Definition J (m : mstate) (o : list mout) : Prop :=
  (cc_in_queue m = true \/ is_final (c_status (m_chan m)) = true) ->
  1 <= count is_cleanup_out o /\ 1 <= count is_unprotect_out o.

Lemma next_status_apply c e c' h :
  apply c e = Applied c' h -> c_status c' = next_status (fst e) (c_status c).
Proof.
  intros H. pose proof (apply_chan_status c e) as P. unfold apply_chan in P. rewrite H in P. exact P.
Qed.

Lemma J_step m l m' o0 o :
  ext_ok l = true -> m_step m l = (m', o) -> J m o0 -> J m' (o0 ++ o).
Proof.
  intros Hext Hstep HJ. unfold J in *. rewrite !count_app.
  destruct l as [e| |]; cbn in Hstep.
  - destruct (m_dead m) eqn:Hd; inversion Hstep; subst; cbn.
    + intros H. specialize (HJ H). lia.
    + intros H. unfold cc_in_queue in H. cbn in H. rewrite existsb_app in H. cbn in H.
      cbn in Hext. apply negb_true_iff in Hext. rewrite Hext in H. cbn in H.
      rewrite orb_false_r in H. specialize (HJ H). lia.
  - destruct (m_dead m || m_handler m) eqn:Hg.
    { inversion Hstep; subst. intros H. specialize (HJ H). lia. }
    destruct (m_queue m) as [|e q] eqn:Hq.
    { inversion Hstep; subst. intros H. specialize (HJ H). lia. }
    destruct (is_final (c_status (m_chan m))) eqn:Hf.
    { inversion Hstep; subst. cbn. intros _. assert (HH := HJ (or_intror eq_refl)). lia. }
    destruct (apply (m_chan m) e) as [|c' h] eqn:Ha.
    { inversion Hstep; subst. cbn. unfold cc_in_queue in *. cbn. rewrite Hq in HJ. cbn in HJ.
      intros [H|H]; [|congruence]. assert (HH := HJ (or_introl (proj2 (orb_true_iff _ _) (or_intror H)))). lia. }
    pose proof (next_status_apply _ _ _ _ Ha) as Hst.
    destruct (is_final (c_status c')) eqn:Hf'.
    + inversion Hstep; subst. cbn. intros _.
      pose proof (final_entry_all (fst e) (c_status (m_chan m))) as T. unfold final_entry_check in T.
      rewrite Hf in T. rewrite <- Hst, Hf' in T. cbn in T. apply andb_true_iff in T. destruct T as [T _].
      unfold cc_in_queue in HJ. rewrite Hq in HJ. cbn in HJ. unfold is_cc in HJ at 1. rewrite T in HJ. cbn in HJ.
      assert (HH := HJ (or_introl eq_refl)). lia.
    + inversion Hstep; subst. cbn. unfold cc_in_queue in *. cbn. rewrite Hq in HJ. cbn in HJ.
      intros [H|H]; [|congruence].
      assert (HH := HJ (or_introl (proj2 (orb_true_iff _ _) (or_intror H)))). lia.
  - destruct (m_handler m && negb (m_dead m)) eqn:Hg.
    2:{ inversion Hstep; subst. intros H. specialize (HJ H). lia. }
    destruct (run_entry (m_chan m) entry_prog) as [o' t] eqn:He.
    inversion Hstep; subst. intros _.
    destruct (entry_outputs (m_chan m)) as [A [B _]]. rewrite He in A, B. cbn [fst] in A, B. lia.
Qed.

Theorem terminal_only_via_cleanup :
  forall ls c m' o,
    is_final (c_status c) = false ->
    forallb ext_ok ls = true ->
    m_run (m_init c) ls = (m', o) ->
    is_final (c_status (m_chan m')) = true ->
    1 <= count is_cleanup_out o /\ 1 <= count is_unprotect_out o.
Proof.
  intros ls c m' o Hnf Hext Hrun Hfin.
  assert (HJ : J m' o).
  { clear Hfin. revert m' o Hext Hrun. induction ls as [|l ls IH] using rev_ind; intros m' o Hext Hrun.
    - cbn in Hrun. inversion Hrun; subst. unfold J, cc_in_queue. cbn. intros [H|H]; congruence.
    - rewrite forallb_app in Hext. apply andb_true_iff in Hext. destruct Hext as [He1 He2].
      cbn in He2. rewrite andb_true_r in He2.
      rewrite m_run_snoc in Hrun. destruct (m_run (m_init c) ls) as [m1 o1] eqn:H1.
      destruct (m_step m1 l) as [m2 o2] eqn:H2. inversion Hrun; subst.
      eapply J_step; eauto. }
  apply HJ. right. exact Hfin.
Qed.

(* ---------- settles: with no further input the matching terminal status is reached ---------- *)
Lemma settle_dead f m acc : m_dead m = true -> settle f m acc = (m, acc).
Proof. destruct f; cbn [settle]; [reflexivity|]. intros ->. reflexivity. Qed.

Lemma settle_handler f m acc :
  m_dead m = false -> m_handler m = true ->
  settle (S f) m acc = let '(m', o) := m_step m LHandlerDone in settle f m' (acc ++ o).
Proof. intros Hd Hh. cbn [settle]. rewrite Hd, Hh. reflexivity. Qed.

Lemma settle_plan f m acc e q :
  m_dead m = false -> m_handler m = false -> m_queue m = e :: q ->
  settle (S f) m acc = let '(m', o) := m_step m LPlan in settle f m' (acc ++ o).
Proof. intros Hd Hh Hq. cbn [settle]. rewrite Hd, Hh, Hq. reflexivity. Qed.

Local Arguments settle : simpl never.

Lemma identity_ids c c' : identity_of c' = identity_of c ->
  chan_id c' = chan_id c /\ cleanup_other c' = cleanup_other c.
Proof.
  unfold identity_of, chan_id, cleanup_other. intros H. inversion H. rewrite !H1, !H2, !H3, !H4.
  split; reflexivity.
Qed.

Lemma apply_DTo c e s' :
  dest_of (fst e) (c_status c) = Some (DTo s') ->
  exists c', apply c e = Applied c' (has_entry s') /\ c_status c' = s' /\ identity_of c' = identity_of c.
Proof.
  intros H. unfold apply. rewrite H. eexists. split; [reflexivity|]. split; [reflexivity|].
  change (identity_of (run_acts (snd e) c (acts_of (fst e)) <| c_status := s' |>))
    with (identity_of (run_acts (snd e) c (acts_of (fst e)))).
  apply run_acts_identity.
Qed.

(* an ending event: moves a non-terminal channel into a cleanup status *)
Theorem cleanup_settles :
  forall c e s',
    is_final (c_status c) = false ->
    dest_of (fst e) (c_status c) = Some (DTo s') ->
    is_cleanup s' = true ->
    exists m' o,
      deliver (m_init c) e = (m', o) /\
      c_status (m_chan m') = terminal_of s' /\ is_final (terminal_of s') = true /\
      m_dead m' = true /\ m_queue m' = [] /\
      count is_cleanup_out o = 1 /\ count is_unprotect_out o = 1 /\
      In (OCleanupChannel (chan_id c)) o /\ In (OUnprotect (cleanup_other c) (chan_id c)) o.
Proof.
  intros c e s' Hnf Hd Hcl.
  pose proof (cleanup_states_ok_all s') as T. unfold cleanup_states_ok in T. rewrite Hcl in T.
  cbn in T. apply andb_true_iff in T. destruct T as [T T3]. apply andb_true_iff in T.
  destruct T as [T1 T2]. apply negb_true_iff in T1.
  destruct (dest_of CleanupComplete s') as [[t| |]|] eqn:Hcc; try discriminate T3.
  assert (Hterm : terminal_of s' = t) by (unfold terminal_of, next_status; rewrite Hcc; reflexivity).
  destruct (apply_DTo c e s' Hd) as [c1 [Ha1 [Hs1 Hi1]]].
  unfold deliver. cbn [m_step m_init m_dead m_queue app].
  change (settle_fuel _) with 20.
  (* plan the ending event *)
  erewrite settle_plan; [|reflexivity|reflexivity|reflexivity].
  cbn. rewrite Hnf, Ha1, Hs1, T1, T2.
  (* the entry function runs *)
  erewrite settle_handler; [|reflexivity|reflexivity].
  cbn.
  destruct (run_entry c1 entry_prog) as [oe te] eqn:He.
  destruct (entry_outputs c1) as [E1 [E2 [E3 E4]]]. rewrite He in E1, E2, E3, E4. cbn [fst snd] in *.
  destruct te as [|[ce ae] [|? ?]]; try discriminate E4. cbn in E4. inversion E4; subst ce.
  cbn [app].
  (* plan CleanupComplete *)
  assert (Hd2 : dest_of (fst (CleanupComplete, ae)) (c_status c1) = Some (DTo t)) by (rewrite Hs1; exact Hcc).
  destruct (apply_DTo c1 (CleanupComplete, ae) t Hd2) as [c2 [Ha2 [Hs2 Hi2]]].
  erewrite settle_plan; [|reflexivity|reflexivity|reflexivity].
  cbn.
  rewrite Hs1, T1, Ha2, Hs2, T3.
  rewrite settle_dead by reflexivity.
  destruct (identity_ids c c1 Hi1) as [I1 I2].
  eexists. eexists. split; [reflexivity|]. cbn [m_chan m_dead m_queue].
  rewrite Hterm. repeat split; try assumption.
  - rewrite !count_cons, !count_app, !count_cons, !count_nil, E1. cbn. reflexivity.
  - rewrite !count_cons, !count_app, !count_cons, !count_nil, E2. cbn. reflexivity.
  - right. right. right. apply in_or_app. left.
    pose proof (run_entry_in_cleanup c1 entry_prog (proj1 entry_prog_has_both)) as P.
    rewrite He in P. cbn [fst] in P. rewrite <- I1. exact P.
  - right. right. right. apply in_or_app. left.
    pose proof (run_entry_in_unprotect c1 entry_prog (proj2 entry_prog_has_both)) as P.
    rewrite He in P. cbn [fst] in P. rewrite <- I1, <- I2. exact P.
Qed.

(* ---------- a cancel or a failure is not diverted by anything but a local lifecycle event ---------- *)
(* local lifecycle events: raised by this node's own API / manager, never by a message or a
   transport callback alone *)
Definition lifecycle_event (e : EventCode) : bool :=
  match e with
  | Open | Cancel | Error | Complete | BeginFinalizing | CleanupComplete | CompleteCleanupOnRestart => true
  | _ => false
  end.

Definition not_diverted_check (e : EventCode) (s : Status) : bool :=
  lifecycle_event e ||
  match s with
  | Cancelling | Failing => status_eqb (next_status e s) s && negb (starts_handler e s)
  | _ => true
  end.

Lemma not_diverted_all : forall e s, not_diverted_check e s = true.
Proof. apply forall_event_status. vm_compute. reflexivity. Qed.

(* whatever arrives from the counterparty or the transport while a cancel / failure cleans up
   (accept, restart, vouchers, pause / resume, data and progress reports, the responder's
   completion, disconnects, ...), the status stays put and cleanup is not re-run; the only
   events that move it are CleanupComplete (to the matching terminal status) and the node's
   own lifecycle events *)
Theorem cancel_fail_not_diverted :
  forall es s,
    s = Cancelling \/ s = Failing ->
    forallb (fun e => negb (lifecycle_event e)) es = true ->
    run_status s es = s /\
    next_status CleanupComplete (run_status s es) = terminal_of s /\
    forallb (fun e => negb (starts_handler e s)) es = true.
Proof.
  induction es as [|e es IH]; intros s Hs Hes.
  - cbn. split; [reflexivity|]. split; [|reflexivity]. destruct Hs; subst; vm_compute; reflexivity.
  - cbn in Hes. apply andb_prop in Hes. destruct Hes as [He Hes].
    pose proof (not_diverted_all e s) as H. unfold not_diverted_check in H.
    apply negb_true_iff in He. rewrite He in H. cbn [orb] in H.
    assert (H' : status_eqb (next_status e s) s && negb (starts_handler e s) = true)
      by (destruct Hs; subst; exact H).
    apply andb_prop in H'. destruct H' as [H1 H2]. apply status_eqb_eq in H1.
    cbn [run_status fold_left]. rewrite H1. fold (run_status s es).
    destruct (IH s Hs Hes) as [A [B C]]. split; [exact A|]. split; [exact B|].
    cbn [forallb]. rewrite H2. exact C.
Qed.
