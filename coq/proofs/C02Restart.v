(* C02: an incoming restart request for a terminated channel is refused: nobody is consulted, nothing
   is sent to the state machine, the transport or the validator; the reply says "not accepted" and the
   carrier is told it failed. *)
From Coq Require Import List NArith ZArith String Bool.
From RecordUpdate Require Import RecordSet.
From DT Require Import GenStatus GenEvent GenMsgType FsmTypes GenFsm Fsm Machine View Caches Msg Node C04Proofs.
Import ListNotations RecordSetNotations.

(* what the handler amounts to on a terminated channel: it reads the channel (twice at most) and
   answers *)
Definition refuse_restart (k : chid) (m : msg) : prog (option msg * nret) :=
  self <- exec ISelf ;;
  if N.eqb self (k_init k) then
    Ret (Some (validation_result_response RestartMessage (g_tid m) zero_valres true false), ROther)
  else
    _oc <- exec (IGet k) ;;
    Ret (Some (validation_result_response RestartMessage (g_tid m) zero_valres true false), ROther).

Lemma zero_valres_force : vr_force zero_valres = false.
Proof. reflexivity. Qed.

Theorem restart_request_for_terminal_refused :
  forall s k m cs,
    lookup k (n_chans (s_node s)) = Some cs ->
    is_final (c_status (m_chan (msync (cs_m cs)))) = true ->
    run (receive_restart_request k m) s = run (refuse_restart k m) s.
Proof.
  intros s k m cs L C. unfold receive_restart_request, refuse_restart, restart_request.
  rewrite !run_bind, !run_exec. cbn [run_instr].
  destruct (N.eqb (n_self (s_node s)) (k_init k)) eqn:E.
  - cbn [run]. reflexivity.
  - rewrite !run_bind. unfold validate_restart_request. rewrite !run_bind, !run_exec. cbn [run_instr].
    rewrite L. cbn [run]. rewrite C. cbn [negb andb run]. reflexivity.
Qed.

(* the reply is a refusal, whatever the request says *)
Theorem refusal_reply :
  forall s k m,
    let '(x, s') := run (refuse_restart k m) s in
    snd x = ROther /\
    match fst x with Some r => g_accepted r = false /\ g_isreq r = false /\ g_tid r = g_tid m | None => False end /\
    s_out s' = s_out s /\ s_vals s' = s_vals s.
Proof.
  intros s k m. unfold refuse_restart. cbn [run exec bind]. unfold run_instr at 1. cbn [run].
  destruct (N.eqb (n_self (s_node s)) (k_init k)).
  - cbn [run fst snd]. repeat split; reflexivity.
  - cbn [run exec bind]. cbn [run_instr].
    destruct (lookup k (n_chans (s_node s))) as [cs|]; cbn [run fst snd]; repeat split; reflexivity.
Qed.
