(* C05: who may restart a channel from outside.
   - a restart-existing-channel request is honoured only when this node initiated the named channel,
     the sender is its counterparty and the channel is not terminated; otherwise the handler only reads
     the channel;
   - a restart request passes the manager's own check (before any validator is asked) only when it
     comes from the initiator of a non-terminated channel and repeats the original base cid, voucher
     type and voucher. *)
From Coq Require Import List NArith ZArith String Bool.
From RecordUpdate Require Import RecordSet.
From DT Require Import GenStatus GenEvent GenMsgType FsmTypes GenFsm Fsm Machine View Caches Msg Node C04Proofs.
Import ListNotations RecordSetNotations.

Definition may_restart_existing (self from : N) (c : chan) : bool :=
  N.eqb (k_init (chid_of c)) self && N.eqb (other_peer c) from && negb (is_final (c_status c)).

(* the handler on a request that may not restart the channel: read and return *)
Definition only_read (k : chid) : prog nret :=
  _self <- exec ISelf ;; _oc <- exec (IGet k) ;; Ret ROk.

Theorem restart_existing_unauthorised_only_reads :
  forall s from m cs,
    is_restart_existing m = true ->
    lookup (g_restart m) (n_chans (s_node s)) = Some cs ->
    may_restart_existing (n_self (s_node s)) from (m_chan (msync (cs_m cs))) = false ->
    run (recv_restart_existing from m) s = run (only_read (g_restart m)) s.
Proof.
  intros s from m cs R L A. unfold recv_restart_existing, only_read.
  rewrite !run_bind, !run_exec. cbn [run_instr]. rewrite R. cbn [negb].
  rewrite !run_bind, !run_exec. cbn [run_instr]. rewrite L.
  unfold may_restart_existing in A.
  destruct (N.eqb (k_init (chid_of (m_chan (msync (cs_m cs))))) (n_self (s_node s))); cbn [negb]; [|reflexivity].
  destruct (N.eqb (other_peer (m_chan (msync (cs_m cs)))) from); cbn [negb]; [|reflexivity].
  cbn [andb] in A. apply negb_false_iff in A. rewrite A. reflexivity.
Qed.

Theorem restart_existing_unknown_only_reads :
  forall s from m,
    lookup (g_restart m) (n_chans (s_node s)) = None \/ is_restart_existing m = false ->
    fst (run (recv_restart_existing from m) s) = ROk /\
    s_out (snd (run (recv_restart_existing from m) s)) = s_out s /\
    n_chans (s_node (snd (run (recv_restart_existing from m) s))) = n_chans (s_node s).
Proof.
  intros s from m H. unfold recv_restart_existing.
  rewrite !run_bind, !run_exec. cbn [run_instr].
  destruct (is_restart_existing m) eqn:R; cbn [negb].
  - destruct H as [L|H]; [|discriminate].
    rewrite !run_bind, !run_exec. cbn [run_instr]. rewrite L. cbn [run fst snd]. auto.
  - cbn [run fst snd]. auto.
Qed.

(* the manager's own check of a restart request *)
Definition repeats_original (from : N) (m : msg) (c : chan) : bool :=
  negb (is_final (c_status c)) &&
  N.eqb (k_init (chid_of c)) from &&
  N.eqb (g_basecid m) (c_basecid c) &&
  negb (N.eqb (g_vnode m) 0) &&
  String.eqb (g_vtype m) (v_type (first_voucher c)) &&
  N.eqb (g_vnode m) (v_node (first_voucher c)).

Theorem restart_request_check :
  forall s from k m,
    fst (run (validate_restart_request from k m) s) =
    match lookup k (n_chans (s_node s)) with
    | None => false
    | Some cs => repeats_original from m (m_chan (msync (cs_m cs)))
    end.
Proof.
  intros s from k m. unfold validate_restart_request.
  rewrite !run_bind, !run_exec. cbn [run_instr].
  destruct (lookup k (n_chans (s_node s))) as [cs|]; cbn [run fst]; reflexivity.
Qed.

(* a restart request that fails the check is answered with an error before anybody else is asked: no
   validator call, no event, no message, no transport call *)
Theorem restart_request_failing_check_is_refused :
  forall s k m,
    fst (run (validate_restart_request (k_init k) k m) s) = false ->
    let '(x, s') := run (restart_request k m) s in
    x = (false, zero_valres, true) /\ s_out s' = s_out s /\ s_vals s' = s_vals s.
Proof.
  intros s k m F. unfold restart_request.
  rewrite !run_bind, !run_exec. cbn [run_instr].
  destruct (N.eqb (n_self (s_node s)) (k_init k)); [cbn [run]; auto|].
  rewrite !run_bind.
  destruct (run (validate_restart_request (k_init k) k m) s) as [okv s1] eqn:E.
  cbn [fst] in F. subst okv. cbn [negb run].
  assert (S1 : s_out s1 = s_out s /\ s_vals s1 = s_vals s).
  { revert E. unfold validate_restart_request. rewrite !run_bind, !run_exec. cbn [run_instr].
    destruct (lookup k (n_chans (s_node s))) as [cs|]; cbn [run]; intros E; inversion E; subst; cbn; auto. }
  destruct S1 as [S1 S2]. auto.
Qed.
