(* C14: channel monitor -- restarts serialized and bounded; one verdict per channel.
   All statements quantify over every schedule (list of labels) of Monitor.mon_step. *)
From Coq Require Import List NArith ZArith Bool Lia Arith.
From RecordUpdate Require Import RecordSet.
From DT Require Import Monitor.
Import ListNotations RecordSetNotations.

Definition cnt (x : mout) (o : list mout) : nat :=
  List.length (filter (fun y => match x, y with
                                | MConnect, MConnect | MRestart, MRestart | MClose, MClose
                                | MRestartComplete, MRestartComplete => true
                                | _, _ => false end) o).

Lemma cnt_app x a b : cnt x (a ++ b) = cnt x a + cnt x b.
Proof. unfold cnt. rewrite filter_app, app_length. reflexivity. Qed.

Lemma mon_run_snoc c m ls l :
  mon_run c m (ls ++ [l]) =
  let '(m1, o1) := mon_run c m ls in let '(m2, o2) := mon_step c m1 l in (m2, o1 ++ o2).
Proof.
  unfold mon_run. rewrite fold_left_app. cbn.
  destruct (fold_left _ ls (m, [])) as [m1 o1]. cbn. destruct (mon_step c m1 l). reflexivity.
Qed.

Ltac step_cases m l :=
  destruct l as [| | | | | | |ok|ok| | | |]; cbn [mon_step];
  repeat match goal with
         | |- context [if ?b then _ else _] => destruct b eqn:?
         | |- context [match mo_pc ?x with _ => _ end] => destruct (mo_pc x) eqn:?
         | |- context [match mo_pending_calls ?x with _ => _ end] => destruct (mo_pending_calls x) eqn:?
         | |- context [match mo_pending_shut ?x with _ => _ end] => destruct (mo_pending_shut x) eqn:?
         | |- context [match mo_complete_armed ?x with _ => _ end] => destruct (mo_complete_armed x) eqn:?
         | |- context [let '(_, _) := close_and_shutdown ?x in _] => unfold close_and_shutdown
         | |- context [after_success ?x] => unfold after_success
         end.

(* ---------- the channel is closed with an error at most once ---------- *)
Lemma step_close c m l m' o :
  mon_step c m l = (m', o) ->
  cnt MClose o <= 1 /\ (cnt MClose o = 1 -> mo_shut m = false /\ mo_shut m' = true) /\
  (mo_shut m = true -> mo_shut m' = true /\ cnt MClose o = 0).
Proof.
  intros H. revert H. step_cases m l; intros H; inversion H; subst; cbn;
    repeat split; intros; try lia; try congruence; try discriminate; auto;
    repeat match goal with H : mo_shut (_ <| mo_consec := _ |>) = _ |- _ => cbn in H end; congruence.
Qed.

Theorem close_at_most_once :
  forall c ls m m' o, mon_run c m ls = (m', o) ->
    cnt MClose o <= 1 /\ (cnt MClose o = 1 -> mo_shut m' = true) /\ (mo_shut m = true -> cnt MClose o = 0 /\ mo_shut m' = true).
Proof.
  intros c ls. induction ls as [|l ls IH] using rev_ind; intros m m' o H.
  - cbn in H. inversion H; subst. cbn. repeat split; auto; intros; lia.
  - rewrite mon_run_snoc in H. destruct (mon_run c m ls) as [m1 o1] eqn:H1.
    destruct (mon_step c m1 l) as [m2 o2] eqn:H2. inversion H; subst.
    destruct (IH _ _ _ H1) as [A [B C]]. destruct (step_close _ _ _ _ _ H2) as [D [E F]].
    rewrite cnt_app.
    destruct (mo_shut m1) eqn:S1.
    + destruct (F eq_refl) as [F1 F2]. split; [lia|]. split.
      * intros _. exact F1.
      * intros Hs. destruct (C Hs) as [C1 C2]. split; [lia|exact F1].
    + assert (K0 : cnt MClose o1 = 0).
      { destruct (cnt MClose o1) as [|[|n]] eqn:K; [reflexivity| |lia]. specialize (B eq_refl). congruence. }
      split; [lia|]. split.
      * intros K. apply E. lia.
      * intros Hs. destruct (C Hs) as [C1 C2]. congruence.
Qed.

(* once the monitor has shut down (seen the channel ending, or closed it) nothing closes it *)
Corollary after_shutdown_no_close :
  forall c ls m m' o, mo_shut m = true -> mon_run c m ls = (m', o) -> cnt MClose o = 0.
Proof. intros c ls m m' o Hs H. destruct (close_at_most_once c ls m m' o H) as [_ [_ C]]. apply C. exact Hs. Qed.

(* ---------- at most one restart attempt in flight ---------- *)
(* an attempt is in flight exactly while the loop is inside ConnectTo or Restart.  A ConnectTo
   call is only issued when no call is in flight; a Restart call is only issued as the
   continuation of the ConnectTo that just returned; so two attempts never overlap *)
Definition in_connect (m : mon) : nat := match mo_pc m with PConnect => 1 | _ => 0 end.
Definition in_restart (m : mon) : nat := match mo_pc m with PRestart => 1 | _ => 0 end.

Theorem restart_mutex :
  forall c m l m' o, mon_step c m l = (m', o) ->
    cnt MConnect o <= 1 /\ cnt MRestart o <= 1 /\ in_connect m' + in_restart m' <= 1 /\
    (cnt MConnect o = 1 -> in_connect m = 0 /\ in_restart m = 0 /\ in_connect m' = 1) /\
    (cnt MRestart o = 1 -> in_connect m = 1 /\ l = LConnectReturns true /\ in_restart m' = 1).
Proof.
  intros c m l m' o H. revert H. unfold in_connect, in_restart.
  step_cases m l; intros H; inversion H; subst; cbn;
    repeat match goal with H : mo_pc _ = _ |- _ => rewrite H end; cbn;
    repeat split; intros; try lia; try discriminate; try reflexivity.
Qed.

(* history form: count calls issued minus calls returned along any schedule; the number of
   ConnectTo / Restart calls in flight is never more than one *)
Definition fl_step (c : cfg) (acc : mon * nat) (l : mlabel) : mon * nat :=
  let '(m, k) := acc in
  let '(m', o) := mon_step c m l in
  (m', k + cnt MConnect o + cnt MRestart o -
       match l with LConnectReturns _ => in_connect m | LRestartReturns _ => in_restart m | _ => 0 end).

Lemma fl_inv c : forall ls m k,
  k = in_connect m + in_restart m ->
  let '(m', k') := fold_left (fl_step c) ls (m, k) in k' = in_connect m' + in_restart m' /\ k' <= 1.
Proof.
  induction ls as [|l ls IH]; intros m k H; cbn [fold_left].
  - split; [exact H|]. subst. unfold in_connect, in_restart. destruct (mo_pc m); cbn; lia.
  - unfold fl_step at 2. destruct (mon_step c m l) as [m' o] eqn:E. apply IH. subst k.
    revert E.
    step_cases m l; intros E; inversion E; subst; unfold in_connect, in_restart; cbn;
      repeat match goal with H : mo_pc _ = _ |- _ => rewrite H end; cbn; try lia;
      match goal with |- context [mo_pc ?x] => destruct (mo_pc x) eqn:Hpc; cbn; try lia end;
      match goal with Hr : restarting _ = false |- _ => unfold restarting in Hr; rewrite Hpc in Hr; discriminate Hr end.
Qed.

Theorem at_most_one_call_in_flight :
  forall c ls, snd (fold_left (fl_step c) ls (mon_init c, 0)) <= 1.
Proof.
  intros c ls. pose proof (fl_inv c ls (mon_init c) 0 eq_refl) as H.
  destruct (fold_left (fl_step c) ls (mon_init c, 0)) as [m' k']. cbn. apply H.
Qed.

(* a restart requested while an attempt runs is queued, and performed once afterwards *)
Theorem queued_restart_runs_once :
  forall c m n,
    mo_pending_calls m = S n -> restarting m = true ->
    let m1 := fst (mon_step c m LRestartCall) in
    mo_queued m1 = true /\ mo_pc m1 = mo_pc m /\ snd (mon_step c m LRestartCall) = [] /\
    (* ... and when the running attempt succeeds (no back-off pending) exactly one more follows *)
    (forall m2, mo_pc m2 = PRestart -> mo_queued m2 = true -> (cf_backoff c && negb (mo_shut m2)) = false ->
       let m3 := fst (mon_step c m2 (LRestartReturns true)) in
       mo_pc m3 = PDo /\ mo_queued m3 = false) /\
    (forall m2, mo_pc m2 = PRestart -> mo_queued m2 = false -> (cf_backoff c && negb (mo_shut m2)) = false ->
       mon_step c m2 (LRestartReturns true) = (m2 <| mo_pc := PIdle |>, [MRestartComplete])).
Proof.
  intros c m n Hp Hr. cbn [mon_step]. rewrite Hp, Hr. cbn. repeat split.
  - rewrite H, H1. unfold after_success. rewrite H0. reflexivity.
  - rewrite H, H1. unfold after_success. rewrite H0. reflexivity.
  - intros mx P Q B. rewrite P, B. unfold after_success. rewrite Q. reflexivity.
Qed.

(* ---------- restarts are bounded without data progress ---------- *)
(* instrumented run: ConnectTo calls since the last data progress *)
Definition since_step (c : cfg) (acc : mon * nat) (l : mlabel) : mon * nat :=
  let '(m, k) := acc in
  let '(m', o) := mon_step c m l in
  (m', match l with
       | LEvData => if mo_shut m then k + cnt MConnect o else 0
       | _ => k + cnt MConnect o
       end).
Definition since_run (c : cfg) (m : mon) (ls : list mlabel) : mon * nat :=
  fold_left (since_step c) ls (m, 0).

Lemma since_inv c : forall ls m k,
  k <= mo_consec m -> k <= cf_max c ->
  let '(m', k') := fold_left (since_step c) ls (m, k) in
  k' <= mo_consec m' /\ k' <= cf_max c.
Proof.
  induction ls as [|l ls IH]; intros m k H1 H3; cbn [fold_left].
  - auto.
  - unfold since_step at 2. destruct (mon_step c m l) as [m' o] eqn:E.
    apply IH; revert E; step_cases m l; intros E; inversion E; subst; cbn in *;
      repeat match goal with
             | H : (_ <? _) = true |- _ => apply Nat.ltb_lt in H
             | H : (_ <? _) = false |- _ => apply Nat.ltb_ge in H
             | H : (_ <=? _) = true |- _ => apply Nat.leb_le in H
             | H : (_ <=? _) = false |- _ => apply Nat.leb_gt in H
             end; lia.
Qed.

(* no more than the configured number of restart attempts are made without data progress:
   in every schedule the number of ConnectTo calls (each attempt starts with one) since the
   last delivered data event never exceeds MaxConsecutiveRestarts *)
Theorem restarts_bounded_without_progress :
  forall c ls, snd (since_run c (mon_init c) ls) <= cf_max c.
Proof.
  intros c ls. unfold since_run.
  pose proof (since_inv c ls (mon_init c) 0) as H. cbn in H.
  destruct (fold_left (since_step c) ls (mon_init c, 0)) as [m' k']. cbn. apply H; lia.
Qed.

(* data progress resets the count *)
Theorem data_resets_count :
  forall c m, mo_shut m = false -> mo_consec (fst (mon_step c m LEvData)) = 0.
Proof. intros c m H. cbn. rewrite H. reflexivity. Qed.

(* persistent failure: the attempt after the limit closes the channel with an error *)
Theorem persistent_failure_closes :
  forall c m, mo_pc m = PDo -> cf_max c <= mo_consec m -> mo_shut m = false ->
    snd (mon_step c m LLoopStep) = [MClose] /\ mo_pc (fst (mon_step c m LLoopStep)) = PFailed /\
    mo_shut (fst (mon_step c m LLoopStep)) = true.
Proof.
  intros c m P L Hs. cbn [mon_step]. rewrite P.
  assert (Hl : Nat.ltb (cf_max c) (S (mo_consec m)) = true) by (apply Nat.ltb_lt; lia).
  rewrite Hl. unfold close_and_shutdown. cbn. rewrite Hs. cbn. auto.
Qed.

(* failed reconnects and failed restart messages lead straight to the next counted attempt *)
Theorem failure_retries_counted :
  forall c m,
    (mo_pc m = PConnect -> mon_step c m (LConnectReturns false) = (m <| mo_pc := PDo |>, [])) /\
    (mo_pc m = PRestart -> mon_step c m (LRestartReturns false) = (m <| mo_pc := PDo |>, [])).
Proof. intros c m. split; intros P; cbn [mon_step]; rewrite P; reflexivity. Qed.

(* a loop that gave up never restarts again *)
Theorem failed_loop_never_restarts_again :
  forall c ls m m' o, mo_pc m = PFailed -> mon_run c m ls = (m', o) ->
    mo_pc m' = PFailed /\ cnt MConnect o = 0 /\ cnt MRestart o = 0.
Proof.
  intros c ls. induction ls as [|l ls IH] using rev_ind; intros m m' o P H.
  - cbn in H. inversion H; subst. auto.
  - rewrite mon_run_snoc in H. destruct (mon_run c m ls) as [m1 o1] eqn:H1.
    destruct (mon_step c m1 l) as [m2 o2] eqn:H2. inversion H; subst.
    destruct (IH _ _ _ P H1) as [A [B C]]. rewrite !cnt_app, B, C.
    revert H2. step_cases m1 l; intros H2; inversion H2; subst; cbn; try congruence; auto;
      try (match goal with Hr : restarting _ = false |- _ => unfold restarting in Hr; rewrite A in Hr; discriminate Hr end).
Qed.

(* the accept / complete timers close the channel exactly when they fire while still armed and
   the monitor has not shut down; disabled timers are never armed *)
Theorem timers_close_iff_expired :
  forall c m,
    (snd (mon_step c m LAcceptTimerFires) = [MClose] <-> mo_accept_armed m = true /\ mo_shut m = false) /\
    (snd (mon_step c m LCompleteTimerFires) = [MClose] <-> mo_complete_armed m <> 0 /\ mo_shut m = false) /\
    mo_accept_armed (fst (mon_step c m LEvAccept)) = (mo_accept_armed m && mo_shut m).
Proof.
  intros c m. cbn [mon_step]. unfold close_and_shutdown.
  destruct (mo_accept_armed m) eqn:Ea, (mo_shut m) eqn:Es, (mo_complete_armed m) eqn:Ec; cbn;
    repeat split; intros; 
    repeat match goal with
           | H : _ /\ _ |- _ => destruct H
           | H : 0 <> 0 |- _ => exfalso; apply H; reflexivity
           end; try discriminate; try congruence; auto.
Qed.

Theorem disabled_timers_never_close :
  forall c ls m' o,
    mon_run c (mon_init c) ls = (m', o) ->
    (cf_accept c = false -> mo_accept_armed m' = false) /\
    (cf_complete c = false -> mo_complete_armed m' = 0).
Proof.
  intros c ls. induction ls as [|l ls IH] using rev_ind; intros m' o H.
  - cbn in H. inversion H; subst. cbn. auto.
  - rewrite mon_run_snoc in H. destruct (mon_run c (mon_init c) ls) as [m1 o1] eqn:H1.
    destruct (mon_step c m1 l) as [m2 o2] eqn:H2. inversion H; subst.
    destruct (IH _ _ eq_refl) as [A B].
    split; intros Hc; [specialize (A Hc)|specialize (B Hc)]; revert H2;
      step_cases m1 l; intros H2; inversion H2; subst; cbn; try congruence; try lia; auto.
Qed.

(* non-vacuity: a schedule in which an error arrives, the first attempt fails to connect, the
   second succeeds, data flows, and the channel ends *)
Example schedule_example :
  let c := mkCfg 2 true true false in
  mon_run c (mon_init c)
    [LEvAccept; LEvError; LRestartCall; LLoopStep; LConnectReturns false; LLoopStep; LConnectReturns true;
     LEvError; LRestartCall; LEvData; LRestartReturns true; LLoopStep; LConnectReturns true; LRestartReturns true;
     LEvEnding; LShutdownRuns; LAcceptTimerFires] =
  (mkMon true 0 false 0 PIdle 0 false 1,
   [MConnect; MConnect; MRestart; MConnect; MRestart; MRestartComplete]).
Proof. vm_compute. reflexivity. Qed.

(* ---------- seeing the channel end ---------- *)
Theorem ending_shuts_down_without_closing :
  forall c m, mo_shut m = false ->
    let '(m', o) := mon_run c m [LEvEnding; LShutdownRuns] in
    mo_shut m' = true /\ o = [] /\
    (* ... and from then on no schedule closes the channel *)
    (forall ls m'' o', mon_run c m' ls = (m'', o') -> cnt MClose o' = 0).
Proof.
  intros c m Hs. unfold mon_run. cbn [fold_left fst snd mon_step]. rewrite Hs. cbn.
  repeat split. intros ls m'' o' H. eapply after_shutdown_no_close; [|exact H]. reflexivity.
Qed.

(* after Shutdown the subscription is gone: events change nothing *)
Theorem unsubscribed_ignores_events :
  forall c m l, mo_shut m = true ->
    In l [LEvError; LEvData; LEvAccept; LEvFinish; LEvEnding] -> mon_step c m l = (m, []).
Proof.
  intros c m l Hs Hin. cbn in Hin.
  repeat (destruct Hin as [Hin|Hin]; [subst l; cbn [mon_step]; rewrite Hs; reflexivity|]). contradiction.
Qed.

(* ---------- monitoring disabled ---------- *)
Theorem disabled_monitor_silent :
  forall ls, snd (omon_run None ls) = [].
Proof.
  intros ls. unfold omon_run. cbn [add_channel].
  assert (H : forall acc, fst acc = None -> snd (fold_left (fun acc l => let '(m', o) := omon_step None (fst acc) l in (m', snd acc ++ o)) ls acc) = snd acc).
  { induction ls as [|l ls IH]; intros acc Ha; cbn [fold_left]; [reflexivity|].
    rewrite IH; cbn; [apply app_nil_r|reflexivity]. }
  apply (H (None, [])). reflexivity.
Qed.
