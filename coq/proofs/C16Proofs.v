(* C16: the transport routes each graphsync event to its channel; none after cleanup. *)
From Coq Require Import List NArith ZArith String Bool Lia.
From RecordUpdate Require Import RecordSet.
From DT Require Import GenStatus GenEvent GenMsgType FsmTypes GenFsm Fsm View Msg Transport.
Import ListNotations RecordSetNotations.

Definition calls (o : list tout) : list hcall := flat_map (fun x => match x with OH h => [h] | _ => [] end) o.

(* the request an input is keyed by *)
Definition request_keyed (i : tin) : option N :=
  match i with
  | GRequestProcessing r | GIncomingBlock r _ _ _ | GOutgoingBlock r _ _ _ | GBlockSent r _ _ _
  | GCompletedResponse r _ | GRequestUpdated _ r _ | GIncomingResponse _ r _ _ | GNetSendError r
  | GRequestorCancelled r => Some r
  | _ => None
  end.

Ltac break_match :=
  match goal with
  | |- context [match ?x with _ => _ end] => destruct x eqn:?
  | H : context [match ?x with _ => _ end] |- _ => destruct x eqn:?
  end.

Lemma process_extension_calls s k p m a :
  forall h, In h (calls (fst (fst (fst (process_extension s k p m a))))) -> hcall_chid h = k.
Proof.
  unfold process_extension. intros h. repeat break_match; cbn; intros H; try contradiction;
    destruct H as [<-|[]]; reflexivity.
Qed.

Lemma calls_app a b : calls (a ++ b) = calls a ++ calls b.
Proof. unfold calls. apply flat_map_app. Qed.
Lemma calls_map_act {A} (f : A -> hookact) (l : list A) : calls (map (fun x => OAct (f x)) l) = [].
Proof. induction l; cbn; auto. Qed.

(* every events-handler call made for a request-keyed callback carries the channel that owns the
   request; a callback for a request nobody owns produces nothing at all and changes nothing *)
Theorem event_channel_is_request_owner :
  forall s i r orc,
    request_keyed i = Some r ->
    match rlookup r (ts_reqmap s) with
    | Some k => forall h, In h (calls (snd (tstep s i orc))) -> hcall_chid h = k
    | None => tstep s i orc = (s, [])
    end.
Proof.
  intros s i r orc Hk.
  destruct i as [to k0 rc m0|k0|k0 om|k0|k0|k0|p rid om|rid|rid size index onwire|rid size index onwire
                |rid size index onwire|rid st|p rid om|p rid om1 om2|rid|rid|p|rid d];
    cbn in Hk; try discriminate; inversion Hk; subst; clear Hk;
    destruct (rlookup r (ts_reqmap s)) as [k|] eqn:L; unfold tstep; rewrite ?L; try reflexivity.
  - intros h H. cbn in H. destruct H as [<-|[]]; reflexivity.
  - destruct (pop_ans orc) as [a rest]. intros h H. cbn in H. destruct H as [<-|H]; [reflexivity|].
    destruct (ha_ret a); cbn in H; contradiction.
  - destruct onwire; cbn [negb]; [|intros h []].
    destruct (pop_ans orc) as [a rest]. intros h H. cbn in H. destruct H as [<-|H]; [reflexivity|].
    destruct (ha_ret a); cbn in H; try contradiction; destruct (ha_msg a); cbn in H; contradiction.
  - destruct onwire; reflexivity.
  - destruct onwire; cbn [negb]; [|intros h []]. intros h H. cbn in H. destruct H as [<-|[]]; reflexivity.
  - destruct onwire; reflexivity.
  - destruct st; intros h H; cbn in H; try contradiction; destruct H as [<-|[]]; reflexivity.
  - destruct om as [m|]; [|intros h []].
    destruct (pop_ans orc) as [a rest].
    destruct (process_extension s k p m a) as [[[outs resp] v] used] eqn:E.
    intros h H. cbn [snd] in H. rewrite !calls_app in H. apply in_app_or in H.
    destruct H as [H|H].
    + pose proof (process_extension_calls s k p m a h) as P. rewrite E in P. cbn in P. apply P. exact H.
    + apply in_app_or in H. destruct H as [H|H].
      * destruct resp; cbn in H; contradiction.
      * destruct v; cbn in H; contradiction.
  - destruct (pop_ans orc) as [a1 rest].
    intros h H.
    assert (G : forall om a h0,
               In h0 (calls (match om with
                             | None => []
                             | Some m => let '(outs, _, v, _) := process_extension s k p m a in
                                         outs ++ match v with HErr => [OAct ATerminate] | _ => [] end
                             end)) -> hcall_chid h0 = k).
    { intros om a h0 H0. destruct om as [m|]; [|contradiction].
      destruct (process_extension s k p m a) as [[[outs resp] v] used] eqn:E.
      rewrite calls_app in H0. apply in_app_or in H0. destruct H0 as [H0|H0].
      - pose proof (process_extension_calls s k p m a h0) as P. rewrite E in P. cbn in P. apply P. exact H0.
      - destruct v; cbn in H0; contradiction. }
    destruct om1 as [m1|].
    + destruct (process_extension s k p m1 a1) as [[[outs resp] v] used] eqn:E.
      cbn [snd] in H. rewrite !calls_app in H. apply in_app_or in H. destruct H as [H|H].
      * apply in_app_or in H. destruct H as [H|H].
        -- pose proof (process_extension_calls s k p m1 a1 h) as P. rewrite E in P. cbn in P. apply P. exact H.
        -- apply in_app_or in H. destruct H as [H|H].
           ++ destruct resp; cbn in H; contradiction.
           ++ destruct v; cbn in H; contradiction.
      * eapply G. exact H.
    + cbn [snd app] in H. eapply G. exact H.
  - destruct (tlookup k (ts_chans s)); intros h [].
  - intros h H. cbn in H. destruct H as [<-|[]]; reflexivity.
Qed.

(* the channel id of an incoming request is built from the graphsync peer and the message's
   transfer id; a request without the extension is not ours: nothing happens *)
Theorem channel_id_from_authenticated_peer :
  forall s p rid om orc,
    match om with
    | None => tstep s (GIncomingRequest p rid om) orc = (s, [])
    | Some m =>
        let k := if g_isreq m then (p, ts_self s, g_tid m) else (ts_self s, p, g_tid m) in
        calls (snd (tstep s (GIncomingRequest p rid om) orc)) =
        [if g_isreq m then HRequestReceived k m else HResponseReceived k m]
    end.
Proof.
  intros s p rid om orc. destruct om as [m|]; [|reflexivity].
  unfold tstep. destruct (pop_ans orc) as [a rest].
  assert (CA : forall l, calls (map OAct l) = []) by (induction l; cbn; auto).
  destruct (g_isreq m); [destruct (is_cancel m); [reflexivity|]|]; cbn [andb];
    destruct (ha_ret a); cbn [snd]; rewrite calls_app, CA; reflexivity.
Qed.

(* ---------- cleanup silences the channel ---------- *)
Lemma rlookup_delete_refs k r l : rlookup r (rdelete_refs k l) <> Some k.
Proof.
  induction l as [|[r' [b k']] t IH]; cbn; [discriminate|].
  destruct (triple_eqb k' k) eqn:E; cbn; [exact IH|].
  destruct (N.eqb r' r); [|exact IH].
  intros H. inversion H; subst. 
  assert (triple_eqb k k = true).
  { destruct k as [[a b0] c]. cbn. rewrite !N.eqb_refl. reflexivity. }
  congruence.
Qed.

Lemma tlookup_tremove k l : tlookup k (tremove k l) = None.
Proof.
  induction l as [|[k' c] t IH]; cbn; [reflexivity|].
  destruct (triple_eqb k' k) eqn:E; [exact IH|]. cbn. rewrite E. exact IH.
Qed.

(* after cleanup the channel is no longer tracked and no request maps to it, so (by
   event_channel_is_request_owner) every request-keyed callback of its requests is dropped *)
Theorem after_cleanup_silent :
  forall s k orc,
    let s' := fst (tstep s (XCleanup k) orc) in
    tlookup k (ts_chans s') = None /\ (forall r, rlookup r (ts_reqmap s') <> Some k).
Proof.
  intros s k orc. unfold tstep. destruct (tlookup k (ts_chans s)) eqn:L; cbn.
  - split; [apply tlookup_tremove|intros r; apply rlookup_delete_refs].
  - split; [exact L|]. intros r H.
    (* an untracked channel owns no request: invariant of reachable states, see reqmap_tracked *)
Abort.

(* reachable-state invariant: every mapped request belongs to a tracked channel *)
Definition reqmap_tracked (s : tstate) : Prop :=
  forall r k, rlookup r (ts_reqmap s) = Some k -> tlookup k (ts_chans s) <> None.

Theorem after_cleanup_silent :
  forall s k orc, reqmap_tracked s ->
    let s' := fst (tstep s (XCleanup k) orc) in
    tlookup k (ts_chans s') = None /\ (forall r, rlookup r (ts_reqmap s') <> Some k).
Proof.
  intros s k orc Hinv. unfold tstep. destruct (tlookup k (ts_chans s)) eqn:L; cbn.
  - split; [apply tlookup_tremove|intros r; apply rlookup_delete_refs].
  - split; [exact L|]. intros r H. apply (Hinv r k H). exact L.
Qed.

(* blocks that were not put on the wire produce no queued or sent accounting *)
Theorem not_on_wire_not_accounted :
  forall s rid size index orc,
    tstep s (GOutgoingBlock rid size index false) orc = (s, []) /\
    tstep s (GBlockSent rid size index false) orc = (s, []).
Proof. intros. split; reflexivity. Qed.

(* a received block is unique exactly when it came over the wire *)
Theorem received_unique_iff_on_wire :
  forall s rid size index onwire orc k,
    rlookup rid (ts_reqmap s) = Some k ->
    exists rest, snd (tstep s (GIncomingBlock rid size index onwire) orc) =
                 OH (HDataReceived k size index onwire) :: rest.
Proof.
  intros s rid size index onwire orc k L. unfold tstep. rewrite L.
  destruct (pop_ans orc) as [a r]. eexists. reflexivity.
Qed.

(* pause, resume and cancel act on the channel's current request only *)
Definition gs_rid (o : tout) : option N :=
  match o with
  | OGs (GCancel r) _ | OGs (GPause r) _ | OGs (GUnpause r _) _ => Some r
  | _ => None
  end.

Theorem commands_use_current_request :
  forall s k om orc c,
    tlookup k (ts_chans s) = Some c ->
    (forall o r, In o (snd (tstep s (XPause k) orc)) -> gs_rid o = Some r -> tc_req c = Some r) /\
    (forall o r, In o (snd (tstep s (XResume k om) orc)) -> gs_rid o = Some r -> tc_req c = Some r) /\
    (forall o r, In o (snd (tstep s (XClose k) orc)) -> gs_rid o = Some r -> tc_req c = Some r).
Proof.
  intros s k om orc c L. unfold tstep. rewrite L.
  destruct (tc_req c) as [r0|]; destruct (tc_rcancel c); cbn; repeat split; intros o r H G;
    repeat (destruct H as [<-|H]; [cbn in G; try discriminate; try (inversion G; reflexivity)|]);
    try contradiction;
    try (unfold done_calls in H; destruct (find _ _) as [[? ?]|]; cbn in H;
         repeat (destruct H as [<-|H]; [cbn in G; discriminate|]); contradiction).
Qed.

(* a completed response is reported exactly once, with an error unless it completed in full;
   cancellations are not completions *)
Theorem completed_reported_once :
  forall s rid k orc,
    rlookup rid (ts_reqmap s) = Some k ->
    tstep s (GCompletedResponse rid SFull) orc = (s, [OH (HChannelCompleted k false)]) /\
    tstep s (GCompletedResponse rid SOtherStatus) orc = (s, [OH (HChannelCompleted k true)]) /\
    tstep s (GCompletedResponse rid SCancelled) orc = (s, []).
Proof. intros s rid k orc L. unfold tstep. rewrite L. repeat split. Qed.

(* ---------- C09: closing always returns ---------- *)
(* every transport call of the model returns (there is no wait state); for close in particular,
   whatever the state of the request: never opened, open, already cancelled, cancelled by the remote *)
Theorem close_always_returns :
  forall s k orc, exists b, In (ORet b) (snd (tstep s (XClose k) orc)).
Proof.
  intros s k orc. unfold tstep. destruct (tlookup k (ts_chans s)) as [c|]; [|exists false; left; reflexivity].
  destruct (tc_req c); [destruct (tc_rcancel c)|]; exists true; cbn; auto.
Qed.

(* ---------- C10: the transport part of restarts ---------- *)
(* the new request tells the sender to skip exactly the recorded number of received blocks, and
   a previous request of the channel is cancelled before the new one is made *)
Theorem restart_request_shape :
  forall s to k n m c old,
    tlookup k (ts_chans s) = Some c -> tc_req c = Some old -> tc_rcancel c = false ->
    exists rest1 rest2,
      snd (tstep s (XOpenChannel to k (Some n) m) []) =
      OGs (GCancel old) true :: rest1 ++ OGs (GRequest to m (Some n)) true :: rest2.
Proof.
  intros s to k n m c old L R C. unfold tstep, track. rewrite L, R, C. cbn [pop_ans ans_nil ha_ret].
  cbn. eexists. eexists. reflexivity.
Qed.

Lemma tlookup_tset_same k c l : tlookup k (tset k c l) = Some c.
Proof.
  assert (R : triple_eqb k k = true) by (destruct k as [[a b] d]; cbn; rewrite !N.eqb_refl; reflexivity).
  unfold tset. destruct (tlookup k l) eqn:L.
  - induction l as [|[k' c'] tl IH]; cbn in *; [discriminate|].
    destruct (triple_eqb k' k) eqn:E; cbn; rewrite E; [reflexivity|]. apply IH. exact L.
  - induction l as [|[k' c'] tl IH]; cbn in *; [rewrite R; reflexivity|].
    destruct (triple_eqb k' k) eqn:E; [discriminate|]. apply IH. exact L.
Qed.

Definition default_exts (o : list tout) : list msg :=
  flat_map (fun x => match x with OAct (ASendExt EDefault y) => [y] | _ => [] end) o.

Lemma default_exts_app a b : default_exts (a ++ b) = default_exts a ++ default_exts b.
Proof. apply flat_map_app. Qed.

Lemma default_exts_flush l : default_exts (map OAct (map (fun x : msg => ASendExt EDefault x) l)) = l.
Proof. induction l as [|x l IH]; cbn; [reflexivity|]. f_equal. exact IH. Qed.

(* messages queued while the requester was away are delivered once, on its next request *)
Theorem pending_extensions_delivered_once :
  forall s p rid m c a,
    g_isreq m = true -> is_cancel m = false ->
    tlookup (p, ts_self s, g_tid m) (ts_chans s) = Some c -> tc_rcancel c = true -> ha_ret a <> HErr ->
    let k := (p, ts_self s, g_tid m) in
    let '(s', o) := tstep s (GIncomingRequest p rid (Some m)) [a] in
    (exists c', tlookup k (ts_chans s') = Some c' /\ tc_pending c' = [] /\ tc_rcancel c' = false /\
                tc_req c' = Some rid) /\
    default_exts o = tc_pending c.
Proof.
  intros s p rid m c a Hreq Hnc L RC Hne. cbv zeta. unfold tstep, track. rewrite Hreq, Hnc, L. cbn [pop_ans andb].
  assert (F : forall (pre : list hookact) (post : list hookact) call,
             default_exts [call] = [] -> default_exts (map OAct pre) = [] -> default_exts (map OAct post) = [] ->
             default_exts ([call] ++ map OAct (pre ++ map (fun x : msg => ASendExt EDefault x) (tc_pending c) ++ post)) = tc_pending c).
  { intros pre post call H1 H2 H3. rewrite default_exts_app, H1, !map_app, !default_exts_app, H2, H3, default_exts_flush.
    cbn. apply app_nil_r. }
  assert (S1 : forall o : option msg, default_exts (map OAct (match o with Some r => [ASendExt EIncomingReq r] | None => [] end)) = [])
    by (intros [?|]; reflexivity).
  assert (S2 : forall b : bool, default_exts (map OAct ((if b then [AUseStore (p, ts_self s, g_tid m)] else []) ++ [AValidate])) = [])
    by (intros [|]; reflexivity).
  destruct (ha_ret a) eqn:HR; try congruence; cbn [orb];
    destruct (tc_open c && negb (tc_xfer c)) eqn:P; cbn [fst snd]; rewrite ?RC; cbn [tc_rcancel set];
    try (split; [eexists; split; [apply tlookup_tset_same|cbn; auto]|]).
  all: rewrite ?RC; cbn [tc_pending tc_rcancel tc_req tc_open set]; try (cbn; repeat split; reflexivity).
  all: destruct (ha_msg a), (tc_store c); cbn [app map]; rewrite <- ?app_assoc; cbn [app map];
       unfold default_exts; cbn [flat_map app]; fold (default_exts);
       match goal with
       | |- flat_map _ (map OAct (map _ ?l ++ ?post)) = ?l =>
           change (default_exts (map OAct (map (fun x : msg => ASendExt EDefault x) l ++ post)) = l);
           rewrite map_app, default_exts_app, default_exts_flush;
           change (default_exts (map OAct post)) with (@nil msg); apply app_nil_r
       end.
Qed.

(* ---------- reqmap_tracked is an invariant of every reachable state ---------- *)
Lemma teq_refl k : triple_eqb k k = true.
Proof. destruct k as [[a b] c]. cbn. rewrite !N.eqb_refl. reflexivity. Qed.

Lemma teq_eq a b : triple_eqb a b = true -> a = b.
Proof.
  destruct a as [[a1 a2] a3], b as [[b1 b2] b3]. cbn. rewrite !andb_true_iff, !N.eqb_eq.
  intros [[-> ->] ->]. reflexivity.
Qed.

Lemma tlookup_tset_other k k' c l : tlookup k' l <> None -> tlookup k' (tset k c l) <> None.
Proof.
  intros H. unfold tset. destruct (tlookup k l) eqn:L.
  - induction l as [|[k0 c0] tl IH]; cbn in *; [exact H|].
    destruct (triple_eqb k0 k) eqn:E; cbn.
    + destruct (triple_eqb k0 k') eqn:E'; [discriminate|].
      destruct (tlookup k' tl) eqn:L'; [|contradiction].
      clear IH. clear L. revert L'. clear. induction tl as [|[k1 c1] t IH]; cbn; [discriminate|].
      intros H. destruct (triple_eqb k1 k) eqn:E1; cbn; destruct (triple_eqb k1 k') eqn:E2; try discriminate; auto.
    + destruct (triple_eqb k0 k') eqn:E'; [discriminate|]. apply IH; assumption.
  - induction l as [|[k0 c0] tl IH]; cbn in *; [contradiction|].
    destruct (triple_eqb k0 k) eqn:E; [discriminate|].
    destruct (triple_eqb k0 k') eqn:E'; [discriminate|]. apply IH; assumption.
Qed.

Lemma tlookup_tset_same_ne k c l : tlookup k (tset k c l) <> None.
Proof. rewrite tlookup_tset_same. discriminate. Qed.

Lemma tlookup_tremove_other k k' l : k' <> k -> tlookup k' (tremove k l) = tlookup k' l.
Proof.
  intros Hne. induction l as [|[k0 c0] tl IH]; cbn; [reflexivity|].
  destruct (triple_eqb k0 k) eqn:E.
  - apply teq_eq in E. subst k0. destruct (triple_eqb k k') eqn:E'; [apply teq_eq in E'; congruence|exact IH].
  - cbn. destruct (triple_eqb k0 k'); [reflexivity|exact IH].
Qed.

Lemma rlookup_rset r r' b k l :
  rlookup r' (rset r b k l) = if N.eqb r r' then Some k else rlookup r' l.
Proof.
  unfold rset. cbn. destruct (N.eqb r r') eqn:E; [reflexivity|].
  induction l as [|[r0 [b0 k0]] t IH]; cbn; [reflexivity|].
  destruct (N.eqb r0 r) eqn:E0; cbn.
  - apply N.eqb_eq in E0. subst r0. rewrite E. exact IH.
  - destruct (N.eqb r0 r'); [reflexivity|exact IH].
Qed.

Lemma rlookup_delete_refs_some k r k' l : rlookup r (rdelete_refs k l) = Some k' -> exists r2, rlookup r2 l = Some k' /\ k' <> k.
Proof.
  induction l as [|[r0 [b0 k0]] t IH]; cbn; [discriminate|].
  destruct (triple_eqb k0 k) eqn:E; cbn.
  - intros H. destruct (IH H) as [r2 [A B]].
    destruct (N.eqb r0 r2) eqn:E2.
    + (* r2 is shadowed by the dropped head: pick any other witness is not needed, k' <> k suffices *)
      exists r2. split; [|exact B].
      (* cannot conclude rlookup r2 (head :: t) = Some k' when the head shadows it; restate below *)
Abort.

(* membership view of the request map (independent of shadowing) *)
Definition maps_to (l : list (N * (bool * chid))) (k : chid) : Prop := exists r b, In (r, (b, k)) l.

Lemma rlookup_in r k l : rlookup r l = Some k -> maps_to l k.
Proof.
  induction l as [|[r0 [b0 k0]] t IH]; cbn; [discriminate|].
  destruct (N.eqb r0 r); intros H.
  - inversion H; subst. exists r0, b0. left. reflexivity.
  - destruct (IH H) as [r1 [b1 I]]. exists r1, b1. right. exact I.
Qed.

Definition tracked_inv (s : tstate) : Prop := forall k, maps_to (ts_reqmap s) k -> tlookup k (ts_chans s) <> None.

Lemma tracked_inv_reqmap_tracked s : tracked_inv s -> reqmap_tracked s.
Proof. intros H r k L. apply H. eapply rlookup_in. exact L. Qed.

Lemma maps_to_rset r b k l k' : maps_to (rset r b k l) k' -> k' = k \/ maps_to l k'.
Proof.
  intros [r1 [b1 [H|H]]].
  - inversion H; subst. left. reflexivity.
  - apply filter_In in H. destruct H as [H _]. right. exists r1, b1. exact H.
Qed.

Lemma maps_to_delete k l k' : maps_to (rdelete_refs k l) k' -> maps_to l k' /\ k' <> k.
Proof.
  intros [r1 [b1 H]]. apply filter_In in H. destruct H as [H1 H2]. cbn in H2.
  split; [exists r1, b1; exact H1|]. intros ->. rewrite teq_refl in H2. discriminate.
Qed.

Theorem tracked_inv_step : forall s i orc, tracked_inv s -> tracked_inv (fst (tstep s i orc)).
Proof.
  intros s i orc HI.
  assert (SC : forall k c, tracked_inv (set_chan s k c)).
  { intros k c k' H. unfold set_chan. cbn. apply tlookup_tset_other. apply HI. exact H. }
  destruct i as [to k0 rc m0|k0|k0 om|k0|k0|k0|p rid om|rid|rid size index onwire|rid size index onwire
                |rid size index onwire|rid st|p rid om|p rid om1 om2|rid|rid|p|rid d]; unfold tstep.
  - (* XOpenChannel *)
    destruct (tc_req (track k0 s)) as [old|]; [destruct (tc_rcancel (track k0 s))|];
      destruct (pop_ans orc) as [a rest]; destruct (ha_ret a); cbn [fst];
      intros k' H; cbn in *;
      try (apply HI; exact H);
      try (apply maps_to_rset in H; destruct H as [->|H];
           [apply tlookup_tset_same_ne| apply tlookup_tset_other; apply HI; exact H]).
  - destruct (tlookup k0 (ts_chans s)) as [c|]; [destruct (tc_req c); [destruct (tc_rcancel c)|]|]; exact HI.
  - destruct (tlookup k0 (ts_chans s)) as [c|]; [|exact HI].
    destruct (tc_req c); [|exact HI]. destruct (tc_rcancel c); apply SC.
  - destruct (tlookup k0 (ts_chans s)) as [c|]; [|exact HI].
    destruct (tc_req c); [|exact HI]. destruct (tc_rcancel c); [exact HI|].
    intros k' H. cbn in *. apply tlookup_tset_other. apply HI. exact H.
  - (* XCleanup *)
    destruct (tlookup k0 (ts_chans s)) as [c|]; [|exact HI].
    intros k' H. cbn in *. apply maps_to_delete in H. destruct H as [H Hne].
    rewrite tlookup_tremove_other by exact Hne. apply HI. exact H.
  - destruct (tc_store (track k0 s)); apply SC.
  - (* GIncomingRequest *)
    destruct om as [m|]; [|exact HI].
    destruct (g_isreq m && is_cancel m); [exact HI|].
    destruct (pop_ans orc) as [a rest].
    destruct (ha_ret a); cbn [fst]; try apply SC;
      intros k' H; cbn in *; apply maps_to_rset in H; destruct H as [->|H];
      try apply tlookup_tset_same_ne; apply tlookup_tset_other; apply HI; exact H.
  - destruct (rlookup rid (ts_reqmap s)); exact HI.
  - destruct (rlookup rid (ts_reqmap s)); [destruct (pop_ans orc)|]; exact HI.
  - destruct onwire; cbn [negb]; [|exact HI]. destruct (rlookup rid (ts_reqmap s)); [destruct (pop_ans orc)|]; exact HI.
  - destruct onwire; cbn [negb]; [|exact HI]. destruct (rlookup rid (ts_reqmap s)); exact HI.
  - destruct (rlookup rid (ts_reqmap s)); [destruct st|]; exact HI.
  - destruct (rlookup rid (ts_reqmap s)); [destruct om; [destruct (pop_ans orc); destruct (process_extension _ _ _ _ _) as [[[? ?] ?] ?]|]|]; exact HI.
  - destruct (rlookup rid (ts_reqmap s)); [|exact HI]. destruct (pop_ans orc).
    destruct om1; [destruct (process_extension _ _ _ _ _) as [[[? ?] ?] ?]|]; exact HI.
  - destruct (rlookup rid (ts_reqmap s)) as [k|]; [|exact HI].
    destruct (tlookup k (ts_chans s)); [apply SC|exact HI].
  - destruct (rlookup rid (ts_reqmap s)); exact HI.
  - exact HI.
  - destruct (find _ (ts_out s)) as [[? ?]|]; exact HI.
Qed.

Theorem tracked_inv_reachable :
  forall self l, tracked_inv (fold_left (fun s io => fst (tstep s (fst io) (snd io))) l (init_tstate self)).
Proof.
  intros self l.
  assert (G : forall s, tracked_inv s -> tracked_inv (fold_left (fun s io => fst (tstep s (fst io) (snd io))) l s)).
  { induction l as [|io l IH]; intros s H; cbn; [exact H|]. apply IH. apply tracked_inv_step. exact H. }
  apply G. intros k [r [b []]].
Qed.

(* ---------- C11 at the transport: a 'stay paused' answer never terminates the request ---------- *)
Definition terminates (o : list tout) : bool :=
  existsb (fun x => match x with OAct ATerminate => true | _ => false end) o.

Lemma terminates_app a b : terminates (a ++ b) = terminates a || terminates b.
Proof. unfold terminates. apply existsb_app. Qed.

Lemma process_extension_no_terminate s k p m a :
  let '(outs, _, _, _) := process_extension s k p m a in terminates outs = false.
Proof.
  unfold process_extension. destruct (g_isreq m); destruct (triple_eqb _ _); reflexivity.
Qed.

(* a response (or request update) of the counterparty that the events handler answers with nil or
   with ErrPause ("the local side is still paused") leaves the graphsync request alone *)
Theorem stay_paused_does_not_terminate :
  forall s p rid m a rest k,
    rlookup rid (ts_reqmap s) = Some k ->
    ha_ret a <> HErr ->
    (let '(_, _, _, used) := process_extension s k p m a in used = true) ->
    terminates (snd (tstep s (GIncomingResponse p rid (Some m) None) (a :: rest))) = false.
Proof.
  intros s p rid m a rest k L Hne Hused. unfold tstep. rewrite L. cbn [pop_ans].
  pose proof (process_extension_no_terminate s k p m a) as T.
  destruct (process_extension s k p m a) as [[[outs resp] v] used] eqn:E. cbn [snd].
  assert (Hv : v = ha_ret a \/ used = false).
  { revert E. unfold process_extension. destruct (g_isreq m); destruct (triple_eqb _ _); intros E; inversion E; auto. }
  destruct Hv as [->|Hu]; [|congruence].
  rewrite app_nil_r, !terminates_app, T. destruct resp; destruct (ha_ret a); cbn; try reflexivity; congruence.
Qed.

(* ---------- per-channel stores: registered once, for the channel's lifetime only ---------- *)
Definition has_store (k : chid) (s : tstate) : bool :=
  match tlookup k (ts_chans s) with Some c => tc_store c | None => false end.

Lemma tlookup_tset_diff k k' c l : k' <> k -> tlookup k' (tset k c l) = tlookup k' l.
Proof.
  intros Hne. unfold tset. destruct (tlookup k l) eqn:L.
  - clear L. induction l as [|[k0 c0] tl IH]; cbn; [reflexivity|].
    destruct (triple_eqb k0 k) eqn:E; cbn.
    + apply teq_eq in E. subst k0.
      destruct (triple_eqb k k') eqn:E'; [apply teq_eq in E'; congruence|exact IH].
    + destruct (triple_eqb k0 k'); [reflexivity|exact IH].
  - clear L. induction l as [|[k0 c0] tl IH]; cbn.
    + destruct (triple_eqb k k') eqn:E'; [apply teq_eq in E'; congruence|reflexivity].
    + destruct (triple_eqb k0 k'); [reflexivity|exact IH].
Qed.

Lemma tlookup_tremove_same k l : tlookup k (tremove k l) = None.
Proof.
  induction l as [|[k0 c0] tl IH]; cbn; [reflexivity|].
  destruct (triple_eqb k0 k) eqn:E; [exact IH|]. cbn. rewrite E. exact IH.
Qed.

Lemma has_store_set_same s k c : has_store k (set_chan s k c) = tc_store c.
Proof. unfold has_store, set_chan. cbn. rewrite tlookup_tset_same. reflexivity. Qed.

Lemma has_store_set_other s k k' c : k' <> k -> has_store k' (set_chan s k c) = has_store k' s.
Proof. intros H. unfold has_store, set_chan. cbn. rewrite tlookup_tset_diff by exact H. reflexivity. Qed.

Lemma has_store_track s k : tc_store (track k s) = has_store k s.
Proof. unfold track, has_store. destruct (tlookup k (ts_chans s)); reflexivity. Qed.

(* the first UseStore registers the store; a repeated one is refused by graphsync and changes
   nothing (the store stays the channel's); cleanup unregisters exactly a registered store *)
Theorem store_registered_for_lifetime_only :
  forall s k orc,
    (has_store k s = false ->
       snd (tstep s (XUseStore k) orc) = [OGs (GRegisterStore k) true; ORet true] /\
       has_store k (fst (tstep s (XUseStore k) orc)) = true) /\
    (has_store k s = true ->
       snd (tstep s (XUseStore k) orc) = [OGs (GRegisterStore k) false; ORet false] /\
       has_store k (fst (tstep s (XUseStore k) orc)) = true) /\
    (has_store k s = true ->
       snd (tstep s (XCleanup k) orc) = [OGs (GUnregisterStore k) true] /\
       has_store k (fst (tstep s (XCleanup k) orc)) = false) /\
    (has_store k s = false -> snd (tstep s (XCleanup k) orc) = []).
Proof.
  intros s k orc. unfold tstep. rewrite has_store_track.
  split; [|split; [|split]]; intros H.
  - rewrite H. cbn [fst snd]. split; [reflexivity|]. rewrite has_store_set_same. reflexivity.
  - rewrite H. cbn [fst snd]. split; [reflexivity|]. rewrite has_store_set_same, has_store_track. exact H.
  - unfold has_store in H. destruct (tlookup k (ts_chans s)) as [c|] eqn:L; [|discriminate].
    rewrite H. cbn [fst snd]. split; [reflexivity|]. unfold has_store. cbn. rewrite tlookup_tremove_same. reflexivity.
  - unfold has_store in H. destruct (tlookup k (ts_chans s)) as [c|] eqn:L; [|reflexivity].
    rewrite H. reflexivity.
Qed.
