(* Node-level theorems obtained from the generic lifting of NodeFacts.v: they hold for every
   input (API call, message from any peer, transport callback, process restart), every oracle
   answer and every history. *)
From Coq Require Import List NArith ZArith String Bool Lia.
From RecordUpdate Require Import RecordSet.
From DT Require Import GenStatus GenEvent GenMsgType FsmTypes GenFsm Fsm Machine View Caches Msg Node
     FsmFacts NodeFacts C19Proofs.
Import ListNotations RecordSetNotations.

Lemma apply_applied_chan c e c' h : apply c e = Applied c' h -> c' = apply_chan c e.
Proof. intros H. unfold apply_chan. rewrite H. reflexivity. Qed.

(* ---------- C02: terminal records are frozen at node level ---------- *)
Definition R_terminal (c c' : chan) : Prop := is_final (c_status c) = true -> c' = c.

Theorem terminal_frame_history :
  forall l n k cs,
    lookup k (n_chans n) = Some cs ->
    is_final (c_status (m_chan (cs_m cs))) = true ->
    exists cs', lookup k (n_chans (run_history n l)) = Some cs' /\ m_chan (cs_m cs') = m_chan (cs_m cs).
Proof.
  intros l n k cs Hl Hf.
  assert (HI : Inv R_terminal n (run_history n l)).
  { apply history_Inv.
    - intros c _. reflexivity.
    - intros a b c Hab Hbc Ha. rewrite (Hbc (eq_ind_r (fun x => is_final (c_status x) = true) Ha (Hab Ha))).
      apply Hab. exact Ha.
    - intros c e c' h Hnf _ Hfin. congruence.
    - apply Inv_refl. intros c _. reflexivity. }
  destruct (HI k cs Hl) as [cs' [L R]]. exists cs'. split; [exact L|apply R; exact Hf].
Qed.

(* ---------- C10 / C19: identities never change, whatever happens ---------- *)
Definition R_identity (c c' : chan) : Prop := identity_of c' = identity_of c.

Theorem identity_history :
  forall l n k cs,
    lookup k (n_chans n) = Some cs ->
    exists cs', lookup k (n_chans (run_history n l)) = Some cs' /\
                identity_of (m_chan (cs_m cs')) = identity_of (m_chan (cs_m cs)).
Proof.
  intros l n k cs Hl.
  assert (HI : Inv R_identity n (run_history n l)).
  { apply history_Inv.
    - intros c. reflexivity.
    - intros a b c Hab Hbc. unfold R_identity in *. congruence.
    - intros c e c' h _ Ha. unfold R_identity. rewrite (apply_applied_chan _ _ _ _ Ha).
      apply apply_chan_identity.
    - apply Inv_refl. intros c. reflexivity. }
  destruct (HI k cs Hl) as [cs' [L R]]. exists cs'. split; [exact L|exact R].
Qed.

(* consequently every well-formed record stays well-formed and its views stay consistent *)
Corollary wf_node_history :
  forall l n k cs,
    lookup k (n_chans n) = Some cs -> wf (m_chan (cs_m cs)) ->
    exists cs', lookup k (n_chans (run_history n l)) = Some cs' /\ wf (m_chan (cs_m cs')).
Proof.
  intros l n k cs Hl Hwf. destruct (identity_history l n k cs Hl) as [cs' [L I]].
  exists cs'. split; [exact L|]. eapply wf_identity; eassumption.
Qed.

(* ---------- C19: voucher logs are append-only across every step ---------- *)
Definition R_logs (c c' : chan) : Prop :=
  exists s1 s2, c_vouchers c' = c_vouchers c ++ s1 /\ c_results c' = c_results c ++ s2.

Theorem logs_history :
  forall l n k cs,
    lookup k (n_chans n) = Some cs ->
    exists cs' s1 s2, lookup k (n_chans (run_history n l)) = Some cs' /\
      c_vouchers (m_chan (cs_m cs')) = c_vouchers (m_chan (cs_m cs)) ++ s1 /\
      c_results (m_chan (cs_m cs')) = c_results (m_chan (cs_m cs)) ++ s2.
Proof.
  intros l n k cs Hl.
  assert (HI : Inv R_logs n (run_history n l)).
  { apply history_Inv.
    - intros c. exists [], []. rewrite !app_nil_r. auto.
    - intros a b c [s1 [s2 [A B]]] [t1 [t2 [C D]]]. exists (s1 ++ t1), (s2 ++ t2).
      rewrite C, D, A, B, !app_assoc. auto.
    - intros c e c' h _ Ha. rewrite (apply_applied_chan _ _ _ _ Ha).
      destruct (logs_append_only c e) as [s1 [s2 [A [B _]]]]. exists s1, s2. auto.
    - apply Inv_refl. intros c. exists [], []. rewrite !app_nil_r. auto. }
  destruct (HI k cs Hl) as [cs' [L [s1 [s2 [A B]]]]]. exists cs', s1, s2. auto.
Qed.

(* ---------- C07: block indexes never decrease, whatever happens ---------- *)
Definition idx3 (c : chan) : Z * Z * Z := (c_qblocks c, c_sblocks c, c_rblocks c).
Definition le3 (a b : Z * Z * Z) : Prop :=
  let '(a1, a2, a3) := a in let '(b1, b2, b3) := b in (a1 <= b1 /\ a2 <= b2 /\ a3 <= b3)%Z.
Definition R_index (c c' : chan) : Prop := le3 (idx3 c) (idx3 c').

Lemma act_acct_idx a t act :
  let '(_, _, _, qb, sb, rb) := t in
  let '(_, _, _, qb', sb', rb') := act_acct a t act in (qb <= qb' /\ sb <= sb' /\ rb <= rb')%Z.
Proof.
  destruct t as [[[[[q s] r] qb] sb] rb].
  destruct act as [f x|f b|f|f|f|f|l]; cbn; try lia; destruct f; cbn; try lia;
    match goal with |- context [Z.gtb ?x ?y] => destruct (Z.gtb_spec x y) end; lia.
Qed.

Lemma fold_acct_idx a l : forall t,
  let '(_, _, _, qb, sb, rb) := t in
  let '(_, _, _, qb', sb', rb') := fold_left (act_acct a) l t in (qb <= qb' /\ sb <= sb' /\ rb <= rb')%Z.
Proof.
  induction l as [|x l IH]; intros t; cbn [fold_left].
  - destruct t as [[[[[q s] r] qb] sb] rb]. lia.
  - pose proof (act_acct_idx a t x) as H1. pose proof (IH (act_acct a t x)) as H2.
    destruct t as [[[[[q s] r] qb] sb] rb].
    destruct (act_acct a (q, s, r, qb, sb, rb) x) as [[[[[q1 s1] r1] qb1] sb1] rb1].
    destruct (fold_left (act_acct a) l (q1, s1, r1, qb1, sb1, rb1)) as [[[[[q2 s2] r2] qb2] sb2] rb2]. lia.
Qed.

Theorem index_monotone_history :
  forall l n k cs,
    lookup k (n_chans n) = Some cs ->
    exists cs', lookup k (n_chans (run_history n l)) = Some cs' /\
      le3 (idx3 (m_chan (cs_m cs))) (idx3 (m_chan (cs_m cs'))).
Proof.
  intros l n k cs Hl.
  assert (HI : Inv R_index n (run_history n l)).
  { apply history_Inv.
    - intros c. unfold R_index, le3, idx3. lia.
    - intros a b c. unfold R_index, le3, idx3. lia.
    - intros c e c' h _ Ha. rewrite (apply_applied_chan _ _ _ _ Ha). unfold R_index, le3, idx3.
      pose proof (apply_chan_acct c e) as P. unfold acct_of in P.
      destruct (valid_in (fst e) (c_status c)).
      + pose proof (fold_acct_idx (snd e) (acts_of (fst e))
                      (c_queued c, c_sent c, c_received c, c_qblocks c, c_sblocks c, c_rblocks c)) as Q.
        cbn in Q. rewrite <- P in Q. exact Q.
      + inversion P. lia.
    - apply Inv_refl. intros c. unfold R_index, le3, idx3. lia. }
  destruct (HI k cs Hl) as [cs' [L R]]. exists cs'. split; [exact L|exact R].
Qed.

(* ---------- C18: channel identities ---------- *)
(* creating a channel whose id exists fails and leaves the whole state as it was *)
Theorem create_existing_fails_and_frames :
  forall s c cs, lookup (chan_id c) (n_chans (s_node s)) = Some cs ->
    run_instr s (ICreate c) = (false, s).
Proof. intros s c cs H. cbn. rewrite H. reflexivity. Qed.

(* the id counter never decreases *)
Theorem nextid_monotone_prog :
  forall A (p : prog A) s, (n_nextid (s_node s) <= n_nextid (s_node (snd (run p s))))%N.
Proof.
  intros A p s.
  apply (prog_preserves (fun s' => (n_nextid (s_node s) <= n_nextid (s_node s'))%N)); [|lia].
  intros X i s0 H. destruct i; cbn [run_instr].
  - destruct (lookup _ _); cbn; exact H.
  - exact H.
  - destruct (lookup k _) as [cs|]; [|exact H]. unfold send_chan. destruct (m_dead _); [exact H|].
    destruct (deliver _ _). cbn. exact H.
  - destruct (lookup _ _); cbn; exact H.
  - destruct (lookup k _) as [cs|]; [|exact H].
    destruct (fire _ _ _) as [[cc' evs] pause].
    match goal with |- context [send_all ?s1 k evs] => set (s1' := s1) end.
    assert (G : forall evs s2, (n_nextid (s_node s) <= n_nextid (s_node s2))%N ->
                 (n_nextid (s_node s) <= n_nextid (s_node (snd (send_all s2 k evs))))%N).
    { induction evs0 as [|e0 r0 IH]; intros s2 H2; cbn [send_all]; [exact H2|].
      destruct (lookup k _) as [cs2|]; [|exact H2].
      unfold send_chan. destruct (m_dead _); [exact H2|]. destruct (deliver _ _) as [m' o].
      cbn. apply IH. cbn. exact H2. }
    destruct (send_all s1' k evs) as [res s2] eqn:E. cbn [snd].
    pose proof (G evs s1') as G1. rewrite E in G1. apply G1. subst s1'. cbn. exact H.
  - destruct (lookup k _) as [cs|]; [|exact H].
    destruct (set_limit _ _) as [cc' evs].
    match goal with |- context [send_all ?s1 k evs] => set (s1' := s1) end.
    assert (G : forall evs s2, (n_nextid (s_node s) <= n_nextid (s_node s2))%N ->
                 (n_nextid (s_node s) <= n_nextid (s_node (snd (send_all s2 k evs))))%N).
    { induction evs0 as [|e0 r0 IH]; intros s2 H2; cbn [send_all]; [exact H2|].
      destruct (lookup k _) as [cs2|]; [|exact H2].
      unfold send_chan. destruct (m_dead _); [exact H2|]. destruct (deliver _ _) as [m' o].
      cbn. apply IH. cbn. exact H2. }
    apply G. subst s1'. cbn. exact H.
  - destruct (pop_val _). exact H.
  - exact H.
  - destruct (pop_bool _). exact H.
  - destruct c; try destruct (pop_bool _); exact H.
  - exact H.
  - cbn. lia.
  - exact H.
Qed.

(* INextId issues a value strictly above everything issued before *)
Theorem nextid_strictly_increasing :
  forall s, let '(n, s') := run_instr s INextId in
    (n_nextid (s_node s) < n)%N /\ n_nextid (s_node s') = n.
Proof. intros s. cbn. split; [lia|reflexivity]. Qed.

(* timeCounter: seed + atomic increments; any interleaving of atomic next() calls is some
   sequence of them, which returns seed+1, seed+2, ... : distinct and strictly increasing
   (no wrap below 2^64 is a hypothesis) *)
Fixpoint issue (counter : N) (n : nat) : list N :=
  match n with O => [] | S m => (counter + 1)%N :: issue (counter + 1)%N m end.

Lemma issue_bounds c n : forall x, In x (issue c n) -> (c < x <= c + N.of_nat n)%N.
Proof.
  revert c. induction n as [|n IH]; intros c x H; cbn in H; [contradiction|].
  destruct H as [<-|H]; [lia|]. specialize (IH _ _ H). lia.
Qed.

Theorem ids_strictly_increasing_and_distinct :
  forall c n, NoDup (issue c n) /\ (forall i j a b, nth_error (issue c n) i = Some a ->
     nth_error (issue c n) j = Some b -> (i < j)%nat -> (a < b)%N).
Proof.
  intros c n. revert c. induction n as [|n IH]; intros c; cbn.
  - split; [constructor|]. intros i j a b H. destruct i; discriminate.
  - destruct (IH (c + 1)%N) as [ND ORD]. split.
    + constructor; [|exact ND]. intros Hin. apply issue_bounds in Hin. lia.
    + intros i j a b Hi Hj Hlt. destruct j; [lia|]. cbn in Hj. destruct i.
      * cbn in Hi. inversion Hi; subst. apply nth_error_In in Hj. apply issue_bounds in Hj. lia.
      * cbn in Hi. eapply ORD; eauto. lia.
Qed.

(* a later manager on the same node starts above the ids of an earlier one, given a
   non-decreasing clock and fewer ids issued than nanoseconds elapsed *)
Theorem later_manager_starts_above :
  forall seed1 seed2 n1 n2 a b,
    (seed1 + N.of_nat n1 <= seed2)%N ->
    In a (issue seed1 n1) -> In b (issue seed2 n2) -> (a < b)%N.
Proof.
  intros seed1 seed2 n1 n2 a b H Ha Hb.
  apply issue_bounds in Ha. apply issue_bounds in Hb. lia.
Qed.

(* ---------- the id counter as the code seeds it (GenTimeCounter: generated from timecounter.go) ---------- *)
From DT Require Import GenTimeCounter.

(* the seed of a manager created at nanosecond t of the node's clock *)
Definition seed_at (t_ns : N) : N := (t_ns * tc_ticks_per_second / 1000000000)%N.

(* a manager created at t2 >= t1 starts above every id of the manager created at t1, provided the
   earlier one issued no more ids than nanoseconds elapsed between the two (one id per
   nanosecond is out of reach); this needs the seeding clock to tick once per nanosecond and
   next() to add exactly one *)
Theorem later_manager_starts_above_ns :
  forall t1 t2 n1 n2 a b,
    (t1 <= t2)%N -> (N.of_nat n1 <= t2 - t1)%N -> tc_increment = 1%N ->
    In a (issue (seed_at t1) n1) -> In b (issue (seed_at t2) n2) -> (a < b)%N.
Proof.
  intros t1 t2 n1 n2 a b Ht Hn _ Ha Hb.
  assert (S : forall t, seed_at t = t).
  { intros t. unfold seed_at, tc_ticks_per_second. apply N.div_mul. discriminate. }
  rewrite S in Ha, Hb. eapply later_manager_starts_above; [|exact Ha|exact Hb]. lia.
Qed.

Theorem counter_increment_is_one : tc_increment = 1%N.
Proof. reflexivity. Qed.
