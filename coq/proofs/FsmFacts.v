(* Basic facts about Fsm.apply that hold for every generated table. *)
From Coq Require Import List NArith ZArith String Bool Lia.
From RecordUpdate Require Import RecordSet.
From DT Require Import GenStatus GenEvent FsmTypes GenFsm Fsm.
Import ListNotations RecordSetNotations.

Lemma status_eqb_eq : forall a b, status_eqb a b = true <-> a = b.
Proof.
  intros a b; unfold status_eqb; rewrite N.eqb_eq; split; [|intros ->; reflexivity].
  destruct a, b; cbn; intros H; try reflexivity; discriminate H.
Qed.

Lemma status_eqb_refl : forall a, status_eqb a a = true.
Proof. intros a; apply status_eqb_eq; reflexivity. Qed.

Lemma event_eqb_eq : forall a b, event_eqb a b = true <-> a = b.
Proof.
  intros a b; unfold event_eqb; rewrite N.eqb_eq; split; [|intros ->; reflexivity].
  destruct a, b; cbn; intros H; try reflexivity; discriminate H.
Qed.

Lemma all_status_complete : forall s, In s all_status.
Proof. intros s; destruct s; cbn; tauto. Qed.

Lemma all_event_complete : forall e, In e all_event.
Proof. intros e; destruct e; cbn; tauto. Qed.

(* a boolean predicate checked on the whole (event, status) domain holds everywhere *)
Lemma forall_event_status (P : EventCode -> Status -> bool) :
  forallb (fun e => forallb (P e) all_status) all_event = true ->
  forall e s, P e s = true.
Proof.
  intros H e s. rewrite forallb_forall in H.
  specialize (H e (all_event_complete e)). rewrite forallb_forall in H.
  exact (H s (all_status_complete s)).
Qed.

Lemma forall_status (P : Status -> bool) :
  forallb P all_status = true -> forall s, P s = true.
Proof. intros H s. rewrite forallb_forall in H. exact (H s (all_status_complete s)). Qed.

Lemma forall_event (P : EventCode -> bool) :
  forallb P all_event = true -> forall e, P e = true.
Proof. intros H e. rewrite forallb_forall in H. exact (H e (all_event_complete e)). Qed.

(* ---- actions never touch the status or the identity fields ---- *)
Lemma add_log_status m c : c_status (add_log m c) = c_status c.
Proof. unfold add_log; destruct (c_stages c); reflexivity. Qed.

Lemma run_act_status a c act : c_status (run_act a c act) = c_status c.
Proof.
  destruct act as [f s|f b|f|f|f|f|l]; cbn.
  - destruct f, s; reflexivity.
  - destruct f, b; reflexivity.
  - destruct f; reflexivity.
  - destruct f; reflexivity.
  - destruct (Z.gtb _ _); [destruct f|]; reflexivity.
  - destruct f; reflexivity.
  - destruct l; apply add_log_status.
Qed.

Lemma run_acts_status a l : forall c, c_status (run_acts a c l) = c_status c.
Proof.
  unfold run_acts; induction l as [|x l IH]; intros c; cbn; [reflexivity|].
  rewrite IH; apply run_act_status.
Qed.

(* the status component evolves independently of every other field *)
Definition next_status (e : EventCode) (s : Status) : Status :=
  match dest_of e s with Some (DTo s') => s' | _ => s end.

Lemma apply_chan_status c e : c_status (apply_chan c e) = next_status (fst e) (c_status c).
Proof.
  unfold apply_chan, apply, next_status.
  destruct (dest_of (fst e) (c_status c)) as [[s'| |]|]; cbn; try reflexivity;
    apply run_acts_status.
Qed.

Definition run_status (s : Status) (es : list EventCode) : Status := fold_left (fun s e => next_status e s) es s.

Lemma fold_apply_status es : forall c,
  c_status (fold_left apply_chan es c) = run_status (c_status c) (map fst es).
Proof.
  induction es as [|e es IH]; intros c; cbn; [reflexivity|].
  rewrite IH, apply_chan_status; reflexivity.
Qed.

(* ---- actions never touch the identity of a channel ---- *)
Definition identity_of (c : chan) :=
  (c_self c, c_tid c, c_init c, c_resp c, c_basecid c, c_selector c, c_sender c, c_recipient c).

Lemma add_log_identity m c : identity_of (add_log m c) = identity_of c.
Proof. unfold add_log; destruct (c_stages c); reflexivity. Qed.

Lemma run_act_identity a c act : identity_of (run_act a c act) = identity_of c.
Proof.
  destruct act as [f s|f b|f|f|f|f|l]; cbn.
  - destruct f, s; reflexivity.
  - destruct f, b; reflexivity.
  - destruct f; reflexivity.
  - destruct f; reflexivity.
  - destruct (Z.gtb _ _); [destruct f|]; reflexivity.
  - destruct f; reflexivity.
  - destruct l; apply add_log_identity.
Qed.

Lemma run_acts_identity a l : forall c, identity_of (run_acts a c l) = identity_of c.
Proof.
  unfold run_acts; induction l as [|x l IH]; intros c; cbn; [reflexivity|].
  rewrite IH; apply run_act_identity.
Qed.

Lemma apply_chan_identity c e : identity_of (apply_chan c e) = identity_of c.
Proof.
  unfold apply_chan, apply.
  destruct (dest_of (fst e) (c_status c)) as [[s'| |]|]; cbn; try reflexivity;
    try apply run_acts_identity.
Qed.

(* ---- projections of a record and their evolution under actions ---- *)
(* accounting: byte totals and block indexes *)
Definition acct : Type := (N * N * N * Z * Z * Z)%type.
Definition acct_of (c : chan) : acct :=
  (c_queued c, c_sent c, c_received c, c_qblocks c, c_sblocks c, c_rblocks c).

Definition act_acct (a : evarg) (t : acct) (act : Act) : acct :=
  let '(q, s, r, qb, sb, rb) := t in
  match act with
  | ASetU64 FQueued => (a_uint a, s, r, qb, sb, rb)
  | ASetU64 FSent => (q, a_uint a, r, qb, sb, rb)
  | ASetU64 FReceived => (q, s, a_uint a, qb, sb, rb)
  | AAddU64 FQueued => (((q + a_uint a) mod two64)%N, s, r, qb, sb, rb)
  | AAddU64 FSent => (q, ((s + a_uint a) mod two64)%N, r, qb, sb, rb)
  | AAddU64 FReceived => (q, s, ((r + a_uint a) mod two64)%N, qb, sb, rb)
  | AMaxI64 FQueuedBlocksTotal => (q, s, r, if Z.gtb (a_int a) qb then a_int a else qb, sb, rb)
  | AMaxI64 FSentBlocksTotal => (q, s, r, qb, if Z.gtb (a_int a) sb then a_int a else sb, rb)
  | AMaxI64 FReceivedBlocksTotal => (q, s, r, qb, sb, if Z.gtb (a_int a) rb then a_int a else rb)
  | _ => t
  end.

Lemma add_log_acct m c : acct_of (add_log m c) = acct_of c.
Proof. unfold add_log; destruct (c_stages c); reflexivity. Qed.

Lemma run_act_acct a c act : acct_of (run_act a c act) = act_acct a (acct_of c) act.
Proof.
  destruct act as [f s|f b|f|f|f|f|l]; cbn.
  - destruct f, s; reflexivity.
  - destruct f, b; reflexivity.
  - destruct f; reflexivity.
  - destruct f; reflexivity.
  - destruct f; cbn; destruct (Z.gtb _ _); reflexivity.
  - destruct f; reflexivity.
  - destruct l; apply add_log_acct.
Qed.

Lemma run_acts_acct a l : forall c, acct_of (run_acts a c l) = fold_left (act_acct a) l (acct_of c).
Proof.
  unfold run_acts; induction l as [|x l IH]; intros c; cbn [fold_left]; [reflexivity|].
  rewrite IH, run_act_acct; reflexivity.
Qed.

(* pause flags, limit, finalization flag *)
Definition ctl : Type := (bool * bool * bool * N)%type.
Definition ctl_of (c : chan) : ctl := (c_ipaused c, c_rpaused c, c_reqfin c, c_limit c).

Definition act_ctl (a : evarg) (t : ctl) (act : Act) : ctl :=
  let '(ip, rp, rf, lim) := t in
  let src b := match b with BLit x => x | BArg => a_bool a end in
  match act with
  | ASetBool FInitiatorPaused b => (src b, rp, rf, lim)
  | ASetBool FResponderPaused b => (ip, src b, rf, lim)
  | ASetBool FRequiresFinalization b => (ip, rp, src b, lim)
  | ASetU64 FDataLimit => (ip, rp, rf, a_uint a)
  | AAddU64 FDataLimit => (ip, rp, rf, ((lim + a_uint a) mod two64)%N)
  | _ => t
  end.

Lemma add_log_ctl m c : ctl_of (add_log m c) = ctl_of c.
Proof. unfold add_log; destruct (c_stages c); reflexivity. Qed.

Lemma run_act_ctl a c act : ctl_of (run_act a c act) = act_ctl a (ctl_of c) act.
Proof.
  destruct act as [f s|f b|f|f|f|f|l]; cbn.
  - destruct f, s; reflexivity.
  - destruct f, b; reflexivity.
  - destruct f; reflexivity.
  - destruct f; reflexivity.
  - destruct f; cbn; destruct (Z.gtb _ _); reflexivity.
  - destruct f; reflexivity.
  - destruct l; apply add_log_ctl.
Qed.

Lemma run_acts_ctl a l : forall c, ctl_of (run_acts a c l) = fold_left (act_ctl a) l (ctl_of c).
Proof.
  unfold run_acts; induction l as [|x l IH]; intros c; cbn [fold_left]; [reflexivity|].
  rewrite IH, run_act_ctl; reflexivity.
Qed.

(* voucher and voucher-result logs *)
Definition logs_of (c : chan) : list voucher * list voucher := (c_vouchers c, c_results c).

Definition act_logs (a : evarg) (t : list voucher * list voucher) (act : Act) :=
  match act with
  | AAppend FVouchers => (fst t ++ [a_voucher a], snd t)
  | AAppend FVoucherResults => (fst t, snd t ++ [a_voucher a])
  | _ => t
  end.

Lemma add_log_logs m c : logs_of (add_log m c) = logs_of c.
Proof. unfold add_log; destruct (c_stages c); reflexivity. Qed.

Lemma run_act_logs a c act : logs_of (run_act a c act) = act_logs a (logs_of c) act.
Proof.
  destruct act as [f s|f b|f|f|f|f|l]; cbn.
  - destruct f, s; reflexivity.
  - destruct f, b; reflexivity.
  - destruct f; reflexivity.
  - destruct f; reflexivity.
  - destruct f; cbn; destruct (Z.gtb _ _); reflexivity.
  - destruct f; reflexivity.
  - destruct l; apply add_log_logs.
Qed.

Lemma run_acts_logs a l : forall c, logs_of (run_acts a c l) = fold_left (act_logs a) l (logs_of c).
Proof.
  unfold run_acts; induction l as [|x l IH]; intros c; cbn [fold_left]; [reflexivity|].
  rewrite IH, run_act_logs; reflexivity.
Qed.

(* the projections of apply_chan: the action result when the event is valid, else unchanged *)
Definition valid_in (e : EventCode) (s : Status) : bool :=
  match dest_of e s with Some _ => true | None => false end.

Lemma apply_chan_proj {T} (proj : chan -> T) (f : evarg -> T -> Act -> T)
      (Hacts : forall a l c, proj (run_acts a c l) = fold_left (f a) l (proj c))
      (Hstatus : forall c s, proj (c <| c_status := s |>) = proj c) :
  forall c e,
    proj (apply_chan c e) =
    if valid_in (fst e) (c_status c) then fold_left (f (snd e)) (acts_of (fst e)) (proj c) else proj c.
Proof.
  intros c e. unfold apply_chan, apply, valid_in.
  destruct (dest_of (fst e) (c_status c)) as [[s'| |]|]; cbn; try reflexivity; try apply Hacts.
  rewrite Hstatus. apply Hacts.
Qed.

Lemma apply_chan_acct c e :
  acct_of (apply_chan c e) =
  if valid_in (fst e) (c_status c) then fold_left (act_acct (snd e)) (acts_of (fst e)) (acct_of c) else acct_of c.
Proof. apply (apply_chan_proj acct_of act_acct); [apply run_acts_acct | reflexivity]. Qed.

Lemma apply_chan_ctl c e :
  ctl_of (apply_chan c e) =
  if valid_in (fst e) (c_status c) then fold_left (act_ctl (snd e)) (acts_of (fst e)) (ctl_of c) else ctl_of c.
Proof. apply (apply_chan_proj ctl_of act_ctl); [apply run_acts_ctl | reflexivity]. Qed.

Lemma apply_chan_logs c e :
  logs_of (apply_chan c e) =
  if valid_in (fst e) (c_status c) then fold_left (act_logs (snd e)) (acts_of (fst e)) (logs_of c) else logs_of c.
Proof. apply (apply_chan_proj logs_of act_logs); [apply run_acts_logs | reflexivity]. Qed.
