(* Basic facts about Fsm.apply that hold for every generated table. *)
From Coq Require Import List NArith ZArith String Bool Lia.
From RecordUpdate Require Import RecordSet.
From DT Require Import GenStatus GenEvent FsmTypes GenFsm Fsm.
Import ListNotations RecordSetNotations.

Lemma status_eqb_eq : forall a b, status_eqb a b = true <-> a = b.
Proof.
  intros a b; unfold status_eqb; rewrite N.eqb_eq; split; [|intros ->; reflexivity].
  destruct a, b; cbn; intros H; try reflexivity; discriminate H.
Qed.

Lemma status_eqb_refl : forall a, status_eqb a a = true.
Proof. intros a; apply status_eqb_eq; reflexivity. Qed.

Lemma event_eqb_eq : forall a b, event_eqb a b = true <-> a = b.
Proof.
  intros a b; unfold event_eqb; rewrite N.eqb_eq; split; [|intros ->; reflexivity].
  destruct a, b; cbn; intros H; try reflexivity; discriminate H.
Qed.

Lemma all_status_complete : forall s, In s all_status.
Proof. intros s; destruct s; cbn; tauto. Qed.

Lemma all_event_complete : forall e, In e all_event.
Proof. intros e; destruct e; cbn; tauto. Qed.

(* a boolean predicate checked on the whole (event, status) domain holds everywhere *)
Lemma forall_event_status (P : EventCode -> Status -> bool) :
  forallb (fun e => forallb (P e) all_status) all_event = true ->
  forall e s, P e s = true.
Proof.
  intros H e s. rewrite forallb_forall in H.
  specialize (H e (all_event_complete e)). rewrite forallb_forall in H.
  exact (H s (all_status_complete s)).
Qed.

Lemma forall_status (P : Status -> bool) :
  forallb P all_status = true -> forall s, P s = true.
Proof. intros H s. rewrite forallb_forall in H. exact (H s (all_status_complete s)). Qed.

Lemma forall_event (P : EventCode -> bool) :
  forallb P all_event = true -> forall e, P e = true.
Proof. intros H e. rewrite forallb_forall in H. exact (H e (all_event_complete e)). Qed.

(* ---- actions never touch the status or the identity fields ---- *)
Lemma add_log_status m c : c_status (add_log m c) = c_status c.
Proof. unfold add_log; destruct (c_stages c); reflexivity. Qed.

Lemma run_act_status a c act : c_status (run_act a c act) = c_status c.
Proof.
  destruct act as [f s|f b|f|f|f|f|l]; cbn.
  - destruct f, s; reflexivity.
  - destruct f, b; reflexivity.
  - destruct f; reflexivity.
  - destruct f; reflexivity.
  - destruct (Z.gtb _ _); [destruct f|]; reflexivity.
  - destruct f; reflexivity.
  - destruct l; apply add_log_status.
Qed.

Lemma run_acts_status a l : forall c, c_status (run_acts a c l) = c_status c.
Proof.
  unfold run_acts; induction l as [|x l IH]; intros c; cbn; [reflexivity|].
  rewrite IH; apply run_act_status.
Qed.

(* the status component evolves independently of every other field *)
Definition next_status (e : EventCode) (s : Status) : Status :=
  match dest_of e s with Some (DTo s') => s' | _ => s end.

Lemma apply_chan_status c e : c_status (apply_chan c e) = next_status (fst e) (c_status c).
Proof.
  unfold apply_chan, apply, next_status.
  destruct (dest_of (fst e) (c_status c)) as [[s'| |]|]; cbn; try reflexivity;
    apply run_acts_status.
Qed.

Definition run_status (s : Status) (es : list EventCode) : Status := fold_left (fun s e => next_status e s) es s.

Lemma fold_apply_status es : forall c,
  c_status (fold_left apply_chan es c) = run_status (c_status c) (map fst es).
Proof.
  induction es as [|e es IH]; intros c; cbn; [reflexivity|].
  rewrite IH, apply_chan_status; reflexivity.
Qed.
