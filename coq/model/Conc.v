(* channels/caches.go blockIndexCache.getValue / updateIfGreater and the progress event, for
   CONCURRENT reporters of one (event kind, channel): every reporter is a little program whose
   micro-steps (read-locked lookup, write-locked seed-with-recheck, atomic load, compare-and-swap,
   the FSM's serialized add) interleave arbitrarily.  A schedule is the list of thread ids that
   move next. *)
From Coq Require Import List NArith ZArith Bool Arith.
Import ListNotations.

Record rep := mkRep { p_idx : Z; p_size : N; p_unique : bool }.

Inductive pc : Set :=
| PStart               (* about to look the entry up under the read lock *)
| PWLock               (* missed: about to take the write lock, re-check and seed *)
| PLoad                (* holds the entry: about to atomic-load it *)
| PCas (cur : Z)       (* loaded cur < index: about to compare-and-swap cur -> index *)
| PAdd                 (* advanced the mark: its progress event is queued at the FSM *)
| PIdx (adv : bool)    (* its index event (evt, index) is queued at the FSM *)
| PDone (adv : bool).  (* returned; adv = the report advanced the mark *)

(* c_dur is the durable block index of the direction: the FSM raises it to every reported
   position (unique or not) when it applies the index event; a cold cache is seeded from it *)
Record cst := mkC { c_mark : option Z; c_tot : N; c_dur : Z; c_pcs : nat -> pc }.

Definition two64 : N := 18446744073709551616%N.

Definition upd (f : nat -> pc) (i : nat) (v : pc) : nat -> pc := fun j => if Nat.eqb j i then v else f j.

Section Conc.
  Variable n : nat.              (* number of concurrent reporters *)
  Variable reps : nat -> rep.    (* what each reports *)
  Variable seed : Z.             (* durable block index before the reports *)
  Variable base : N.             (* durable byte total before the reports *)

  Definition cinit (warm : option Z) : cst := mkC warm base seed (fun _ => PStart).

  Definition cstep (s : cst) (i : nat) : cst :=
    if negb (Nat.ltb i n) then s else
    let r := reps i in
    let goto p := mkC (c_mark s) (c_tot s) (c_dur s) (upd (c_pcs s) i p) in
    match c_pcs s i with
    | PStart =>
        if negb (p_unique r) then goto (PIdx false)
        else match c_mark s with Some _ => goto PLoad | None => goto PWLock end
    | PWLock =>
        (* under the write lock: look again, seed from the durable record only if still absent
           (GetByID synchronises with the FSM queue: every index event queued before is applied) *)
        mkC (match c_mark s with Some m => Some m | None => Some (c_dur s) end) (c_tot s) (c_dur s) (upd (c_pcs s) i PLoad)
    | PLoad =>
        match c_mark s with
        | Some m => if Z.leb (p_idx r) m then goto (PIdx false) else goto (PCas m)
        | None => s
        end
    | PCas cur =>
        match c_mark s with
        | Some m => if Z.eqb m cur then mkC (Some (p_idx r)) (c_tot s) (c_dur s) (upd (c_pcs s) i PAdd) else goto PLoad
        | None => s
        end
    | PAdd => mkC (c_mark s) ((c_tot s + p_size r) mod two64)%N (c_dur s) (upd (c_pcs s) i (PIdx true))
    | PIdx a => mkC (c_mark s) (c_tot s) (Z.max (c_dur s) (p_idx r)) (upd (c_pcs s) i (PDone a))
    | PDone _ => s
    end.

  Definition crun (s : cst) (sched : list nat) : cst := fold_left cstep sched s.

  Definition advanced (p : pc) : bool := match p with PAdd | PIdx true | PDone true => true | _ => false end.
  Definition counted (p : pc) : bool := match p with PIdx true | PDone true => true | _ => false end.
  Definition done_adv (p : pc) : bool := match p with PDone true => true | _ => false end.
  Definition is_done (p : pc) : bool := match p with PDone _ => true | _ => false end.

  (* sum of the sizes of the reports satisfying f, over threads 0..k-1 *)
  Fixpoint sum_if (f : nat -> bool) (k : nat) : N :=
    match k with
    | O => 0%N
    | S k' => ((if f k' then p_size (reps k') else 0) + sum_if f k')%N
    end.
End Conc.

(* sequential semantics of one report on (cache mark, durable index, byte total): what
   Caches.fire followed by the FSM does for the report's direction *)
Definition seq_step (st : option Z * Z * N) (r : rep) : option Z * Z * N :=
  let '(mk, d, t) := st in
  let d' := Z.max d (p_idx r) in
  if negb (p_unique r) then (mk, d', t)
  else
    let cur := match mk with Some m => m | None => d end in
    if Z.leb (p_idx r) cur then (Some cur, d', t) else (Some (p_idx r), d', ((t + p_size r) mod two64)%N).
Definition seq_run (st : option Z * Z * N) (rs : list rep) : option Z * Z * N := fold_left seq_step rs st.
