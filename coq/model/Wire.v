(* message/message1_1prime: the messages as they travel, and their IPLD / DAG-CBOR form
   (bindnode over schema.ipldsch: struct -> map keyed by the renamed field names, nullable
   pointer -> null, ChannelID -> 3-tuple).  Payloads are real IPLD values here (Msg.v uses
   opaque tokens for them). *)
From Coq Require Import List NArith ZArith String Ascii Bool.
From DT Require Import Cbor.
Import ListNotations.
Local Open Scope string_scope.

Record wchid := mkWChid { wc_init : string; wc_resp : string; wc_id : N }.   (* peer ids are raw bytes *)

Record wreq := mkWReq {
  rq_basecid : option string;     (* binary CID; None = nil pointer *)
  rq_type : N;
  rq_pause : bool; rq_partial : bool; rq_pull : bool;
  rq_selector : option node;      (* None = nil pointer; a null node also means none *)
  rq_voucher : option node;
  rq_vtype : string;
  rq_xferid : N;
  rq_restart : wchid
}.
Record wresp := mkWResp {
  rs_type : N; rs_accepted : bool; rs_paused : bool; rs_xferid : N;
  rs_vres : option node; rs_vtype : string
}.
Inductive wmsg : Type := WReq (r : wreq) | WResp (r : wresp).

(* ---------- to IPLD ---------- *)
Definition opt_any (o : option node) : node := match o with Some n => n | None => NNull end.
Definition opt_link (o : option string) : node := match o with Some c => NLink c | None => NNull end.

Definition chid_to_node (k : wchid) : node :=
  NList [NString (wc_init k); NString (wc_resp k); NInt false (wc_id k)].

Definition req_entries (r : wreq) : list (string * node) :=
  [("BCid", opt_link (rq_basecid r)); ("Type", NInt false (rq_type r)); ("Paus", NBool (rq_pause r));
   ("Part", NBool (rq_partial r)); ("Pull", NBool (rq_pull r)); ("Stor", opt_any (rq_selector r));
   ("Vouch", opt_any (rq_voucher r)); ("VTyp", NString (rq_vtype r)); ("XferID", NInt false (rq_xferid r));
   ("RestartChannel", chid_to_node (rq_restart r))].
Definition resp_entries (r : wresp) : list (string * node) :=
  [("Type", NInt false (rs_type r)); ("Acpt", NBool (rs_accepted r)); ("Paus", NBool (rs_paused r));
   ("XferID", NInt false (rs_xferid r)); ("VRes", opt_any (rs_vres r)); ("VTyp", NString (rs_vtype r))].

Definition msg_entries (m : wmsg) : list (string * node) :=
  match m with
  | WReq r => [("IsRq", NBool true); ("Request", NMap (req_entries r)); ("Response", NNull)]
  | WResp r => [("IsRq", NBool false); ("Request", NNull); ("Response", NMap (resp_entries r))]
  end.
Definition to_node (m : wmsg) : node := NMap (msg_entries m).

(* ToNet *)
Definition to_net (m : wmsg) : string := encode (to_node m).

(* ---------- from IPLD ---------- *)
Fixpoint lookup (k : string) (l : list (string * node)) : option node :=
  match l with
  | [] => None
  | (j, v) :: r => if String.eqb j k then Some v else lookup k r
  end.

Definition get_bool (n : node) : option bool := match n with NBool b => Some b | _ => None end.
Definition get_uint (n : node) : option N := match n with NInt false a => Some a | _ => None end.
Definition get_string (n : node) : option string := match n with NString s => Some s | _ => None end.
Definition get_any (n : node) : option (option node) := match n with NNull => Some None | x => Some (Some x) end.
Definition get_link (n : node) : option (option string) :=
  match n with NNull => Some None | NLink c => Some (Some c) | _ => None end.

Definition chid_of_node (n : node) : option wchid :=
  match n with
  | NList [NString a; NString b; NInt false i] => Some (mkWChid a b i)
  | _ => None
  end.

Notation "x <- e ; f" := (match e with Some x => f | None => None end) (at level 60, right associativity).

Definition req_of_node (n : node) : option wreq :=
  match n with
  | NMap l =>
      if negb (Nat.eqb (List.length l) 10) then None else
      a <- lookup "BCid" l ; bc <- get_link a ;
      b <- lookup "Type" l ; ty <- get_uint b ;
      c <- lookup "Paus" l ; pa <- get_bool c ;
      d <- lookup "Part" l ; pt <- get_bool d ;
      e <- lookup "Pull" l ; pu <- get_bool e ;
      f <- lookup "Stor" l ; st <- get_any f ;
      g <- lookup "Vouch" l ; vo <- get_any g ;
      h <- lookup "VTyp" l ; vt <- get_string h ;
      i <- lookup "XferID" l ; xi <- get_uint i ;
      j <- lookup "RestartChannel" l ; rc <- chid_of_node j ;
      Some (mkWReq bc ty pa pt pu st vo vt xi rc)
  | _ => None
  end.

Definition resp_of_node (n : node) : option wresp :=
  match n with
  | NMap l =>
      if negb (Nat.eqb (List.length l) 6) then None else
      b <- lookup "Type" l ; ty <- get_uint b ;
      a <- lookup "Acpt" l ; ac <- get_bool a ;
      c <- lookup "Paus" l ; pa <- get_bool c ;
      i <- lookup "XferID" l ; xi <- get_uint i ;
      g <- lookup "VRes" l ; vr <- get_any g ;
      h <- lookup "VTyp" l ; vt <- get_string h ;
      Some (mkWResp ty ac pa xi vr vt)
  | _ => None
  end.

(* FromIPLD, including the check that the body named by IsRq is present *)
Definition of_node (n : node) : option wmsg :=
  match n with
  | NMap l =>
      if negb (Nat.eqb (List.length l) 3) then None else
      a <- lookup "IsRq" l ; isrq <- get_bool a ;
      rq <- lookup "Request" l ; rs <- lookup "Response" l ;
      if isrq then
        match rq with NNull => None | x => r <- req_of_node x ; Some (WReq r) end
      else
        match rs with NNull => None | x => r <- resp_of_node x ; Some (WResp r) end
  | _ => None
  end.

(* FromNet *)
Definition from_net (s : string) : option wmsg := n <- decode s ; of_node n.

(* the message as DAG-CBOR data: payload maps in canonical order, null payload = none *)
Definition canon_opt (o : option node) : option node :=
  match o with Some NNull => None | Some n => Some (canon n) | None => None end.
Definition canon_msg (m : wmsg) : wmsg :=
  match m with
  | WReq r => WReq (mkWReq (rq_basecid r) (rq_type r) (rq_pause r) (rq_partial r) (rq_pull r)
                           (canon_opt (rq_selector r)) (canon_opt (rq_voucher r)) (rq_vtype r) (rq_xferid r) (rq_restart r))
  | WResp r => WResp (mkWResp (rs_type r) (rs_accepted r) (rs_paused r) (rs_xferid r) (canon_opt (rs_vres r)) (rs_vtype r))
  end.

(* well-formed: everything fits 64 bits *)
Definition wf_opt (o : option node) : Prop := match o with Some n => wf n | None => True end.
Definition wf_str (s : string) : Prop := (N.of_nat (S (String.length s)) < two64)%N.
Definition wf_msg (m : wmsg) : Prop :=
  match m with
  | WReq r => (rq_type r < two64)%N /\ (rq_xferid r < two64)%N /\ wf_opt (rq_selector r) /\ wf_opt (rq_voucher r) /\
              wf_str (rq_vtype r) /\ match rq_basecid r with Some c => wf_str c | None => True end /\
              wf_str (wc_init (rq_restart r)) /\ wf_str (wc_resp (rq_restart r)) /\ (wc_id (rq_restart r) < two64)%N
  | WResp r => (rs_type r < two64)%N /\ (rs_xferid r < two64)%N /\ wf_opt (rs_vres r) /\ wf_str (rs_vtype r)
  end.
