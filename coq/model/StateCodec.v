(* channels/internal: the record as it lies in the datastore.  cbor-gen, map encoding for
   ChannelState / EncodedVoucher / EncodedVoucherResult (keys written in canonical order), tuple
   encoding for ChannelStages / ChannelStage / Log (types_cbor_gen.go), vouchers and the selector
   as embedded DAG-CBOR (CborGenCompatibleNode).  Everything is expressed through the IPLD value
   model of Cbor.v, so the bytes are Cbor.encode of a node.

   Encoder limits (cbor-gen refuses to write): an undefined base CID, a text field longer than
   8192 bytes, a slice longer than 8192 entries.
   Decoder (UnmarshalCBOR): starts from the zero record, reads the map entries in the order they
   come, a known key sets its field (a later duplicate wins), an unknown key is skipped, a value of
   the wrong shape or above the limits fails the whole record. *)
From Coq Require Import List NArith ZArith String Ascii Bool.
From DT Require Import Cbor.
Import ListNotations.
Local Open Scope string_scope.

Definition i64 : Type := (bool * N)%type.        (* (false, a) = a ; (true, a) = -1 - a *)

Record evoucher := mkEV { ev_type : string; ev_node : node }.          (* NNull = nil node *)
Record slog := mkLog { lg_text : string; lg_time : i64 }.
Record stage := mkStage { sg_name : string; sg_desc : string; sg_created : i64; sg_updated : i64;
                          sg_logs : list (option slog) }.
Record cstate := mkCState {
  st_self : string; st_xfer : N; st_init : string; st_resp : string;
  st_basecid : option string;                    (* None = cid.Undef *)
  st_selector : node;
  st_sender : string; st_recipient : string;
  st_total : N; st_status : N; st_queued : N; st_sent : N; st_received : N;
  st_message : string;
  st_vouchers : list evoucher; st_results : list evoucher;
  st_rbt : i64; st_qbt : i64; st_sbt : i64;
  st_limit : N;
  st_reqfin : bool; st_rpaused : bool; st_ipaused : bool;
  st_stages : option (list (option stage))       (* None = nil *ChannelStages *)
}.

Definition zero_state : cstate :=
  mkCState "" 0 "" "" None NNull "" "" 0 0 0 0 0 "" [] [] (false, 0%N) (false, 0%N) (false, 0%N) 0 false false false None.

(* ---------- to IPLD ---------- *)
Definition int_node (i : i64) : node := NInt (fst i) (snd i).
Definition log_node (l : option slog) : node :=
  match l with None => NNull | Some l => NList [NString (lg_text l); int_node (lg_time l)] end.
Definition stage_node (s : option stage) : node :=
  match s with
  | None => NNull
  | Some s => NList [NString (sg_name s); NString (sg_desc s); int_node (sg_created s); int_node (sg_updated s);
                     NList (map log_node (sg_logs s))]
  end.
Definition stages_node (o : option (list (option stage))) : node :=
  match o with None => NNull | Some l => NList [NList (map stage_node l)] end.
Definition voucher_node (key : string) (v : evoucher) : node :=
  NMap [("Type", NString (ev_type v)); (key, ev_node v)].
Definition cid_node (o : option string) : node := match o with Some c => NLink c | None => NNull end.

Definition state_entries (s : cstate) : list (string * node) :=
  [("Sent", NInt false (st_sent s)); ("Queued", NInt false (st_queued s)); ("Sender", NString (st_sender s));
   ("Stages", stages_node (st_stages s)); ("Status", NInt false (st_status s)); ("BaseCid", cid_node (st_basecid s));
   ("Message", NString (st_message s)); ("Received", NInt false (st_received s)); ("Selector", st_selector s);
   ("SelfPeer", NString (st_self s)); ("Vouchers", NList (map (voucher_node "Voucher") (st_vouchers s)));
   ("DataLimit", NInt false (st_limit s)); ("Initiator", NString (st_init s)); ("Recipient", NString (st_recipient s));
   ("Responder", NString (st_resp s)); ("TotalSize", NInt false (st_total s)); ("TransferID", NInt false (st_xfer s));
   ("VoucherResults", NList (map (voucher_node "VoucherResult") (st_results s)));
   ("InitiatorPaused", NBool (st_ipaused s)); ("ResponderPaused", NBool (st_rpaused s));
   ("SentBlocksTotal", int_node (st_sbt s)); ("QueuedBlocksTotal", int_node (st_qbt s));
   ("ReceivedBlocksTotal", int_node (st_rbt s)); ("RequiresFinalization", NBool (st_reqfin s))].
Definition state_node (s : cstate) : node := NMap (state_entries s).

(* ---------- what the encoder refuses ---------- *)
Definition max_len : N := 8192.
Definition short (s : string) : bool := (N.of_nat (String.length s) <=? max_len)%N.
Definition few {A} (l : list A) : bool := (N.of_nat (List.length l) <=? max_len)%N.
Definition log_ok (l : option slog) : bool := match l with None => true | Some l => short (lg_text l) end.
Definition stage_ok (s : option stage) : bool :=
  match s with
  | None => true
  | Some s => short (sg_name s) && short (sg_desc s) && few (sg_logs s) && forallb log_ok (sg_logs s)
  end.
Definition voucher_ok (v : evoucher) : bool := short (ev_type v).
Definition encodable (s : cstate) : bool :=
  match st_basecid s with None => false | Some _ => true end &&
  short (st_self s) && short (st_init s) && short (st_resp s) && short (st_sender s) && short (st_recipient s) &&
  short (st_message s) &&
  few (st_vouchers s) && forallb voucher_ok (st_vouchers s) && few (st_results s) && forallb voucher_ok (st_results s) &&
  match st_stages s with None => true | Some l => few l && forallb stage_ok l end.

(* MarshalCBOR *)
Definition st_encode (s : cstate) : option string :=
  if encodable s then Some (encode (state_node s)) else None.

(* ---------- from IPLD ---------- *)
Notation "x <- e ; f" := (match e with Some x => f | None => None end) (at level 60, right associativity).

Definition g_uint (n : node) : option N := match n with NInt false a => Some a | _ => None end.
Definition g_int (n : node) : option i64 :=            (* int64: magnitude below 2^63 *)
  match n with NInt neg a => if (a <? 9223372036854775808)%N then Some (neg, a) else None | _ => None end.
Definition g_bool (n : node) : option bool := match n with NBool b => Some b | _ => None end.
Definition g_str (n : node) : option string :=
  match n with NString s => if short s then Some s else None | _ => None end.
Definition g_cid (n : node) : option (option string) := match n with NLink c => Some (Some c) | _ => None end.

Fixpoint all_some {A B} (f : A -> option B) (l : list A) : option (list B) :=
  match l with
  | [] => Some []
  | x :: r => y <- f x ; t <- all_some f r ; Some (y :: t)
  end.
Definition g_list {B} (f : node -> option B) (n : node) : option (list B) :=
  match n with NList l => if few l then all_some f l else None | _ => None end.

Definition log_of (n : node) : option (option slog) :=
  match n with
  | NNull => Some None
  | NList [a; b] => t <- g_str a ; u <- g_int b ; Some (Some (mkLog t u))
  | _ => None
  end.
Definition stage_of (n : node) : option (option stage) :=
  match n with
  | NNull => Some None
  | NList [a; b; c; d; e] =>
      nm <- g_str a ; ds <- g_str b ; ct <- g_int c ; ut <- g_int d ; lg <- g_list log_of e ;
      Some (Some (mkStage nm ds ct ut lg))
  | _ => None
  end.
Definition stages_of (n : node) : option (option (list (option stage))) :=
  match n with
  | NNull => Some None
  | NList [a] => l <- g_list stage_of a ; Some (Some l)
  | _ => None
  end.

(* a field the record type does not know is skipped by cbg.ScanForLinks, which reads every head
   with cbor-gen's canonical-integer check: a 64-bit float whose bit pattern fits 32 bits is taken
   for a non-canonical integer and fails the whole record *)
Fixpoint scan_ok (n : node) : bool :=
  match n with
  | NFloat bits => (4294967295 <? bits)%N
  | NList l => forallb scan_ok l
  | NMap l => forallb (fun p => scan_ok (snd p)) l
  | _ => true
  end.

(* EncodedVoucher / EncodedVoucherResult: the same lenient map reader, two known keys *)
Fixpoint voucher_fields (key : string) (l : list (string * node)) (acc : evoucher) : option evoucher :=
  match l with
  | [] => Some acc
  | (k, v) :: r =>
      if String.eqb k "Type" then t <- g_str v ; voucher_fields key r (mkEV t (ev_node acc))
      else if String.eqb k key then voucher_fields key r (mkEV (ev_type acc) v)
      else if scan_ok v then voucher_fields key r acc else None
  end.
Definition voucher_of (key : string) (n : node) : option evoucher :=
  match n with NMap l => if few l then voucher_fields key l (mkEV "" NNull) else None | _ => None end.

(* generated-code detail: an empty array does not replace a slice that an earlier duplicate of the
   key filled, and a null does not reset a pointer that an earlier duplicate set *)
Definition or_old {A} (new old : list A) : list A := match new with [] => old | _ => new end.
Definition or_old_ptr {A} (new old : option A) : option A := match new with None => old | Some _ => new end.

Definition set_field (s : cstate) (k : string) (v : node) : option cstate :=
  let '(mkCState self xfer init resp bc sel snd_ rcp tot sta que sen rec msg vs rs rbt qbt sbt lim rf rp ip sg) := s in
  if String.eqb k "Sent" then x <- g_uint v ; Some (mkCState self xfer init resp bc sel snd_ rcp tot sta que x rec msg vs rs rbt qbt sbt lim rf rp ip sg)
  else if String.eqb k "Queued" then x <- g_uint v ; Some (mkCState self xfer init resp bc sel snd_ rcp tot sta x sen rec msg vs rs rbt qbt sbt lim rf rp ip sg)
  else if String.eqb k "Sender" then x <- g_str v ; Some (mkCState self xfer init resp bc sel x rcp tot sta que sen rec msg vs rs rbt qbt sbt lim rf rp ip sg)
  else if String.eqb k "Stages" then x <- stages_of v ; Some (mkCState self xfer init resp bc sel snd_ rcp tot sta que sen rec msg vs rs rbt qbt sbt lim rf rp ip (or_old_ptr x sg))
  else if String.eqb k "Status" then x <- g_uint v ; Some (mkCState self xfer init resp bc sel snd_ rcp tot x que sen rec msg vs rs rbt qbt sbt lim rf rp ip sg)
  else if String.eqb k "BaseCid" then x <- g_cid v ; Some (mkCState self xfer init resp x sel snd_ rcp tot sta que sen rec msg vs rs rbt qbt sbt lim rf rp ip sg)
  else if String.eqb k "Message" then x <- g_str v ; Some (mkCState self xfer init resp bc sel snd_ rcp tot sta que sen rec x vs rs rbt qbt sbt lim rf rp ip sg)
  else if String.eqb k "Received" then x <- g_uint v ; Some (mkCState self xfer init resp bc sel snd_ rcp tot sta que sen x msg vs rs rbt qbt sbt lim rf rp ip sg)
  else if String.eqb k "Selector" then Some (mkCState self xfer init resp bc v snd_ rcp tot sta que sen rec msg vs rs rbt qbt sbt lim rf rp ip sg)
  else if String.eqb k "SelfPeer" then x <- g_str v ; Some (mkCState x xfer init resp bc sel snd_ rcp tot sta que sen rec msg vs rs rbt qbt sbt lim rf rp ip sg)
  else if String.eqb k "Vouchers" then x <- g_list (voucher_of "Voucher") v ; Some (mkCState self xfer init resp bc sel snd_ rcp tot sta que sen rec msg (or_old x vs) rs rbt qbt sbt lim rf rp ip sg)
  else if String.eqb k "DataLimit" then x <- g_uint v ; Some (mkCState self xfer init resp bc sel snd_ rcp tot sta que sen rec msg vs rs rbt qbt sbt x rf rp ip sg)
  else if String.eqb k "Initiator" then x <- g_str v ; Some (mkCState self xfer x resp bc sel snd_ rcp tot sta que sen rec msg vs rs rbt qbt sbt lim rf rp ip sg)
  else if String.eqb k "Recipient" then x <- g_str v ; Some (mkCState self xfer init resp bc sel snd_ x tot sta que sen rec msg vs rs rbt qbt sbt lim rf rp ip sg)
  else if String.eqb k "Responder" then x <- g_str v ; Some (mkCState self xfer init x bc sel snd_ rcp tot sta que sen rec msg vs rs rbt qbt sbt lim rf rp ip sg)
  else if String.eqb k "TotalSize" then x <- g_uint v ; Some (mkCState self xfer init resp bc sel snd_ rcp x sta que sen rec msg vs rs rbt qbt sbt lim rf rp ip sg)
  else if String.eqb k "TransferID" then x <- g_uint v ; Some (mkCState self x init resp bc sel snd_ rcp tot sta que sen rec msg vs rs rbt qbt sbt lim rf rp ip sg)
  else if String.eqb k "VoucherResults" then x <- g_list (voucher_of "VoucherResult") v ; Some (mkCState self xfer init resp bc sel snd_ rcp tot sta que sen rec msg vs (or_old x rs) rbt qbt sbt lim rf rp ip sg)
  else if String.eqb k "InitiatorPaused" then x <- g_bool v ; Some (mkCState self xfer init resp bc sel snd_ rcp tot sta que sen rec msg vs rs rbt qbt sbt lim rf rp x sg)
  else if String.eqb k "ResponderPaused" then x <- g_bool v ; Some (mkCState self xfer init resp bc sel snd_ rcp tot sta que sen rec msg vs rs rbt qbt sbt lim rf x ip sg)
  else if String.eqb k "SentBlocksTotal" then x <- g_int v ; Some (mkCState self xfer init resp bc sel snd_ rcp tot sta que sen rec msg vs rs rbt qbt x lim rf rp ip sg)
  else if String.eqb k "QueuedBlocksTotal" then x <- g_int v ; Some (mkCState self xfer init resp bc sel snd_ rcp tot sta que sen rec msg vs rs rbt x sbt lim rf rp ip sg)
  else if String.eqb k "ReceivedBlocksTotal" then x <- g_int v ; Some (mkCState self xfer init resp bc sel snd_ rcp tot sta que sen rec msg vs rs x qbt sbt lim rf rp ip sg)
  else if String.eqb k "RequiresFinalization" then x <- g_bool v ; Some (mkCState self xfer init resp bc sel snd_ rcp tot sta que sen rec msg vs rs rbt qbt sbt lim x rp ip sg)
  else if scan_ok v then Some s else None.

Fixpoint read_fields (l : list (string * node)) (s : cstate) : option cstate :=
  match l with
  | [] => Some s
  | (k, v) :: r => s' <- set_field s k v ; read_fields r s'
  end.

Definition state_of_node (n : node) : option cstate :=
  match n with NMap l => if few l then read_fields l zero_state else None | _ => None end.

(* UnmarshalCBOR *)
Definition st_decode (b : string) : option cstate := n <- decode b ; state_of_node n.

(* ---------- the record as DAG-CBOR data ---------- *)
Definition canon_voucher (v : evoucher) : evoucher := mkEV (ev_type v) (canon (ev_node v)).
Definition canon_state (s : cstate) : cstate :=
  let '(mkCState self xfer init resp bc sel snd_ rcp tot sta que sen rec msg vs rs rbt qbt sbt lim rf rp ip sg) := s in
  mkCState self xfer init resp bc (canon sel) snd_ rcp tot sta que sen rec msg (map canon_voucher vs) (map canon_voucher rs)
           rbt qbt sbt lim rf rp ip sg.

(* ---------- well-formed: numbers in their Go ranges ---------- *)
Definition two63 : N := 9223372036854775808.
Definition wf_i64 (i : i64) : Prop := (snd i < two63)%N.
Definition wf_log (l : option slog) : Prop := match l with None => True | Some l => wf_i64 (lg_time l) end.
Definition wf_stage (s : option stage) : Prop :=
  match s with None => True | Some s => wf_i64 (sg_created s) /\ wf_i64 (sg_updated s) /\ Forall wf_log (sg_logs s) end.
Definition wf_state (s : cstate) : Prop :=
  (st_xfer s < two64)%N /\ (st_total s < two64)%N /\ (st_status s < two64)%N /\ (st_queued s < two64)%N /\
  (st_sent s < two64)%N /\ (st_received s < two64)%N /\ (st_limit s < two64)%N /\
  wf_i64 (st_rbt s) /\ wf_i64 (st_qbt s) /\ wf_i64 (st_sbt s) /\
  wf (st_selector s) /\ Forall (fun v => wf (ev_node v)) (st_vouchers s) /\ Forall (fun v => wf (ev_node v)) (st_results s) /\
  match st_basecid s with Some c => (N.of_nat (S (String.length c)) < two64)%N | None => True end /\
  match st_stages s with Some l => Forall wf_stage l | None => True end.
