(* transport/graphsync/graphsync.go: the adaptor between graphsync hooks and the data-transfer
   events handler.  graphsync itself is not modelled: its callbacks are the inputs, its API
   calls and hook actions are outputs.  The events handler's answers are oracle values. *)
From Coq Require Import List NArith ZArith String Bool.
From RecordUpdate Require Import RecordSet.
From DT Require Import GenStatus GenEvent GenMsgType FsmTypes GenFsm Fsm View Msg.
Import ListNotations RecordSetNotations.

(* per-channel record (dtChannel) *)
Record tchan := mkTC {
  tc_open : bool;              (* isOpen *)
  tc_req : option N;           (* requestID: current graphsync request *)
  tc_rcancel : bool;           (* requesterCancelled *)
  tc_xfer : bool;              (* xferStarted *)
  tc_pending : list msg;       (* pendingExtensions (as the messages they carry) *)
  tc_store : bool              (* storeRegistered *)
}.
#[export] Instance eta_tchan : Settable _ := settable! mkTC <tc_open; tc_req; tc_rcancel; tc_xfer; tc_pending; tc_store>.
Definition new_tchan : tchan := mkTC false None false false [] false.

Record tstate := mkTS {
  ts_self : N;
  ts_chans : list (chid * tchan);              (* dtChannels *)
  ts_reqmap : list (N * (bool * chid));        (* requestIDToChannelID: request -> (sending, channel) *)
  ts_nextreq : N;                              (* ids the local graphsync assigns to outgoing requests *)
  ts_out : list (N * chid)                     (* running outgoing requests and the channel each was opened for *)
}.
#[export] Instance eta_tstate : Settable _ := settable! mkTS <ts_self; ts_chans; ts_reqmap; ts_nextreq; ts_out>.
Definition init_tstate (self : N) : tstate := mkTS self [] [] 100 [].

(* answers of the events handler *)
Inductive hret : Set := HNil | HPause | HErr.
Record hans := mkAns { ha_ret : hret; ha_msg : option msg }.
Definition ans_nil : hans := mkAns HNil None.

(* calls into the events handler *)
Inductive hcall : Type :=
| HChannelOpened (k : chid)
| HTransferInitiated (k : chid)
| HDataReceived (k : chid) (size : N) (index : Z) (unique : bool)
| HDataQueued (k : chid) (size : N) (index : Z) (unique : bool)
| HDataSent (k : chid) (size : N) (index : Z) (unique : bool)
| HRequestReceived (k : chid) (m : msg)
| HResponseReceived (k : chid) (m : msg)
| HChannelCompleted (k : chid) (failed : bool)
| HRequestCancelled (k : chid)
| HSendDataError (k : chid)
| HReceiveDataError (k : chid).

Definition hcall_chid (h : hcall) : chid :=
  match h with
  | HChannelOpened k | HTransferInitiated k | HDataReceived k _ _ _ | HDataQueued k _ _ _
  | HDataSent k _ _ _ | HRequestReceived k _ | HResponseReceived k _ | HChannelCompleted k _
  | HRequestCancelled k | HSendDataError k | HReceiveDataError k => k
  end.

(* which extension names a message is attached under *)
Inductive extset : Set := EDefault | EIncomingReq | EOutgoingBlk.

Inductive gscmd : Type :=
| GRequest (to : N) (m : msg) (skip : option Z)     (* gs.Request with the dt extension and the do-not-send-first-blocks count *)
| GCancel (rid : N)
| GPause (rid : N)
| GUnpause (rid : N) (ms : list msg)
| GRegisterStore (k : chid)
| GUnregisterStore (k : chid).

Inductive hookact : Type :=
| ASendExt (e : extset) (m : msg)
| AUpdateRequest (m : msg)
| ATerminate
| APauseResponse
| APauseRequest
| AValidate
| AUseStore (k : chid).

Inductive tout : Type :=
| OH (h : hcall)
| OGs (c : gscmd) (ok : bool)
| OAct (a : hookact)
| ORet (ok : bool).

(* graphsync response status codes that matter *)
Inductive gstatus : Set := SFull | SCancelled | SOtherStatus.
(* how an outgoing request ended (last error on its error channel) *)
Inductive gdone : Set := DOk | DClientCancelled | DResponderCancelled | DError.

Inductive tin : Type :=
| XOpenChannel (to : N) (k : chid) (received : option Z) (m : msg)   (* received = ReceivedCidsTotal of the stored channel, if given *)
| XPause (k : chid)
| XResume (k : chid) (m : option msg)
| XClose (k : chid)
| XCleanup (k : chid)
| XUseStore (k : chid)
| GIncomingRequest (p : N) (rid : N) (m : option msg)
| GRequestProcessing (rid : N)
| GIncomingBlock (rid : N) (size : N) (index : Z) (onwire : bool)
| GOutgoingBlock (rid : N) (size : N) (index : Z) (onwire : bool)
| GBlockSent (rid : N) (size : N) (index : Z) (onwire : bool)
| GCompletedResponse (rid : N) (st : gstatus)
| GRequestUpdated (p : N) (rid : N) (m : option msg)
| GIncomingResponse (p : N) (rid : N) (m1 : option msg) (m2 : option msg)  (* incoming-request/default ext, outgoing-block ext *)
| GRequestorCancelled (rid : N)
| GNetSendError (rid : N)
| GNetRecvError (p : N)
| GRequestDone (rid : N) (d : gdone).       (* the local graphsync closed the channels of an outgoing request *)

(* ---------- association lists ---------- *)
Fixpoint tlookup (k : chid) (l : list (chid * tchan)) : option tchan :=
  match l with [] => None | (k', c) :: r => if triple_eqb k' k then Some c else tlookup k r end.
Fixpoint tremove (k : chid) (l : list (chid * tchan)) : list (chid * tchan) :=
  match l with [] => [] | (k', c) :: r => if triple_eqb k' k then tremove k r else (k', c) :: tremove k r end.
Definition tset (k : chid) (c : tchan) (l : list (chid * tchan)) : list (chid * tchan) :=
  match tlookup k l with
  | Some _ => map (fun p => if triple_eqb (fst p) k then (fst p, c) else p) l
  | None => l ++ [(k, c)]
  end.
Definition track (k : chid) (s : tstate) : tchan := match tlookup k (ts_chans s) with Some c => c | None => new_tchan end.

Fixpoint rlookup (r : N) (l : list (N * (bool * chid))) : option chid :=
  match l with [] => None | (r', (_, k)) :: t => if N.eqb r' r then Some k else rlookup r t end.
Definition rset (r : N) (sending : bool) (k : chid) (l : list (N * (bool * chid))) :=
  (r, (sending, k)) :: filter (fun p => negb (N.eqb (fst p) r)) l.
Definition rdelete_refs (k : chid) (l : list (N * (bool * chid))) :=
  filter (fun p => negb (triple_eqb (snd (snd p)) k)) l.

Definition pop_ans (l : list hans) : hans * list hans :=
  match l with [] => (ans_nil, []) | a :: r => (a, r) end.

Definition set_chan (s : tstate) (k : chid) (c : tchan) : tstate := s <| ts_chans := tset k c (ts_chans s) |>.

(* processExtension: a request is only accepted on a channel the remote peer initiated, a
   response only on a channel self initiated *)
Definition process_extension (s : tstate) (k : chid) (p : N) (m : msg) (a : hans) : list tout * option msg * hret * bool :=
  (* returns (outputs, response message, handler verdict, handler consulted) *)
  if g_isreq m then
    if triple_eqb k (p, ts_self s, g_tid m) then ([OH (HRequestReceived k m)], ha_msg a, ha_ret a, true)
    else ([], None, HErr, false)
  else
    if triple_eqb k (ts_self s, p, g_tid m) then ([OH (HResponseReceived k m)], None, ha_ret a, true)
    else ([], None, HErr, false).

(* cancelling a running outgoing request makes the local graphsync end it as client-cancelled,
   which executeGsRequest reports as OnRequestCancelled for the channel it was opened for *)
Definition done_calls (rid : N) (out : list (N * chid)) : list tout :=
  match find (fun p => N.eqb (fst p) rid) out with
  | Some (_, k) => [OH (HRequestCancelled k)]
  | None => []
  end.

(* one input; oracle = answers of the events handler in call order *)
Definition tstep (s : tstate) (i : tin) (oracle : list hans) : tstate * list tout :=
  let self := ts_self s in
  match i with
  | XOpenChannel to k received m =>
      let c := track k s in
      (* cancel an existing request first; its completion reports OnRequestCancelled *)
      let '(pre, c1, out1) :=
        match tc_req c with
        | Some old =>
            if tc_rcancel c then ([], c, ts_out s)
            else ([OGs (GCancel old) true] ++ done_calls old (ts_out s), c <| tc_req := None |>,
                  filter (fun p => negb (N.eqb (fst p) old)) (ts_out s))
        | None => ([], c, ts_out s)
        end in
      let rid := ts_nextreq s in
      let '(a, _) := pop_ans oracle in
      (* gs.Request calls the outgoing-request hook: OnChannelOpened *)
      match ha_ret a with
      | HNil =>
          let c2 := c1 <| tc_open := true |> <| tc_req := Some rid |> in
          (s <| ts_nextreq := (rid + 1)%N |> <| ts_reqmap := rset rid false k (ts_reqmap s) |>
             <| ts_chans := tset k c2 (ts_chans s) |> <| ts_out := out1 ++ [(rid, k)] |>,
           pre ++ [OGs (GRequest to m received) true; OH (HChannelOpened k)] ++
           (if tc_store c then [OAct (AUseStore k)] else []) ++ [ORet true])
      | _ =>
          (* OnChannelOpened failed: the hook cleans the channel up and open() never hears back;
             not exercised (the manager's handler only fails for unknown channels) *)
          (s <| ts_nextreq := (rid + 1)%N |> <| ts_out := out1 |>, pre ++ [OGs (GRequest to m received) true; OH (HChannelOpened k); ORet false])
      end
  | XPause k =>
      match tlookup k (ts_chans s) with
      | None => (s, [ORet false])
      | Some c =>
          match tc_req c with
          | None => (s, [ORet true])
          | Some r => if tc_rcancel c then (s, [ORet true]) else (s, [OGs (GPause r) true; ORet true])
          end
      end
  | XResume k m =>
      match tlookup k (ts_chans s) with
      | None => (s, [ORet false])
      | Some c =>
          match tc_req c with
          | None => (s, [ORet true])
          | Some r =>
              let exts := match m with Some x => [x] | None => [] end in
              if tc_rcancel c then (set_chan s k (c <| tc_pending := tc_pending c ++ exts |>), [ORet true])
              else (set_chan s k (c <| tc_xfer := true |>), [OGs (GUnpause r exts) true; ORet true])
          end
      end
  | XClose k =>
      match tlookup k (ts_chans s) with
      | None => (s, [ORet false])
      | Some c =>
          match tc_req c with
          | Some r =>
              if tc_rcancel c then (s, [ORet true])
              else ((set_chan s k (c <| tc_req := None |>)) <| ts_out := filter (fun p => negb (N.eqb (fst p) r)) (ts_out s) |>,
                    [OGs (GCancel r) true; ORet true] ++ done_calls r (ts_out s))
          | None => (s, [ORet true])      (* after fix #4: returns at once *)
          end
      end
  | XCleanup k =>
      match tlookup k (ts_chans s) with
      | None => (s, [])
      | Some c =>
          (s <| ts_chans := tremove k (ts_chans s) |> <| ts_reqmap := rdelete_refs k (ts_reqmap s) |>,
           if tc_store c then [OGs (GUnregisterStore k) true] else [])
      end
  | XUseStore k =>
      (* graphsync refuses a second registration under the same name: the call fails and the
         channel's store stays the one registered first, for the channel's whole lifetime *)
      let c := track k s in
      if tc_store c then (set_chan s k c, [OGs (GRegisterStore k) false; ORet false])
      else (set_chan s k (c <| tc_store := true |>), [OGs (GRegisterStore k) true; ORet true])
  | GIncomingRequest p rid om =>
      match om with
      | None => (s, [])                              (* no data-transfer extension: not ours *)
      | Some m =>
          let k : chid := if g_isreq m then (p, self, g_tid m) else (self, p, g_tid m) in
          if g_isreq m && is_cancel m then
            (* a cancel request is not a request for data: the handler is consulted without
               tracking or locking the channel (it cleans the channel up itself) and the graphsync
               request is terminated whatever it answers (fix #6) *)
            (s, [OH (HRequestReceived k m); OAct ATerminate])
          else
          let c := track k s in
          let '(a, _) := pop_ans oracle in
          let call := if g_isreq m then OH (HRequestReceived k m) else OH (HResponseReceived k m) in
          let resp := if g_isreq m then ha_msg a else None in
          let sendresp := match resp with Some r => [ASendExt EIncomingReq r] | None => [] end in
          match ha_ret a with
          | HErr => (set_chan s k c, [call] ++ map OAct (sendresp ++ [ATerminate]))
          | v =>
              let paused1 := match v with HPause => true | _ => false end in
              let paused := paused1 || (tc_open c && negb (tc_xfer c)) in
              let c1 := if paused then c else c <| tc_xfer := true |> in
              let flush := if tc_rcancel c1 then map (fun x => ASendExt EDefault x) (tc_pending c1) else [] in
              let c2 := if tc_rcancel c1 then c1 <| tc_rcancel := false |> <| tc_pending := [] |> else c1 in
              let c3 := c2 <| tc_req := Some rid |> <| tc_open := true |> in
              (s <| ts_chans := tset k c3 (ts_chans s) |> <| ts_reqmap := rset rid true k (ts_reqmap s) |>,
               [call] ++ map OAct (sendresp ++ (if paused then [APauseResponse] else []) ++ flush ++
                                   (if tc_store c then [AUseStore k] else []) ++ [AValidate]))
          end
      end
  | GRequestProcessing rid =>
      match rlookup rid (ts_reqmap s) with
      | None => (s, [])
      | Some k => (s, [OH (HTransferInitiated k)])
      end
  | GIncomingBlock rid size index onwire =>
      match rlookup rid (ts_reqmap s) with
      | None => (s, [])
      | Some k =>
          let '(a, _) := pop_ans oracle in
          (s, OH (HDataReceived k size index onwire) ::
              match ha_ret a with HNil => [] | HPause => [OAct APauseRequest] | HErr => [OAct ATerminate] end)
      end
  | GOutgoingBlock rid size index onwire =>
      if negb onwire then (s, [])
      else match rlookup rid (ts_reqmap s) with
      | None => (s, [])
      | Some k =>
          let '(a, _) := pop_ans oracle in
          (s, OH (HDataQueued k size index true) ::
              match ha_ret a with
              | HErr => [OAct ATerminate]
              | v => (match v with HPause => [OAct APauseResponse] | _ => [] end) ++
                     (match ha_msg a with Some m => [OAct (ASendExt EOutgoingBlk m)] | None => [] end)
              end)
      end
  | GBlockSent rid size index onwire =>
      if negb onwire then (s, [])
      else match rlookup rid (ts_reqmap s) with
      | None => (s, [])
      | Some k => (s, [OH (HDataSent k size index true)])
      end
  | GCompletedResponse rid st =>
      match rlookup rid (ts_reqmap s) with
      | None => (s, [])
      | Some k =>
          match st with
          | SCancelled => (s, [])
          | SFull => (s, [OH (HChannelCompleted k false)])
          | SOtherStatus => (s, [OH (HChannelCompleted k true)])
          end
      end
  | GRequestUpdated p rid om =>
      match rlookup rid (ts_reqmap s), om with
      | Some k, Some m =>
          let '(a, _) := pop_ans oracle in
          let '(outs, resp, v, _) := process_extension s k p m a in
          (s, outs ++ (match resp with Some r => [OAct (ASendExt EDefault r)] | None => [] end) ++
              (match v with HErr => [OAct ATerminate] | _ => [] end))
      | _, _ => (s, [])
      end
  | GIncomingResponse p rid om1 om2 =>
      match rlookup rid (ts_reqmap s) with
      | None => (s, [])
      | Some k =>
          let '(a1, rest) := pop_ans oracle in
          let '(o1, used1) :=
            match om1 with
            | None => ([], false)
            | Some m =>
                let '(outs, resp, v, used) := process_extension s k p m a1 in
                (* ErrPause = "the local side is still paused": the request is left as it is (fix #7) *)
                (outs ++ (match resp with Some r => [OAct (AUpdateRequest r)] | None => [] end) ++
                 (match v with HErr => [OAct ATerminate] | _ => [] end), used)
            end in
          let a2 := if used1 then fst (pop_ans rest) else a1 in
          let o2 :=
            match om2 with
            | None => []
            | Some m =>
                let '(outs, _, v, _) := process_extension s k p m a2 in
                outs ++ (match v with HErr => [OAct ATerminate] | _ => [] end)
            end in
          (s, o1 ++ o2)
      end
  | GRequestorCancelled rid =>
      match rlookup rid (ts_reqmap s) with
      | None => (s, [])
      | Some k =>
          match tlookup k (ts_chans s) with
          | None => (s, [])
          | Some c => (set_chan s k (c <| tc_rcancel := true |>), [])
          end
      end
  | GNetSendError rid =>
      match rlookup rid (ts_reqmap s) with
      | None => (s, [])
      | Some k => (s, [OH (HSendDataError k)])
      end
  | GNetRecvError p =>
      (s, flat_map (fun e => let k := snd (snd e) in
                             if N.eqb (k_init k) p || N.eqb (k_resp k) p then [OH (HReceiveDataError k)] else [])
                   (ts_reqmap s))
  | GRequestDone rid d =>
      (* executeGsRequest: reports for the channel the request was opened for (captured at open),
         whatever happened to the channel's bookkeeping since *)
      match find (fun p => N.eqb (fst p) rid) (ts_out s) with
      | None => (s, [])
      | Some (_, k) =>
          (s <| ts_out := filter (fun p => negb (N.eqb (fst p) rid)) (ts_out s) |>,
           match d with
           | DOk => [OH (HChannelCompleted k false)]
           | DError => [OH (HChannelCompleted k true)]
           | DClientCancelled => [OH (HRequestCancelled k)]
           | DResponderCancelled => []
           end)
      end
  end.
