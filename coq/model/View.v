(* Decidable equalities and the public accessor view (channels/channel_state.go)
   used by the correspondence checks. *)
From Coq Require Import List NArith ZArith String Bool.
From DT Require Import GenStatus GenEvent FsmTypes GenFsm Fsm.
Import ListNotations.

Fixpoint list_eqb {A} (eqb : A -> A -> bool) (l1 l2 : list A) : bool :=
  match l1, l2 with
  | [], [] => true
  | x :: r1, y :: r2 => eqb x y && list_eqb eqb r1 r2
  | _, _ => false
  end.

Definition option_eqb {A} (eqb : A -> A -> bool) (o1 o2 : option A) : bool :=
  match o1, o2 with
  | None, None => true
  | Some x, Some y => eqb x y
  | _, _ => false
  end.

Definition stage_eqb (a b : stage) : bool :=
  status_eqb (st_name a) (st_name b) && list_eqb String.eqb (st_logs a) (st_logs b).

Definition chan_eqb (a b : chan) : bool :=
  N.eqb (c_self a) (c_self b) && N.eqb (c_tid a) (c_tid b) && N.eqb (c_init a) (c_init b) &&
  N.eqb (c_resp a) (c_resp b) && N.eqb (c_basecid a) (c_basecid b) &&
  N.eqb (c_selector a) (c_selector b) && N.eqb (c_sender a) (c_sender b) &&
  N.eqb (c_recipient a) (c_recipient b) && N.eqb (c_totalsize a) (c_totalsize b) &&
  status_eqb (c_status a) (c_status b) && N.eqb (c_queued a) (c_queued b) &&
  N.eqb (c_sent a) (c_sent b) && N.eqb (c_received a) (c_received b) &&
  String.eqb (c_msg a) (c_msg b) && list_eqb voucher_eqb (c_vouchers a) (c_vouchers b) &&
  list_eqb voucher_eqb (c_results a) (c_results b) && Z.eqb (c_rblocks a) (c_rblocks b) &&
  Z.eqb (c_qblocks a) (c_qblocks b) && Z.eqb (c_sblocks a) (c_sblocks b) &&
  N.eqb (c_limit a) (c_limit b) && Bool.eqb (c_reqfin a) (c_reqfin b) &&
  Bool.eqb (c_rpaused a) (c_rpaused b) && Bool.eqb (c_ipaused a) (c_ipaused b) &&
  option_eqb (list_eqb stage_eqb) (c_stages a) (c_stages b).

(* what datatransfer.ChannelState exposes *)
Record view := mkView {
  w_chid : N * N * N;
  w_self : N; w_other : N; w_sender : N; w_recipient : N;
  w_pull : bool;
  w_basecid : N; w_selector : N; w_totalsize : N;
  w_status : Status;
  w_queued : N; w_sent : N; w_received : N;
  w_qblocks : Z; w_sblocks : Z; w_rblocks : Z;
  w_msg : string;
  w_voucher : voucher;
  w_vouchers : list voucher; w_results : list voucher;
  w_limit : N; w_reqfin : bool;
  w_ipaused : bool; w_rpaused : bool; w_bothpaused : bool; w_selfpaused : bool;
  w_stages : list stage
}.

Definition view_of (c : chan) : view :=
  {| w_chid := chid_of c;
     w_self := c_self c; w_other := other_peer c; w_sender := c_sender c;
     w_recipient := c_recipient c; w_pull := is_pull c;
     w_basecid := c_basecid c; w_selector := c_selector c; w_totalsize := c_totalsize c;
     w_status := c_status c;
     w_queued := c_queued c; w_sent := c_sent c; w_received := c_received c;
     w_qblocks := c_qblocks c; w_sblocks := c_sblocks c; w_rblocks := c_rblocks c;
     w_msg := c_msg c;
     w_voucher := first_voucher c;
     w_vouchers := c_vouchers c; w_results := c_results c;
     w_limit := c_limit c; w_reqfin := c_reqfin c;
     w_ipaused := initiator_paused_view c; w_rpaused := responder_paused_view c;
     w_bothpaused := both_paused_view c; w_selfpaused := self_paused_view c;
     w_stages := match c_stages c with Some l => l | None => [] end |}.

Definition triple_eqb (a b : N * N * N) : bool :=
  let '(a1, a2, a3) := a in let '(b1, b2, b3) := b in
  N.eqb a1 b1 && N.eqb a2 b2 && N.eqb a3 b3.

Definition view_eqb (a b : view) : bool :=
  triple_eqb (w_chid a) (w_chid b) &&
  N.eqb (w_self a) (w_self b) && N.eqb (w_other a) (w_other b) &&
  N.eqb (w_sender a) (w_sender b) && N.eqb (w_recipient a) (w_recipient b) &&
  Bool.eqb (w_pull a) (w_pull b) && N.eqb (w_basecid a) (w_basecid b) &&
  N.eqb (w_selector a) (w_selector b) && N.eqb (w_totalsize a) (w_totalsize b) &&
  status_eqb (w_status a) (w_status b) &&
  N.eqb (w_queued a) (w_queued b) && N.eqb (w_sent a) (w_sent b) &&
  N.eqb (w_received a) (w_received b) && Z.eqb (w_qblocks a) (w_qblocks b) &&
  Z.eqb (w_sblocks a) (w_sblocks b) && Z.eqb (w_rblocks a) (w_rblocks b) &&
  String.eqb (w_msg a) (w_msg b) && voucher_eqb (w_voucher a) (w_voucher b) &&
  list_eqb voucher_eqb (w_vouchers a) (w_vouchers b) &&
  list_eqb voucher_eqb (w_results a) (w_results b) &&
  N.eqb (w_limit a) (w_limit b) && Bool.eqb (w_reqfin a) (w_reqfin b) &&
  Bool.eqb (w_ipaused a) (w_ipaused b) && Bool.eqb (w_rpaused a) (w_rpaused b) &&
  Bool.eqb (w_bothpaused a) (w_bothpaused b) && Bool.eqb (w_selfpaused a) (w_selfpaused b) &&
  list_eqb stage_eqb (w_stages a) (w_stages b).
