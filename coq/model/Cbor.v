(* DAG-CBOR for the IPLD data model, as go-ipld-prime's dagcbor codec lays it down:
   definite lengths, shortest-form heads, map keys sorted length-first then bytewise (RFC 7049
   canonical order, applied by the encoder), links as tag 42 over 0x00 ++ CID bytes, floats
   always 64-bit (kept as their bit pattern).  Byte strings are Coq `string`s (ascii = 8 bits). *)
From Coq Require Import List NArith ZArith String Ascii Bool Arith.
Import ListNotations.
Local Open Scope N_scope.

Inductive node : Type :=
| NNull
| NBool (b : bool)
| NInt (neg : bool) (a : N)      (* non-negative: a ; negative: -1 - a ; a < 2^64 *)
| NFloat (bits : N)              (* IEEE-754 binary64 bit pattern *)
| NString (s : string)           (* text string (bytes are not checked to be UTF-8: peer ids) *)
| NBytes (s : string)
| NList (l : list node)
| NMap (l : list (string * node))
| NLink (cid : string).          (* the binary CID *)

(* ---------- bytes ---------- *)
Definition byte_of (n : N) : ascii := ascii_of_N (n mod 256).
Definition N_of_byte (a : ascii) : N := N_of_ascii a.

(* big-endian, k bytes *)
Fixpoint be (k : nat) (a : N) : string :=
  match k with
  | O => EmptyString
  | S k' => String (byte_of (a / 256 ^ N.of_nat k')) (be k' a)
  end.

Fixpoint from_be (k : nat) (s : string) (acc : N) : option (N * string) :=
  match k with
  | O => Some (acc, s)
  | S k' => match s with
            | EmptyString => None
            | String c r => from_be k' r (acc * 256 + N_of_byte c)
            end
  end.

(* ---------- heads ---------- *)
Definition head (major : N) (a : N) : string :=
  if a <? 24 then String (byte_of (major * 32 + a)) EmptyString
  else if a <? 256 then String (byte_of (major * 32 + 24)) (be 1 a)
  else if a <? 65536 then String (byte_of (major * 32 + 25)) (be 2 a)
  else if a <? 4294967296 then String (byte_of (major * 32 + 26)) (be 4 a)
  else String (byte_of (major * 32 + 27)) (be 8 a).

(* major type, argument, rest.  Non-shortest arguments are accepted (the real decoder is lenient);
   reserved and indefinite-length additional information is rejected *)
Definition dec_head (s : string) : option (N * N * string) :=
  match s with
  | EmptyString => None
  | String c r =>
      let b := N_of_byte c in
      let major := b / 32 in
      let ai := b mod 32 in
      if ai <? 24 then Some (major, ai, r)
      else match (if ai =? 24 then from_be 1 r 0 else if ai =? 25 then from_be 2 r 0
                  else if ai =? 26 then from_be 4 r 0 else if ai =? 27 then from_be 8 r 0 else None) with
           | Some (a, r') => Some (major, a, r')
           | None => None
           end
  end.

(* ---------- canonical map order ---------- *)
Fixpoint str_ltb (a b : string) : bool :=     (* bytewise lexicographic, strict *)
  match a, b with
  | EmptyString, EmptyString => false
  | EmptyString, String _ _ => true
  | String _ _, EmptyString => false
  | String x r, String y t =>
      if N_of_byte x <? N_of_byte y then true
      else if N_of_byte y <? N_of_byte x then false else str_ltb r t
  end.

Definition key_leb (a b : string) : bool :=
  let la := String.length a in let lb := String.length b in
  Nat.ltb la lb || (Nat.eqb la lb && negb (str_ltb b a)).

Fixpoint insert_entry {A} (e : string * A) (l : list (string * A)) : list (string * A) :=
  match l with
  | [] => [e]
  | x :: r => if key_leb (fst e) (fst x) then e :: l else x :: insert_entry e r
  end.
Definition sort_entries {A} (l : list (string * A)) : list (string * A) := fold_right insert_entry [] l.

(* the data-model value the bytes stand for: maps in canonical order, recursively *)
Fixpoint canon (n : node) : node :=
  match n with
  | NList l => NList (map canon l)
  | NMap l => NMap (sort_entries (map (fun p => (fst p, canon (snd p))) l))
  | _ => n
  end.

(* ---------- encoding (entries in the order given) ---------- *)
Fixpoint enc (n : node) : string :=
  match n with
  | NNull => String (byte_of 246) EmptyString
  | NBool b => String (byte_of (if b then 245 else 244)) EmptyString
  | NInt neg a => head (if neg then 1 else 0) a
  | NFloat bits => String (byte_of 251) (be 8 bits)
  | NString s => head 3 (N.of_nat (String.length s)) ++ s
  | NBytes s => head 2 (N.of_nat (String.length s)) ++ s
  | NList l => head 4 (N.of_nat (List.length l)) ++ fold_right (fun x acc => enc x ++ acc) EmptyString l
  | NMap l => head 5 (N.of_nat (List.length l)) ++
              fold_right (fun p acc => (head 3 (N.of_nat (String.length (fst p))) ++ fst p) ++ enc (snd p) ++ acc) EmptyString l
  | NLink c => head 6 42 ++ head 2 (N.of_nat (S (String.length c))) ++ String (byte_of 0) c
  end%string.

(* what dagcbor.Encode writes *)
Definition encode (n : node) : string := enc (canon n).

(* ---------- decoding ---------- *)
Fixpoint take (k : nat) (s : string) : option (string * string) :=
  match k with
  | O => Some (EmptyString, s)
  | S k' => match s with
            | EmptyString => None
            | String c r => match take k' r with Some (a, b) => Some (String c a, b) | None => None end
            end
  end.

Section Items.
  Variable d : string -> option (node * string).   (* the element decoder (one level less fuel) *)
  Fixpoint items (k : nat) (s : string) : option (list node * string) :=
    match k with
    | O => Some ([], s)
    | S k' => match d s with
              | Some (x, s') => match items k' s' with Some (l, s'') => Some (x :: l, s'') | None => None end
              | None => None
              end
    end.
  Fixpoint entries (k : nat) (s : string) : option (list (string * node) * string) :=
    match k with
    | O => Some ([], s)
    | S k' =>
        match dec_head s with
        | Some (mk, kl, s1) =>
            if mk =? 3 then
              match take (N.to_nat kl) s1 with
              | Some (key, s2) =>
                  match d s2 with
                  | Some (v, s3) => match entries k' s3 with Some (l, s4) => Some ((key, v) :: l, s4) | None => None end
                  | None => None
                  end
              | None => None
              end
            else None
        | None => None
        end
    end.
End Items.

Fixpoint dec (fuel : nat) (s : string) : option (node * string) :=
  match fuel with
  | O => None
  | S f =>
      match dec_head s with
      | None => None
      | Some (major, a, r) =>
          if major =? 0 then Some (NInt false a, r)
          else if major =? 1 then Some (NInt true a, r)
          else if major =? 2 then
            match take (N.to_nat a) r with Some (b, r') => Some (NBytes b, r') | None => None end
          else if major =? 3 then
            match take (N.to_nat a) r with Some (b, r') => Some (NString b, r') | None => None end
          else if major =? 4 then
            match items (dec f) (N.to_nat a) r with Some (l, r') => Some (NList l, r') | None => None end
          else if major =? 5 then
            match entries (dec f) (N.to_nat a) r with Some (l, r') => Some (NMap l, r') | None => None end
          else if major =? 6 then
            if a =? 42 then
              match dec_head r with
              | Some (mb, len, r1) =>
                  if mb =? 2 then
                    match take (N.to_nat len) r1 with
                    | Some (String z c, r2) => if N_of_byte z =? 0 then Some (NLink c, r2) else None
                    | _ => None
                    end
                  else None
              | None => None
              end
            else None
          else (* major 7: simple values and floats, addressed by the first byte *)
            match s with
            | String c r0 =>
                let b := N_of_byte c in
                if b =? 244 then Some (NBool false, r0)
                else if b =? 245 then Some (NBool true, r0)
                else if b =? 246 then Some (NNull, r0)
                else if b =? 251 then match from_be 8 r0 0 with Some (bits, r') => Some (NFloat bits, r') | None => None end
                else None
            | EmptyString => None
            end
      end
  end.

(* nesting depth + 1: enough fuel *)
Fixpoint depth (n : node) : nat :=
  match n with
  | NList l => S (fold_right (fun x acc => Nat.max (depth x) acc) 0%nat l)
  | NMap l => S (fold_right (fun p acc => Nat.max (depth (snd p)) acc) 0%nat l)
  | _ => 1%nat
  end.

Definition decode (s : string) : option node :=
  match dec (String.length s + 1) s with
  | Some (n, EmptyString) => Some n
  | _ => None
  end.

(* well-formed: arguments fit 64 bits, lengths fit 64 bits *)
Definition two64 : N := 18446744073709551616.
Fixpoint wf (n : node) : Prop :=
  match n with
  | NInt _ a => a < two64
  | NFloat bits => bits < two64
  | NString s | NBytes s => N.of_nat (String.length s) < two64
  | NLink c => N.of_nat (S (String.length c)) < two64
  | NList l => N.of_nat (List.length l) < two64 /\
      (fix all (l : list node) : Prop := match l with [] => True | x :: r => wf x /\ all r end) l
  | NMap l => N.of_nat (List.length l) < two64 /\
      (fix all (l : list (string * node)) : Prop :=
         match l with [] => True | p :: r => (N.of_nat (String.length (fst p)) < two64 /\ wf (snd p)) /\ all r end) l
  | _ => True
  end.
