(* Subscriber fan-out of the manager: impl.SubscribeToEvents (go-pubsub), the per-transfer
   subscriber table of channelsubscriptions.go (keyed by the full channel id, dropped when the
   channel terminates), fed by the notification stream of the channels' FSM notifier.
   The order in which different subscribers are called for ONE notification is not modelled
   (go-pubsub's unsubscribe does not preserve it); what each subscriber sees is. *)
From Coq Require Import List NArith ZArith Bool.
From DT Require Import Msg.
Import ListNotations.

(* a subscriber: global (SubscribeToEvents) or given with the transfer it was opened for *)
Inductive sid : Type := SG (n : N) | ST (k : chid) (n : N).

Definition chid_eqb (a b : chid) : bool :=
  let '(a1, a2, a3) := a in let '(b1, b2, b3) := b in N.eqb a1 b1 && N.eqb a2 b2 && N.eqb a3 b3.

Definition sid_eqb (a b : sid) : bool :=
  match a, b with
  | SG x, SG y => N.eqb x y
  | ST k x, ST j y => chid_eqb k j && N.eqb x y
  | _, _ => false
  end.

Inductive sop : Type :=
| OSubGlobal (n : N)
| OUnsub (n : N)
| OSubTransfer (k : chid) (n : N)           (* OpenPush/PullDataChannel(..., WithSubscriber) *)
| ONotify (k : chid) (code : N) (terminal : bool).   (* the notifier announces an applied event *)

Record sstate := mkSubs { ss_global : list N; ss_per : list (chid * list N) }.
Definition subs_init : sstate := mkSubs [] [].

Fixpoint per_of (k : chid) (l : list (chid * list N)) : list N :=
  match l with
  | [] => []
  | (j, s) :: r => if chid_eqb j k then s else per_of k r
  end.
Fixpoint per_add (k : chid) (n : N) (l : list (chid * list N)) : list (chid * list N) :=
  match l with
  | [] => [(k, [n])]
  | (j, s) :: r => if chid_eqb j k then (j, s ++ [n]) :: r else (j, s) :: per_add k n r
  end.
Definition per_drop (k : chid) (l : list (chid * list N)) : list (chid * list N) :=
  filter (fun p => negb (chid_eqb (fst p) k)) l.

(* one call: which subscriber, with which (channel, event) *)
Definition scall := (sid * (chid * N))%type.

Definition sstep (s : sstate) (o : sop) : sstate * list scall :=
  match o with
  | OSubGlobal n => (mkSubs (ss_global s ++ [n]) (ss_per s), [])
  | OUnsub n => (mkSubs (filter (fun x => negb (N.eqb x n)) (ss_global s)) (ss_per s), [])
  | OSubTransfer k n => (mkSubs (ss_global s) (per_add k n (ss_per s)), [])
  | ONotify k c term =>
      (mkSubs (ss_global s) (if term then per_drop k (ss_per s) else ss_per s),
       map (fun n => (ST k n, (k, c))) (per_of k (ss_per s)) ++ map (fun n => (SG n, (k, c))) (ss_global s))
  end.

Fixpoint srun (s : sstate) (ops : list sop) : sstate * list scall :=
  match ops with
  | [] => (s, [])
  | o :: r => let '(s1, c1) := sstep s o in let '(s2, c2) := srun s1 r in (s2, c1 ++ c2)
  end.

(* what one subscriber saw, in order *)
Definition log_of (i : sid) (calls : list scall) : list (chid * N) :=
  map snd (filter (fun c => sid_eqb (fst c) i) calls).
