(* Types shared by the generated FSM table (gen/GenFsm.v) and the hand-written
   model of go-statemachine's event processor (model/Fsm.v). *)
From Coq Require Import List NArith ZArith String.
From DT Require Import GenStatus GenEvent.

(* destination of a transition: fsm/eventbuilder.go To / ToNoChange / ToJustRecord *)
Inductive Dest : Set := DTo (s : Status) | DNoChange | DJustRecord.

(* fields of internal.ChannelState that actions may touch, by Go type *)
Inductive U64Field : Set := FTotalSize | FQueued | FSent | FReceived | FDataLimit.
Inductive I64Field : Set := FReceivedBlocksTotal | FQueuedBlocksTotal | FSentBlocksTotal.
Inductive BoolField : Set := FRequiresFinalization | FResponderPaused | FInitiatorPaused.
Inductive StrField : Set := FMessage.
Inductive ListField : Set := FVouchers | FVoucherResults.

Inductive BoolSrc : Set := BLit (b : bool) | BArg.
Inductive StrSrc : Set := SLit (s : string) | SArgErr.
(* chst.AddLog("lit")  |  chst.AddLog("prefix%s", chst.Message) *)
Inductive LogFmt : Set := LLit (s : string) | LFmtMsg (prefix : string).

(* the action language: one constructor per statement shape of ChannelEvents actions *)
Inductive Act : Set :=
| ASetStr (f : StrField) (s : StrSrc)
| ASetBool (f : BoolField) (b : BoolSrc)
| ASetU64 (f : U64Field)
| AAddU64 (f : U64Field)
| AMaxI64 (f : I64Field)
| AAppend (f : ListField)
| ALog (l : LogFmt).

(* Go type of the single event argument *)
Inductive ArgKind : Set := KNone | KInt64 | KUint64 | KErr | KBool | KVoucher.

(* statements of the state entry function cleanupConnection *)
Inductive EntryStep : Set := ECleanupChannel | EUnprotectOther | ETrigger (e : EventCode).
