(* Opening a datastore of the previous schema version: go-ds-versioning's migration run
   (internal/migrate.To / Execute, internal/runner) around the generated record migration
   GenMigrate.migrate_2_3, and the readiness gate of the versioned FSM (pkg/fsm migratedFsm) and
   of the manager (impl.Start / OnReady).  Records are kept per key (the channel id token);
   go-ds-versioning itself is modelled, not verified. *)
From Coq Require Import List NArith ZArith String Bool.
From DT Require Import GenStatus FsmTypes Fsm GenMigrate.
Import ListNotations.

(* /versions/current *)
Inductive ver : Set := VNone (* key absent: a fresh, empty store *) | V2 | V3.

Record store := mkStore {
  st_version : ver;
  st_v2 : list (N * chan2);      (* /2/<id> *)
  st_v3 : list (N * chan)        (* /3/<id> *)
}.

(* VNone only for an empty store (the legacy un-versioned layout is out of scope) *)
Definition wf_store (s : store) : Prop :=
  st_version s = VNone -> st_v2 s = [] /\ st_v3 s = [].

Inductive outcome : Set := Ready | MigrationFailed.

Definition has_key {A} (k : N) (l : list (N * A)) : bool := existsb (fun p => N.eqb (fst p) k) l.

(* migrate.To: run once on Start *)
Definition start (s : store) : store * outcome :=
  match st_version s with
  | VNone => (mkStore V3 (st_v2 s) (st_v3 s), Ready)
  | V3 => (s, Ready)
  | V2 =>
      (* a record whose key already exists under the new version fails the whole migration:
         what was written is deleted again and the version stays *)
      if existsb (fun p => has_key (fst p) (st_v3 s)) (st_v2 s) then (s, MigrationFailed)
      else (mkStore V3 [] (st_v3 s ++ map (fun p => (fst p, migrate_2_3 (snd p))) (st_v2 s)), Ready)
  end.

(* ---------- the readiness gate ---------- *)
Record modl := mkMod {
  md_store : store;
  md_ready : option outcome;        (* None: Start has not finished *)
  md_listeners : nat;               (* OnReady listeners registered so far *)
  md_calls : list (nat * outcome)   (* listener index, what it was told *)
}.

Definition mod_new (s : store) : modl := mkMod s None 0 [].

Definition mod_on_ready (m : modl) : modl :=
  mkMod (md_store m) (md_ready m) (S (md_listeners m)) (md_calls m).

Definition mod_start (m : modl) : modl :=
  match md_ready m with
  | Some _ => m
  | None =>
      let '(s', o) := start (md_store m) in
      mkMod s' (Some o) (md_listeners m) (md_calls m ++ map (fun i => (i, o)) (seq 0 (md_listeners m)))
  end.

(* any channel operation: refused unless migration finished successfully *)
Definition mod_op {R} (m : modl) (f : store -> store * R) : modl * option R :=
  match md_ready m with
  | Some Ready => let '(s', r) := f (md_store m) in (mkMod s' (md_ready m) (md_listeners m) (md_calls m), Some r)
  | _ => (m, None)
  end.

(* a process restart: a new module on the same store *)
Definition restart (m : modl) : modl := mod_new (md_store m).
