(* channels/caches.go + Channels.fireProgressEvent / checkEvents / SetDataLimit,
   for one channel, sequential reporters.  The caches are lazily seeded from the
   durable record (GetByID) and are lost on a process restart. *)
From Coq Require Import List NArith ZArith String Bool.
From RecordUpdate Require Import RecordSet.
From DT Require Import GenStatus GenEvent FsmTypes GenFsm Fsm.
Import ListNotations RecordSetNotations.

Inductive kind : Set := KQueued | KSent | KReceived.

Definition kind_eqb (a b : kind) : bool :=
  match a, b with KQueued, KQueued | KSent, KSent | KReceived, KReceived => true | _, _ => false end.

(* per-channel cache contents: block index high-water marks per event kind, and the
   single progress entry (limit, running total) shared by the limited kinds *)
Record ccache := mkCache {
  ix_q : option Z; ix_s : option Z; ix_r : option Z;
  pg : option (N * N)
}.
#[export] Instance eta_ccache : Settable _ := settable! mkCache <ix_q; ix_s; ix_r; pg>.

Definition empty_cache : ccache := mkCache None None None None.

Definition ix (k : kind) (cc : ccache) : option Z :=
  match k with KQueued => ix_q cc | KSent => ix_s cc | KReceived => ix_r cc end.
Definition set_ix (k : kind) (v : Z) (cc : ccache) : ccache :=
  match k with
  | KQueued => cc <| ix_q := Some v |> | KSent => cc <| ix_s := Some v |>
  | KReceived => cc <| ix_r := Some v |>
  end.

(* durable values the lazy seeding reads (getXIndex / getXProgress) *)
Definition durable_index (k : kind) (c : chan) : Z :=
  match k with KQueued => c_qblocks c | KSent => c_sblocks c | KReceived => c_rblocks c end.
Definition durable_total (k : kind) (c : chan) : N :=
  match k with KQueued => c_queued c | KSent => c_sent c | KReceived => c_received c end.

(* only queued and received reports are checked against the data limit *)
Definition limited (k : kind) : bool := match k with KSent => false | _ => true end.

Definition data_event (k : kind) : EventCode :=
  match k with KQueued => DataQueued | KSent => DataSent | KReceived => DataReceived end.
Definition progress_event (k : kind) : EventCode :=
  match k with KQueued => DataQueuedProgress | KSent => DataSentProgress | KReceived => DataReceivedProgress end.

Definition int_arg (z : Z) : evarg :=
  {| a_int := z; a_uint := 0; a_err := ""; a_bool := false; a_voucher := no_voucher |}.
Definition uint_arg (n : N) : evarg :=
  {| a_int := 0; a_uint := n; a_err := ""; a_bool := false; a_voucher := no_voucher |}.

(* one block report: (kind, size, index, unique) *)
Record report := mkReport { r_kind : kind; r_size : N; r_index : Z; r_unique : bool }.

(* checkEvents + the events fireProgressEvent sends, in order; bool = ErrPause returned.
   `c` is the durable record at the time of the call (read only when seeding). *)
Definition fire (c : chan) (cc : ccache) (r : report) : ccache * list ev * bool :=
  let k := r_kind r in
  let dataev := (data_event k, int_arg (r_index r)) in
  if negb (r_unique r) then (cc, [dataev], false)
  else
    let cur := match ix k cc with Some v => v | None => durable_index k c end in
    if Z.leb (r_index r) cur then (set_ix k cur cc, [dataev], false)
    else
      let cc1 := set_ix k (r_index r) cc in
      let progev := (progress_event k, uint_arg (r_size r)) in
      if negb (limited k) then (cc1, [progev; dataev], false)
      else
        let '(limit, total) := match pg cc1 with
                               | Some p => p
                               | None => (c_limit c, durable_total k c)
                               end in
        let total' := ((total + r_size r) mod two64)%N in
        let pause := negb (N.eqb limit 0) && N.leb limit total' in
        (cc1 <| pg := Some (limit, total') |>,
         [progev; dataev] ++ (if pause then [(DataLimitExceeded, no_arg)] else []),
         pause).

(* Channels.SetDataLimit: update the cached limit only when an entry exists, then the event *)
Definition set_limit (cc : ccache) (l : N) : ccache * list ev :=
  (match pg cc with
   | Some (_, t) => cc <| pg := Some (l, t) |>
   | None => cc
   end,
   [(SetDataLimit, uint_arg l)]).

(* sequential use: the events are applied in order before the next call *)
Definition report_step (st : chan * ccache) (r : report) : chan * ccache * bool :=
  let '(c, cc) := st in
  let '(cc', evs, pause) := fire c cc r in
  (fold_left apply_chan evs c, cc', pause).

Definition run_reports (st : chan * ccache) (rs : list report) : chan * ccache :=
  fold_left (fun st r => fst (report_step st r)) rs st.

(* a process restart keeps the durable record and forgets the caches *)
Definition crash (st : chan * ccache) : chan * ccache := (fst st, empty_cache).
