(* channelmonitor/channelmonitor.go: one monitored channel as a small-step system.  The
   schedule (which goroutine moves next, what ConnectTo / Restart return, which timer fires) is
   the list of labels; real time is not modelled. *)
From Coq Require Import List NArith ZArith Bool.
From RecordUpdate Require Import RecordSet.
Import ListNotations RecordSetNotations.

(* where the (single) restart loop goroutine is *)
Inductive pc : Set :=
| PIdle        (* no loop running *)
| PDo          (* about to run doRestartChannel: count and check the limit *)
| PConnect     (* inside mgr.ConnectTo *)
| PRestart     (* inside mgr.RestartDataTransferChannel *)
| PBackoff     (* waiting out the restart back-off *)
| PFailed.     (* the loop gave up (closed the channel); restartedAt stays set *)

Record cfg := mkCfg {
  cf_max : nat;             (* MaxConsecutiveRestarts > 0 *)
  cf_accept : bool;         (* AcceptTimeout enabled *)
  cf_complete : bool;       (* CompleteTimeout enabled *)
  cf_backoff : bool         (* RestartBackoff > 0 *)
}.

Record mon := mkMon {
  mo_shut : bool;           (* Shutdown has run (cancel == nil): unsubscribed, context cancelled *)
  mo_pending_shut : nat;    (* `go mc.Shutdown()` spawned and not yet run *)
  mo_accept_armed : bool;   (* the accept watcher still waits on its timer *)
  mo_complete_armed : nat;  (* complete watchers waiting on their timers *)
  mo_pc : pc;
  mo_pending_calls : nat;   (* restartChannel() calls spawned by error events, not yet entered *)
  mo_queued : bool;         (* restartQueued *)
  mo_consec : nat           (* consecutiveRestarts *)
}.
#[export] Instance eta_mon : Settable _ := settable! mkMon
  <mo_shut; mo_pending_shut; mo_accept_armed; mo_complete_armed; mo_pc; mo_pending_calls; mo_queued; mo_consec>.

Definition mon_init (c : cfg) : mon := mkMon false 0 (cf_accept c) 0 PIdle 0 false 0.

Definition restarting (m : mon) : bool := match mo_pc m with PIdle => false | _ => true end.

Inductive mlabel : Set :=
| LEvError          (* SendDataError / ReceiveDataError announced for the channel *)
| LEvData           (* DataSent / DataReceived announced *)
| LEvAccept
| LEvFinish         (* FinishTransfer announced *)
| LEvEnding         (* an event whose snapshot is cleaning up or terminal *)
| LRestartCall      (* a (debounced) restartChannel() call starts running *)
| LLoopStep         (* the loop runs doRestartChannel up to its next blocking call *)
| LConnectReturns (ok : bool)
| LRestartReturns (ok : bool)
| LBackoffDone
| LShutdownRuns     (* a spawned Shutdown() takes the lock *)
| LAcceptTimerFires
| LCompleteTimerFires.

Inductive mout : Set := MConnect | MRestart | MClose | MRestartComplete.

(* closeChannelAndShutdown: only the first Shutdown closes the channel *)
Definition close_and_shutdown (m : mon) : mon * list mout :=
  if mo_shut m then (m, []) else (m <| mo_shut := true |>, [MClose]).

(* after a successful attempt: run the queued restart, or finish *)
Definition after_success (m : mon) : mon * list mout :=
  if mo_queued m then (m <| mo_queued := false |> <| mo_pc := PDo |>, [])
  else (m <| mo_pc := PIdle |>, [MRestartComplete]).

Definition mon_step (c : cfg) (m : mon) (l : mlabel) : mon * list mout :=
  match l with
  (* events are only delivered while subscribed *)
  | LEvError => if mo_shut m then (m, []) else (m <| mo_pending_calls := S (mo_pending_calls m) |>, [])
  | LEvData => if mo_shut m then (m, []) else (m <| mo_consec := 0 |>, [])
  | LEvAccept => if mo_shut m then (m, []) else (m <| mo_accept_armed := false |>, [])
  | LEvFinish =>
      if mo_shut m then (m, [])
      else if cf_complete c then (m <| mo_complete_armed := S (mo_complete_armed m) |>, []) else (m, [])
  | LEvEnding => if mo_shut m then (m, []) else (m <| mo_pending_shut := S (mo_pending_shut m) |>, [])
  | LRestartCall =>
      match mo_pending_calls m with
      | O => (m, [])
      | S n =>
          let m1 := m <| mo_pending_calls := n |> in
          if restarting m then (m1 <| mo_queued := true |>, [])
          else (m1 <| mo_pc := PDo |>, [])
      end
  | LLoopStep =>
      match mo_pc m with
      | PDo =>
          let n := S (mo_consec m) in
          let m1 := m <| mo_consec := n |> in
          if Nat.ltb (cf_max c) n then
            let '(m2, o) := close_and_shutdown m1 in (m2 <| mo_pc := PFailed |>, o)
          else (m1 <| mo_pc := PConnect |>, [MConnect])
      | _ => (m, [])
      end
  | LConnectReturns ok =>
      match mo_pc m with
      | PConnect => if ok then (m <| mo_pc := PRestart |>, [MRestart]) else (m <| mo_pc := PDo |>, [])
      | _ => (m, [])
      end
  | LRestartReturns ok =>
      match mo_pc m with
      | PRestart =>
          if ok then
            (* with a back-off configured the loop waits for the timer or the cancelled context *)
            if cf_backoff c && negb (mo_shut m) then (m <| mo_pc := PBackoff |>, [])
            else after_success m
          else (m <| mo_pc := PDo |>, [])
      | _ => (m, [])
      end
  | LBackoffDone =>
      match mo_pc m with
      | PBackoff => after_success m
      | _ => (m, [])
      end
  | LShutdownRuns =>
      match mo_pending_shut m with
      | O => (m, [])
      | S n => (m <| mo_pending_shut := n |> <| mo_shut := true |>, [])
      end
  | LAcceptTimerFires =>
      if mo_accept_armed m then
        let '(m1, o) := close_and_shutdown m in (m1 <| mo_accept_armed := false |>, o)
      else (m, [])
  | LCompleteTimerFires =>
      match mo_complete_armed m with
      | O => (m, [])
      | S n => let '(m1, o) := close_and_shutdown m in (m1 <| mo_complete_armed := n |>, o)
      end
  end.

Definition mon_run (c : cfg) (m : mon) (ls : list mlabel) : mon * list mout :=
  fold_left (fun acc l => let '(m', o) := mon_step c (fst acc) l in (m', snd acc ++ o)) ls (m, []).

(* Monitor.addChannel: with monitoring disabled (cfg == nil) no monitored channel exists *)
Definition add_channel (c : option cfg) : option mon := option_map mon_init c.
Definition omon_step (c : option cfg) (m : option mon) (l : mlabel) : option mon * list mout :=
  match c, m with
  | Some c, Some m => let '(m', o) := mon_step c m l in (Some m', o)
  | _, _ => (None, [])
  end.
Definition omon_run (c : option cfg) (ls : list mlabel) : option mon * list mout :=
  fold_left (fun acc l => let '(m', o) := omon_step c (fst acc) l in (m', snd acc ++ o)) ls (add_channel c, []).
