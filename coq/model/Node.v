(* The manager: impl/impl.go, events.go, receiver.go, receiving_requests.go, restart.go,
   utils.go, environment.go and manager.go (LeaveRequestPaused), as programs over a small
   instruction set (free monad).  Environment answers (validator results, send and
   transport failures) are carried by the input as oracle lists consumed in order.
   The handlers are written for the code as repaired by the fix: commits; the
   pre-fix fragments and their refutations live in proofs/Findings.v. *)
From Coq Require Import List NArith ZArith String Bool.
From RecordUpdate Require Import RecordSet.
From DT Require Import GenStatus GenEvent GenMsgType FsmTypes GenFsm Fsm Machine View Caches Msg.
Import ListNotations RecordSetNotations.

(* ---------- node state ---------- *)
Record cstate := mkCS { cs_m : mstate; cs_cache : ccache }.
#[export] Instance eta_cstate : Settable _ := settable! mkCS <cs_m; cs_cache>.

Record node := mkNode {
  n_self : N;
  n_chans : list (chid * cstate);    (* insertion order = creation order *)
  n_registry : list string;          (* registered voucher types *)
  n_nextid : N
}.
#[export] Instance eta_node : Settable _ := settable! mkNode <n_self; n_chans; n_registry; n_nextid>.

Definition chid_eqb (a b : chid) : bool := triple_eqb a b.

Fixpoint lookup (k : chid) (l : list (chid * cstate)) : option cstate :=
  match l with
  | [] => None
  | (k', c) :: r => if chid_eqb k' k then Some c else lookup k r
  end.
Fixpoint update (k : chid) (c : cstate) (l : list (chid * cstate)) : list (chid * cstate) :=
  match l with
  | [] => []
  | (k', c') :: r => if chid_eqb k' k then (k', c) :: r else (k', c') :: update k c r
  end.

(* ---------- outputs ---------- *)
Inductive vkind : Set := VPush | VPull | VRestart.

Inductive tcmd : Type :=
| TOpen (to : N) (k : chid) (has_state : bool) (m : msg)
| TClose (k : chid)
| TPause (k : chid)
| TResume (k : chid) (m : msg)
| TCleanup (k : chid).

Inductive nout : Type :=
| NEvent (k : chid) (e : EventCode) (v : view)      (* subscriber call *)
| NSent (to : N) (m : msg) (ok : bool)              (* network SendMessage *)
| NTransport (c : tcmd) (ok : bool)                 (* transport call *)
| NValidate (vk : vkind) (k : chid)                 (* validator consulted *)
| NProtect (p : N) (k : chid)
| NUnprotect (p : N) (k : chid).

(* returned error class *)
Inductive nret : Set := ROk | RPause | RRejected | RNotFound | RTerminated | ROther.
Definition ret_ok (r : nret) : bool := match r with ROk => true | _ => false end.

(* ---------- instructions ---------- *)
Inductive sendres : Set := SOk | SNotFound | STerminated.
Definition ret_of_send (s : sendres) : nret :=
  match s with SOk => ROk | SNotFound => RNotFound | STerminated => RTerminated end.

Inductive instr : Type -> Type :=
| IGet (k : chid) : instr (option chan)            (* channels.GetByID *)
| IHas (k : chid) : instr bool                     (* channels.HasChannel *)
| ISend (k : chid) (e : ev) : instr sendres        (* channels.send *)
| ICreate (c : chan) : instr bool                  (* channels.CreateNew ; false = already exists *)
| IReport (k : chid) (r : report) : instr (sendres * bool)   (* fireProgressEvent ; bool = ErrPause *)
| ISetLimit (k : chid) (l : N) : instr sendres     (* channels.SetDataLimit *)
| IValidate (vk : vkind) (k : chid) : instr valres (* the registered validator *)
| IRegistered (t : string) : instr bool            (* validatedTypes.Processor *)
| INetSend (to : N) (m : msg) : instr bool         (* dataTransferNetwork.SendMessage ; true = sent *)
| ITransport (c : tcmd) : instr bool               (* transport call ; true = no error *)
| IProtect (p : N) (k : chid) : instr unit
| INextId : instr N
| ISelf : instr N.

Inductive prog (A : Type) : Type :=
| Ret (a : A)
| Do {X : Type} (i : instr X) (k : X -> prog A).
Arguments Ret {A} a.
Arguments Do {A X} i k.

Fixpoint bind {A B} (p : prog A) (f : A -> prog B) : prog B :=
  match p with
  | Ret a => f a
  | Do i k => Do i (fun x => bind (k x) f)
  end.

Notation "x <- p ;; q" := (bind p (fun x => q)) (at level 61, p at next level, right associativity).
Notation "p ;;; q" := (bind p (fun _ => q)) (at level 61, right associativity).
Definition exec {X} (i : instr X) : prog X := Do i (fun x => Ret x).

(* ---------- interpreter state ---------- *)
Record nstate := mkNS {
  s_node : node;
  s_sendf : list bool;     (* answers for INetSend, in order (true = success) *)
  s_trf : list bool;       (* answers for ITransport *)
  s_vals : list valres;    (* answers for IValidate *)
  s_out : list nout
}.
#[export] Instance eta_nstate : Settable _ := settable! mkNS <s_node; s_sendf; s_trf; s_vals; s_out>.

Definition pop_bool (l : list bool) : bool * list bool :=
  match l with [] => (true, []) | b :: r => (b, r) end.
Definition pop_val (l : list valres) : valres * list valres :=
  match l with [] => (zero_valres, []) | v :: r => (v, r) end.

(* machine outputs become node outputs *)
Definition lift_mout (self : N) (o : mout) : list nout :=
  match o with
  | ONotify e c => [NEvent (chan_id c) e (view_of c)]
  | OCleanupChannel k => [NTransport (TCleanup k) true]
  | OUnprotect p k => [NUnprotect p k]
  | _ => []
  end.

Definition emit (s : nstate) (o : list nout) : nstate := s <| s_out := s_out s ++ o |>.
Definition set_chan (s : nstate) (k : chid) (c : cstate) : nstate :=
  s <| s_node := (s_node s) <| n_chans := update k c (n_chans (s_node s)) |> |>.

(* GetSync's nilEvent: a machine whose record is final terminates when it plans anything *)
Definition msync (m : mstate) : mstate :=
  if is_final (c_status (m_chan m)) then m <| m_dead := true |> <| m_queue := [] |> else m.

Definition send_chan (s : nstate) (k : chid) (cs : cstate) (e : ev) : sendres * nstate :=
  if m_dead (cs_m cs) then (STerminated, s)
  else
    let '(m', o) := deliver (cs_m cs) e in
    (SOk, emit (set_chan s k (cs <| cs_m := m' |>)) (flat_map (lift_mout (n_self (s_node s))) o)).

Fixpoint send_all (s : nstate) (k : chid) (evs : list ev) : sendres * nstate :=
  match evs with
  | [] => (SOk, s)
  | e :: r =>
      match lookup k (n_chans (s_node s)) with
      | None => (SNotFound, s)
      | Some cs =>
          let '(res, s') := send_chan s k cs e in
          match res with SOk => send_all s' k r | _ => (res, s') end
      end
  end.

Definition run_instr {X} (s : nstate) (i : instr X) : X * nstate :=
  match i in instr X return X * nstate with
  | IGet k =>
      match lookup k (n_chans (s_node s)) with
      | None => (None, s)
      | Some cs =>
          let m' := msync (cs_m cs) in
          (Some (m_chan m'), set_chan s k (cs <| cs_m := m' |>))
      end
  | IHas k => (match lookup k (n_chans (s_node s)) with Some _ => true | None => false end, s)
  | ISend k e =>
      match lookup k (n_chans (s_node s)) with
      | None => (SNotFound, s)
      | Some cs => send_chan s k cs e
      end
  | ICreate c =>
      let k := chan_id c in
      match lookup k (n_chans (s_node s)) with
      | Some _ => (false, s)
      | None =>
          (true, s <| s_node := (s_node s) <| n_chans := n_chans (s_node s) ++ [(k, mkCS (m_init c) empty_cache)] |> |>)
      end
  | IReport k r =>
      match lookup k (n_chans (s_node s)) with
      | None => ((SNotFound, false), s)
      | Some cs =>
          let '(cc', evs, pause) := fire (m_chan (cs_m cs)) (cs_cache cs) r in
          (* lazy seeding reads through GetByID, which terminates the machine of a final record *)
          let is_none {T} (o : option T) := match o with None => true | Some _ => false end in
          let ix_miss := r_unique r && is_none (ix (r_kind r) (cs_cache cs)) in
          let advanced := Nat.leb 2 (List.length evs) in
          let pg_miss := advanced && limited (r_kind r) && is_none (pg (cs_cache cs)) in
          let m1 := if ix_miss || pg_miss then msync (cs_m cs) else cs_m cs in
          let s1 := set_chan s k (mkCS m1 cc') in
          let '(res, s2) := send_all s1 k evs in
          ((res, match res with SOk => pause | _ => false end), s2)
      end
  | ISetLimit k l =>
      match lookup k (n_chans (s_node s)) with
      | None => (SNotFound, s)
      | Some cs =>
          let '(cc', evs) := set_limit (cs_cache cs) l in
          send_all (set_chan s k (cs <| cs_cache := cc' |>)) k evs
      end
  | IValidate vk k =>
      let '(v, r) := pop_val (s_vals s) in
      (v, emit (s <| s_vals := r |>) [NValidate vk k])
  | IRegistered t => (existsb (String.eqb t) (n_registry (s_node s)), s)
  | INetSend to m =>
      let '(b, r) := pop_bool (s_sendf s) in
      (b, emit (s <| s_sendf := r |>) [NSent to m b])
  | ITransport c =>
      match c with
      | TCleanup _ => (true, emit s [NTransport c true])     (* CleanupChannel returns nothing *)
      | _ => let '(b, r) := pop_bool (s_trf s) in
             (b, emit (s <| s_trf := r |>) [NTransport c b])
      end
  | IProtect p k => (tt, emit s [NProtect p k])
  | INextId =>
      let n := (n_nextid (s_node s) + 1)%N in
      (n, s <| s_node := (s_node s) <| n_nextid := n |> |>)
  | ISelf => (n_self (s_node s), s)
  end.

Fixpoint run {A} (p : prog A) (s : nstate) : A * nstate :=
  match p with
  | Ret a => (a, s)
  | Do i k => let '(x, s') := run_instr s i in run (k x) s'
  end.

(* ---------- helpers shared by the handlers ---------- *)
Definition err_arg (m : string) : evarg :=
  {| a_int := 0; a_uint := 0; a_err := m; a_bool := false; a_voucher := no_voucher |}.
Definition bool_arg (b : bool) : evarg :=
  {| a_int := 0; a_uint := 0; a_err := ""%string; a_bool := b; a_voucher := no_voucher |}.
Definition voucher_arg (v : voucher) : evarg :=
  {| a_int := 0; a_uint := 0; a_err := ""%string; a_bool := false; a_voucher := v |}.
Definition E : string := "E"%string.     (* every error text is canonicalised to E by the harness *)

Definition send (k : chid) (e : EventCode) (a : evarg) : prog nret :=
  r <- exec (ISend k (e, a)) ;; Ret (ret_of_send r).
Definition send0 (k : chid) (e : EventCode) : prog nret := send k e no_arg.

(* run q only when r is ok, else return r *)
Definition andthen (p : prog nret) (q : prog nret) : prog nret :=
  r <- p ;; if ret_ok r then q else Ret r.
Notation "p >>> q" := (andthen p q) (at level 62, right associativity).

Definition in_finalization (s : Status) : bool := in_status s FinalizationStatuses.
Definition is_accepted (s : Status) : bool := negb (in_status s NotAcceptedStates).

(* manager.go ValidationResult.LeaveRequestPaused *)
Definition leave_paused (vr : valres) (c : chan) : bool :=
  if vr_force vr then true
  else if vr_fin vr && in_finalization (c_status c) then true
  else negb (N.eqb (vr_limit vr) 0) &&
       N.leb (vr_limit vr) (if is_pull c then c_queued c else c_received c).

Definition pause_other (self : N) (k : chid) : prog nret :=
  if N.eqb (k_resp k) self then send0 k PauseInitiator else send0 k PauseResponder.
Definition resume_other (self : N) (k : chid) : prog nret :=
  if N.eqb (k_resp k) self then send0 k ResumeInitiator else send0 k ResumeResponder.
Definition cancel_message (self : N) (k : chid) : msg :=
  if N.eqb (k_init k) self then cancel_request (k_tid k) else cancel_response (k_tid k).
Definition pause_message (self : N) (k : chid) (p : bool) : msg :=
  if N.eqb (k_init k) self then update_request (k_tid k) p else update_response (k_tid k) p.
Definition other_party (self : N) (k : chid) : N :=
  if N.eqb self (k_init k) then k_resp k else k_init k.

(* recordRejectedValidationEvents / recordAcceptedValidationEvents *)
Definition record_rejected (k : chid) (vr : valres) : prog nret :=
  (if vr_hasres vr then send k NewVoucherResult (voucher_arg (vr_res vr)) else Ret ROk) >>>
  send k Error (err_arg E).

Definition record_accepted (c : chan) (vr : valres) : prog nret :=
  let k := chid_of c in
  (if vr_hasres vr && negb (N.eqb (v_node (vr_res vr)) 0)
   then send k NewVoucherResult (voucher_arg (vr_res vr)) else Ret ROk) >>>
  (if negb (N.eqb (vr_limit vr) (c_limit c))
   then r <- exec (ISetLimit k (vr_limit vr)) ;; Ret (ret_of_send r) else Ret ROk) >>>
  (if negb (Bool.eqb (vr_fin vr) (c_reqfin c))
   then send k SetRequiresFinalization (bool_arg (vr_fin vr)) else Ret ROk) >>>
  (if leave_paused vr c
   then (if negb (responder_paused_view c) then send0 k PauseResponder else Ret ROk)
   else (if responder_paused_view c then send0 k ResumeResponder else Ret ROk)).

(* validateRestart (after fix #3: an unregistered voucher type is an error, not a panic) *)
Definition validate_restart (c : chan) : prog (valres * bool) :=   (* bool = lookup/validator error *)
  reg <- exec (IRegistered (v_type (first_voucher c))) ;;
  if negb reg then Ret (zero_valres, true)
  else vr <- exec (IValidate VRestart (chid_of c)) ;; Ret (vr, vr_err vr).

(* ---------- API ---------- *)
Inductive dir : Set := DPush | DPull.

Definition open_channel (d : dir) (to : N) (v : voucher) (basecid selector : N) : prog (nret * option chid) :=
  self <- exec ISelf ;;
  tid <- exec INextId ;;
  match new_request tid false (match d with DPull => true | DPush => false end) v basecid selector with
  | None => Ret (ROther, None)
  | Some req =>
      let c := match d with
               | DPush => create_new self tid basecid selector v self self to
               | DPull => create_new self tid basecid selector v self to self
               end in
      let k := chan_id c in
      ok <- exec (ICreate c) ;;
      if negb ok then Ret (ROther, Some k)
      else
        r <- send0 k Open ;;
        if negb (ret_ok r) then Ret (r, Some k)
        else
          exec (IProtect to k) ;;;
          sent <- match d with
                  | DPush => exec (INetSend to req)
                  | DPull => exec (ITransport (TOpen to k false req))
                  end ;;
          if sent then Ret (ROk, Some k)
          else send k Error (err_arg E) ;;; Ret (ROther, Some k)
  end.

Definition send_voucher (k : chid) (v : voucher) : prog nret :=
  self <- exec ISelf ;;
  oc <- exec (IGet k) ;;
  match oc with
  | None => Ret RNotFound
  | Some c =>
      if negb (N.eqb (k_init k) self) then Ret ROther
      else
        ok <- exec (INetSend (other_peer c) (voucher_request (k_tid k) v)) ;;
        if negb ok then send k Disconnected (err_arg E) ;;; Ret ROther
        else send k NewVoucher (voucher_arg v)
  end.

Definition send_voucher_result (k : chid) (v : voucher) : prog nret :=
  self <- exec ISelf ;;
  oc <- exec (IGet k) ;;
  match oc with
  | None => Ret RNotFound
  | Some c =>
      if N.eqb (k_init k) self then Ret ROther
      else
        let m := if in_finalization (c_status c)
                 then complete_response (k_tid k) (is_accepted (c_status c)) (responder_paused_view c) v
                 else voucher_result_response (k_tid k) (is_accepted (c_status c)) (responder_paused_view c) v in
        ok <- exec (INetSend (other_peer c) m) ;;
        if negb ok then send k Disconnected (err_arg E) ;;; Ret ROther
        else send k NewVoucherResult (voucher_arg v)
  end.

(* UpdateValidationStatus (after fix #2: an error while recording returns before the transport update) *)
Definition update_validation (k : chid) (vr : valres) : prog nret :=
  self <- exec ISelf ;;
  if N.eqb (k_init k) self then Ret ROther
  else
    oc <- exec (IGet k) ;;
    match oc with
    | None => Ret RNotFound
    | Some c =>
        r <- (if negb (vr_accepted vr) then record_rejected k vr else record_accepted c vr) ;;
        if negb (ret_ok r) then Ret r
        else
          let mt := if status_eqb (c_status c) Finalizing then CompleteMessage else VoucherResultMessage in
          let pause := leave_paused vr c in
          let resp := validation_result_response mt (c_tid c) vr false pause in
          let kk := chid_of c in
          if vr_accepted vr && negb pause && responder_paused_view c && negb (in_finalization (c_status c))
          then ok <- exec (ITransport (TResume kk resp)) ;; Ret (if ok then ROk else ROther)
          else
            ok <- exec (INetSend (k_init kk) resp) ;;
            if negb ok then Ret ROther
            else if negb (vr_accepted vr) then exec (ITransport (TClose kk)) ;;; Ret ROk
            else if pause && negb (responder_paused_view c) && negb (in_finalization (c_status c))
            then ok <- exec (ITransport (TPause kk)) ;; Ret (if ok then ROk else ROther)
            else Ret ROk
    end.

Definition swallow_terminated (r : nret) : nret := match r with RTerminated => ROk | x => x end.

Definition close_channel (k : chid) : prog nret :=
  self <- exec ISelf ;;
  oc <- exec (IGet k) ;;
  match oc with
  | None => Ret RNotFound
  | Some c =>
      exec (ITransport (TClose k)) ;;;
      r <- send0 k Cancel ;;
      (* the cancel message is sent asynchronously; the harness lets a failing send return only
         after the Cancel event has been processed *)
      ok <- exec (INetSend (other_peer c) (cancel_message self k)) ;;
      (if negb ok then send k Disconnected (err_arg E) else Ret ROk) ;;;
      Ret (swallow_terminated r)
  end.

Definition close_with_error (k : chid) : prog nret :=
  self <- exec ISelf ;;
  oc <- exec (IGet k) ;;
  match oc with
  | None => Ret RNotFound
  | Some c =>
      exec (ITransport (TClose k)) ;;;
      exec (INetSend (other_peer c) (cancel_message self k)) ;;;
      send k Error (err_arg E)
  end.

Definition pause_channel (k : chid) : prog nret :=
  self <- exec ISelf ;;
  exec (ITransport (TPause k)) ;;;
  ok <- exec (INetSend (other_party self k) (pause_message self k true)) ;;
  if negb ok then send k Disconnected (err_arg E) ;;; Ret ROther
  else if N.eqb (k_init k) self then send0 k PauseInitiator else send0 k PauseResponder.

Definition resume_channel (k : chid) : prog nret :=
  self <- exec ISelf ;;
  exec (ITransport (TResume k (pause_message self k false))) ;;;
  if N.eqb (k_init k) self then send0 k ResumeInitiator else send0 k ResumeResponder.

Definition open_push_restart (c : chan) : prog nret :=
  let k := chid_of c in
  match new_request (k_tid k) true false (first_voucher c) (c_basecid c) (c_selector c) with
  | None => Ret ROther
  | Some req =>
      exec (IProtect (other_peer c) k) ;;;
      ok <- exec (INetSend (other_peer c) req) ;;
      Ret (if ok then ROk else ROther)
  end.

Definition open_pull_restart (c : chan) : prog nret :=
  let k := chid_of c in
  match new_request (k_tid k) true true (first_voucher c) (c_basecid c) (c_selector c) with
  | None => Ret ROther
  | Some req =>
      exec (IProtect (other_peer c) k) ;;;
      ok <- exec (ITransport (TOpen (other_peer c) k true req)) ;;
      Ret (if ok then ROk else ROther)
  end.

Definition restart_received (c : chan) : prog nret :=
  vv <- validate_restart c ;;
  let '(vr, err) := vv in
  if err then Ret ROther
  else if negb (vr_accepted vr) then Ret RRejected
  else
    ok <- exec (INetSend (other_peer c) (restart_existing_request (chid_of c))) ;;
    Ret (if ok then ROk else ROther).

Definition restart_channel (k : chid) : prog nret :=
  self <- exec ISelf ;;
  oc <- exec (IGet k) ;;
  match oc with
  | None => Ret ROther
  | Some c =>
      if is_final (c_status c) then Ret ROk
      else if is_cleanup (c_status c) then send0 (chid_of c) CompleteCleanupOnRestart
      else
        let initiator := k_init (chid_of c) in
        if N.eqb initiator self
        then (if is_pull c then open_pull_restart c else open_push_restart c)
        else restart_received c
  end.

(* ---------- incoming requests ---------- *)
Definition request_error (vr : valres) (err : bool) (stay : bool) : nret :=
  if err then ROther else if negb (vr_accepted vr) then RRejected else if stay then RPause else ROk.

(* acceptRequest: returns the validation result Go returns, and whether an error occurred *)
Definition accept_request (k : chid) (m : msg) : prog (valres * bool) :=
  self <- exec ISelf ;;
  if N.eqb (g_selector m) 0 then Ret (zero_valres, true)
  else if N.eqb (g_vnode m) 0 then Ret (zero_valres, true)
  else
    reg <- exec (IRegistered (g_vtype m)) ;;
    if negb reg then Ret (zero_valres, true)
    else
      vr <- exec (IValidate (if g_pull m then VPull else VPush) k) ;;
      if vr_err vr || negb (vr_accepted vr) then Ret (vr, vr_err vr)
      else
        let v := {| v_type := g_vtype m; v_node := g_vnode m |} in
        let c := if g_pull m
                 then create_new self (g_tid m) (g_basecid m) (g_selector m) v (k_init k) self (k_init k)
                 else create_new self (g_tid m) (g_basecid m) (g_selector m) v (k_init k) (k_init k) self in
        ok <- exec (ICreate c) ;;
        if negb ok then Ret (vr, true)
        else
          r <- (send0 k Open >>> send0 k Accept) ;;
          if negb (ret_ok r) then Ret (vr, true)
          else
            oc <- exec (IGet k) ;;
            match oc with
            | None => Ret (zero_valres, true)
            | Some c1 =>
                r2 <- record_accepted c1 vr ;;
                if negb (ret_ok r2) then Ret (vr, true)
                else exec (IProtect (k_init k) k) ;;; Ret (vr, false)
            end.

Definition receive_new_request (k : chid) (m : msg) : prog (option msg * nret) :=
  vv <- accept_request k m ;;
  let '(vr, err) := vv in
  Ret (Some (validation_result_response NewMessage (g_tid m) vr err (vr_force vr)),
       request_error vr err (vr_force vr)).

(* validateRestartRequest *)
Definition validate_restart_request (from : N) (k : chid) (m : msg) : prog bool :=  (* true = ok *)
  oc <- exec (IGet k) ;;
  match oc with
  | None => Ret false
  | Some c =>
      Ret (negb (is_final (c_status c)) &&
           N.eqb (k_init (chid_of c)) from &&
           N.eqb (g_basecid m) (c_basecid c) &&
           negb (N.eqb (g_vnode m) 0) &&
           String.eqb (g_vtype m) (v_type (first_voucher c)) &&
           N.eqb (g_vnode m) (v_node (first_voucher c)))
  end.

(* restartRequest: (stayPaused, result, error?) *)
Definition restart_request (k : chid) (m : msg) : prog (bool * valres * bool) :=
  self <- exec ISelf ;;
  if N.eqb self (k_init k) then Ret (false, zero_valres, true)
  else
    okv <- validate_restart_request (k_init k) k m ;;
    if negb okv then Ret (false, zero_valres, true)
    else
      oc <- exec (IGet k) ;;
      match oc with
      | None => Ret (false, zero_valres, true)
      | Some c =>
          vv <- validate_restart c ;;
          let '(vr, err) := vv in
          let stay := leave_paused vr c in
          if err then Ret (stay, vr, true)
          else if negb (vr_accepted vr) then
            r <- record_rejected k vr ;; Ret (stay, vr, negb (ret_ok r))
          else
            r <- send0 k Restart ;;
            if negb (ret_ok r) then Ret (stay, vr, true)
            else
              r2 <- record_accepted c vr ;;
              if negb (ret_ok r2) then Ret (stay, vr, true)
              else exec (IProtect (k_init k) k) ;;; Ret (stay, vr, false)
      end.

Definition receive_restart_request (k : chid) (m : msg) : prog (option msg * nret) :=
  x <- restart_request k m ;;
  let '(stay, vr, err) := x in
  Ret (Some (validation_result_response RestartMessage (g_tid m) vr err stay),
       request_error vr err (vr_force vr)).

Definition receive_update_request (k : chid) (m : msg) : prog (option msg * nret) :=
  self <- exec ISelf ;;
  if g_pause m then r <- pause_other self k ;; Ret (None, r)
  else
    r <- resume_other self k ;;
    if negb (ret_ok r) then Ret (None, r)
    else
      oc <- exec (IGet k) ;;
      match oc with
      | None => Ret (None, RNotFound)
      | Some c => Ret (None, if self_paused_view c then RPause else ROk)
      end.

(* manager.OnRequestReceived *)
Definition on_request_received (k : chid) (m : msg) : prog (option msg * nret) :=
  match request_kind m with
  | RKRestart => receive_restart_request k m
  | RKNew => receive_new_request k m
  | RKCancel =>
      exec (ITransport (TCleanup k)) ;;;
      r <- send0 k Cancel ;; Ret (None, swallow_terminated r)
  | RKVoucher =>
      if N.eqb (g_vnode m) 0 then Ret (None, ROther)
      else r <- send k NewVoucher (voucher_arg {| v_type := g_vtype m; v_node := g_vnode m |}) ;; Ret (None, r)
  | RKUpdate => receive_update_request k m
  end.

(* receiver.receiveRequest *)
Definition recv_request (from : N) (m : msg) : prog nret :=
  self <- exec ISelf ;;
  let k : chid := (from, self, g_tid m) in
  x <- on_request_received k m ;;
  let '(resp, err) := x in
  r1 <- match resp with
        | None => Ret ROk
        | Some r =>
            if (is_new r || is_restart r) && g_accepted r && negb (g_pull m) then
              (* push accepted: we are the data receiver and open the transport channel *)
              if is_restart r then
                oc <- exec (IGet k) ;;
                match oc with
                | None => Ret RNotFound
                | Some _ => ok <- exec (ITransport (TOpen from k true r)) ;; Ret (if ok then ROk else ROther)
                end
              else ok <- exec (ITransport (TOpen from k false r)) ;; Ret (if ok then ROk else ROther)
            else ok <- exec (INetSend from r) ;; Ret (if ok then ROk else ROther)
        end ;;
  if negb (ret_ok r1) then Ret r1
  else match err with
       | RPause => ok <- exec (ITransport (TPause k)) ;; Ret (if ok then ROk else ROther)
       | ROk => Ret ROk
       | e => exec (ITransport (TClose k)) ;;; Ret e
       end.

(* manager.OnResponseReceived *)
Definition on_response_received (k : chid) (m : msg) : prog nret :=
  self <- exec ISelf ;;
  if is_cancel m then r <- send0 k Cancel ;; Ret (swallow_terminated r)
  else
    r0 <- (if is_validation_result m then
             (if negb (empty_voucher m) then
                (if N.eqb (g_vnode m) 0 then Ret ROther
                 else send k NewVoucherResult (voucher_arg {| v_type := g_vtype m; v_node := g_vnode m |}))
              else Ret ROk) >>>
             (if negb (g_accepted m) then r <- send k Error (err_arg E) ;; Ret (if ret_ok r then RRejected else r)
              else Ret ROk)
           else Ret ROk) ;;
    (* a rejected validation result returns right after firing the error *)
    match r0 with
    | RRejected => Ret ROk
    | ROk =>
        (if is_new m then send0 k Accept else Ret ROk) >>>
        (if is_restart m then send0 k Restart else Ret ROk) >>>
        (if is_complete m then
           (if negb (g_pause m) then send0 k ResponderCompletes else send0 k ResponderBeginsFinalization)
         else if g_pause m then pause_other self k
         else
           resume_other self k >>>
           (oc <- exec (IGet k) ;;
            match oc with
            | None => Ret RNotFound
            | Some c => Ret (if self_paused_view c then RPause else ROk)
            end))
    | e => Ret e
    end.

(* receiver.receiveResponse *)
Definition recv_response (from : N) (m : msg) : prog nret :=
  self <- exec ISelf ;;
  let k : chid := (self, from, g_tid m) in
  err <- on_response_received k m ;;
  match err with
  | RPause => ok <- exec (ITransport (TPause k)) ;; Ret (if ok then ROk else ROther)
  | ROk => Ret ROk
  | e => exec (ITransport (TClose k)) ;;; Ret e
  end.

(* receiver.ReceiveRestartExistingChannelRequest *)
Definition recv_restart_existing (from : N) (m : msg) : prog nret :=
  self <- exec ISelf ;;
  if negb (is_restart_existing m) then Ret ROk
  else
    let k := g_restart m in
    oc <- exec (IGet k) ;;
    match oc with
    | None => Ret ROk
    | Some c =>
        if negb (N.eqb (k_init (chid_of c)) self) then Ret ROk
        else if negb (N.eqb (other_peer c) from) then Ret ROk
        else if is_final (c_status c) then Ret ROk
        else (if is_pull c then open_pull_restart c else open_push_restart c) ;;; Ret ROk
    end.

(* ---------- transport callbacks ---------- *)
Definition on_channel_opened (k : chid) : prog nret :=
  has <- exec (IHas k) ;;
  if negb has then Ret RNotFound else send0 k Opened.

Definition on_data (kd : kind) (k : chid) (size : N) (index : Z) (unique : bool) : prog (option msg * nret) :=
  x <- exec (IReport k (mkReport kd size index unique)) ;;
  let '(res, pause) := x in
  if pause then
    match kd with
    | KReceived =>
        ok <- exec (INetSend (k_init k) (update_response (k_tid k) true)) ;;
        Ret (None, if ok then RPause else ROther)
    | KQueued => Ret (Some (update_response (k_tid k) true), RPause)
    | KSent => Ret (None, RPause)
    end
  else Ret (None, ret_of_send res).

Definition on_channel_completed (k : chid) (failed : bool) : prog nret :=
  self <- exec ISelf ;;
  oc <- exec (IGet k) ;;
  match oc with
  | None => Ret RNotFound
  | Some c =>
      if failed then
        (if status_eqb (c_status c) Failing || status_eqb (c_status c) Failed then Ret ROk
         else send k Error (err_arg E))
      else if N.eqb (k_init k) self then send0 k FinishTransfer
      else
        ok <- exec (INetSend (k_init k) (complete_response (c_tid c) true (c_reqfin c) no_voucher)) ;;
        if negb ok then send k Disconnected (err_arg E)
        else if c_reqfin c then send0 k BeginFinalizing else send0 k Complete
  end.

(* ---------- inputs ---------- *)
Inductive ninput : Type :=
| AOpen (d : dir) (to : N) (v : voucher) (basecid selector : N)
| ASendVoucher (k : chid) (v : voucher)
| ASendVoucherResult (k : chid) (v : voucher)
| AUpdateValidation (k : chid) (vr : valres)
| AClose (k : chid)
| ACloseWithError (k : chid)
| APause (k : chid)
| AResume (k : chid)
| ARestart (k : chid)
| ARegister (t : string)
| MRequest (from : N) (m : msg)            (* network: ReceiveRequest *)
| MResponse (from : N) (m : msg)           (* network: ReceiveResponse *)
| MRestartExisting (from : N) (m : msg)    (* network: ReceiveRestartExistingChannelRequest *)
| TChannelOpened (k : chid)
| TTransferInitiated (k : chid)
| TData (kd : kind) (k : chid) (size : N) (index : Z) (unique : bool)
| TRequestReceived (k : chid) (m : msg)    (* transport path: OnRequestReceived *)
| TResponseReceived (k : chid) (m : msg)   (* transport path: OnResponseReceived *)
| TRequestCancelled (k : chid)
| TRequestDisconnected (k : chid)
| TSendDataError (k : chid)
| TReceiveDataError (k : chid)
| TChannelCompleted (k : chid) (failed : bool)
| NCrash (reregister : bool).              (* stop, new manager on the same datastore *)

(* what a step returns to its caller *)
Record nres := mkRes { nr_ret : nret; nr_chid : option chid; nr_msg : option msg }.
Definition res (r : nret) : nres := mkRes r None None.

Definition handler (i : ninput) : prog nres :=
  match i with
  | AOpen d to v b s => x <- open_channel d to v b s ;; Ret (mkRes (fst x) (snd x) None)
  | ASendVoucher k v => r <- send_voucher k v ;; Ret (res r)
  | ASendVoucherResult k v => r <- send_voucher_result k v ;; Ret (res r)
  | AUpdateValidation k vr => r <- update_validation k vr ;; Ret (res r)
  | AClose k => r <- close_channel k ;; Ret (res r)
  | ACloseWithError k => r <- close_with_error k ;; Ret (res r)
  | APause k => r <- pause_channel k ;; Ret (res r)
  | AResume k => r <- resume_channel k ;; Ret (res r)
  | ARestart k => r <- restart_channel k ;; Ret (res r)
  | ARegister _ => Ret (res ROk)
  | MRequest from m => r <- recv_request from m ;; Ret (res r)
  | MResponse from m => r <- recv_response from m ;; Ret (res r)
  | MRestartExisting from m => r <- recv_restart_existing from m ;; Ret (res r)
  | TChannelOpened k => r <- on_channel_opened k ;; Ret (res r)
  | TTransferInitiated k => send0 k TransferInitiated ;;; Ret (res ROk)
  | TData kd k sz ix u => x <- on_data kd k sz ix u ;; Ret (mkRes (snd x) None (fst x))
  | TRequestReceived k m => x <- on_request_received k m ;; Ret (mkRes (snd x) None (fst x))
  | TResponseReceived k m => r <- on_response_received k m ;; Ret (res r)
  | TRequestCancelled k => r <- send k RequestCancelled (err_arg E) ;; Ret (res r)
  | TRequestDisconnected k => r <- send k Disconnected (err_arg E) ;; Ret (res r)
  | TSendDataError k => r <- send k SendDataError (err_arg E) ;; Ret (res r)
  | TReceiveDataError k => r <- send k ReceiveDataError (err_arg E) ;; Ret (res r)
  | TChannelCompleted k f => r <- on_channel_completed k f ;; Ret (res r)
  | NCrash _ => Ret (res ROk)
  end.

(* effects of an input on the node outside the handler program *)
Definition pre_step (n : node) (i : ninput) : node :=
  match i with
  | ARegister t => if existsb (String.eqb t) (n_registry n) then n else n <| n_registry := n_registry n ++ [t] |>
  | NCrash rereg =>
      n <| n_chans := map (fun p => (fst p, mkCS (m_init (m_chan (cs_m (snd p)))) empty_cache)) (n_chans n) |>
        <| n_registry := if rereg then n_registry n else [] |>
  | _ => n
  end.

(* between two steps the harness reads every channel through GetByID (quiescence barrier and
   snapshots), which terminates the machine of every record that is final *)
Definition sync_all (n : node) : node :=
  n <| n_chans := map (fun p => (fst p, (snd p) <| cs_m := msync (cs_m (snd p)) |>)) (n_chans n) |>.

(* ---------- key discipline: an input that names a channel may only touch that channel ---------- *)
Definition tcmd_key (c : tcmd) : chid :=
  match c with TOpen _ k _ _ | TClose k | TPause k | TResume k _ | TCleanup k => k end.

Definition instr_key {X} (i : instr X) : option chid :=
  match i with
  | IGet k | IHas k | ISend k _ | IReport k _ | ISetLimit k _ | IValidate _ k | IProtect _ k => Some k
  | ICreate c => Some (chan_id c)
  | ITransport c => Some (tcmd_key c)
  | _ => None
  end.

Definition key_ok {X} (k : chid) (i : instr X) : bool :=
  match instr_key i with Some k' => chid_eqb k' k | None => true end.

(* like run, but stops (None) at the first instruction that names another channel *)
Fixpoint run_keyed {A} (k : chid) (p : prog A) (s : nstate) : option A * nstate :=
  match p with
  | Ret a => (Some a, s)
  | Do i cont =>
      if key_ok k i then let '(x, s') := run_instr s i in run_keyed k (cont x) s'
      else (None, s)
  end.

(* the channel an input is about (None: opens, registration, process restart) *)
Definition input_key (self : N) (i : ninput) : option chid :=
  match i with
  | ASendVoucher k _ | ASendVoucherResult k _ | AUpdateValidation k _ | AClose k | ACloseWithError k
  | APause k | AResume k | ARestart k | TChannelOpened k | TTransferInitiated k | TData _ k _ _ _
  | TRequestReceived k _ | TResponseReceived k _ | TRequestCancelled k | TRequestDisconnected k
  | TSendDataError k | TReceiveDataError k | TChannelCompleted k _ => Some k
  | MRequest from m => Some (from, self, g_tid m)
  | MResponse from m => Some (self, from, g_tid m)
  | MRestartExisting _ m => Some (g_restart m)
  | AOpen _ _ _ _ _ | ARegister _ | NCrash _ => None
  end.

Definition violation : nres := mkRes ROther None None.

(* one input with its oracle answers *)
Record nstep := mkStep { st_in : ninput; st_sendf : list bool; st_trf : list bool; st_vals : list valres }.

Definition step (n : node) (st : nstep) : node * nres * list nout :=
  let s0 := mkNS (pre_step n (st_in st)) (st_sendf st) (st_trf st) (st_vals st) [] in
  match input_key (n_self n) (st_in st) with
  | None =>
      let '(r, s1) := run (handler (st_in st)) s0 in
      (sync_all (s_node s1), r, s_out s1)
  | Some k =>
      let '(r, s1) := run_keyed k (handler (st_in st)) s0 in
      (sync_all (s_node s1), match r with Some x => x | None => violation end, s_out s1)
  end.

Definition init_node (self : N) : node := mkNode self [] [] 1000.
