(* network/libp2p_impl.go: openStream's bounded retry loop, SendMessage's write / reset / close
   discipline, and handleNewStream's inbound dispatch.  libp2p itself is an oracle: the results of
   successive NewStream calls, of the write, of Reset and Close, and the point at which the caller's
   context is cancelled are inputs.  Real time is not modelled: "the context is cancelled during
   the k-th back-off" is an input. *)
From Coq Require Import List NArith Bool Arith.
Import ListNotations.

(* ---------- outbound ---------- *)
Record send_in := mkSendIn {
  si_max : nat;                 (* configured stream-open attempts, read as max 1 (ceil attempts) *)
  si_opens : list bool;         (* results of the successive NewStream calls; missing = failure *)
  si_cancel : option nat;       (* the context is cancelled during the back-off after that many failed attempts *)
  si_proto_ok : bool;           (* the negotiated protocol is one the message can be converted to *)
  si_write_ok : bool;
  si_reset_ok : bool;
  si_close_ok : bool
}.

Inductive open_out : Set :=
| Opened (attempts : nat)
| Exhausted (attempts : nat)
| Cancelled (attempts : nat).

(* the loop of openStream; n = attempts made so far *)
Fixpoint open_loop (max : nat) (cancel : option nat) (fuel n : nat) (opens : list bool) : open_out :=
  match fuel with
  | O => Exhausted n
  | S f =>
      let n' := S n in
      if hd false opens then Opened n'
      else if Nat.leb max n' then Exhausted n'
      else if match cancel with Some k => Nat.eqb k n' | None => false end then Cancelled n'
      else open_loop max cancel f n' (tl opens)
  end.

Definition open_stream (i : send_in) : open_out :=
  open_loop (si_max i) (si_cancel i) (Nat.max 1 (si_max i)) 0 (si_opens i).

Inductive sres : Set := SOk | SErrExhausted | SErrCtx | SErrProto | SErrWrite | SErrReset | SErrClose.
Inductive stream_op : Set := SWrite | SWriteFailed | SReset | SClose.

Record send_out := mkSendOut { so_attempts : nat; so_res : sres; so_ops : list stream_op }.

Definition attempts_of (o : open_out) : nat :=
  match o with Opened n | Exhausted n | Cancelled n => n end.

Definition send_message (i : send_in) : send_out :=
  match open_stream i with
  | Exhausted n => mkSendOut n SErrExhausted []
  | Cancelled n => mkSendOut n SErrCtx []
  | Opened n =>
      if negb (si_proto_ok i) then mkSendOut n SErrProto []
      else if si_write_ok i then
        mkSendOut n (if si_close_ok i then SOk else SErrClose) [SWrite; SClose]
      else
        mkSendOut n (if si_reset_ok i then SErrWrite else SErrReset) [SWriteFailed; SReset]
  end.

(* ConnectWithRetry: the same loop, then the stream is closed unused *)
Definition connect_with_retry (i : send_in) : send_out :=
  match open_stream i with
  | Exhausted n => mkSendOut n SErrExhausted []
  | Cancelled n => mkSendOut n SErrCtx []
  | Opened n => mkSendOut n (if si_close_ok i then SOk else SErrClose) [SClose]
  end.

(* ---------- inbound ---------- *)
Inductive mkind : Set := KRequest | KRestartExisting | KResponse.
Inductive item : Set :=
| IMsg (k : mkind) (id : N)     (* a well-formed message; id identifies it in the harness *)
| IBad.                         (* bytes that do not decode (and are not a plain truncation) *)

Inductive ending : Set := EClean | ETruncated.   (* EOF between messages / inside one: both quiet *)

Record in_out := mkInOut {
  io_calls : list (mkind * N * N);   (* handler kind, remote peer, message id, in order *)
  io_reset : bool;
  io_error : bool                    (* ReceiveError called *)
}.

Fixpoint dispatch (peer : N) (l : list item) : list (mkind * N * N) * bool :=
  match l with
  | [] => ([], false)
  | IBad :: _ => ([], true)
  | IMsg k id :: r => let '(c, bad) := dispatch peer r in ((k, peer, id) :: c, bad)
  end.

Definition handle_stream (receiver_set : bool) (peer : N) (l : list item) (e : ending) : in_out :=
  if negb receiver_set then mkInOut [] true false
  else let '(c, bad) := dispatch peer l in mkInOut c bad bad.
