(* go-statemachine semantics for one channel: fsm/fsm.go Plan, machine.go run,
   and the state entry function cleanupConnection (generated entry_prog).
   External library: modelled here, validated by the H1 correspondence. *)
From Coq Require Import List NArith ZArith String Bool.
From RecordUpdate Require Import RecordSet.
From DT Require Import GenStatus GenEvent FsmTypes GenFsm Fsm.
Import ListNotations RecordSetNotations.

(* observable effects of a machine *)
Inductive mout : Type :=
| ONotify (e : EventCode) (c : chan)   (* notifier called with the record after the event *)
| OPut (c : chan)                      (* record written to the datastore *)
| OCleanupChannel (chid : N * N * N)   (* env.CleanupChannel *)
| OUnprotect (peer : N) (chid : N * N * N)  (* env.Unprotect(other party, tag) *)
| ODropped (e : EventCode)             (* event cleared with ErrTerminated *)
| OPlanned (e : EventCode) (before : Status) (handler : bool).
   (* model-internal trace: an event was applied from status `before`;
      `handler` = the state entry function was started for it *)

Definition chan_id (c : chan) : N * N * N := (c_init c, c_resp c, c_tid c).

(* the other party as cleanupConnection computes it (env.ID() = self) *)
Definition cleanup_other (c : chan) : N :=
  if N.eqb (c_init c) (c_self c) then c_resp c else c_init c.

(* run the entry function: outputs and the events it triggers (appended at the queue tail) *)
Fixpoint run_entry (c : chan) (p : list EntryStep) : list mout * list ev :=
  match p with
  | [] => ([], [])
  | ECleanupChannel :: r =>
      let '(o, t) := run_entry c r in (OCleanupChannel (chan_id c) :: o, t)
  | EUnprotectOther :: r =>
      let '(o, t) := run_entry c r in (OUnprotect (cleanup_other c) (chan_id c) :: o, t)
  | ETrigger e :: r =>
      let '(o, t) := run_entry c r in (o, (e, no_arg) :: t)
  end.

(* ---- machine state for schedule-quantified properties ---- *)
Record mstate := mkM {
  m_chan : chan;            (* durable record *)
  m_queue : list ev;        (* pendingEvents, head first *)
  m_handler : bool;         (* a state entry function is running (busy = 1) *)
  m_dead : bool             (* run loop returned (terminated) *)
}.

#[export] Instance eta_mstate : Settable _ := settable! mkM <m_chan; m_queue; m_handler; m_dead>.

Definition m_init (c : chan) : mstate :=
  {| m_chan := c; m_queue := []; m_handler := false; m_dead := false |}.

(* micro-steps: the schedule alphabet *)
Inductive mlabel : Type :=
| LEnq (e : ev)      (* somebody called Send *)
| LPlan              (* run loop plans the head event *)
| LHandlerDone.      (* the entry function finished: its effects and triggers happen now *)

(* Send on a dead machine returns ErrTerminated and enqueues nothing *)
Definition m_step (m : mstate) (l : mlabel) : mstate * list mout :=
  match l with
  | LEnq e => if m_dead m then (m, [ODropped (fst e)])
              else (m <| m_queue := m_queue m ++ [e] |>, [])
  | LPlan =>
      if m_dead m || m_handler m then (m, [])
      else match m_queue m with
      | [] => (m, [])
      | e :: q =>
          if is_final (c_status (m_chan m)) then
            (m <| m_queue := [] |> <| m_dead := true |>, map (fun x => ODropped (fst x)) (e :: q))
          else match apply (m_chan m) e with
          | Invalid => (m <| m_queue := q |>, [])
          | Applied c' h =>
              if is_final (c_status c') then
                (mkM c' [] false true,
                 OPlanned (fst e) (c_status (m_chan m)) false ::
                 ONotify (fst e) c' :: OPut c' :: map (fun x => ODropped (fst x)) q)
              else (mkM c' q h false,
                    [OPlanned (fst e) (c_status (m_chan m)) h; ONotify (fst e) c'; OPut c'])
          end
      end
  | LHandlerDone =>
      if m_handler m && negb (m_dead m) then
        let '(o, t) := run_entry (m_chan m) entry_prog in
        (m <| m_handler := false |> <| m_queue := m_queue m ++ t |>, o)
      else (m, [])
  end.

Definition m_run (m : mstate) (ls : list mlabel) : mstate * list mout :=
  fold_left (fun acc l => let '(m', o) := m_step (fst acc) l in (m', snd acc ++ o)) ls (m, []).

(* ---- run to completion (single-threaded use): deliver events, run handlers ---- *)
Fixpoint settle (fuel : nat) (m : mstate) (acc : list mout) : mstate * list mout :=
  match fuel with
  | O => (m, acc)
  | S f =>
      if m_dead m then (m, acc)
      else if m_handler m then
        let '(m', o) := m_step m LHandlerDone in settle f m' (acc ++ o)
      else match m_queue m with
      | [] => (m, acc)
      | _ => let '(m', o) := m_step m LPlan in settle f m' (acc ++ o)
      end
  end.

Definition settle_fuel (m : mstate) : nat := 4 * (List.length (m_queue m)) + 16.

(* send one event to a quiescent machine and let it settle *)
Definition deliver (m : mstate) (e : ev) : mstate * list mout :=
  let '(m1, o1) := m_step m (LEnq e) in
  settle (settle_fuel m1) m1 o1.

Definition deliver_all (m : mstate) (es : list ev) : mstate * list mout :=
  fold_left (fun acc e => let '(m', o) := deliver (fst acc) e in (m', snd acc ++ o)) es (m, []).
