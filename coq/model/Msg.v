(* message/message1_1prime: the constructors and predicates of requests and responses.
   IPLD nodes are opaque tokens (0 = nil pointer / null). *)
From Coq Require Import List NArith ZArith String Bool.
From DT Require Import GenStatus GenEvent GenMsgType FsmTypes GenFsm Fsm.
Import ListNotations.
Local Open Scope string_scope.

Definition chid : Type := (N * N * N)%type.   (* initiator, responder, transfer id *)
Definition k_init (k : chid) : N := fst (fst k).
Definition k_resp (k : chid) : N := snd (fst k).
Definition k_tid (k : chid) : N := snd k.

(* one record for both TransferRequest1_1 and TransferResponse1_1 *)
Record msg := mkMsg {
  g_isreq : bool;
  g_type : MessageType;
  g_tid : N;
  g_pause : bool;         (* Pause (request) / Paused (response) *)
  g_pull : bool;          (* request only *)
  g_accepted : bool;      (* response only: RequestAccepted *)
  g_vtype : string;       (* VoucherTypeIdentifier *)
  g_vnode : N;            (* VoucherPtr / VoucherResultPtr ; 0 = nil *)
  g_basecid : N;          (* BaseCidPtr ; 0 = nil / undefined *)
  g_selector : N;         (* SelectorPtr ; 0 = nil *)
  g_restart : chid        (* RestartChannel *)
}.

Definition no_chid : chid := (0%N, 0%N, 0%N).

Definition mt_eqb (a b : MessageType) : bool := msgtype_eqb a b.

(* ---- requests ---- *)
Definition base_request (t : MessageType) (tid : N) : msg :=
  mkMsg true t tid false false false "" 0 0 0 no_chid.

(* message.NewRequest: None when the base CID is undefined *)
Definition new_request (tid : N) (is_restart is_pull : bool) (v : voucher) (basecid selector : N) : option msg :=
  if N.eqb basecid 0 then None
  else Some (mkMsg true (if is_restart then RestartMessage else NewMessage) tid false is_pull false
                   (v_type v) (v_node v) basecid selector no_chid).

Definition restart_existing_request (k : chid) : msg :=
  mkMsg true RestartExistingChannelRequestMessage 0 false false false "" 0 0 0 k.
Definition cancel_request (tid : N) : msg := base_request CancelMessage tid.
Definition update_request (tid : N) (paused : bool) : msg :=
  mkMsg true UpdateMessage tid paused false false "" 0 0 0 no_chid.
Definition voucher_request (tid : N) (v : voucher) : msg :=
  mkMsg true VoucherMessage tid false false false (v_type v) (v_node v) 0 0 no_chid.

(* ---- responses ---- *)
Definition response (t : MessageType) (tid : N) (accepted paused : bool) (v : voucher) : msg :=
  mkMsg false t tid paused false accepted (v_type v) (v_node v) 0 0 no_chid.

Definition update_response (tid : N) (paused : bool) : msg := response UpdateMessage tid false paused no_voucher.
Definition cancel_response (tid : N) : msg := response CancelMessage tid false false no_voucher.
Definition complete_response (tid : N) (accepted paused : bool) (v : voucher) : msg :=
  response CompleteMessage tid accepted paused v.
Definition voucher_result_response (tid : N) (accepted paused : bool) (v : voucher) : msg :=
  response VoucherResultMessage tid accepted paused v.

(* datatransfer.ValidationResult plus the error the validator returned *)
Record valres := mkVal {
  vr_err : bool;
  vr_accepted : bool;
  vr_hasres : bool;       (* VoucherResult != nil *)
  vr_res : voucher;       (* its type and node (node 0 = typed voucher with a nil node) *)
  vr_force : bool;
  vr_limit : N;
  vr_fin : bool
}.
Definition zero_valres : valres := mkVal false false false no_voucher false 0 false.

(* message.ValidationResultResponse: accepted = no error AND accepted *)
Definition validation_result_response (t : MessageType) (tid : N) (vr : valres) (err : bool) (paused : bool) : msg :=
  response t tid (negb err && vr_accepted vr) paused (if vr_hasres vr then vr_res vr else no_voucher).

(* ---- predicates ---- *)
Definition is_restart (m : msg) : bool := mt_eqb (g_type m) RestartMessage.
Definition is_new (m : msg) : bool := mt_eqb (g_type m) NewMessage.
Definition is_cancel (m : msg) : bool := mt_eqb (g_type m) CancelMessage.
Definition is_update (m : msg) : bool := mt_eqb (g_type m) UpdateMessage.
Definition is_complete (m : msg) : bool := mt_eqb (g_type m) CompleteMessage.
Definition is_restart_existing (m : msg) : bool := mt_eqb (g_type m) RestartExistingChannelRequestMessage.
(* request.IsVoucher: a voucher message or a new request *)
Definition is_voucher (m : msg) : bool := mt_eqb (g_type m) VoucherMessage || mt_eqb (g_type m) NewMessage.
(* response.IsValidationResult *)
Definition is_validation_result (m : msg) : bool :=
  mt_eqb (g_type m) VoucherResultMessage || mt_eqb (g_type m) NewMessage ||
  mt_eqb (g_type m) CompleteMessage || mt_eqb (g_type m) RestartMessage.
Definition empty_voucher (m : msg) : bool := String.eqb (g_vtype m) "".

(* the branch the dispatchers take (exactly one kind per message) *)
Inductive req_kind : Set := RKRestart | RKNew | RKCancel | RKVoucher | RKUpdate.
Definition request_kind (m : msg) : req_kind :=
  if is_restart m then RKRestart else if is_new m then RKNew else if is_cancel m then RKCancel
  else if is_voucher m then RKVoucher else RKUpdate.
