(* One event applied to one channel record: mirrors
   go-statemachine fsm/eventprocessor.go (Apply, applyAction) driven by the
   generated table gen/GenFsm.v, and internal.ChannelState.AddLog /
   ChannelStages.AddLog (types.go).  Timestamps are not modelled. *)
From Coq Require Import List NArith ZArith String Bool.
From RecordUpdate Require Import RecordSet.
From DT Require Import GenStatus GenEvent FsmTypes GenFsm.
Import ListNotations RecordSetNotations.
Local Open Scope string_scope.

Definition two64 : N := 18446744073709551616%N.

(* a typed voucher: type identifier and an opaque token for the IPLD node *)
Record voucher := { v_type : string; v_node : N }.

Definition voucher_eqb (a b : voucher) : bool :=
  String.eqb (v_type a) (v_type b) && N.eqb (v_node a) (v_node b).

(* one entry of ChannelStages.Stages: name (a status name) and its log lines *)
Record stage := { st_name : Status; st_logs : list string }.

(* every field of channels/internal.ChannelState; opaque identities are tokens *)
Record chan := mkChan {
  c_self : N;
  c_tid : N;
  c_init : N;
  c_resp : N;
  c_basecid : N;
  c_selector : N;
  c_sender : N;
  c_recipient : N;
  c_totalsize : N;
  c_status : Status;
  c_queued : N;
  c_sent : N;
  c_received : N;
  c_msg : string;
  c_vouchers : list voucher;
  c_results : list voucher;
  c_rblocks : Z;
  c_qblocks : Z;
  c_sblocks : Z;
  c_limit : N;
  c_reqfin : bool;
  c_rpaused : bool;
  c_ipaused : bool;
  c_stages : option (list stage)
}.

#[export] Instance eta_chan : Settable _ := settable! mkChan
  <c_self; c_tid; c_init; c_resp; c_basecid; c_selector; c_sender; c_recipient;
   c_totalsize; c_status; c_queued; c_sent; c_received; c_msg; c_vouchers; c_results;
   c_rblocks; c_qblocks; c_sblocks; c_limit; c_reqfin; c_rpaused; c_ipaused; c_stages>.

(* the single argument an event carries (only the field of its ArgKind is read) *)
Record evarg := { a_int : Z; a_uint : N; a_err : string; a_bool : bool; a_voucher : voucher }.

Definition no_voucher : voucher := {| v_type := ""; v_node := 0 |}.
Definition no_arg : evarg :=
  {| a_int := 0; a_uint := 0; a_err := ""; a_bool := false; a_voucher := no_voucher |}.

Notation ev := (EventCode * evarg)%type.

(* ---- field access by the field enumerations of FsmTypes ---- *)
Definition get_u64 (f : U64Field) (c : chan) : N :=
  match f with
  | FTotalSize => c_totalsize c | FQueued => c_queued c | FSent => c_sent c
  | FReceived => c_received c | FDataLimit => c_limit c
  end.
Definition set_u64 (f : U64Field) (v : N) (c : chan) : chan :=
  match f with
  | FTotalSize => c <| c_totalsize := v |> | FQueued => c <| c_queued := v |>
  | FSent => c <| c_sent := v |> | FReceived => c <| c_received := v |>
  | FDataLimit => c <| c_limit := v |>
  end.
Definition get_i64 (f : I64Field) (c : chan) : Z :=
  match f with
  | FReceivedBlocksTotal => c_rblocks c | FQueuedBlocksTotal => c_qblocks c
  | FSentBlocksTotal => c_sblocks c
  end.
Definition set_i64 (f : I64Field) (v : Z) (c : chan) : chan :=
  match f with
  | FReceivedBlocksTotal => c <| c_rblocks := v |> | FQueuedBlocksTotal => c <| c_qblocks := v |>
  | FSentBlocksTotal => c <| c_sblocks := v |>
  end.
Definition set_bool (f : BoolField) (v : bool) (c : chan) : chan :=
  match f with
  | FRequiresFinalization => c <| c_reqfin := v |> | FResponderPaused => c <| c_rpaused := v |>
  | FInitiatorPaused => c <| c_ipaused := v |>
  end.
Definition get_bool (f : BoolField) (c : chan) : bool :=
  match f with
  | FRequiresFinalization => c_reqfin c | FResponderPaused => c_rpaused c
  | FInitiatorPaused => c_ipaused c
  end.

(* ---- ChannelStages.AddLog(stage, msg) ---- *)
Definition last_is (l : list string) (m : string) : bool :=
  match rev l with
  | [] => false
  | x :: _ => String.eqb x m
  end.

Definition stage_add (m : string) (s : stage) : stage :=
  if String.eqb m "" then s
  else if last_is (st_logs s) m then s
  else {| st_name := st_name s; st_logs := (st_logs s ++ [m])%list |}.

Fixpoint stages_add (name : Status) (m : string) (l : list stage) : list stage :=
  match l with
  | [] => [ stage_add m {| st_name := name; st_logs := [] |} ]
  | s :: r => if status_eqb (st_name s) name then stage_add m s :: r
              else s :: stages_add name m r
  end.

Definition add_log (m : string) (c : chan) : chan :=
  match c_stages c with
  | None => c
  | Some l => c <| c_stages := Some (stages_add (c_status c) m l) |>
  end.

(* ---- one action statement ---- *)
Definition run_act (a : evarg) (c : chan) (act : Act) : chan :=
  match act with
  | ASetStr FMessage (SLit s) => c <| c_msg := s |>
  | ASetStr FMessage SArgErr => c <| c_msg := a_err a |>
  | ASetBool f (BLit b) => set_bool f b c
  | ASetBool f BArg => set_bool f (a_bool a) c
  | ASetU64 f => set_u64 f (a_uint a) c
  | AAddU64 f => set_u64 f ((get_u64 f c + a_uint a) mod two64)%N c
  | AMaxI64 f => if Z.gtb (a_int a) (get_i64 f c) then set_i64 f (a_int a) c else c
  | AAppend FVouchers => c <| c_vouchers := (c_vouchers c ++ [a_voucher a])%list |>
  | AAppend FVoucherResults => c <| c_results := (c_results c ++ [a_voucher a])%list |>
  | ALog (LLit s) => add_log s c
  | ALog (LFmtMsg p) => add_log (p ++ c_msg c) c
  end.

Definition run_acts (a : evarg) (c : chan) (l : list Act) : chan := fold_left (run_act a) l c.

(* ---- table lookup: exact source first, then the FromAny fallback ---- *)
Definition src_matches (s : Status) (o : option Status) : bool :=
  match o with Some s' => status_eqb s' s | None => false end.
Definition src_any (o : option Status) : bool :=
  match o with None => true | Some _ => false end.

Fixpoint assoc_event {A} (e : EventCode) (l : list (EventCode * A)) : option A :=
  match l with
  | [] => None
  | (e', a) :: r => if event_eqb e' e then Some a else assoc_event e r
  end.

Definition dest_in (tab : list (EventCode * list (option Status * Dest)))
           (e : EventCode) (s : Status) : option Dest :=
  match assoc_event e tab with
  | None => None
  | Some ts =>
      match find (fun p => src_matches s (fst p)) ts with
      | Some p => Some (snd p)
      | None => match find (fun p => src_any (fst p)) ts with
                | Some p => Some (snd p)
                | None => None
                end
      end
  end.

Definition dest_of : EventCode -> Status -> option Dest := dest_in transitions.

Definition acts_of (e : EventCode) : list Act :=
  match assoc_event e actions with Some (_, l) => l | None => [] end.

Definition arg_kind (e : EventCode) : option ArgKind :=
  match assoc_event e actions with Some (k, _) => Some k | None => None end.

(* an event code the processor knows (Generate succeeds) *)
Definition known_event (e : EventCode) : bool :=
  match assoc_event e transitions with Some _ => true | None => false end.

Definition in_status (s : Status) (l : list Status) : bool := existsb (status_eqb s) l.
Definition is_final (s : Status) : bool := in_status s finality_states.
Definition is_cleanup (s : Status) : bool := in_status s cleanup_states.
Definition has_entry (s : Status) : bool := in_status s entry_states.

(* result of eventProcessor.Apply on a record *)
Inductive applied : Type :=
| Invalid                                  (* no transition: record untouched, not announced *)
| Applied (c' : chan) (handler : bool).    (* mutated record; does the state entry function run *)

Definition apply (c : chan) (e : ev) : applied :=
  match dest_of (fst e) (c_status c) with
  | None => Invalid
  | Some d =>
      let c1 := run_acts (snd e) c (acts_of (fst e)) in
      match d with
      | DJustRecord => Applied c1 false
      | DNoChange => Applied c1 (has_entry (c_status c1))
      | DTo s => let c2 := c1 <| c_status := s |> in Applied c2 (has_entry s)
      end
  end.

(* the record after an event (unchanged when invalid) *)
Definition apply_chan (c : chan) (e : ev) : chan :=
  match apply c e with Invalid => c | Applied c' _ => c' end.

(* ---- accessors of channels/channel_state.go ---- *)
Definition is_pull (c : chan) : bool := N.eqb (c_init c) (c_recipient c).
Definition responder_paused_view (c : chan) : bool :=
  c_rpaused c || status_eqb (c_status c) Finalizing.
Definition initiator_paused_view (c : chan) : bool := c_ipaused c.
Definition both_paused_view (c : chan) : bool := initiator_paused_view c && responder_paused_view c.
Definition self_paused_view (c : chan) : bool :=
  if N.eqb (c_self c) (c_init c) then initiator_paused_view c else responder_paused_view c.
Definition other_peer (c : chan) : N :=
  if N.eqb (c_sender c) (c_self c) then c_recipient c else c_sender c.
Definition chid_of (c : chan) : N * N * N :=
  if is_pull c then (c_recipient c, c_sender c, c_tid c) else (c_sender c, c_recipient c, c_tid c).
Definition first_voucher (c : chan) : voucher :=
  match c_vouchers c with [] => no_voucher | v :: _ => v end.
Definition last_voucher (c : chan) : voucher := last (c_vouchers c) no_voucher.
Definition last_result (c : chan) : voucher := last (c_results c) no_voucher.

(* channels.CreateNew: the record a new channel starts with *)
Definition create_new (self tid basecid selector : N) (v : voucher) (initiator sender receiver : N) : chan :=
  {| c_self := self; c_tid := tid; c_init := initiator;
     c_resp := (if N.eqb sender initiator then receiver else sender);
     c_basecid := basecid; c_selector := selector; c_sender := sender; c_recipient := receiver;
     c_totalsize := 0; c_status := Requested; c_queued := 0; c_sent := 0; c_received := 0;
     c_msg := EmptyString; c_vouchers := [v]; c_results := [];
     c_rblocks := 0; c_qblocks := 0; c_sblocks := 0; c_limit := 0;
     c_reqfin := false; c_rpaused := false; c_ipaused := false; c_stages := Some [] |}.
