package main

import (
	"context"
	"errors"
	"fmt"
	"path/filepath"
	"runtime/debug"
	"sort"
	"strings"
	"sync"
	"sync/atomic"
	"time"

	"github.com/ipfs/go-cid"
	"github.com/ipld/go-ipld-prime"
	"github.com/ipld/go-ipld-prime/datamodel"
	cidlink "github.com/ipld/go-ipld-prime/linking/cid"
	"github.com/libp2p/go-libp2p/core/peer"
	"github.com/libp2p/go-libp2p/core/protocol"

	datatransfer "github.com/filecoin-project/go-data-transfer/v2"
	"github.com/filecoin-project/go-data-transfer/v2/channels"
	"github.com/filecoin-project/go-data-transfer/v2/impl"
	message1_1 "github.com/filecoin-project/go-data-transfer/v2/message/message1_1prime"
	"github.com/filecoin-project/go-data-transfer/v2/network"
)

// ---------- specs shared by inputs and observed outputs ----------

type chidTok struct {
	Init, Resp int
	Tid        uint64 // token
}

type msgSpec struct {
	IsReq    bool
	Type     uint64
	Tid      uint64 // token
	Pause    bool
	Pull     bool
	Accepted bool
	VType    string
	VNode    int
	BaseCid  int
	Selector int
	Restart  chidTok
}

var msgTypeNames = []string{"NewMessage", "UpdateMessage", "CancelMessage", "CompleteMessage", "VoucherMessage", "VoucherResultMessage", "RestartMessage", "RestartExistingChannelRequestMessage"}

func (k chidTok) coq() string {
	return fmt.Sprintf("(%s, %s, %s)", coqN(uint64(k.Init)), coqN(uint64(k.Resp)), coqN(k.Tid))
}
func (m msgSpec) coq() string {
	tn := "NewMessage"
	if m.Type < uint64(len(msgTypeNames)) {
		tn = msgTypeNames[m.Type]
	}
	return fmt.Sprintf("(mkMsg %s %s %s %s %s %s %s %s %s %s %s)", coqBool(m.IsReq), tn, coqN(m.Tid), coqBool(m.Pause), coqBool(m.Pull),
		coqBool(m.Accepted), coqStr(m.VType), coqN(uint64(m.VNode)), coqN(uint64(m.BaseCid)), coqN(uint64(m.Selector)), m.Restart.coq())
}
func (m msgSpec) String() string {
	kind := "resp"
	if m.IsReq {
		kind = "req"
	}
	tn := fmt.Sprint(m.Type)
	if m.Type < uint64(len(msgTypeNames)) {
		tn = strings.TrimSuffix(msgTypeNames[m.Type], "Message")
	}
	return fmt.Sprintf("%s:%s(tid=%d,pause=%v,pull=%v,acc=%v,v=%s/%d,cid=%d,sel=%d,rc=%v)", kind, tn, m.Tid, m.Pause, m.Pull, m.Accepted, m.VType, m.VNode, m.BaseCid, m.Selector, m.Restart)
}

type valSpec struct {
	Err, Accepted, HasRes bool
	ResType               string
	ResNode               int
	Force                 bool
	Limit                 uint64
	Fin                   bool
}

func (v valSpec) coq() string {
	return fmt.Sprintf("(mkVal %s %s %s %s %s %s %s)", coqBool(v.Err), coqBool(v.Accepted), coqBool(v.HasRes),
		coqVoucher(datatransfer.TypeIdentifier(v.ResType), v.ResNode), coqBool(v.Force), coqN(v.Limit), coqBool(v.Fin))
}
func (v valSpec) real() (datatransfer.ValidationResult, error) {
	r := datatransfer.ValidationResult{Accepted: v.Accepted, ForcePause: v.Force, DataLimit: v.Limit, RequiresFinalization: v.Fin}
	if v.HasRes {
		r.VoucherResult = &datatransfer.TypedVoucher{Type: datatransfer.TypeIdentifier(v.ResType), Voucher: nodeOf(v.ResNode)}
	}
	if v.Err {
		return r, errors.New("validator error")
	}
	return r, nil
}

// ---------- transfer id tokens ----------

type tidTable struct {
	mu      sync.Mutex
	toTok   map[uint64]uint64
	toReal  map[uint64]uint64
	current uint64 // token for an unknown big tid first seen now (set around Open calls)
}

func newTidTable() *tidTable {
	return &tidTable{toTok: map[uint64]uint64{}, toReal: map[uint64]uint64{}}
}
func (t *tidTable) tok(real uint64) uint64 {
	if real < 1_000_000_000 {
		return real
	}
	t.mu.Lock()
	defer t.mu.Unlock()
	if v, ok := t.toTok[real]; ok {
		return v
	}
	v := t.current
	if v == 0 {
		v = 999_000 + uint64(len(t.toTok))
	}
	t.toTok[real] = v
	t.toReal[v] = real
	return v
}
func (t *tidTable) real(tok uint64) uint64 {
	t.mu.Lock()
	defer t.mu.Unlock()
	if v, ok := t.toReal[tok]; ok {
		return v
	}
	return tok
}

// ---------- doubles ----------

type sentRec struct {
	To  int
	Msg msgSpec
	OK  bool
}
type trRec struct {
	Kind     string // open close pause resume cleanup
	To       int
	K        chidTok
	HasState bool
	Msg      *msgSpec
	OK       bool
}

func (t trRec) coq() string {
	switch t.Kind {
	case "open":
		return fmt.Sprintf("(TOpen %s %s %s %s, %s)", coqN(uint64(t.To)), t.K.coq(), coqBool(t.HasState), t.Msg.coq(), coqBool(t.OK))
	case "close":
		return fmt.Sprintf("(TClose %s, %s)", t.K.coq(), coqBool(t.OK))
	case "pause":
		return fmt.Sprintf("(TPause %s, %s)", t.K.coq(), coqBool(t.OK))
	case "resume":
		return fmt.Sprintf("(TResume %s %s, %s)", t.K.coq(), t.Msg.coq(), coqBool(t.OK))
	}
	return "?"
}

type evRec struct {
	K    chidTok
	Code datatransfer.EventCode
	View string
	St   datatransfer.ChannelState
}
type valRec struct {
	Kind int // 0 push 1 pull 2 restart
	K    chidTok
	Res  valSpec
	Typ  string // the voucher type this validator was registered for (not compared with the model; used by a monitor)
}
type pkRec struct {
	Peer int
	K    chidTok
}

type nodeRig struct {
	defaultVal *valSpec // the validators' answer when nothing is scripted (nil: not accepted)
	res        *suiteResult
	selfTok    int
	self       peer.ID
	ds         *recDS
	tids       *tidTable
	mgr        datatransfer.Manager
	ch         *channels.Channels
	handler    datatransfer.EventsHandler
	receiver   network.Receiver

	mu                 sync.Mutex
	sendf              []bool
	trf                []bool
	vals               []valSpec
	sent               []sentRec
	trs                []trRec
	events             []evRec
	valcalls           []valRec
	protects           []pkRec
	unprots            []pkRec
	sentSeen           int
	sentinel           datatransfer.ChannelID
	registered         map[string]bool
	issued             []uint64
	inflight           int
	promptAccept       bool // the responder's Accept is delivered inside SendMessage of the opening request
	slowClose          int32
	inCleanup          map[datatransfer.ChannelID]bool // transport cleanups that have begun and not returned
	earlyTerminal      []chidTok                       // channels announced terminal while their transport cleanup was running
	delayFailingCancel bool
	mgrOpts            []impl.DataTransferOption // extra manager options (channel monitor configuration)
	failRestartSends   bool                      // integrated monitor suite: every restart request fails to send
	failConnect        bool                      // ... every ConnectTo fails
	failTrOpen         bool                      // ... every transport OpenChannel fails
	connects           int
	allSent            []sentRec // cumulative (never reset by exec)
	allTrs             []trRec
	allEvents          []evRec
	subLogs            map[int][]subEv // per subscriber id (harness subscribers other than the reference one)
	unsubs             map[int]datatransfer.Unsubscribe
}

// one call of a harness subscriber
type subEv struct {
	K        chidTok
	Code     datatransfer.EventCode
	Terminal bool
}

func (r *nodeRig) subCb(id int) datatransfer.Subscriber {
	return func(evt datatransfer.Event, st datatransfer.ChannelState) {
		if st.ChannelID() == r.sentinel {
			return
		}
		r.mu.Lock()
		if r.subLogs == nil {
			r.subLogs = map[int][]subEv{}
		}
		r.subLogs[id] = append(r.subLogs[id], subEv{r.chidTokOf(st.ChannelID()), evt.Code, channels.IsChannelTerminated(st.Status())})
		r.mu.Unlock()
	}
}

func (r *nodeRig) chidTokOf(c datatransfer.ChannelID) chidTok {
	return chidTok{tokOfPeer(c.Initiator), tokOfPeer(c.Responder), r.tids.tok(uint64(c.ID))}
}
func (r *nodeRig) chidReal(k chidTok) datatransfer.ChannelID {
	return datatransfer.ChannelID{Initiator: peerOrEmpty(k.Init), Responder: peerOrEmpty(k.Resp), ID: datatransfer.TransferID(r.tids.real(k.Tid))}
}
func peerOrEmpty(tok int) peer.ID {
	if tok < 1 || tok > 8 {
		return ""
	}
	return peerOf(tok)
}

func (r *nodeRig) specOfMsg(m datatransfer.Message) msgSpec {
	switch x := m.(type) {
	case *message1_1.TransferRequest1_1:
		s := msgSpec{IsReq: true, Type: x.MessageType, Tid: r.tids.tok(x.TransferId), Pause: x.Pause, Pull: x.Pull,
			VType: string(x.VoucherTypeIdentifier), VNode: tokOfNode(x.VoucherPtr), Selector: tokOfNode(x.SelectorPtr)}
		if x.BaseCidPtr != nil {
			s.BaseCid = tokOfCid(*x.BaseCidPtr)
		}
		s.Restart = r.chidTokOf(x.RestartChannel)
		return s
	case *message1_1.TransferResponse1_1:
		return msgSpec{IsReq: false, Type: x.MessageType, Tid: r.tids.tok(x.TransferId), Pause: x.Paused, Accepted: x.RequestAccepted,
			VType: string(x.VoucherTypeIdentifier), VNode: tokOfNode(x.VoucherResultPtr)}
	}
	return msgSpec{Type: 99}
}

func (r *nodeRig) realMsg(s msgSpec) datatransfer.Message {
	if s.IsReq {
		q := &message1_1.TransferRequest1_1{MessageType: s.Type, Pause: s.Pause, Pull: s.Pull, SelectorPtr: nodeOf(s.Selector), VoucherPtr: nodeOf(s.VNode),
			VoucherTypeIdentifier: datatransfer.TypeIdentifier(s.VType), TransferId: r.tids.real(s.Tid), RestartChannel: r.chidReal(s.Restart)}
		if s.BaseCid != 0 {
			c := cidOf(s.BaseCid)
			q.BaseCidPtr = &c
		}
		return q
	}
	return &message1_1.TransferResponse1_1{MessageType: s.Type, RequestAccepted: s.Accepted, Paused: s.Pause, TransferId: r.tids.real(s.Tid),
		VoucherResultPtr: nodeOf(s.VNode), VoucherTypeIdentifier: datatransfer.TypeIdentifier(s.VType)}
}

// network double
type netDouble struct{ r *nodeRig }

func (n *netDouble) Protect(id peer.ID, tag string) {
	n.r.mu.Lock()
	n.r.protects = append(n.r.protects, pkRec{tokOfPeer(id), n.r.tagChid(tag)})
	n.r.mu.Unlock()
}
func (n *netDouble) Unprotect(id peer.ID, tag string) bool {
	n.r.mu.Lock()
	n.r.unprots = append(n.r.unprots, pkRec{tokOfPeer(id), n.r.tagChid(tag)})
	n.r.mu.Unlock()
	return false
}
func (n *netDouble) SendMessage(ctx context.Context, p peer.ID, m datatransfer.Message) error {
	r := n.r
	r.mu.Lock()
	r.inflight++
	defer func() {
		r.mu.Lock()
		r.inflight--
		r.mu.Unlock()
	}()
	ok := true
	if len(r.sendf) > 0 {
		ok, r.sendf = r.sendf[0], r.sendf[1:]
	}
	spec := r.specOfMsg(m)
	if r.failRestartSends && spec.IsReq && spec.Type == mtRestart {
		ok = false
	}
	prompt := r.promptAccept && ok && spec.IsReq && spec.Type == mtNew && r.receiver != nil
	r.mu.Unlock()
	if prompt {
		// a very prompt (loop-back) responder: its accepting response is handled before SendMessage returns
		r.receiver.ReceiveResponse(ctx, p, r.realMsg(respOf(mtNew, spec.Tid, true, false)).(datatransfer.Response))
	}
	if !ok && spec.Type == 2 && r.delayFailingCancel { // a failing cancel message (sent asynchronously by CloseDataTransferChannel):
		// let the failure surface only after the Cancel event has been processed, to make the order deterministic
		var chid datatransfer.ChannelID
		if spec.IsReq {
			chid = datatransfer.ChannelID{Initiator: r.self, Responder: p, ID: m.TransferID()}
		} else {
			chid = datatransfer.ChannelID{Initiator: p, Responder: r.self, ID: m.TransferID()}
		}
		deadline := time.Now().Add(5 * time.Second)
		for time.Now().Before(deadline) {
			st, err := r.ch.GetByID(context.Background(), chid)
			if err != nil || isTerminal(st.Status()) {
				break
			}
			time.Sleep(200 * time.Microsecond)
		}
	}
	r.mu.Lock()
	r.sent = append(r.sent, sentRec{tokOfPeer(p), spec, ok})
	r.allSent = append(r.allSent, sentRec{tokOfPeer(p), spec, ok})
	r.mu.Unlock()
	if !ok {
		return errors.New("send failed")
	}
	return nil
}
func (n *netDouble) SetDelegate(rc network.Receiver) { n.r.receiver = rc }
func (n *netDouble) ConnectTo(context.Context, peer.ID) error {
	n.r.mu.Lock()
	defer n.r.mu.Unlock()
	n.r.connects++
	if n.r.failConnect {
		return errors.New("connect failed")
	}
	return nil
}
func (n *netDouble) ConnectWithRetry(ctx context.Context, p peer.ID) error {
	return n.ConnectTo(ctx, p)
}
func (n *netDouble) ID() peer.ID { return n.r.self }
func (n *netDouble) Protocol(context.Context, peer.ID) (protocol.ID, error) {
	return datatransfer.ProtocolDataTransfer1_2, nil
}

func (r *nodeRig) tagChid(tag string) chidTok {
	for a := 1; a <= 8; a++ {
		for b := 1; b <= 8; b++ {
			prefix := fmt.Sprintf("%s-%s-", peerOf(a), peerOf(b))
			if strings.HasPrefix(tag, prefix) {
				var id uint64
				fmt.Sscanf(tag[len(prefix):], "%d", &id)
				return chidTok{a, b, r.tids.tok(id)}
			}
		}
	}
	return chidTok{99, 99, 99}
}

// transport double
type trDouble struct{ r *nodeRig }

func (t *trDouble) rec(rc trRec) error {
	r := t.r
	r.mu.Lock()
	defer r.mu.Unlock()
	ok := true
	if rc.Kind != "cleanup" && len(r.trf) > 0 {
		ok, r.trf = r.trf[0], r.trf[1:]
	}
	if rc.Kind == "open" && r.failTrOpen {
		ok = false
	}
	rc.OK = ok
	r.trs = append(r.trs, rc)
	r.allTrs = append(r.allTrs, rc)
	if !ok {
		return errors.New("transport error")
	}
	return nil
}
func (t *trDouble) OpenChannel(ctx context.Context, dataSender peer.ID, chid datatransfer.ChannelID, root ipld.Link, stor datamodel.Node, channel datatransfer.ChannelState, msg datatransfer.Message) error {
	s := t.r.specOfMsg(msg)
	err := t.rec(trRec{Kind: "open", To: tokOfPeer(dataSender), K: t.r.chidTokOf(chid), HasState: channel != nil, Msg: &s})
	t.r.mu.Lock()
	prompt := t.r.promptAccept && err == nil && s.IsReq && s.Type == mtNew && t.r.handler != nil
	t.r.mu.Unlock()
	if prompt {
		// a very prompt responder: its accepting response comes back (as a graphsync extension) before the open call returns
		_ = t.r.handler.OnResponseReceived(chid, t.r.realMsg(respOf(mtNew, s.Tid, true, false)).(datatransfer.Response))
	}
	return err
}
func (t *trDouble) CloseChannel(ctx context.Context, chid datatransfer.ChannelID) error {
	if atomic.LoadInt32(&t.r.slowClose) == 1 {
		// a user close: nothing may release the channel's transport resources before the request was
		// cancelled; give a cleanup that was (wrongly) triggered earlier the time to overtake this call
		time.Sleep(3 * time.Millisecond)
	}
	return t.rec(trRec{Kind: "close", K: t.r.chidTokOf(chid)})
}
func (t *trDouble) SetEventHandler(events datatransfer.EventsHandler) error {
	t.r.handler = events
	return nil
}
func (t *trDouble) CleanupChannel(chid datatransfer.ChannelID) {
	if atomic.LoadInt32(&t.r.slowClose) == 1 {
		// a transport that takes a while to release a channel (the graphsync adaptor waits for the channel's lock):
		// the ending must wait for it; a terminal status announced meanwhile was reached without that cleanup
		t.r.mu.Lock()
		if t.r.inCleanup == nil {
			t.r.inCleanup = map[datatransfer.ChannelID]bool{}
		}
		t.r.inCleanup[chid] = true
		t.r.mu.Unlock()
		time.Sleep(25 * time.Millisecond)
		t.r.mu.Lock()
		delete(t.r.inCleanup, chid)
		t.r.mu.Unlock()
	}
	_ = t.rec(trRec{Kind: "cleanup", K: t.r.chidTokOf(chid)})
}
func (t *trDouble) Shutdown(ctx context.Context) error { return nil }
func (t *trDouble) PauseChannel(ctx context.Context, chid datatransfer.ChannelID) error {
	return t.rec(trRec{Kind: "pause", K: t.r.chidTokOf(chid)})
}
func (t *trDouble) ResumeChannel(ctx context.Context, msg datatransfer.Message, chid datatransfer.ChannelID) error {
	s := t.r.specOfMsg(msg)
	return t.rec(trRec{Kind: "resume", K: t.r.chidTokOf(chid), Msg: &s})
}

// validator double
type valDouble struct {
	r   *nodeRig
	typ string
}

func (v *valDouble) next(kind int, chid datatransfer.ChannelID) (datatransfer.ValidationResult, error) {
	r := v.r
	r.mu.Lock()
	defer r.mu.Unlock()
	var s valSpec
	if len(r.vals) > 0 {
		s, r.vals = r.vals[0], r.vals[1:]
	} else if r.defaultVal != nil {
		s = *r.defaultVal
	}
	r.valcalls = append(r.valcalls, valRec{kind, r.chidTokOf(chid), s, v.typ})
	return s.real()
}
func (v *valDouble) ValidatePush(chid datatransfer.ChannelID, sender peer.ID, voucher datamodel.Node, baseCid cid.Cid, selector datamodel.Node) (datatransfer.ValidationResult, error) {
	return v.next(0, chid)
}
func (v *valDouble) ValidatePull(chid datatransfer.ChannelID, receiver peer.ID, voucher datamodel.Node, baseCid cid.Cid, selector datamodel.Node) (datatransfer.ValidationResult, error) {
	return v.next(1, chid)
}
func (v *valDouble) ValidateRestart(chid datatransfer.ChannelID, channel datatransfer.ChannelState) (datatransfer.ValidationResult, error) {
	return v.next(2, chid)
}

// ---------- rig ----------

func newNodeRig(res *suiteResult, selfTok int) *nodeRig {
	r := &nodeRig{res: res, selfTok: selfTok, self: peerOf(selfTok), ds: newRecDS(), tids: newTidTable(), registered: map[string]bool{}}
	curTids, canonText = r.tids, true
	r.boot()
	return r
}

// boot creates a manager on the rig's datastore (also used for process restarts)
func (r *nodeRig) boot() {
	m, err := impl.NewDataTransfer(r.ds, &netDouble{r}, &trDouble{r}, r.mgrOpts...)
	if err != nil {
		panic(err)
	}
	r.mgr = m
	ready := make(chan error, 1)
	m.OnReady(func(err error) { ready <- err })
	if err := m.Start(context.Background()); err != nil {
		panic(err)
	}
	select {
	case err := <-ready:
		if err != nil {
			panic(err)
		}
	case <-time.After(10 * time.Second):
		panic("manager did not become ready")
	}
	r.ch = impl.VerifChannelsOf(m)
	m.SubscribeToEvents(r.onEvent)
	r.sentinel = datatransfer.ChannelID{Initiator: peerOf(7), Responder: peerOf(8), ID: 0xFFFFFFF}
	if has, _ := r.ch.HasChannel(r.sentinel); !has {
		if _, err := r.ch.CreateNew(r.self, r.sentinel.ID, cidOf(1), nodeOf(1), datatransfer.TypedVoucher{Type: "S", Voucher: nodeOf(1)}, peerOf(7), peerOf(7), peerOf(8)); err != nil {
			panic(err)
		}
	}
}

func (r *nodeRig) onEvent(evt datatransfer.Event, st datatransfer.ChannelState) {
	if st.ChannelID() == r.sentinel {
		r.mu.Lock()
		r.sentSeen++
		r.mu.Unlock()
		return
	}
	v := r.viewOf(st)
	r.mu.Lock()
	if r.inCleanup[st.ChannelID()] && (st.Status() == datatransfer.Cancelled || st.Status() == datatransfer.Failed || st.Status() == datatransfer.Completed) {
		r.earlyTerminal = append(r.earlyTerminal, r.chidTokOf(st.ChannelID()))
	}
	r.events = append(r.events, evRec{r.chidTokOf(st.ChannelID()), evt.Code, v, st})
	r.allEvents = append(r.allEvents, evRec{r.chidTokOf(st.ChannelID()), evt.Code, v, st})
	r.mu.Unlock()
}

func (r *nodeRig) viewOf(st datatransfer.ChannelState) string {
	return coqView(st, r.res)
}

func (r *nodeRig) flush() {
	r.mu.Lock()
	before := r.sentSeen
	r.mu.Unlock()
	if err := r.ch.ChannelOpened(r.sentinel); err != nil {
		panic(err)
	}
	deadline := time.Now().Add(10 * time.Second)
	for {
		r.mu.Lock()
		seen := r.sentSeen
		r.mu.Unlock()
		if seen > before {
			return
		}
		if time.Now().After(deadline) {
			panic("notifier flush timed out")
		}
		time.Sleep(50 * time.Microsecond)
	}
}

// channels of the node in creation order (creation order = order of first Put of each key)
func (r *nodeRig) channelList() []datatransfer.ChannelID {
	m, err := r.mgr.InProgressChannels(context.Background())
	if err != nil {
		panic(err)
	}
	first := map[string]int{}
	for i, o := range r.ds.ops() {
		if o.Put {
			if _, ok := first[o.Key]; !ok {
				first[o.Key] = i
			}
		}
	}
	var out []datatransfer.ChannelID
	for k := range m {
		if k != r.sentinel {
			out = append(out, k)
		}
	}
	sort.Slice(out, func(i, j int) bool {
		return first["/3/"+out[i].String()] < first["/3/"+out[j].String()]
	})
	return out
}

// quiesce: every machine idle, every notification delivered
func (r *nodeRig) quiesce() {
	ctx, cancel := context.WithTimeout(context.Background(), 20*time.Second)
	defer cancel()
	for _, chid := range r.channelList() {
		var prev string
		stable := 0
		for {
			st, err := r.ch.GetByID(ctx, chid)
			cur := ""
			if err == nil {
				cur = fmt.Sprint(st.Status(), st.Queued(), st.Sent(), st.Received(), st.Message(), len(st.Vouchers()), len(st.VoucherResults()), st.QueuedCidsTotal(), st.SentCidsTotal(), st.ReceivedCidsTotal(), st.InitiatorPaused(), st.ResponderPaused(), st.DataLimit(), st.RequiresFinalization(), len(st.Stages().Stages))
			}
			if prev != "" && prev == cur {
				stable++
				if stable >= 2 {
					break
				}
			} else {
				stable = 0
			}
			prev = cur
			if ctx.Err() != nil {
				panic("node quiesce timed out")
			}
		}
	}
	r.flush()
}

func (r *nodeRig) restartProcess(reregister bool) {
	_ = r.mgr.Stop(context.Background())
	old := r.registered
	r.registered = map[string]bool{}
	r.boot()
	if reregister {
		for t := range old {
			r.register(t)
		}
	}
}

func (r *nodeRig) register(t string) {
	if r.registered[t] {
		return
	}
	if err := r.mgr.RegisterVoucherType(datatransfer.TypeIdentifier(t), &valDouble{r, t}); err == nil {
		r.registered[t] = true
	}
}

// ---------- steps ----------

type nStep struct {
	Kind   string
	D      int // 0 push 1 pull
	To     int
	VType  string
	VNode  int
	Base   int
	Sel    int
	K      chidTok
	Vr     valSpec
	From   int
	Msg    msgSpec
	Kd     int
	Size   uint64
	Index  int64
	Unique bool
	Failed bool
	Rereg  bool
	Typ    string
	Sendf  []bool
	Trf    []bool
	Vals   []valSpec
	Sub    int // open: per-transfer subscriber id (0 none); gsubscribe / gunsubscribe: global subscriber id
}

func coqBools(b []bool) string {
	var s []string
	for _, x := range b {
		s = append(s, coqBool(x))
	}
	return coqList(s)
}

func (s nStep) inputCoq() string {
	v := coqVoucher(datatransfer.TypeIdentifier(s.VType), s.VNode)
	switch s.Kind {
	case "open":
		return fmt.Sprintf("AOpen %s %s %s %s %s", []string{"DPush", "DPull"}[s.D], coqN(uint64(s.To)), v, coqN(uint64(s.Base)), coqN(uint64(s.Sel)))
	case "sendvoucher":
		return fmt.Sprintf("ASendVoucher %s %s", s.K.coq(), v)
	case "sendresult":
		return fmt.Sprintf("ASendVoucherResult %s %s", s.K.coq(), v)
	case "updatevalidation":
		return fmt.Sprintf("AUpdateValidation %s %s", s.K.coq(), s.Vr.coq())
	case "close":
		return "AClose " + s.K.coq()
	case "closeerr":
		return "ACloseWithError " + s.K.coq()
	case "pause":
		return "APause " + s.K.coq()
	case "resume":
		return "AResume " + s.K.coq()
	case "restart":
		return "ARestart " + s.K.coq()
	case "register":
		return "ARegister " + coqStr(s.Typ)
	case "mrequest":
		return fmt.Sprintf("MRequest %s %s", coqN(uint64(s.From)), s.Msg.coq())
	case "mresponse":
		return fmt.Sprintf("MResponse %s %s", coqN(uint64(s.From)), s.Msg.coq())
	case "mrestartexisting":
		return fmt.Sprintf("MRestartExisting %s %s", coqN(uint64(s.From)), s.Msg.coq())
	case "topened":
		return "TChannelOpened " + s.K.coq()
	case "tinitiated":
		return "TTransferInitiated " + s.K.coq()
	case "tdata":
		return fmt.Sprintf("TData %s %s %s %s %s", kindNames[s.Kd], s.K.coq(), coqN(s.Size), coqZ(s.Index), coqBool(s.Unique))
	case "trequest":
		return fmt.Sprintf("TRequestReceived %s %s", s.K.coq(), s.Msg.coq())
	case "tresponse":
		return fmt.Sprintf("TResponseReceived %s %s", s.K.coq(), s.Msg.coq())
	case "tcancelled":
		return "TRequestCancelled " + s.K.coq()
	case "tdisconnected":
		return "TRequestDisconnected " + s.K.coq()
	case "tsenderr":
		return "TSendDataError " + s.K.coq()
	case "trecverr":
		return "TReceiveDataError " + s.K.coq()
	case "tcompleted":
		return fmt.Sprintf("TChannelCompleted %s %s", s.K.coq(), coqBool(s.Failed))
	case "crash":
		return "NCrash " + coqBool(s.Rereg)
	}
	return "?"
}

func (s nStep) coq() string {
	var vs []string
	for _, v := range s.Vals {
		vs = append(vs, v.coq())
	}
	return fmt.Sprintf("mkStep (%s) %s %s %s", s.inputCoq(), coqBools(s.Sendf), coqBools(s.Trf), coqList(vs))
}

func (s nStep) String() string {
	if s.Kind == "gsubscribe" || s.Kind == "gunsubscribe" {
		return fmt.Sprintf("%s(%d)", s.Kind, s.Sub)
	}
	x := s.inputCoq()
	if s.Sub != 0 {
		x += fmt.Sprintf(" with-subscriber(%d)", s.Sub)
	}
	x = strings.ReplaceAll(x, "%N", "")
	x = strings.ReplaceAll(x, "%Z", "")
	if len(s.Sendf)+len(s.Trf)+len(s.Vals) > 0 {
		x += fmt.Sprintf(" oracle{send=%v tr=%v vals=%d}", s.Sendf, s.Trf, len(s.Vals))
	}
	return x
}

type nObs struct {
	Ret      int
	Chid     *chidTok
	Msg      *msgSpec
	Events   []evRec
	Sent     []sentRec
	Trs      []trRec
	Vals     []valRec
	Protects []pkRec
	Unprots  []pkRec
	Panic    string
}

func (o nObs) coq() string {
	chid, msg := "None", "None"
	if o.Chid != nil && o.Ret == 0 {
		chid = "(Some " + o.Chid.coq() + ")"
	}
	if o.Msg != nil {
		msg = "(Some " + o.Msg.coq() + ")"
	}
	var evs, sent, trs, cls, vals, pr, un []string
	for _, e := range o.Events {
		evs = append(evs, fmt.Sprintf("(%s, %s, %s)", e.K.coq(), eventName(e.Code), e.View))
	}
	for _, s := range o.Sent {
		sent = append(sent, fmt.Sprintf("(%s, %s, %s)", coqN(uint64(s.To)), s.Msg.coq(), coqBool(s.OK)))
	}
	for _, t := range o.Trs {
		if t.Kind == "cleanup" {
			cls = append(cls, t.K.coq())
		} else {
			trs = append(trs, t.coq())
		}
	}
	for _, v := range o.Vals {
		vals = append(vals, fmt.Sprintf("(%s, %s)", coqN(uint64(v.Kind)), v.K.coq()))
	}
	for _, p := range o.Protects {
		pr = append(pr, fmt.Sprintf("(%s, %s)", coqN(uint64(p.Peer)), p.K.coq()))
	}
	for _, p := range o.Unprots {
		un = append(un, fmt.Sprintf("(%s, %s)", coqN(uint64(p.Peer)), p.K.coq()))
	}
	return fmt.Sprintf("(mkObs %s %s %s\n    %s\n    %s %s %s %s %s %s)", coqN(uint64(o.Ret)), chid, msg, coqList(evs), coqList(sent), coqList(trs), coqList(cls), coqList(vals), coqList(pr), coqList(un))
}

func errClass(err error) int {
	switch {
	case err == nil:
		return 0
	case errors.Is(err, datatransfer.ErrPause):
		return 1
	case errors.Is(err, datatransfer.ErrRejected):
		return 2
	}
	return 5
}

// exec runs one step on the real manager, under recover and a watchdog
func (r *nodeRig) exec(s nStep, openIndex int) nObs {
	r.mu.Lock()
	r.sendf, r.trf, r.vals = append([]bool(nil), s.Sendf...), append([]bool(nil), s.Trf...), append([]valSpec(nil), s.Vals...)
	r.sent, r.trs, r.events, r.valcalls, r.protects, r.unprots = nil, nil, nil, nil, nil, nil
	r.delayFailingCancel = s.Kind == "close"
	r.mu.Unlock()
	atomic.StoreInt32(&r.slowClose, 0)
	ctx := context.Background()
	var obs nObs
	done := make(chan struct{})
	go func() {
		defer close(done)
		defer func() {
			if p := recover(); p != nil {
				obs.Ret = 98
				obs.Panic = fmt.Sprintf("%v\n%s", p, debug.Stack())
			}
		}()
		v := datatransfer.TypedVoucher{Type: datatransfer.TypeIdentifier(s.VType), Voucher: nodeOf(s.VNode)}
		k := r.chidReal(s.K)
		var err error
		switch s.Kind {
		case "open":
			r.tids.mu.Lock()
			r.tids.current = 1000 + uint64(openIndex)
			r.tids.mu.Unlock()
			var chid datatransfer.ChannelID
			base := cid.Undef
			if s.Base != 0 {
				base = cidOf(s.Base)
			}
			var opts []datatransfer.TransferOption
			if s.Sub != 0 {
				// the per-transfer options are independent of each other and of their order: an (empty) set of
				// transport options given together with the subscriber does not unset it
				switch (s.Sub + openIndex) % 3 {
				case 0:
					opts = append(opts, datatransfer.WithSubscriber(r.subCb(s.Sub)), datatransfer.WithTransportOptions())
				case 1:
					opts = append(opts, datatransfer.WithTransportOptions(), datatransfer.WithSubscriber(r.subCb(s.Sub)))
				default:
					opts = append(opts, datatransfer.WithSubscriber(r.subCb(s.Sub)))
				}
			}
			if s.D == 0 {
				chid, err = r.mgr.OpenPushDataChannel(ctx, peerOf(s.To), v, base, nodeOf(s.Sel), opts...)
			} else {
				chid, err = r.mgr.OpenPullDataChannel(ctx, peerOf(s.To), v, base, nodeOf(s.Sel), opts...)
			}
			if err == nil {
				c := r.chidTokOf(chid)
				obs.Chid = &c
			}
		case "sendvoucher":
			err = r.mgr.SendVoucher(ctx, k, v)
		case "sendresult":
			err = r.mgr.SendVoucherResult(ctx, k, v)
		case "updatevalidation":
			vr, _ := s.Vr.real()
			err = r.mgr.UpdateValidationStatus(ctx, k, vr)
		case "close":
			// stays set until the next step starts: the ending's cleanup handler runs after the call has returned
			atomic.StoreInt32(&r.slowClose, 1)
			err = r.mgr.CloseDataTransferChannel(ctx, k)
		case "closeerr":
			atomic.StoreInt32(&r.slowClose, 1)
			err = r.mgr.(interface {
				CloseDataTransferChannelWithError(context.Context, datatransfer.ChannelID, error) error
			}).CloseDataTransferChannelWithError(ctx, k, errors.New("close reason"))
		case "pause":
			err = r.mgr.PauseDataTransferChannel(ctx, k)
		case "resume":
			err = r.mgr.ResumeDataTransferChannel(ctx, k)
		case "restart":
			err = r.mgr.RestartDataTransferChannel(ctx, k)
		case "register":
			r.register(s.Typ)
		case "mrequest":
			r.receiver.ReceiveRequest(ctx, peerOf(s.From), r.realMsg(s.Msg).(datatransfer.Request))
			obs.Ret = 77
		case "mresponse":
			r.receiver.ReceiveResponse(ctx, peerOf(s.From), r.realMsg(s.Msg).(datatransfer.Response))
			obs.Ret = 77
		case "mrestartexisting":
			r.receiver.ReceiveRestartExistingChannelRequest(ctx, peerOf(s.From), r.realMsg(s.Msg).(datatransfer.Request))
			obs.Ret = 77
		case "topened":
			err = r.handler.OnChannelOpened(k)
		case "tinitiated":
			r.handler.OnTransferInitiated(k)
		case "tdata":
			link := cidlink.Link{Cid: cidOf(1)}
			switch s.Kd {
			case 0:
				var m datatransfer.Message
				m, err = r.handler.OnDataQueued(k, link, s.Size, s.Index, s.Unique)
				if m != nil {
					sp := r.specOfMsg(m)
					obs.Msg = &sp
				}
			case 1:
				err = r.handler.OnDataSent(k, link, s.Size, s.Index, s.Unique)
			case 2:
				err = r.handler.OnDataReceived(k, link, s.Size, s.Index, s.Unique)
			}
		case "trequest":
			var resp datatransfer.Response
			resp, err = r.handler.OnRequestReceived(k, r.realMsg(s.Msg).(datatransfer.Request))
			if resp != nil {
				sp := r.specOfMsg(resp)
				obs.Msg = &sp
			}
		case "tresponse":
			err = r.handler.OnResponseReceived(k, r.realMsg(s.Msg).(datatransfer.Response))
		case "tcancelled":
			err = r.handler.OnRequestCancelled(k, errors.New("cancelled"))
		case "tdisconnected":
			err = r.handler.OnRequestDisconnected(k, errors.New("disconnected"))
		case "tsenderr":
			err = r.handler.OnSendDataError(k, errors.New("send error"))
		case "trecverr":
			err = r.handler.OnReceiveDataError(k, errors.New("receive error"))
		case "tcompleted":
			var cerr error
			if s.Failed {
				cerr = errors.New("incomplete")
			}
			err = r.handler.OnChannelCompleted(k, cerr)
		case "crash":
			r.restartProcess(s.Rereg)
		case "gsubscribe":
			if r.unsubs == nil {
				r.unsubs = map[int]datatransfer.Unsubscribe{}
			}
			r.unsubs[s.Sub] = r.mgr.SubscribeToEvents(r.subCb(s.Sub))
		case "gunsubscribe":
			if u := r.unsubs[s.Sub]; u != nil {
				u()
			}
		}
		if obs.Ret != 77 {
			obs.Ret = errClass(err)
		}
	}()
	select {
	case <-done:
	case <-time.After(30 * time.Second):
		obs.Ret = 99
		obs.Panic = "did not return within 30s"
		return obs
	}
	r.tids.mu.Lock()
	r.tids.current = 0
	r.tids.mu.Unlock()
	if s.Kind == "close" && obs.Ret == 0 {
		// CloseDataTransferChannel sends its cancel message from a goroutine: wait for it (and for the
		// Disconnected event it fires when the send fails) before observing
		deadline := time.Now().Add(10 * time.Second)
		for time.Now().Before(deadline) {
			r.mu.Lock()
			n := 0
			for _, m := range r.sent {
				if m.Msg.Type == mtCancel {
					n++
				}
			}
			inflight := r.inflight
			r.mu.Unlock()
			if n > 0 && inflight == 0 {
				break
			}
			time.Sleep(100 * time.Microsecond)
		}
		time.Sleep(2 * time.Millisecond)
	}
	if obs.Ret != 98 {
		r.quiesce()
	}
	r.mu.Lock()
	obs.Events, obs.Sent, obs.Trs, obs.Vals, obs.Protects, obs.Unprots = r.events, r.sent, r.trs, r.valcalls, r.protects, r.unprots
	r.mu.Unlock()
	return obs
}

// ---------- cases ----------

type nCaseOut struct {
	id    int
	label string
	self  int
	steps []nStep
	obs   []nObs
	final string
}

func (c nCaseOut) coq() string {
	var st []string
	for i := range c.steps {
		st = append(st, fmt.Sprintf("(%s,\n   %s)", c.steps[i].coq(), c.obs[i].coq()))
	}
	return fmt.Sprintf("mkNCase %s %s\n %s\n %s", coqN(uint64(c.id)), coqN(uint64(c.self)), coqList(st), c.final)
}

func writeNCases(dir, name string, cases []nCaseOut) {
	const shard = 120
	for i := 0; i*shard < len(cases) || i == 0; i++ {
		lo, hi := i*shard, (i+1)*shard
		if hi > len(cases) {
			hi = len(cases)
		}
		var b strings.Builder
		b.WriteString("From Coq Require Import List NArith ZArith String.\nFrom DT Require Import GenStatus GenEvent GenMsgType FsmTypes GenFsm Fsm Machine View Caches Msg Node NodeCorr.\nImport ListNotations.\nLocal Open Scope string_scope.\n\n")
		b.WriteString("Definition cases : list ncase := [\n")
		for j, c := range cases[lo:hi] {
			b.WriteString(c.coq())
			if j != hi-lo-1 {
				b.WriteString(";\n")
			}
		}
		b.WriteString("\n].\n\nDefinition M := Eval vm_compute in mismatches cases.\nPrint M.\nDefinition MS := Eval vm_compute in mismatch_steps cases.\nPrint MS.\n")
		writeFile(filepath.Join(dir, fmt.Sprintf("cases_%s_%03d.v", name, i)), b.String())
	}
}

// runNodeCase executes a list of steps on a fresh node (self token 1)
func runNodeCase(res *suiteResult, id int, label string, steps []nStep, mon func(r *nodeRig, i int, s nStep, o nObs, before, after map[chidTok]chanSnap)) nCaseOut {
	r := newNodeRig(res, 1)
	defer func() { _ = r.mgr.Stop(context.Background()) }()
	out := nCaseOut{id: id, label: label, self: 1}
	opens := 0
	for i, s := range steps {
		before := r.snapshot()
		if s.Kind == "open" {
			opens++
		}
		o := r.exec(s, opens)
		out.steps = append(out.steps, s)
		out.obs = append(out.obs, o)
		if o.Ret == 98 || o.Ret == 99 {
			sig := "panic"
			prop := "C04"
			if o.Ret == 99 {
				sig = "did-not-return"
				prop = "C20"
			}
			first := strings.SplitN(o.Panic, "\n", 2)[0]
			res.fail(monitorFailure{Property: prop, CaseID: id, Signature: sig + ":" + s.Kind + ":" + panicSite(o.Panic), What: "step " + s.String() + " " + sig + ": " + first, Input: label, Observed: o.Panic})
			if s.Kind == "updatevalidation" || s.Kind == "restart" || s.Kind == "mrequest" || s.Kind == "trequest" {
				// the same crash is also a violation of the properties that demand these calls be harmless
				res.fail(monitorFailure{Property: "C02", CaseID: id, Signature: sig + ":" + s.Kind + ":" + panicSite(o.Panic), What: "step " + s.String() + " " + sig + ": " + first, Input: label})
			}
			break
		}
		after := r.snapshot()
		r.propertyMonitors(id, label, i, s, o, before, after)
		if mon != nil {
			mon(r, i, s, o, before, after)
		}
	}
	var fin []string
	for _, chid := range r.channelList() {
		st, err := r.mgr.ChannelState(context.Background(), chid)
		if err != nil {
			continue
		}
		fin = append(fin, fmt.Sprintf("(%s, %s)", r.chidTokOf(chid).coq(), r.viewOf(st)))
	}
	out.final = coqList(fin)
	return out
}

// panicSite extracts the first frame inside the library from a stack trace
func panicSite(stack string) string {
	for _, l := range strings.Split(stack, "\n") {
		l = strings.TrimSpace(l)
		if strings.Contains(l, "go-data-transfer/v2") || strings.HasPrefix(l, "/repo/") {
			if i := strings.Index(l, "/repo/"); i >= 0 {
				f := l[i+len("/repo/"):]
				if j := strings.Index(f, " "); j >= 0 {
					f = f[:j]
				}
				if j := strings.LastIndex(f, ":"); j >= 0 {
					f = f[:j] // drop the line number: signatures must survive small edits
				}
				return f
			}
		}
	}
	return "?"
}

// chanSnap: what the monitors need to know about a channel, read through the public accessors
type chanSnap struct {
	View     string
	Status   datatransfer.Status
	Ident    string // id, peers, base cid, selector, opening voucher
	Progress string // byte totals and block indexes
	Vouchers []string
	Results  []string
	IPaused  bool
	RPaused  bool // accessor view (true in Finalizing)
	SelfP    bool
	Limit    uint64
	ReqFin   bool
	Queued   uint64
	Received uint64
	Pull     bool
	SelfInit bool
	Other    int
	OpenType string   // type identifier of the opening voucher
	Counts   [6]int64 // queued, sent, received bytes; queued, sent, received block counts
}

func (r *nodeRig) snapOf(st datatransfer.ChannelState) chanSnap {
	c := chanSnap{View: r.viewOf(st), Status: st.Status(), IPaused: st.InitiatorPaused(), RPaused: st.ResponderPaused(), SelfP: st.SelfPaused(),
		Limit: st.DataLimit(), ReqFin: st.RequiresFinalization(), Queued: st.Queued(), Received: st.Received(), Pull: st.IsPull(),
		SelfInit: st.ChannelID().Initiator == r.self, Other: tokOfPeer(st.OtherPeer()), OpenType: string(st.Voucher().Type)}
	c.Ident = fmt.Sprint(r.chidTokOf(st.ChannelID()), tokOfPeer(st.SelfPeer()), tokOfPeer(st.OtherPeer()), tokOfPeer(st.Sender()), tokOfPeer(st.Recipient()),
		st.IsPull(), tokOfCid(st.BaseCID()), tokOfNode(st.Selector()), coqTyped(st.Voucher()), st.TotalSize())
	c.Progress = fmt.Sprint(st.Queued(), st.Sent(), st.Received(), st.QueuedCidsTotal(), st.SentCidsTotal(), st.ReceivedCidsTotal())
	c.Counts = [6]int64{int64(st.Queued()), int64(st.Sent()), int64(st.Received()), st.QueuedCidsTotal(), st.SentCidsTotal(), st.ReceivedCidsTotal()}
	for _, v := range st.Vouchers() {
		c.Vouchers = append(c.Vouchers, coqTyped(v))
	}
	for _, v := range st.VoucherResults() {
		c.Results = append(c.Results, coqTyped(v))
	}
	return c
}

// snapshot of all channels keyed by token id
func (r *nodeRig) snapshot() map[chidTok]chanSnap {
	out := map[chidTok]chanSnap{}
	for _, chid := range r.channelList() {
		st, err := r.mgr.ChannelState(context.Background(), chid)
		if err == nil {
			out[r.chidTokOf(chid)] = r.snapOf(st)
		}
	}
	return out
}

var _ = channels.EmptyChannelState
