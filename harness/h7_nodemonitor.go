package main

import (
	"context"
	"fmt"
	"sync/atomic"
	"time"

	datatransfer "github.com/filecoin-project/go-data-transfer/v2"
	"github.com/filecoin-project/go-data-transfer/v2/channelmonitor"
	"github.com/filecoin-project/go-data-transfer/v2/impl"
)

// ---------- nodemonitor: the channel monitor wired into the real manager (C14, integrated) ----------
//
// The monitor suite drives channelmonitor over a recording monitorAPI double.  Here the monitorAPI
// is the real manager (impl.manager: RestartDataTransferChannel re-enters AddPushChannel /
// AddPullChannel, CloseDataTransferChannelWithError goes through the channel FSM) over the node
// rig's network / transport doubles.  Monitors only (no model case files): the verdicts are the
// clauses of C14 that are visible at the manager's boundary.

type nmScenario struct {
	Pull     bool
	Max      int
	Trigger  string // senderr | recverr
	Fail     string // none | restart | connect
	Accept   bool   // the responder's Accept arrives
	Disabled bool   // monitoring not configured
	AcceptTO bool   // short accept timeout configured
	Prompt   bool   // the Accept is handled before the opening call returns
	Stranger bool   // another peer opens a channel towards this node that carries the same transfer id
}

func (s nmScenario) String() string {
	return fmt.Sprintf("pull=%v max=%d trigger=%s fail=%s accept=%v disabled=%v accept-timeout=%v prompt-accept=%v colliding-stranger=%v", s.Pull, s.Max, s.Trigger, s.Fail, s.Accept, s.Disabled, s.AcceptTO, s.Prompt, s.Stranger)
}

func runNodeMonitor(dir string, seed uint64, tier string) {
	res := newResult("nodemonitor", seed, tier)
	var scs []nmScenario
	for _, pull := range []bool{false, true} {
		for max := 1; max <= 3; max++ {
			for _, trig := range []string{"senderr", "recverr"} {
				for _, fail := range []string{"none", "restart", "connect"} {
					scs = append(scs, nmScenario{Pull: pull, Max: max, Trigger: trig, Fail: fail, Accept: true})
				}
			}
		}
		scs = append(scs, nmScenario{Pull: pull, Max: 2, Trigger: "senderr", Fail: "none", Accept: true, Disabled: true})
		scs = append(scs, nmScenario{Pull: pull, Max: 2, Trigger: "", Accept: false, AcceptTO: true})
		scs = append(scs, nmScenario{Pull: pull, Max: 2, Trigger: "", Accept: true, AcceptTO: true})
		scs = append(scs, nmScenario{Pull: pull, Max: 2, Trigger: "", Accept: true, AcceptTO: true, Prompt: true})
		// transfer ids are chosen by each channel's initiator: a stranger's channel towards this node may carry the
		// id of a channel this node opened; nothing that happens on it concerns the monitor of ours
		scs = append(scs, nmScenario{Pull: pull, Max: 2, Trigger: "", Accept: false, AcceptTO: true, Stranger: true})
		scs = append(scs, nmScenario{Pull: pull, Max: 2, Trigger: "senderr", Fail: "none", Accept: true, Stranger: true})
		scs = append(scs, nmScenario{Pull: pull, Max: 2, Trigger: "recverr", Fail: "none", Accept: true, Stranger: true})
	}
	id := 0
	for _, sc := range scs {
		id++
		label := sc.String()
		res.CaseLabels = append(res.CaseLabels, label)
		if onlyCase != 0 && onlyCase != id {
			continue
		}
		runNodeMonitorCase(res, id, label, sc)
		res.distinct(label)
		res.hist("fail:" + sc.Fail)
	}
	res.Cases = id
	res.Exhaustive = true
	res.Rule = "enumerated: {push, pull} x MaxConsecutiveRestarts 1-3 x {send error, receive error} x {restart succeeds, restart request cannot be sent / transport cannot reopen, reconnect fails}; monitoring disabled; accept timeout with and without Accept; real manager + real channel monitor over the node rig's doubles"
	res.write(dir)
}

func runNodeMonitorCase(res *suiteResult, id int, label string, sc nmScenario) {
	fail := func(sig, what string, obs, exp interface{}) {
		res.fail(monitorFailure{Property: "C14", CaseID: id, Signature: sig, What: what, Input: label, Observed: obs, Expected: exp})
	}
	var restartsDone int32
	r := &nodeRig{res: res, selfTok: 1, self: peerOf(1), ds: newRecDS(), tids: newTidTable(), registered: map[string]bool{}}
	curTids, canonText = r.tids, true
	if !sc.Disabled {
		cfg := channelmonitor.Config{MaxConsecutiveRestarts: uint32(sc.Max), RestartDebounce: 200 * time.Microsecond,
			OnRestartComplete: func(datatransfer.ChannelID) { atomic.AddInt32(&restartsDone, 1) }}
		if sc.AcceptTO {
			cfg.AcceptTimeout = 150 * time.Millisecond
		}
		r.mgrOpts = []impl.DataTransferOption{impl.ChannelRestartConfig(cfg)}
	}
	r.boot()
	defer func() { _ = r.mgr.Stop(context.Background()) }()
	ctx := context.Background()
	r.register("T1")
	r.promptAccept = sc.Prompt
	d := 0
	if sc.Pull {
		d = 1
	}
	o := r.exec(sOpen(d, 2), 1)
	if o.Ret != 0 || o.Chid == nil {
		fail("integrated-open-failed", "opening the channel failed", o.Ret, 0)
		return
	}
	k := *o.Chid
	chid := r.chidReal(k)
	statusOf := func() datatransfer.Status {
		st, err := r.mgr.ChannelState(ctx, chid)
		if err != nil {
			return datatransfer.ChannelNotFoundError
		}
		return st.Status()
	}
	count := func() (restartMsgs, cancels, trOpens, errEvents int) {
		r.mu.Lock()
		defer r.mu.Unlock()
		for _, m := range r.allSent {
			if m.Msg.IsReq && m.Msg.Type == mtRestart {
				restartMsgs++
			}
			if m.Msg.Type == mtCancel {
				cancels++
			}
		}
		for _, t := range r.allTrs {
			if t.Kind == "open" {
				trOpens++
			}
		}
		for _, e := range r.allEvents {
			if e.Code == datatransfer.Error && e.K == k {
				errEvents++
			}
		}
		return
	}
	waitUntil := func(cond func() bool, d time.Duration) bool {
		deadline := time.Now().Add(d)
		for time.Now().Before(deadline) {
			if cond() {
				return true
			}
			time.Sleep(300 * time.Microsecond)
		}
		return cond()
	}
	if sc.Accept && !sc.Prompt {
		r.exec(sMResp(2, respOf(mtNew, k.Tid, true, false)), 1)
	}
	strangerK := chidTok{3, 1, k.Tid}
	fail5 := func(sig, what string, obs, exp interface{}) {
		fail(sig, what, obs, exp)
		res.fail(monitorFailure{Property: "C05", CaseID: id, Signature: sig, What: what, Input: label, Observed: obs, Expected: exp})
	}
	if sc.Stranger {
		// peer 3 opens a channel towards us with the transfer id of our channel; it is accepted and starts moving
		acc := valSpec{Accepted: true}
		r.exec(sMReq(3, newReq(k.Tid, !sc.Pull), acc), 1)
		r.exec(sK("tinitiated", strangerK), 1)
		if _, err := r.mgr.ChannelState(ctx, r.chidReal(strangerK)); err != nil {
			fail("integrated-stranger-setup", "the colliding channel of the other peer could not be opened", err.Error(), nil)
			return
		}
	}
	if sc.Stranger && !sc.AcceptTO {
		base, _, opens0, _ := count()
		kind := "tsenderr"
		if sc.Trigger == "recverr" {
			kind = "trecverr"
		}
		// an error on the stranger's channel: restarting that channel is its initiator's business, and it is
		// certainly no reason to reconnect to our counterparty or to restart / close our channel
		r.mu.Lock()
		r.connects = 0
		r.mu.Unlock()
		r.exec(sK(kind, strangerK), 1)
		time.Sleep(40 * time.Millisecond)
		r.quiesce()
		rm, cc, op, errs := count()
		r.mu.Lock()
		conn := r.connects
		r.mu.Unlock()
		if rm != base || op != opens0 || conn != 0 || cc != 0 || errs != 0 || isTerminal(statusOf()) {
			fail5("integrated-other-channels-error-hits-ours", "a transport error on another peer's channel that shares our channel's transfer id made the monitor reconnect, restart or close our channel",
				fmt.Sprintf("restart-msgs=%d opens=%d connects=%d cancels=%d errors=%d status=%s", rm-base, op-opens0, conn, cc, errs, statusName(statusOf())), "nothing")
		}
		return
	}
	if sc.AcceptTO {
		time.Sleep(400 * time.Millisecond)
		r.quiesce()
		st := statusOf()
		_, _, _, errs := count()
		if !sc.Accept {
			if !waitUntil(func() bool { return statusOf() == datatransfer.Failed }, 3*time.Second) {
				fail("integrated-accept-timeout-not-closed", "no Accept arrived within the accept timeout but the channel was not closed with an error", statusName(statusOf()), "Failed")
				if sc.Stranger {
					res.fail(monitorFailure{Property: "C05", CaseID: id, Signature: "integrated-other-channels-accept-hits-ours", Input: label,
						What: "the acceptance of another peer's channel that shares our channel's transfer id stopped the accept timeout of our channel"})
				}
			}
		} else if st == datatransfer.Failed || st == datatransfer.Failing || errs > 0 {
			fail("integrated-accept-timeout-spurious", "the accept timeout closed a channel whose Accept had arrived", statusName(st), "not Failed")
		}
		return
	}
	baseRestart, _, baseOpens, _ := count()
	r.mu.Lock()
	r.failRestartSends = sc.Fail == "restart" && !sc.Pull
	r.failTrOpen = sc.Fail == "restart" && sc.Pull
	r.failConnect = sc.Fail == "connect"
	r.connects = 0
	r.mu.Unlock()
	kind := "tsenderr"
	if sc.Trigger == "recverr" {
		kind = "trecverr"
	}
	r.exec(sK(kind, k), 1)
	switch {
	case sc.Disabled:
		time.Sleep(30 * time.Millisecond)
		r.quiesce()
		rm, cc, op, _ := count()
		r.mu.Lock()
		conn := r.connects
		r.mu.Unlock()
		if rm != baseRestart || op != baseOpens || conn != 0 || cc != 0 || isTerminal(statusOf()) {
			fail("integrated-disabled-monitor-acts", "with monitoring disabled a channel was restarted or closed", fmt.Sprintf("restart-msgs=%d opens=%d connects=%d cancels=%d status=%s", rm, op, conn, cc, statusName(statusOf())), "nothing")
		}
	case sc.Fail == "none":
		// one attempt: reconnect, restart request (push) / reopened transport request (pull), not closed
		ok := waitUntil(func() bool { return atomic.LoadInt32(&restartsDone) == 1 }, 3*time.Second)
		time.Sleep(3 * time.Millisecond)
		r.quiesce()
		rm, _, op, errs := count()
		r.mu.Lock()
		conn := r.connects
		r.mu.Unlock()
		attempts := rm - baseRestart
		if sc.Pull {
			attempts = op - baseOpens
		}
		if !ok || attempts != 1 || conn != 1 {
			fail("integrated-restart-not-performed", "a transport error did not lead to exactly one reconnect + restart", fmt.Sprintf("completed=%v attempts=%d connects=%d", ok, attempts, conn), "completed, 1 attempt, 1 connect")
		}
		if errs != 0 || isTerminal(statusOf()) || statusOf() == datatransfer.Failing {
			fail("integrated-closed-after-successful-restart", "the channel was closed although the restart succeeded", statusName(statusOf()), "not closed")
		}
	default:
		// persistent failure: exactly Max attempts, then the channel is closed with an error, once
		if !waitUntil(func() bool { return statusOf() == datatransfer.Failed }, 4*time.Second) {
			fail("integrated-persistent-failure-not-closed", "reconnecting / restarting failed persistently but the channel was not closed with an error", statusName(statusOf()), "Failed")
		}
		time.Sleep(3 * time.Millisecond)
		r.quiesce()
		rm, _, op, errs := count()
		r.mu.Lock()
		conn := r.connects
		r.mu.Unlock()
		attempts := rm - baseRestart
		if sc.Pull {
			attempts = op - baseOpens
		}
		if sc.Fail == "connect" {
			attempts = conn
		}
		if attempts != sc.Max || conn != sc.Max {
			fail("integrated-attempt-count", "the number of restart attempts without data progress is not MaxConsecutiveRestarts", fmt.Sprintf("attempts=%d connects=%d", attempts, conn), sc.Max)
		}
		if errs > 1 {
			fail("integrated-closed-twice", "the channel was closed with an error more than once", errs, 1)
		}
		if atomic.LoadInt32(&restartsDone) != 0 {
			fail("integrated-restart-complete-on-failure", "OnRestartComplete was called although every attempt failed", restartsDone, 0)
		}
	}
}
