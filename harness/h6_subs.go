package main

import (
	"context"
	"fmt"
	"path/filepath"
	"sort"
	"strings"

	datatransfer "github.com/filecoin-project/go-data-transfer/v2"
	"github.com/filecoin-project/go-data-transfer/v2/channels"
)

// ---------- subs: subscriber fan-out of the real manager against Subs.srun (C17) ----------
//
// Global subscribers are added and removed at quiescent points of generated node walks; opens
// carry per-transfer subscribers; remote peers open channels whose transfer id collides with one
// of ours.  The reference subscriber (registered at boot, never removed) records the notification
// stream; every other subscriber's call log must be what the model derives from that stream.

type subOp struct {
	Kind string // subg unsubg subt notify
	N    int
	K    chidTok
	Code datatransfer.EventCode
	Term bool
}

func (o subOp) coq() string {
	switch o.Kind {
	case "subg":
		return "OSubGlobal " + coqN(uint64(o.N))
	case "unsubg":
		return "OUnsub " + coqN(uint64(o.N))
	case "subt":
		return fmt.Sprintf("OSubTransfer %s %s", o.K.coq(), coqN(uint64(o.N)))
	}
	return fmt.Sprintf("ONotify %s %s %s", o.K.coq(), coqN(uint64(o.Code)), coqBool(o.Term))
}

type subCaseOut struct {
	id   int
	ops  []subOp
	logs []string
}

func (c subCaseOut) coq() string {
	var ops []string
	for _, o := range c.ops {
		ops = append(ops, o.coq())
	}
	return fmt.Sprintf("  mkSubCase %s\n   %s\n   %s", coqN(uint64(c.id)), coqList(ops), coqList(c.logs))
}

func writeSubCases(dir, name string, cases []subCaseOut) {
	const shard = 100
	for i := 0; i*shard < len(cases) || i == 0; i++ {
		lo, hi := i*shard, (i+1)*shard
		if hi > len(cases) {
			hi = len(cases)
		}
		var b strings.Builder
		b.WriteString("From Coq Require Import List NArith ZArith Bool.\nFrom DT Require Import Msg Subs SubsCorr.\nImport ListNotations.\n\n")
		b.WriteString("Definition cases : list subcase := [\n")
		for j, c := range cases[lo:hi] {
			b.WriteString(c.coq())
			if j != hi-lo-1 {
				b.WriteString(";\n")
			}
		}
		b.WriteString("\n].\n\nDefinition M := Eval vm_compute in mismatches cases.\nPrint M.\n")
		writeFile(filepath.Join(dir, fmt.Sprintf("cases_%s_%03d.v", name, i)), b.String())
	}
}

// genSubWalk decorates a generated node walk with subscription changes, per-transfer subscribers and
// remote channels whose transfer id collides with one of our own
func genSubWalk(r *rng) []nStep {
	base := genWalk(r)
	var steps []nStep
	nextSub := 10
	var live []int
	opens := 0
	maybeSubOps := func() {
		if r.chance(18) && len(live) < 3 {
			nextSub++
			live = append(live, nextSub)
			steps = append(steps, nStep{Kind: "gsubscribe", Sub: nextSub})
		}
		if r.chance(10) && len(live) > 0 {
			i := r.intn(len(live))
			steps = append(steps, nStep{Kind: "gunsubscribe", Sub: live[i]})
			if r.chance(20) { // unsubscribing twice is harmless
				steps = append(steps, nStep{Kind: "gunsubscribe", Sub: live[i]})
			}
			live = append(live[:i], live[i+1:]...)
		}
	}
	for _, st := range base {
		if st.Kind == "crash" {
			continue // a process restart drops every subscription: not part of this suite
		}
		maybeSubOps()
		if st.Kind == "open" {
			opens++
			if r.chance(70) {
				nextSub++
				st.Sub = nextSub
			}
			steps = append(steps, st)
			if r.chance(60) {
				// the peer opens a channel towards us with the same transfer id number
				m := newReq(1000+uint64(opens), r.chance(50))
				c := sMReq(st.To, m)
				c.Vals = []valSpec{{Accepted: true}}
				c.Sendf = []bool{false}
				steps = append(steps, c)
				k := chidTok{st.To, 1, 1000 + uint64(opens)}
				for j := 0; j < r.intn(4); j++ {
					switch r.intn(4) {
					case 0:
						steps = append(steps, sK("topened", k))
					case 1:
						steps = append(steps, sData(r.intn(3), k, uint64(1+r.intn(9)), int64(1+j), true))
					case 2:
						steps = append(steps, sK("close", k))
					default:
						steps = append(steps, sCompleted(k, r.chance(30)))
					}
				}
			}
			continue
		}
		steps = append(steps, st)
	}
	maybeSubOps()
	return steps
}

func runSubs(dir string, seed uint64, tier string) {
	res := newResult("subs", seed, tier)
	slowSubscriberProbe(res)
	r := newRng(seed)
	n := 220
	if tier == "thorough" {
		n = 4000
	}
	var cases []subCaseOut
	for id := 1; id <= n; id++ {
		steps := genSubWalk(r)
		var names []string
		for _, s := range steps {
			names = append(names, s.String())
		}
		label := strings.Join(names, " ; ")
		res.CaseLabels = append(res.CaseLabels, label)
		if onlyCase != 0 && onlyCase != id {
			continue
		}
		rig := newNodeRig(res, 1)
		out := subCaseOut{id: id}
		opens := 0
		kindOf := map[int]string{}      // subscriber id -> "g" | "t"
		chanOf := map[int]chidTok{}     // per-transfer subscriber -> its channel
		unsubAt := map[int]int{}        // global subscriber -> length of its log when unsubscribe returned
		terminated := map[chidTok]int{} // channel -> index in the stream of its terminal notification
		stream := 0
		for _, s := range steps {
			if s.Kind == "open" {
				opens++
			}
			switch s.Kind {
			case "gsubscribe":
				out.ops = append(out.ops, subOp{Kind: "subg", N: s.Sub})
				kindOf[s.Sub] = "g"
			case "gunsubscribe":
				out.ops = append(out.ops, subOp{Kind: "unsubg", N: s.Sub})
			case "open":
				if s.Sub != 0 {
					k := chidTok{1, s.To, 1000 + uint64(opens)}
					out.ops = append(out.ops, subOp{Kind: "subt", N: s.Sub, K: k})
					kindOf[s.Sub], chanOf[s.Sub] = "t", k
				}
			}
			o := rig.exec(s, opens)
			if o.Ret == 98 || o.Ret == 99 {
				res.fail(monitorFailure{Property: "C17", CaseID: id, Signature: "step-failed:" + s.Kind, What: "a step panicked or hung: " + strings.SplitN(o.Panic, "\n", 2)[0], Input: label})
				break
			}
			if s.Kind == "gunsubscribe" {
				rig.mu.Lock()
				unsubAt[s.Sub] = len(rig.subLogs[s.Sub])
				rig.mu.Unlock()
			}
			for _, e := range o.Events {
				term := channels.IsChannelTerminated(e.St.Status())
				out.ops = append(out.ops, subOp{Kind: "notify", K: e.K, Code: e.Code, Term: term})
				stream++
				if term {
					if _, ok := terminated[e.K]; !ok {
						terminated[e.K] = stream
					}
				}
				res.hist("event:" + eventName(e.Code))
			}
		}
		_ = rig.mgr.Stop(context.Background())
		// observed logs + direct monitors
		rig.mu.Lock()
		var ids []int
		for sid := range kindOf {
			ids = append(ids, sid)
		}
		sort.Ints(ids)
		for _, sid := range ids {
			log := rig.subLogs[sid]
			var evs []string
			for _, e := range log {
				evs = append(evs, fmt.Sprintf("(%s, %s)", e.K.coq(), coqN(uint64(e.Code))))
			}
			if kindOf[sid] == "t" {
				k := chanOf[sid]
				out.logs = append(out.logs, fmt.Sprintf("(ST %s %s, %s)", k.coq(), coqN(uint64(sid)), coqList(evs)))
				seenTerminal := false
				for _, e := range log {
					if e.K != k {
						res.fail(monitorFailure{Property: "C17", CaseID: id, Signature: "per-transfer-foreign-event", What: fmt.Sprintf("the per-transfer subscriber of %v was called with an event of channel %v", k, e.K), Input: label})
						break
					}
					if seenTerminal {
						res.fail(monitorFailure{Property: "C17", CaseID: id, Signature: "per-transfer-after-terminal", What: "a per-transfer subscriber was called after its channel's terminal notification", Input: label})
						break
					}
					seenTerminal = seenTerminal || e.Terminal
				}
				// it must have seen every notification of its channel up to the terminal one
				want := 0
				for _, op := range out.ops {
					if op.Kind == "notify" && op.K == k {
						want++
						if op.Term {
							break
						}
					}
				}
				own := 0
				for _, e := range log {
					if e.K == k {
						own++
					}
				}
				if own != want {
					res.fail(monitorFailure{Property: "C17", CaseID: id, Signature: "per-transfer-missed-events", What: fmt.Sprintf("the per-transfer subscriber of %v saw %d of its channel's %d notifications", k, own, want), Input: label, Observed: own, Expected: want})
				}
			} else {
				out.logs = append(out.logs, fmt.Sprintf("(SG %s, %s)", coqN(uint64(sid)), coqList(evs)))
				if at, ok := unsubAt[sid]; ok && len(log) != at {
					res.fail(monitorFailure{Property: "C17", CaseID: id, Signature: "called-after-unsubscribe", What: "a subscriber was called for an event applied after its unsubscribe returned", Input: label})
				}
			}
		}
		rig.mu.Unlock()
		res.hist(fmt.Sprintf("subscribers:%d", len(ids)))
		res.hist(fmt.Sprintf("notifications:%02d", stream/10*10))
		if stream >= 2 && len(ids) >= 1 {
			res.distinct(label)
		}
		cases = append(cases, out)
	}
	res.Cases = len(cases)
	res.Rule = "generated node walks (1-4 channels in all four roles, messages, transport callbacks, API calls) decorated with: global subscribers added / removed (also removed twice) at random quiescent points, a per-transfer subscriber on 70% of our opens, and after 60% of our opens a remote channel with the same transfer-id number that is then driven to termination; non-trivial = at least 2 notifications and one harness subscriber"
	writeSubCases(dir, "subs", cases)
	res.write(dir)
}
